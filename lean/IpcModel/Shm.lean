import IpcModel.GenShm
/-! C05 / C18: shared-memory regions of the unix back end (`BackingStore`, `OsIpcSharedMemory`) over a small kernel
model: memory objects with contents, open descriptors, live mappings.  Identifiers (descriptor numbers, addresses) come
from one fresh counter, so "never reused" is a modelling choice (creation-order ids, as in the ledger model).

A handle is `{ptr, length, fd}` exactly as in the Rust struct; `ptr = none` is the null pointer of a zero-length
region.  Reading through a mapping of `len` bytes over an object of `size` bytes faults when `len > size` (conservative:
the real kernel zero-fills up to the page end and raises SIGBUS beyond). -/
namespace Shm

inductive Call
  | create (size : Nat)        -- shm_open/memfd_create + ftruncate(size)
  | mmap (len : Nat)
  | dup
  | fstat
  | munmap (len : Nat)
  | close
deriving Repr, DecidableEq

structure K where
  objs : Nat → Option (List Nat)         -- contents of the memory objects (object id ↦ bytes)
  nobj : Nat                             -- fresh object id
  fds : Nat → Option Nat                 -- open descriptors: fd ↦ object
  maps : Nat → Option (Nat × Nat)        -- live mappings: address ↦ (object, length)
  next : Nat                             -- fresh identifier source for descriptors and addresses
  calls : List Call                      -- system calls issued so far (oldest first)

structure Handle where
  ptr : Option Nat
  length : Nat
  fd : Nat
deriving Repr, DecidableEq

def upd {β : Type} (f : Nat → Option β) (a : Nat) (v : Option β) : Nat → Option β := fun x => if x = a then v else f x

/-- `BackingStore::map_file(Some(length))` / `map_file(None)` on a descriptor of object `o` -/
def mapFile (k : K) (o : Nat) (length : Option Nat) : K × Option Nat × Nat :=
  match length with
  | some len =>
    if len = 0 then (k, none, 0)                                                         -- never reaches mmap
    else ({ k with maps := upd k.maps k.next (some (o, len)), next := k.next + 1, calls := k.calls ++ [.mmap len] }, some k.next, len)
  | none =>
    let len := ((k.objs o).getD []).length                                               -- fstat: st_size
    if len = 0 then ({ k with calls := k.calls ++ [.fstat] }, none, 0)
    else ({ k with maps := upd k.maps k.next (some (o, len)), next := k.next + 1, calls := k.calls ++ [.fstat, .mmap len] }, some k.next, len)

/-- `BackingStore::new(length)`: a fresh object of `Gen.shmObjectSize length` zero bytes and a descriptor for it -/
def create (k : K) (length : Nat) : K × Nat × Nat :=
  ({ k with objs := upd k.objs k.nobj (some (List.replicate (Gen.shmObjectSize length) 0)), nobj := k.nobj + 1,
            fds := upd k.fds k.next (some k.nobj), next := k.next + 1,
            calls := k.calls ++ [.create (Gen.shmObjectSize length)] }, k.next, k.nobj)

/-- write `bs` at offset 0 of object `o` (the `copy_nonoverlapping` / fill loop through the fresh mapping) -/
def fill (k : K) (o : Nat) (bs : List Nat) : K :=
  { k with objs := upd k.objs o ((k.objs o).map fun c => bs ++ c.drop bs.length) }

def fromBytes (k : K) (bs : List Nat) : K × Handle :=
  let (k1, fd, o) := create k bs.length
  let (k2, p, _) := mapFile k1 o (some bs.length)
  let k3 := match p with | some _ => fill k2 o bs | none => k2            -- `if !address.is_null()`
  (k3, ⟨p, bs.length, fd⟩)

/-- `Clone`: F_DUPFD_CLOEXEC, then map the same length -/
def clone (k : K) (h : Handle) : Option (K × Handle) :=
  (k.fds h.fd).map fun o =>
    let k1 := { k with fds := upd k.fds k.next (some o), next := k.next + 1, calls := k.calls ++ [.dup] }
    let (k2, p, _) := mapFile k1 o (some h.length)
    (k2, ⟨p, h.length, k.next⟩)

/-- the receiving side of a transfer: the kernel installs a new descriptor of object `o` (SCM_RIGHTS keeps the open file
description alive while in flight), `OsIpcSharedMemory::from_fd` sizes the mapping with fstat -/
def recvObj (k : K) (o : Nat) : K × Handle :=
  let k1 := { k with fds := upd k.fds k.next (some o), next := k.next + 1 }
  let (k2, p, len) := mapFile k1 o none
  (k2, ⟨p, len, k.next⟩)

/-- transfer while the sending handle is still alive -/
def recvCopy (k : K) (h : Handle) : Option (K × Handle) := (k.fds h.fd).map (recvObj k)

/-- `Drop`: munmap own mapping if mapped, close own descriptor -/
def dropH (k : K) (h : Handle) : K :=
  let k1 : K := match h.ptr with
    | some a => { k with maps := upd k.maps a none, calls := k.calls ++ [Call.munmap h.length] }
    | none => k
  { k1 with fds := upd k1.fds h.fd none, calls := k1.calls ++ [Call.close] }

inductive Read | bytes (b : List Nat) | fault
deriving Repr, DecidableEq

/-- `Deref`: empty slice for the null pointer, otherwise `length` bytes through the mapping -/
def deref (k : K) (h : Handle) : Read :=
  match h.ptr with
  | none => .bytes []
  | some a =>
    match k.maps a with
    | none => .fault                                         -- use after unmap
    | some (o, len) =>
      match k.objs o with
      | none => .fault
      | some c => if h.length ≤ len ∧ len ≤ c.length then .bytes (c.take h.length) else .fault

/-! ### histories -/
inductive Op
  | fromBytes (bs : List Nat)
  | fromByte (b n : Nat)
  | clone (i : Nat)
  | recvCopy (i : Nat)
  | drop (i : Nat)
  | flight (i : Nat)          -- the descriptor of handle `i` is put into a message (sendmsg)
  | recvFlight                -- the oldest in-flight descriptor is received and turned into a handle
deriving Repr

structure W where
  k : K
  hs : List (Option (Handle × List Nat))      -- handle and, as a ghost, the bytes it was created from
  flight : List (Nat × List Nat) := []         -- objects referenced by in-flight descriptors (with the same ghost)

def W.init : W := ⟨⟨fun _ => none, 0, fun _ => none, fun _ => none, 0, []⟩, [], []⟩

def step (w : W) : Op → W
  | .fromBytes bs => let (k, h) := fromBytes w.k bs; ⟨k, w.hs ++ [some (h, bs)], w.flight⟩
  | .fromByte b n => let (k, h) := fromBytes w.k (List.replicate n b); ⟨k, w.hs ++ [some (h, List.replicate n b)], w.flight⟩
  | .clone i => match w.hs[i]? with
    | some (some (h, src)) => match clone w.k h with
      | some (k, h') => ⟨k, w.hs ++ [some (h', src)], w.flight⟩
      | none => w
    | _ => w
  | .recvCopy i => match w.hs[i]? with
    | some (some (h, src)) => match recvCopy w.k h with
      | some (k, h') => ⟨k, w.hs ++ [some (h', src)], w.flight⟩
      | none => w
    | _ => w
  | .drop i => match w.hs[i]? with
    | some (some (h, _)) => ⟨dropH w.k h, w.hs.set i none, w.flight⟩
    | _ => w
  | .flight i => match w.hs[i]? with
    | some (some (h, src)) => match w.k.fds h.fd with
      | some o => { w with flight := w.flight ++ [(o, src)] }
      | none => w
    | _ => w
  | .recvFlight => match w.flight with
    | (o, src) :: rest => let (k, h') := recvObj w.k o; ⟨k, w.hs ++ [some (h', src)], rest⟩
    | [] => w

def run (ops : List Op) : W := ops.foldl step W.init

end Shm
