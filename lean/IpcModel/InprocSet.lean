import IpcModel.GenInproc
/-!
# Ids of the in-process receiver set

`OsIpcReceiverSet` of the in-process transport keeps two parallel vectors (`receiver_ids`, `receivers`); `add` appends to both and
returns the id, `select` removes a closed member from both at the same index.  Where the id comes from is regenerated from the
source (`Gen.inprocSetIdsFromCounter`: a counter that only grows — or, as in seeded change C19-6, the current number of members).
-/
namespace InprocSet
open Gen

structure St where
  ids : List Nat      -- ids of the members, in vector order
  next : Nat          -- the counter
deriving Repr, DecidableEq

inductive Op | add | closeAt (index : Nat)
deriving Repr, DecidableEq

def step (fromCounter : Bool) (st : St) : Op → St
  | .add => if fromCounter then ⟨st.ids ++ [st.next], st.next + 1⟩ else ⟨st.ids ++ [st.ids.length], st.next + 1⟩
  | .closeAt i => ⟨st.ids.eraseIdx i, st.next⟩

def run (fromCounter : Bool) (ops : List Op) : St := ops.foldl (step fromCounter) ⟨[], 0⟩

def Inv (st : St) : Prop := st.ids.Nodup ∧ ∀ i ∈ st.ids, i < st.next

theorem inv_step (st : St) (op : Op) (h : Inv st) : Inv (step true st op) := by
  obtain ⟨hn, hb⟩ := h
  cases op with
  | add =>
    simp only [step, if_true]
    refine ⟨List.nodup_append.mpr ⟨hn, by simp, ?_⟩, ?_⟩
    · intro a ha b hb' hab
      simp only [List.mem_singleton] at hb'
      subst hab; subst hb'
      exact absurd (hb _ ha) (Nat.lt_irrefl _)
    · intro i hi
      rcases List.mem_append.mp hi with h1 | h1
      · exact Nat.lt_succ_of_lt (hb i h1)
      · simp only [List.mem_singleton] at h1; subst h1; exact Nat.lt_succ_self _
  | closeAt i =>
    simp only [step]
    exact ⟨hn.sublist (List.eraseIdx_sublist _ _), fun j hj => hb j ((List.eraseIdx_sublist _ _).subset hj)⟩

/-- **no two members of a set share an id, whatever the history of additions and closures** (for ids taken from the counter) -/
theorem ids_distinct (ops : List Op) : (run true ops).ids.Nodup := by
  suffices h : ∀ (st : St), Inv st → Inv (ops.foldl (step true) st) from (h ⟨[], 0⟩ ⟨List.nodup_nil, by simp⟩).1
  induction ops with
  | nil => intro st h; exact h
  | cons op ops ih => intro st h; exact ih _ (inv_step st op h)

/-- the code as it is now takes ids from the counter and removes a closed member from both vectors at one index -/
theorem code_shape : inprocSetIdsFromCounter = true ∧ inprocSetParallelRemove = true := by decide

/-- ids taken from the number of members (seeded change C19-6): after a closure a live member's id is handed out again -/
example : (run false [.add, .add, .closeAt 0, .add]).ids = [1, 1] := by decide
example : (run true [.add, .add, .closeAt 0, .add]).ids = [1, 2] := by decide

end InprocSet
