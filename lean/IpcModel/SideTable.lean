import IpcModel.Wire
/-!
# L4 `SideTable` — the ipc layer's thread-local serialisation tables, with nested and failing sends

`ipcSend` mirrors `IpcSender::send`: take the thread-local tables, serialise the value (embedded senders push a clone,
receivers are moved, regions push a clone; a `nested` node is a `Serialize` impl that itself calls `send`; a `fail`
node is a `Serialize` impl that returns an error), put the old tables back, hand bytes + attachments to the OS layer.
`legacy = true` is the code before the `fix:` commit (the `?` on `serialize_into` returned before the tables were put back).
-/
namespace Side
open Wire (Att Bytes le USIZE_MAX)

inductive Node
  | data (b : Nat)
  | sender (c : Nat)
  | receiver (c : Nat)
  | shm (r : Nat)
  | emptyShm
  | nested (tx : Nat) (v : List Node)
  | fail
deriving Repr, Inhabited

structure Tls where
  chans : List Att
  shms : List Nat
deriving Repr, DecidableEq, Inhabited

structure OsMsg where
  chan : Nat
  bytes : Bytes
  chans : List Att
  shms : List Nat
deriving Repr, DecidableEq

/-- everything observable a send produces besides its result -/
structure Eff where
  sent : List OsMsg          -- OS-level sends performed, in order (inner ones first)
  results : List Bool        -- results of the nested sends, in completion order
  released : List Att        -- endpoints dropped by the library (clones dropped / moved receivers closed)
  releasedShm : List Nat
deriving Repr, DecidableEq

def Eff.empty : Eff := ⟨[], [], [], []⟩

structure Variant where
  legacy : Bool
deriving Repr, DecidableEq

mutual
/-- serialise a list of nodes, pushing attachments on the thread-local tables; `osOk c` = the OS send on channel c succeeds -/
def ser (V : Variant) (osOk : Nat → Bool) : List Node → Tls → Eff → Option Bytes × Tls × Eff
  | [], tls, eff => (some [], tls, eff)
  | n :: rest, tls, eff =>
    match serNode V osOk n tls eff with
    | (none, tls, eff) => (none, tls, eff)
    | (some t, tls, eff) =>
      match ser V osOk rest tls eff with
      | (none, tls, eff) => (none, tls, eff)
      | (some ts, tls, eff) => (some (t ++ ts), tls, eff)
def serNode (V : Variant) (osOk : Nat → Bool) : Node → Tls → Eff → Option Bytes × Tls × Eff
  | .data b, tls, eff => (some [b % 256], tls, eff)
  | .sender c, tls, eff => (some (le 8 tls.chans.length), { tls with chans := tls.chans ++ [.snd c] }, eff)
  | .receiver c, tls, eff => (some (le 8 tls.chans.length), { tls with chans := tls.chans ++ [.rcv c] }, eff)
  | .shm r, tls, eff => (some (le 8 tls.shms.length), { tls with shms := tls.shms ++ [r] }, eff)
  | .emptyShm, tls, eff => (some (le 8 USIZE_MAX), tls, eff)
  | .fail, tls, eff => (none, tls, eff)
  | .nested tx v, tls, eff =>
    -- the enclosing Serialize impl records the inner result and carries on
    match ipcSend V osOk tx v tls eff with
    | (r, tls, eff) => (some [], tls, { eff with results := eff.results ++ [r] })
/-- `IpcSender::send` -/
def ipcSend (V : Variant) (osOk : Nat → Bool) (tx : Nat) (v : List Node) (tls : Tls) (eff : Eff) : Bool × Tls × Eff :=
  match ser V osOk v ⟨[], []⟩ eff with
  | (none, part, eff) =>
    if V.legacy then (false, part, eff)                       -- old tables lost, partial ones stay behind
    else (false, tls, { eff with released := eff.released ++ part.chans, releasedShm := eff.releasedShm ++ part.shms })
  | (some bytes, mine, eff) =>
    if osOk tx then (true, tls, { eff with sent := eff.sent ++ [⟨tx, bytes, mine.chans, mine.shms⟩] })
    else (false, tls, { eff with released := eff.released ++ mine.chans, releasedShm := eff.releasedShm ++ mine.shms })
end

/-! ## specification side -/

/-- a value's own channel attachments, in traversal order, not descending into nested sends -/
def ownChans : List Node → List Att
  | [] => []
  | .sender c :: r => .snd c :: ownChans r
  | .receiver c :: r => .rcv c :: ownChans r
  | _ :: r => ownChans r

def ownShms : List Node → List Nat
  | [] => []
  | .shm r :: rest => r :: ownShms rest
  | _ :: rest => ownShms rest

/-- the bytes a value must produce when its own tables start at lengths `nC`, `nS` (nested sends contribute nothing) -/
def ownBytes : List Node → (nC nS : Nat) → Bytes
  | [], _, _ => []
  | .data b :: r, nC, nS => (b % 256) :: ownBytes r nC nS
  | .sender _ :: r, nC, nS => le 8 nC ++ ownBytes r (nC + 1) nS
  | .receiver _ :: r, nC, nS => le 8 nC ++ ownBytes r (nC + 1) nS
  | .shm _ :: r, nC, nS => le 8 nS ++ ownBytes r nC (nS + 1)
  | .emptyShm :: r, nC, nS => le 8 USIZE_MAX ++ ownBytes r nC nS
  | .nested _ _ :: r, nC, nS => ownBytes r nC nS
  | .fail :: r, nC, nS => ownBytes r nC nS

end Side
