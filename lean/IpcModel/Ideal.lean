import IpcModel.Reach
/-!
# L8 `Ideal` — the specification: unbounded FIFO channels whose messages may carry handles

A single-threaded program holds handles (senders, receivers, regions) and performs operations; `Ideal.step` gives the
result every transport must produce.  Existence is *reachability from program-held handles*: a sender handle inside an
undelivered message exists iff the receiver of the carrying channel exists (is held by the program or is itself inside a
message on a channel whose receiver exists …).
-/
namespace Ideal

inductive Handle | snd (c : Nat) | rcv (c : Nat) | shm (r : Nat)
deriving Repr, DecidableEq, Inhabited

structure Msg where
  tag : Nat
  handles : List Handle
deriving Repr, DecidableEq, Inhabited

inductive RxLoc | held | inMsg | dropped
deriving Repr, DecidableEq, Inhabited

structure Chan where
  queue : List Msg
  senders : Nat            -- sender handles held by the program (originals + clones)
  rx : RxLoc
deriving Repr, DecidableEq, Inhabited

structure St where
  chans : List Chan
deriving Repr, DecidableEq, Inhabited

inductive Op
  | newChan
  | cloneSender (c : Nat)
  | dropSender (c : Nat)
  | send (c : Nat) (tag : Nat) (handles : List Handle)   -- sender handles are clones made for the message; receivers are moved
  | recv (c : Nat)                                       -- any of the three receive calls, issued when it cannot block
  | dropReceiver (c : Nat)
deriving Repr, DecidableEq

inductive Res
  | ok
  | msg (tag : Nat) (handles : List Handle)
  | empty
  | disconnected
  | sendError
  | invalid                                              -- the program does not hold the handle it uses
deriving Repr, DecidableEq

/-- the program holds the receiver of channel `c` -/
def rootB (st : St) (c : Nat) : Bool :=
  match st.chans[c]? with | some ch => ch.rx == .held | none => false

/-- a message queued on channel `d` carries the receiver of channel `c` -/
def carriesRcv (st : St) (d c : Nat) : Bool :=
  match st.chans[d]? with | some chd => chd.queue.any fun m => m.handles.contains (.rcv c) | none => false

/-- … and that receiver is in transit (not destroyed) -/
def edgeB (st : St) (d c : Nat) : Bool :=
  (match st.chans[c]? with | some ch => ch.rx == .inMsg | none => false) && carriesRcv st d c

/-- the set of channels whose receiving end exists: held by the program, or carried by a message queued on such a
channel (reachability, computed by `Reach.reachG`; `ReachProof.reachG_iff` gives the inductive reading) -/
def rxAlive (st : St) : List Nat := Reach.reachG st.chans.length (rootB st) (edgeB st)

/-- some sender handle of channel `c` exists: held by the program or inside a message queued on a live channel -/
def senderExists (st : St) (c : Nat) : Bool :=
  (match st.chans[c]? with | some ch => decide (0 < ch.senders) | none => false) ||
  (rxAlive st).any fun d =>
    match st.chans[d]? with
    | some chd => chd.queue.any fun m => m.handles.contains (.snd c)
    | none => false

def modify (st : St) (c : Nat) (f : Chan → Chan) : St := { st with chans := st.chans.modify c f }

/-- dropping handles that were inside messages (a destroyed queue, a failed send): receivers become `dropped`, and the
queues of those receivers are destroyed in turn -/
def dropHandles : Nat → St → List Handle → St
  | 0, st, _ => st
  | _, st, [] => st
  | fuel+1, st, .rcv c :: rest =>
    match st.chans[c]? with
    | some ch =>
      let st1 := modify st c fun ch => { ch with rx := .dropped, queue := [] }
      dropHandles fuel st1 (ch.queue.flatMap (·.handles) ++ rest)
    | none => dropHandles fuel st rest
  | fuel+1, st, _ :: rest => dropHandles fuel st rest

/-- receivers embedded in a message leave the program's hands -/
def markInMsg (st : St) (hs : List Handle) : St :=
  hs.foldl (fun s h => match h with | .rcv d => modify s d (fun x => { x with rx := .inMsg }) | _ => s) st

/-- the handles inside a received message become program-held -/
def unpack (st : St) (hs : List Handle) : St :=
  hs.foldl (fun s h => match h with
    | .snd d => modify s d (fun x => { x with senders := x.senders + 1 })
    | .rcv d => modify s d (fun x => { x with rx := .held })
    | .shm _ => s) st

def handlesCount (st : St) : Nat := st.chans.foldl (fun a ch => a + ch.queue.foldl (fun b m => b + m.handles.length + 1) 1) 1

def step (st : St) : Op → St × Res
  | .newChan => ({ st with chans := st.chans ++ [⟨[], 1, .held⟩] }, .ok)
  | .cloneSender c =>
    match st.chans[c]? with
    | some ch => if ch.senders = 0 then (st, .invalid) else (modify st c fun ch => { ch with senders := ch.senders + 1 }, .ok)
    | none => (st, .invalid)
  | .dropSender c =>
    match st.chans[c]? with
    | some ch => if ch.senders = 0 then (st, .invalid) else (modify st c fun ch => { ch with senders := ch.senders - 1 }, .ok)
    | none => (st, .invalid)
  | .send c tag hs =>
    match st.chans[c]? with
    | none => (st, .invalid)
    | some ch =>
      if ch.senders = 0 then (st, .invalid)
      else
        -- receivers embedded in the message leave the program's hands whatever happens next
        let st1 := markInMsg st hs
        if (rxAlive st).contains c then
          (modify st1 c fun ch => { ch with queue := ch.queue ++ [⟨tag, hs⟩] }, .ok)
        else
          (dropHandles (handlesCount st1 + hs.length + 1) st1 hs, .sendError)
  | .recv c =>
    match st.chans[c]? with
    | none => (st, .invalid)
    | some ch =>
      if ch.rx ≠ .held then (st, .invalid)
      else
        match ch.queue with
        | m :: q =>
          -- the handles inside the message become program-held
          let st1 := modify st c fun ch => { ch with queue := q }
          (unpack st1 m.handles, .msg m.tag m.handles)
        | [] => if senderExists st c then (st, .empty) else (st, .disconnected)
  | .dropReceiver c =>
    match st.chans[c]? with
    | none => (st, .invalid)
    | some ch =>
      if ch.rx ≠ .held then (st, .invalid)
      else
        let st1 := modify st c fun ch => { ch with rx := .dropped, queue := [] }
        (dropHandles (handlesCount st + 1) st1 (ch.queue.flatMap (·.handles)), .ok)

def run (ops : List Op) : St × List Res :=
  ops.foldl (fun (acc : St × List Res) op => let r := step acc.1 op; (r.1, acc.2 ++ [r.2])) (⟨[]⟩, [])

end Ideal
