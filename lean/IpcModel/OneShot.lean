import IpcModel.GenOneShot
/-! C08: one-shot server bootstrap (`OsIpcOneShotServer::new` / `accept`, `OsIpcSender::connect`) over a small kernel model:
listening sockets bound to names in a temp root, a FIFO backlog of connections, per-connection message queues.
Names come from a fresh counter (the uniqueness of `mkdtemp` names is an assumption, exercised by the harness).
An operation that would wait (accept with nobody connected, or connected but nothing sent yet) answers `blocks` and leaves
the state unchanged: it completes when re-issued after the awaited event. -/
namespace OneShot

structure Conn where
  queue : List Nat        -- messages sent by the client and not yet received
  clientOpen : Bool       -- the client's sender still exists
  accepted : Bool         -- taken from the backlog by accept
  rxOpen : Bool           -- the receiver returned by accept is still held
  reset : Bool            -- the server side went away before accepting it / the receiver was dropped
deriving Repr, DecidableEq

structure Srv where
  name : Nat
  fdOpen : Bool           -- listening descriptor open
  fsEntry : Bool          -- temp directory + socket file exist
  listening : Bool
  backlog : List Nat      -- connections waiting for accept, oldest first
deriving Repr, DecidableEq

structure St where
  srvs : List Srv
  conns : List Conn
  nextName : Nat
deriving Repr, DecidableEq

inductive Op
  /-- `IpcOneShotServer::new`; `failAt`: 0 none, 1 path too long for sun_path, 2 socket(), 3 bind(), 4 listen() -/
  | new (failAt : Nat)
  | connect (name : Nat)
  | csend (c tag : Nat)
  | cclose (c : Nat)
  | accept (s : Nat)
  | dropServer (s : Nat)
  | recv (c : Nat)
  | dropRx (c : Nat)
deriving Repr, DecidableEq

inductive Res
  | server (s name : Nat) | conn (c : Nat) | ok | err
  | accepted (c tag : Nat) | msg (tag : Nat) | empty | disc | blocks | invalid
deriving Repr, DecidableEq

/-- close the listening descriptor, remove the socket file and directory, reset what is still in the backlog -/
def retire (st : St) (s : Nat) : St :=
  match st.srvs[s]? with
  | none => st
  | some sv =>
    { st with
      srvs := st.srvs.set s { sv with fdOpen := false, fsEntry := false, listening := false, backlog := [] },
      conns := sv.backlog.foldl (fun cs c => cs.modify c fun x => { x with reset := true }) st.conns }

def step (st : St) : Op → St × Res
  | .new failAt =>
    -- the temp directory is created first (consumes a name); every failure removes it again and closes the socket
    let name := st.nextName
    if failAt = 0 then
      ({ st with srvs := st.srvs ++ [⟨name, true, true, true, []⟩], nextName := name + 1 }, .server st.srvs.length name)
    else ({ st with nextName := name + 1 }, .err)
  | .connect name =>
    match st.srvs.findIdx? (fun sv => sv.name == name && sv.listening && sv.fdOpen) with
    | some s =>
      let c := st.conns.length
      ({ st with conns := st.conns ++ [⟨[], true, false, false, false⟩],
                 srvs := st.srvs.modify s fun sv => { sv with backlog := sv.backlog ++ [c] } }, .conn c)
    | none => (st, .err)
  | .csend c tag =>
    match st.conns[c]? with
    | none => (st, .invalid)
    | some x =>
      if !x.clientOpen then (st, .invalid)
      else if x.reset then (st, .err)
      else ({ st with conns := st.conns.set c { x with queue := x.queue ++ [tag] } }, .ok)
  | .cclose c =>
    match st.conns[c]? with
    | none => (st, .invalid)
    | some x => ({ st with conns := st.conns.set c { x with clientOpen := false } }, .ok)
  | .accept s =>
    match st.srvs[s]? with
    | none => (st, .invalid)
    | some sv =>
      if !(sv.fdOpen && sv.listening) then (st, .invalid)
      else
        match sv.backlog with
        | [] => (st, .blocks)
        | c :: rest =>
          match st.conns[c]? with
          | none => (st, .invalid)
          | some x =>
            match x.queue with
            | t :: q =>
              let st1 := { st with conns := st.conns.set c { x with queue := q, accepted := true, rxOpen := true },
                                   srvs := st.srvs.set s { sv with backlog := rest } }
              (retire st1 s, .accepted c t)
            | [] =>
              if x.clientOpen then (st, .blocks)
              else
                -- the first receive reports the closed connection: accept fails, receiver and server are dropped
                let st1 := { st with conns := st.conns.set c { x with accepted := true, reset := true },
                                     srvs := st.srvs.set s { sv with backlog := rest } }
                (retire st1 s, .err)
  | .dropServer s =>
    match st.srvs[s]? with
    | none => (st, .invalid)
    | some sv => if sv.fdOpen then (retire st s, .ok) else (st, .invalid)
  | .recv c =>
    match st.conns[c]? with
    | none => (st, .invalid)
    | some x =>
      if !(x.accepted && x.rxOpen) then (st, .invalid)
      else match x.queue with
        | t :: q => ({ st with conns := st.conns.set c { x with queue := q } }, .msg t)
        | [] => if x.clientOpen then (st, .empty) else (st, .disc)
  | .dropRx c =>
    match st.conns[c]? with
    | none => (st, .invalid)
    | some x => if x.rxOpen then ({ st with conns := st.conns.set c { x with rxOpen := false, reset := true, queue := [] } }, .ok) else (st, .invalid)

def run (ops : List Op) : St × List Res :=
  ops.foldl (fun (acc : St × List Res) op => let r := step acc.1 op; (r.1, acc.2 ++ [r.2])) (⟨[], [], 0⟩, [])

/-- observable resources: file-system entries and open listening descriptors -/
def fsCount (st : St) : Nat := (st.srvs.filter (·.fsEntry)).length
def listenFds (st : St) : Nat := (st.srvs.filter (·.fdOpen)).length
def rxFds (st : St) : Nat := (st.conns.filter (·.rxOpen)).length

end OneShot
