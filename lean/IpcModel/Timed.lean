import IpcModel.GenTimed
/-! C10: the three receive modes of `UnixCmsg::recv` over a kernel socket with an O_NONBLOCK flag.

The kernel socket carries *first packets*; each stands for a message (`tag`) whose follow-up fragments are either all
queued on the message's dedicated socket already (`complete = true`: the send has returned, or at least transmitted
everything) or not yet (`complete = false`: a sender is in the middle of the send).  Follow-ups are always read in
blocking mode, whatever the mode of the call, so a started message is waited for (`Res.waitsSender`).

`call` returns, next to the result and the new kernel state, the system calls issued on the channel's descriptor; the
harness compares them with the interposed trace of the real crate. -/
namespace Timed

inductive Mode | blocking | nonblocking | timeout (micros : Nat)
deriving Repr, DecidableEq

structure K where
  queue : List (Nat × Bool)   -- first packets queued: (message tag, all follow-up fragments already queued)
  peerAlive : Bool            -- some sender handle exists
  nonblock : Bool             -- O_NONBLOCK of the open file description
deriving Repr, DecidableEq

inductive Res
  | msg (t : Nat) | empty | disconnected
  | blocks                    -- waits on the channel socket
  | waitsSender (t : Nat)     -- first fragment taken, waits (blocking) for the sender to finish message `t`
deriving Repr, DecidableEq

inductive Sys | setNB | clearNB | poll (ms : Int) | recvmsg
deriving Repr, DecidableEq

/-- kernel recvmsg on the channel socket followed by the (blocking) reassembly of `recv` -/
def recvmsg (k : K) : Res × K :=
  match k.queue with
  | (t, c) :: q => (if c then .msg t else .waitsSender t, { k with queue := q })
  | [] => if !k.peerAlive then (.disconnected, k)        -- returns 0
          else if k.nonblock then (.empty, k)            -- EAGAIN
          else (.blocks, k)

/-- the argument handed to poll(2) for a `Duration` of `micros` microseconds, regenerated from the source:
`duration.as_<unit>().try_into().unwrap_or(-1)` with a C `int` target -/
def pollArg (micros : Nat) : Int :=
  let v := micros * Gen.pollUnitMul / Gen.pollUnitDiv
  if v < 2 ^ 31 then (v : Int) else -1

/-- `pollTimedOut`: the kernel's answer to poll(); it may say "timed out" only if nothing was ready for the whole wait -/
def call (k : K) (m : Mode) (pollTimedOut : Bool) : List Sys × Res × K :=
  match m with
  | .blocking => let (r, k') := recvmsg k; ([.recvmsg], r, k')
  | .nonblocking =>
    let k1 := { k with nonblock := true }                 -- fcntl(F_SETFL, O_NONBLOCK)
    let (r, k2) := recvmsg k1
    ([.setNB, .recvmsg, .clearNB], r, { k2 with nonblock := false })   -- fcntl(F_SETFL, 0) on every outcome
  | .timeout us =>
    if pollTimedOut then ([.poll (pollArg us)], .empty, k)              -- Errno(EAGAIN)
    else let (r, k') := recvmsg k; ([.poll (pollArg us), .recvmsg], r, k')

def recvFirst (k : K) (m : Mode) (pollTimedOut : Bool) : Res × K := (call k m pollTimedOut).2

def pollConsistent (k : K) (pollTimedOut : Bool) : Prop := pollTimedOut = true → k.queue = [] ∧ k.peerAlive = true

/-- **C10_flag**: whatever the mode and outcome, the description is left in blocking mode -/
theorem flag_restored (k : K) (m : Mode) (b : Bool) (h : k.nonblock = false) : (recvFirst k m b).2.nonblock = false := by
  cases m <;> simp [recvFirst, call, recvmsg] <;> (repeat' split) <;> simp_all

/-- **C10_try**: try_recv never waits on the channel socket; head message if one is completely queued, `empty` iff idle
and connected, `disconnected` iff finished; it waits for a sender only when that sender is in the middle of the head message -/
theorem try_outcome (k : K) (b : Bool) :
    (recvFirst k .nonblocking b).1 ≠ .blocks ∧
    (∀ t q, k.queue = (t, true) :: q → (recvFirst k .nonblocking b).1 = .msg t) ∧
    (k.queue = [] → k.peerAlive = true → (recvFirst k .nonblocking b).1 = .empty) ∧
    (k.queue = [] → k.peerAlive = false → (recvFirst k .nonblocking b).1 = .disconnected) ∧
    (∀ t, (recvFirst k .nonblocking b).1 = .waitsSender t → ∃ q, k.queue = (t, false) :: q) := by
  refine ⟨?_, ?_, ?_, ?_, ?_⟩
  · simp [recvFirst, call, recvmsg]; (repeat' split) <;> simp_all
  · intro t q hq; simp [recvFirst, call, recvmsg, hq]
  · intro hq hp; simp [recvFirst, call, recvmsg, hq, hp]
  · intro hq hp; simp [recvFirst, call, recvmsg, hq, hp]
  · intro t
    simp only [recvFirst, call, recvmsg]
    cases hq : k.queue with
    | nil => simp; (repeat' split) <;> simp_all
    | cons hd q =>
      obtain ⟨t', c⟩ := hd
      cases c <;> simp

/-- **C10_timeout**: `empty` only when poll timed out (so nothing was there for the whole wait); a message or closure present is returned -/
theorem timeout_outcome (k : K) (us : Nat) (b : Bool) (hk : k.nonblock = false) (hc : pollConsistent k b) :
    ((recvFirst k (.timeout us) b).1 = .empty → b = true) ∧
    (∀ t q, k.queue = (t, true) :: q → (recvFirst k (.timeout us) b).1 = .msg t) ∧
    (k.queue = [] → k.peerAlive = false → (recvFirst k (.timeout us) b).1 = .disconnected) := by
  refine ⟨?_, ?_, ?_⟩
  · cases b
    · simp [recvFirst, call, recvmsg, hk]; (repeat' split) <;> simp_all
    · simp
  · intro t q hq
    cases b
    · simp [recvFirst, call, recvmsg, hq]
    · have := hc rfl; simp [hq] at this
  · intro hq hp
    cases b
    · simp [recvFirst, call, recvmsg, hq, hp]
    · have := hc rfl; simp [hp] at this

theorem flag_after_calls (k : K) (calls : List (Mode × Bool)) (h : k.nonblock = false) :
    (calls.foldl (fun k c => (recvFirst k c.1 c.2).2) k).nonblock = false := by
  induction calls generalizing k with
  | nil => simpa using h
  | cons c cs ih => simp only [List.foldl_cons]; exact ih _ (flag_restored k c.1 c.2 h)

/-- after any sequence of receive calls, a blocking recv on an idle connected channel blocks (is not poisoned into an error) -/
theorem later_blocking_blocks (k : K) (calls : List (Mode × Bool)) (h : k.nonblock = false) :
    let k' := calls.foldl (fun k c => (recvFirst k c.1 c.2).2) k
    k'.queue = [] → k'.peerAlive = true → (recvFirst k' .blocking false).1 = .blocks := by
  intro k' hq hp
  have hflag : k'.nonblock = false := flag_after_calls k calls h
  simp [recvFirst, call, recvmsg, hq, hp, hflag]

/-- no message is lost or reordered by any mixture of the three calls: the tags returned (delivered or being waited for),
in call order, followed by what is still queued, are the original queue -/
def tagOf : Res → List Nat
  | .msg t => [t] | .waitsSender t => [t] | _ => []

theorem queue_conserved (k : K) (m : Mode) (b : Bool) :
    tagOf (recvFirst k m b).1 ++ (recvFirst k m b).2.queue.map Prod.fst = k.queue.map Prod.fst := by
  have hr : tagOf (recvmsg k).1 ++ (recvmsg k).2.queue.map Prod.fst = k.queue.map Prod.fst := by
    unfold recvmsg
    cases hq : k.queue with
    | nil => simp only []; (repeat' split) <;> simp_all [tagOf]
    | cons hd q => obtain ⟨t, c⟩ := hd; cases c <;> simp [tagOf]
  have hn : tagOf (recvmsg { k with nonblock := true }).1 ++ (recvmsg { k with nonblock := true }).2.queue.map Prod.fst
      = k.queue.map Prod.fst := by
    unfold recvmsg
    cases hq : k.queue with
    | nil => simp only []; (repeat' split) <;> simp_all [tagOf]
    | cons hd q => obtain ⟨t, c⟩ := hd; cases c <;> simp [tagOf]
  cases m with
  | blocking => simpa [recvFirst, call] using hr
  | nonblocking => simpa [recvFirst, call] using hn
  | timeout us =>
    cases b
    · simpa [recvFirst, call] using hr
    · simp [recvFirst, call, tagOf]

/-- the system calls issued: the flag is set only around one recvmsg, and recvmsg runs at most once per call -/
theorem trace_shape (k : K) (m : Mode) (b : Bool) :
    (call k m b).1 = [.recvmsg] ∨ (call k m b).1 = [.setNB, .recvmsg, .clearNB] ∨
    (∃ us, m = .timeout us ∧ ((call k m b).1 = [.poll (pollArg us)] ∨ (call k m b).1 = [.poll (pollArg us), .recvmsg])) := by
  cases m <;> simp [call]
  split <;> simp

/-- `try_recv_timeout(d)`: the wait handed to the kernel is `d` rounded down to whole milliseconds, or unbounded -/
theorem pollArg_granularity (us : Nat) (hmul : Gen.pollUnitMul = 1) (hdiv : Gen.pollUnitDiv = 1000) :
    pollArg us = -1 ∨ (0 ≤ pollArg us ∧ pollArg us * 1000 ≤ (us : Int) ∧ (us : Int) < (pollArg us + 1) * 1000) := by
  unfold pollArg
  simp only [hmul, hdiv, Nat.mul_one]
  split
  · right
    refine ⟨by omega, ?_, ?_⟩ <;> omega
  · left; rfl

end Timed
