/-! C10: the three receive modes of `UnixCmsg::recv` over a kernel socket with an O_NONBLOCK flag. -/
namespace Timed

inductive Mode | blocking | nonblocking | timeout (ms : Nat)
deriving Repr, DecidableEq

structure K where
  queue : List Nat        -- complete first packets queued (message tags)
  peerAlive : Bool
  nonblock : Bool         -- O_NONBLOCK of the open file description
deriving Repr, DecidableEq

inductive Res | msg (t : Nat) | empty | disconnected | blocks
deriving Repr, DecidableEq

/-- kernel recvmsg -/
def recvmsg (k : K) : Res × K :=
  match k.queue with
  | t :: q => (.msg t, { k with queue := q })
  | [] => if !k.peerAlive then (.disconnected, k)        -- returns 0
          else if k.nonblock then (.empty, k)            -- EAGAIN
          else (.blocks, k)

/-- `pollTimedOut`: the kernel's answer to poll(); it may say "timed out" only if nothing was ready for the whole wait -/
def recvFirst (k : K) (m : Mode) (pollTimedOut : Bool) : Res × K :=
  match m with
  | .blocking => recvmsg k
  | .nonblocking =>
    let k1 := { k with nonblock := true }                 -- fcntl(F_SETFL, O_NONBLOCK)
    let (r, k2) := recvmsg k1
    (r, { k2 with nonblock := false })                    -- fcntl(F_SETFL, 0)
  | .timeout _ =>
    if pollTimedOut then (.empty, k)                      -- Errno(EAGAIN)
    else recvmsg k

def pollConsistent (k : K) (pollTimedOut : Bool) : Prop := pollTimedOut = true → k.queue = [] ∧ k.peerAlive = true

/-- **C10_flag**: whatever the mode and outcome, the description is left in blocking mode -/
theorem flag_restored (k : K) (m : Mode) (b : Bool) (h : k.nonblock = false) : (recvFirst k m b).2.nonblock = false := by
  cases m <;> simp [recvFirst, recvmsg] <;> (repeat' split) <;> simp_all

/-- **C10_try**: try_recv never blocks; head message if one is queued, `empty` iff idle and connected, `disconnected` iff finished -/
theorem try_outcome (k : K) (b : Bool) :
    (recvFirst k .nonblocking b).1 ≠ .blocks ∧
    (∀ t q, k.queue = t :: q → (recvFirst k .nonblocking b).1 = .msg t) ∧
    (k.queue = [] → k.peerAlive = true → (recvFirst k .nonblocking b).1 = .empty) ∧
    (k.queue = [] → k.peerAlive = false → (recvFirst k .nonblocking b).1 = .disconnected) := by
  refine ⟨?_, ?_, ?_, ?_⟩
  · simp [recvFirst, recvmsg]; (repeat' split) <;> simp_all
  · intro t q hq; simp [recvFirst, recvmsg, hq]
  · intro hq hp; simp [recvFirst, recvmsg, hq, hp]
  · intro hq hp; simp [recvFirst, recvmsg, hq, hp]

/-- **C10_timeout**: `empty` only when poll timed out (so nothing was there for the whole wait); a message or closure present is returned -/
theorem timeout_outcome (k : K) (ms : Nat) (b : Bool) (hk : k.nonblock = false) (hc : pollConsistent k b) :
    ((recvFirst k (.timeout ms) b).1 = .empty → b = true) ∧
    (∀ t q, k.queue = t :: q → (recvFirst k (.timeout ms) b).1 = .msg t) ∧
    (k.queue = [] → k.peerAlive = false → (recvFirst k (.timeout ms) b).1 = .disconnected) := by
  refine ⟨?_, ?_, ?_⟩
  · cases b
    · simp [recvFirst, recvmsg, hk]; (repeat' split) <;> simp_all
    · simp
  · intro t q hq
    cases b
    · simp [recvFirst, recvmsg, hq]
    · have := hc rfl; simp [hq] at this
  · intro hq hp
    cases b
    · simp [recvFirst, recvmsg, hq, hp]
    · have := hc rfl; simp [hp] at this

theorem flag_after_calls (k : K) (calls : List (Mode × Bool)) (h : k.nonblock = false) :
    (calls.foldl (fun k c => (recvFirst k c.1 c.2).2) k).nonblock = false := by
  induction calls generalizing k with
  | nil => simpa using h
  | cons c cs ih => simp only [List.foldl_cons]; exact ih _ (flag_restored k c.1 c.2 h)

/-- after any sequence of receive calls, a blocking recv on an idle connected channel blocks (is not poisoned into an error) -/
theorem later_blocking_blocks (k : K) (calls : List (Mode × Bool)) (h : k.nonblock = false) :
    let k' := calls.foldl (fun k c => (recvFirst k c.1 c.2).2) k
    k'.queue = [] → k'.peerAlive = true → (recvFirst k' .blocking false).1 = .blocks := by
  intro k' hq hp
  have hflag : k'.nonblock = false := flag_after_calls k calls h
  simp [recvFirst, recvmsg, hq, hp, hflag]

end Timed
