import IpcModel.GenTimed
/-! C10: the three receive modes of `UnixCmsg::recv` over a kernel socket with an O_NONBLOCK flag.

The kernel socket carries *first packets*; each stands for a message (`tag`) whose follow-up fragments are either all
queued on the message's dedicated socket already (`complete = true`: the send has returned, or at least transmitted
everything) or not yet (`complete = false`: a sender is in the middle of the send).  Follow-ups are always read in
blocking mode, whatever the mode of the call, so a started message is waited for (`Res.waitsSender`).

`call` returns, next to the result and the new kernel state, the system calls issued on the channel's descriptor; the
harness compares them with the interposed trace of the real crate. -/
namespace Timed

inductive Mode | blocking | nonblocking | timeout (micros : Nat)
deriving Repr, DecidableEq

structure K where
  queue : List (Nat × Bool)   -- first packets queued: (message tag, all follow-up fragments already queued)
  peerAlive : Bool            -- some sender handle exists
  nonblock : Bool             -- O_NONBLOCK of the open file description
deriving Repr, DecidableEq

inductive Res
  | msg (t : Nat) | empty | disconnected
  | blocks                    -- waits on the channel socket
  | waitsSender (t : Nat)     -- first fragment taken, waits (blocking) for the sender to finish message `t`
deriving Repr, DecidableEq

inductive Sys | setNB | clearNB | poll (ms : Int) | recvmsg
deriving Repr, DecidableEq

/-- one recvmsg(2) on the channel socket (followed by the blocking reassembly of `recv`).  `race`: the kernel looks at the queue
first and at the peer's shutdown afterwards; a peer that queues a packet and closes in between makes it report end of
file although a packet is queued — possible only once no sender is left -/
def kernelRecv (k : K) (race : Bool) : Res × K :=
  match k.queue with
  | (t, c) :: q =>
    if race && !k.peerAlive then (.disconnected, k)
    else (if c then .msg t else .waitsSender t, { k with queue := q })
  | [] => if !k.peerAlive then (.disconnected, k)        -- returns 0
          else if k.nonblock then (.empty, k)            -- EAGAIN
          else (.blocks, k)

/-- the answer without the race (what the rest of the file calls "the kernel's recvmsg") -/
def recvmsg (k : K) : Res × K := kernelRecv k false

/-- `confirm` (read from the source: `Gen.shape_eofConfirmed`): after an end of file the code looks at the queue once more,
without blocking.  The second look cannot be overtaken — the shutdown is visible already, nothing more can arrive. -/
def recvConfirmed (confirm : Bool) (k : K) (race : Bool) : List Sys × Res × K :=
  match kernelRecv k race with
  | (.disconnected, k1) =>
    if confirm then
      match kernelRecv k1 false with
      | (.msg t, k2) => ([.recvmsg, .recvmsg], .msg t, k2)
      | (.waitsSender t, k2) => ([.recvmsg, .recvmsg], .waitsSender t, k2)
      | (_, k2) => ([.recvmsg, .recvmsg], .disconnected, k2)
    else ([.recvmsg], .disconnected, k1)
  | (r, k1) => ([.recvmsg], r, k1)

/-- the argument handed to poll(2) for a `Duration` of `micros` microseconds, regenerated from the source:
`duration.as_<unit>().try_into().unwrap_or(-1)` with a C `int` target -/
def pollArg (micros : Nat) : Int :=
  let v := micros * Gen.pollUnitMul / Gen.pollUnitDiv
  if v < 2 ^ 31 then (v : Int) else -1

/-- `pollTimedOut`: the kernel's answer to poll(); it may say "timed out" only if nothing was ready for the whole wait -/
def callV (confirm : Bool) (k : K) (m : Mode) (pollTimedOut : Bool) (race : Bool) : List Sys × Res × K :=
  match m with
  | .blocking => recvConfirmed confirm k race
  | .nonblocking =>
    let k1 := { k with nonblock := true }                 -- fcntl(F_SETFL, O_NONBLOCK)
    let (tr, r, k2) := recvConfirmed confirm k1 race
    ([.setNB] ++ tr ++ [.clearNB], r, { k2 with nonblock := false })   -- fcntl(F_SETFL, 0) on every outcome
  | .timeout us =>
    if pollTimedOut then ([.poll (pollArg us)], .empty, k)              -- Errno(EAGAIN)
    else let (tr, r, k') := recvConfirmed confirm k race; (.poll (pollArg us) :: tr, r, k')

/-- the variant the source has now -/
def call (k : K) (m : Mode) (pollTimedOut : Bool) (race : Bool := false) : List Sys × Res × K :=
  callV Gen.shape_eofConfirmed k m pollTimedOut race

/-- result and new state in the repaired variant (end of file confirmed), for any `race` -/
def recvFirstR (k : K) (m : Mode) (pollTimedOut : Bool) (race : Bool) : Res × K := (callV true k m pollTimedOut race).2
def recvFirst (k : K) (m : Mode) (pollTimedOut : Bool) : Res × K := recvFirstR k m pollTimedOut false

def pollConsistent (k : K) (pollTimedOut : Bool) : Prop := pollTimedOut = true → k.queue = [] ∧ k.peerAlive = true

/-- the repaired receive answers exactly like the race-free kernel, whatever the race does -/
theorem confirmed_eq (k : K) (race : Bool) : (recvConfirmed true k race).2 = recvmsg k := by
  unfold recvConfirmed recvmsg kernelRecv
  cases hq : k.queue with
  | nil => by_cases hp : k.peerAlive = true <;> by_cases hn : k.nonblock = true <;> simp [hp, hn, hq]
  | cons hd q =>
    obtain ⟨t, c⟩ := hd
    by_cases hr : (race && !k.peerAlive) = true
    · cases c <;> simp [hr, hq]
    · cases c <;> simp [hr]

theorem recvFirstR_eq (k : K) (m : Mode) (b race : Bool) : recvFirstR k m b race = recvFirstR k m b false := by
  cases m with
  | blocking => simp [recvFirstR, callV, confirmed_eq]
  | nonblocking =>
    simp only [recvFirstR, callV]
    have h1 := confirmed_eq { k with nonblock := true } race
    have h2 := confirmed_eq { k with nonblock := true } false
    generalize recvConfirmed true { k with nonblock := true } race = a at h1
    generalize recvConfirmed true { k with nonblock := true } false = b' at h2
    obtain ⟨t1, r1, k1⟩ := a
    obtain ⟨t2, r2, k2⟩ := b'
    simp only at h1 h2 ⊢
    rw [← h2] at h1
    injection h1 with h1 h1'
    rw [h1, h1']
  | timeout us =>
    cases b
    · simp only [recvFirstR, callV]
      have h1 := confirmed_eq k race
      have h2 := confirmed_eq k false
      generalize recvConfirmed true k race = a at h1
      generalize recvConfirmed true k false = b' at h2
      obtain ⟨t1, r1, k1⟩ := a
      obtain ⟨t2, r2, k2⟩ := b'
      simp only at h1 h2 ⊢
      rw [← h2] at h1
      injection h1 with h1 h1'
      simp [h1, h1']
    · simp [recvFirstR, callV]

/-- in terms of the race-free kernel answer -/
theorem recvFirst_spec (k : K) (m : Mode) (b : Bool) :
    recvFirst k m b = match m with
      | .blocking => recvmsg k
      | .nonblocking => ((recvmsg { k with nonblock := true }).1, { (recvmsg { k with nonblock := true }).2 with nonblock := false })
      | .timeout _ => if b then (.empty, k) else recvmsg k := by
  cases m with
  | blocking => simp [recvFirst, recvFirstR, callV, confirmed_eq]
  | nonblocking =>
    simp only [recvFirst, recvFirstR, callV]
    have h1 := confirmed_eq { k with nonblock := true } false
    generalize recvConfirmed true { k with nonblock := true } false = a at h1
    obtain ⟨_, r1, k1⟩ := a
    simp only at h1 ⊢
    rw [← h1]
  | timeout us =>
    cases b
    · simp only [recvFirst, recvFirstR, callV]
      have h1 := confirmed_eq k false
      generalize recvConfirmed true k false = a at h1
      obtain ⟨_, r1, k1⟩ := a
      simp only at h1 ⊢
      simp [← h1]
    · simp [recvFirst, recvFirstR, callV]

/-- **C10_flag**: whatever the mode and outcome, the description is left in blocking mode -/
theorem flag_restored (k : K) (m : Mode) (b : Bool) (h : k.nonblock = false) : (recvFirst k m b).2.nonblock = false := by
  rw [recvFirst_spec]
  cases m <;> simp [recvmsg, kernelRecv] <;> (repeat' split) <;> simp_all

/-- **C10_try**: try_recv never waits on the channel socket; head message if one is completely queued, `empty` iff idle
and connected, `disconnected` iff finished; it waits for a sender only when that sender is in the middle of the head message -/
theorem try_outcome (k : K) (b : Bool) :
    (recvFirst k .nonblocking b).1 ≠ .blocks ∧
    (∀ t q, k.queue = (t, true) :: q → (recvFirst k .nonblocking b).1 = .msg t) ∧
    (k.queue = [] → k.peerAlive = true → (recvFirst k .nonblocking b).1 = .empty) ∧
    (k.queue = [] → k.peerAlive = false → (recvFirst k .nonblocking b).1 = .disconnected) ∧
    (∀ t, (recvFirst k .nonblocking b).1 = .waitsSender t → ∃ q, k.queue = (t, false) :: q) := by
  refine ⟨?_, ?_, ?_, ?_, ?_⟩
  · simp [recvFirst_spec, recvmsg, kernelRecv]; (repeat' split) <;> simp_all
  · intro t q hq; simp [recvFirst_spec, recvmsg, kernelRecv, hq]
  · intro hq hp; simp [recvFirst_spec, recvmsg, kernelRecv, hq, hp]
  · intro hq hp; simp [recvFirst_spec, recvmsg, kernelRecv, hq, hp]
  · intro t
    simp only [recvFirst_spec, recvmsg, kernelRecv]
    cases hq : k.queue with
    | nil => simp; (repeat' split) <;> simp_all
    | cons hd q =>
      obtain ⟨t', c⟩ := hd
      cases c <;> simp

/-- **C10_timeout**: `empty` only when poll timed out (so nothing was there for the whole wait); a message or closure present is returned -/
theorem timeout_outcome (k : K) (us : Nat) (b : Bool) (hk : k.nonblock = false) (hc : pollConsistent k b) :
    ((recvFirst k (.timeout us) b).1 = .empty → b = true) ∧
    (∀ t q, k.queue = (t, true) :: q → (recvFirst k (.timeout us) b).1 = .msg t) ∧
    (k.queue = [] → k.peerAlive = false → (recvFirst k (.timeout us) b).1 = .disconnected) := by
  refine ⟨?_, ?_, ?_⟩
  · cases b
    · simp [recvFirst_spec, recvmsg, kernelRecv, hk]; (repeat' split) <;> simp_all
    · simp
  · intro t q hq
    cases b
    · simp [recvFirst_spec, recvmsg, kernelRecv, hq]
    · have := hc rfl; simp [hq] at this
  · intro hq hp
    cases b
    · simp [recvFirst_spec, recvmsg, kernelRecv, hq, hp]
    · have := hc rfl; simp [hp] at this

theorem flag_after_calls (k : K) (calls : List (Mode × Bool)) (h : k.nonblock = false) :
    (calls.foldl (fun k c => (recvFirst k c.1 c.2).2) k).nonblock = false := by
  induction calls generalizing k with
  | nil => simpa using h
  | cons c cs ih => simp only [List.foldl_cons]; exact ih _ (flag_restored k c.1 c.2 h)

/-- after any sequence of receive calls, a blocking recv on an idle connected channel blocks (is not poisoned into an error) -/
theorem later_blocking_blocks (k : K) (calls : List (Mode × Bool)) (h : k.nonblock = false) :
    let k' := calls.foldl (fun k c => (recvFirst k c.1 c.2).2) k
    k'.queue = [] → k'.peerAlive = true → (recvFirst k' .blocking false).1 = .blocks := by
  intro k' hq hp
  have hflag : k'.nonblock = false := flag_after_calls k calls h
  simp [recvFirst_spec, recvmsg, kernelRecv, hq, hp, hflag]

/-- no message is lost or reordered by any mixture of the three calls: the tags returned (delivered or being waited for),
in call order, followed by what is still queued, are the original queue -/
def tagOf : Res → List Nat
  | .msg t => [t] | .waitsSender t => [t] | _ => []

theorem queue_conserved (k : K) (m : Mode) (b : Bool) :
    tagOf (recvFirst k m b).1 ++ (recvFirst k m b).2.queue.map Prod.fst = k.queue.map Prod.fst := by
  have hr : tagOf (recvmsg k).1 ++ (recvmsg k).2.queue.map Prod.fst = k.queue.map Prod.fst := by
    unfold recvmsg kernelRecv
    cases hq : k.queue with
    | nil => simp only []; (repeat' split) <;> simp_all [tagOf]
    | cons hd q => obtain ⟨t, c⟩ := hd; cases c <;> simp [tagOf]
  have hn : tagOf (recvmsg { k with nonblock := true }).1 ++ (recvmsg { k with nonblock := true }).2.queue.map Prod.fst
      = k.queue.map Prod.fst := by
    unfold recvmsg kernelRecv
    cases hq : k.queue with
    | nil => simp only []; (repeat' split) <;> simp_all [tagOf]
    | cons hd q => obtain ⟨t, c⟩ := hd; cases c <;> simp [tagOf]
  cases m with
  | blocking => simpa [recvFirst_spec] using hr
  | nonblocking => simpa [recvFirst_spec] using hn
  | timeout us =>
    cases b
    · simpa [recvFirst_spec] using hr
    · simp [recvFirst_spec, tagOf]

/-- the system calls issued (repaired variant): the flag is set only around the receive, and the receive is one recvmsg, or two
when the first reported end of file -/
theorem trace_shape (k : K) (m : Mode) (b race : Bool) :
    let rr := (callV true k m b race).1
    rr = [.recvmsg] ∨ rr = [.recvmsg, .recvmsg] ∨ rr = [.setNB, .recvmsg, .clearNB] ∨ rr = [.setNB, .recvmsg, .recvmsg, .clearNB] ∨
    (∃ us, m = .timeout us ∧ (rr = [.poll (pollArg us)] ∨ rr = [.poll (pollArg us), .recvmsg] ∨ rr = [.poll (pollArg us), .recvmsg, .recvmsg])) := by
  have hc : ∀ k', (recvConfirmed true k' race).1 = [.recvmsg] ∨ (recvConfirmed true k' race).1 = [.recvmsg, .recvmsg] := by
    intro k'
    unfold recvConfirmed
    generalize kernelRecv k' race = a
    obtain ⟨r, k1⟩ := a
    cases r <;> simp
    generalize kernelRecv k1 false = a2
    obtain ⟨r2, k2⟩ := a2
    cases r2 <;> simp
  cases m with
  | blocking => rcases hc k with h | h <;> simp [callV, h]
  | nonblocking =>
    simp only [callV]
    rcases hc { k with nonblock := true } with h | h
    · generalize recvConfirmed true { k with nonblock := true } race = a at h
      obtain ⟨t, r, k1⟩ := a; simp only at h; subst h; simp
    · generalize recvConfirmed true { k with nonblock := true } race = a at h
      obtain ⟨t, r, k1⟩ := a; simp only at h; subst h; simp
  | timeout us =>
    cases b
    · simp only [callV]
      rcases hc k with h | h
      · generalize recvConfirmed true k race = a at h
        obtain ⟨t, r, k1⟩ := a; simp only at h; subst h; simp
      · generalize recvConfirmed true k race = a at h
        obtain ⟨t, r, k1⟩ := a; simp only at h; subst h; simp
    · simp [callV]

/-- **no early end of file**: in the repaired variant `disconnected` is answered only when nothing is queued and no sender is left —
also in the window in which the kernel's first answer is a premature end of file -/
theorem disconnected_only_when_drained (k : K) (m : Mode) (b race : Bool) (h : (recvFirstR k m b race).1 = .disconnected) :
    k.queue = [] ∧ k.peerAlive = false := by
  rw [recvFirstR_eq] at h
  have hs := recvFirst_spec k m b
  unfold recvFirst at hs
  rw [hs] at h
  cases m with
  | blocking =>
    simp only [recvmsg, kernelRecv] at h
    cases hq : k.queue with
    | nil => rw [hq] at h; simp at h; by_cases hp : k.peerAlive = true <;> simp_all; split at h <;> simp at h
    | cons hd q => obtain ⟨t, c⟩ := hd; rw [hq] at h; cases c <;> simp at h
  | nonblocking =>
    simp only [recvmsg, kernelRecv] at h
    cases hq : k.queue with
    | nil => rw [hq] at h; simp at h; by_cases hp : k.peerAlive = true <;> simp_all
    | cons hd q => obtain ⟨t, c⟩ := hd; rw [hq] at h; cases c <;> simp at h
  | timeout us =>
    cases b
    · simp only [recvmsg, kernelRecv] at h
      cases hq : k.queue with
      | nil => rw [hq] at h; simp at h; by_cases hp : k.peerAlive = true <;> simp_all; split at h <;> simp at h
      | cons hd q => obtain ⟨t, c⟩ := hd; rw [hq] at h; cases c <;> simp at h
    · simp at h

/-- the variant without the confirming look: in the race window a queued message is overtaken by `disconnected` -/
example : (callV false ⟨[(7, true)], false, false⟩ .nonblocking false true).2.1 = .disconnected := by decide
example : (callV true ⟨[(7, true)], false, false⟩ .nonblocking false true).2.1 = .msg 7 := by decide

/-- `try_recv_timeout(d)`: the wait handed to the kernel is `d` rounded down to whole milliseconds, or unbounded -/
theorem pollArg_granularity (us : Nat) (hmul : Gen.pollUnitMul = 1) (hdiv : Gen.pollUnitDiv = 1000) :
    pollArg us = -1 ∨ (0 ≤ pollArg us ∧ pollArg us * 1000 ≤ (us : Int) ∧ (us : Int) < (pollArg us + 1) * 1000) := by
  unfold pollArg
  simp only [hmul, hdiv, Nat.mul_one]
  split
  · right
    refine ⟨by omega, ?_, ?_⟩ <;> omega
  · left; rfl

end Timed
