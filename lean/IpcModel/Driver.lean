import IpcModel.Frag
/-! Line-protocol driver: one request per line on stdin, one canonical answer per line on stdout.
Imports model files only (no Mathlib/Std), so it links as a native executable. -/
open Frag

namespace Driver

def kv (toks : List String) (k : String) : Option String :=
  toks.findSome? fun t =>
    match t.splitOn "=" with
    | [a, b] => if a = k then some b else none
    | _ => none

def kvNat (toks : List String) (k : String) : Option Nat := (kv toks k).bind String.toNat?

def natList (s : String) : List Nat :=
  if s = "" then [] else (s.splitOn ",").filterMap String.toNat?

def faultOfChar : Char → Fault
  | '1' => .enobufs
  | '2' => .fatal
  | _ => .none

def faultStr : Fault → String
  | .none => "ok" | .enobufs => "enobufs" | .fatal => "fatal"

def attStr (nfds : Nat) : Att → String
  | .single len r => s!"single:len={len}:hdr={len}:nfds={nfds}:onchan=1:{faultStr r}"
  | .sock => "sock"
  | .first lo hi total r => s!"first:n={hi - lo}:hdr={total}:nfds={nfds + 1}:dedlast=1:onchan=1:{faultStr r}"
  | .follow lo hi r => s!"follow:n={hi - lo}:onded=1:{faultStr r}"

def resStr : Res → String
  | .ok => "ok" | .err => "err" | .panic => "panic"

def cmdFrag (toks : List String) : String :=
  match kvNat toks "sys", kvNat toks "len", kvNat toks "nfds" with
  | some sys, some len, some nfds =>
    let faults := ((kv toks "faults").getD "").toList.map faultOfChar
    let r := sendLoop sys len faults
    s!"res={resStr r.1} atts={"|".intercalate (r.2.map (attStr nfds))}"
  | _, _, _ => "bad-request"

/-- the receiver's system calls for a message whose packets have the given sizes: mirrors `recvMsg`/`recvFollow`
over sizes, printing the size asked of the kernel at every step -/
def recvReads (sys total : Nat) : Nat → List Nat → List String
  | _, [] => []
  | got, p :: q =>
    if got < total then
      let want := Gen.recvEnd sys got total - got
      s!"recv:want={want}:got={min p want}:onded=1" :: (if want < p then [] else recvReads sys total (got + p) q)
    else []

def rresStr : RResN → String
  | .ok n => s!"ok len={n}"
  | .closed => "closed" | .block => "block" | .trunc => "trunc" | .panic => "panic"

def cmdRecv (toks : List String) : String :=
  match kvNat toks "sys", kvNat toks "total", kvNat toks "first", kvNat toks "nfds" with
  | some sys, some total, some first, some nfds =>
    let ded := natList ((kv toks "ded").getD "")
    let eof := (kv toks "eof").getD "1" = "1"
    let r := recvMsgN sys total first (decide (first ≠ total)) ded eof
    let firstRead := s!"recvmsg:want={8 + Gen.recvFirstBuf sys}:got={8 + min first (Gen.recvFirstBuf sys)}:nfds={nfds}:ctlcap={Gen.cmsgSpace (4 * Gen.maxFdsInCmsg)}"
    let reads := if first = total then [] else recvReads sys total first ded
    s!"res={rresStr r} reads={"|".intercalate (firstRead :: reads)}"
  | _, _, _, _ => "bad-request"

/-- all fault patterns (ENOBUFS or not) of length k, as numbers 0 .. 2^k-1 -/
def patOf (k m : Nat) : List Fault := (List.range k).map fun i => if (m >>> i) % 2 = 1 then .enobufs else .none

def faultChars (f : List Fault) : String :=
  String.ofList (f.map fun | .none => '0' | .enobufs => '1' | .fatal => '2')

def searchLens (sys : Nat) : List Nat :=
  let m := Gen.firstFragmentSize sys
  let f := Gen.fragmentSize sys
  [0, 1, 1500, 2000, 2001, 3000, m - 1, m, m + 1, m + f - 1, m + f, m + f + 1, m + 2 * f + 1, m + 4 * f + 100]

def cmdSearchFrag (toks : List String) : String :=
  match kvNat toks "sys", kvNat toks "k" with
  | some sys, some k =>
    let bad := (searchLens sys).findSome? fun len =>
      (List.range (2 ^ k)).findSome? fun m =>
        let f := patOf k m
        if propHolds sys len f then none else some s!"counterexample sys={sys} len={len} faults={faultChars f}"
    bad.getD "none"
  | _, _ => "bad-request"

def answer (line : String) : String :=
  let toks := (line.trimAscii.toString.splitOn " ").filter (· ≠ "")
  match toks with
  | "frag" :: rest => cmdFrag rest
  | "recv" :: rest => cmdRecv rest
  | "searchfrag" :: rest => cmdSearchFrag rest
  | _ => "bad-request"

partial def loop (h : IO.FS.Stream) (out : IO.FS.Stream) : IO Unit := do
  let line ← h.getLine
  if line.isEmpty then return ()
  out.putStrLn (answer line)
  loop h out

end Driver

def main : IO Unit := do
  let out ← IO.getStdout
  Driver.loop (← IO.getStdin) out
  out.flush
