import IpcModel.Frag
import IpcModel.Cmsg
import IpcModel.Wire
import IpcModel.SideTable
import IpcModel.Router
import IpcModel.Interleave.Core
import IpcModel.RecvSetP
import IpcModel.GenSet
import IpcModel.Ideal
import IpcModel.Unix
import IpcModel.Ledger.L
import IpcModel.Timed
import IpcModel.Async
import IpcModel.Shm
import IpcModel.Bounds
import IpcModel.OneShot
/-! Line-protocol driver: one request per line on stdin, one canonical answer per line on stdout.
Imports model files only (no Mathlib/Std), so it links as a native executable. -/
open Frag

namespace Driver

def kv (toks : List String) (k : String) : Option String :=
  toks.findSome? fun t =>
    match t.splitOn "=" with
    | [a, b] => if a = k then some b else none
    | _ => none

def kvNat (toks : List String) (k : String) : Option Nat := (kv toks k).bind String.toNat?

def natList (s : String) : List Nat :=
  if s = "" then [] else (s.splitOn ",").filterMap String.toNat?

def faultOfChar : Char → Fault
  | '1' => .enobufs
  | '2' => .fatal
  | _ => .none

def faultStr : Fault → String
  | .none => "ok" | .enobufs => "enobufs" | .fatal => "fatal"

def attStr (nfds : Nat) : Att → String
  | .single len r => s!"single:len={len}:hdr={len}:nfds={nfds}:onchan=1:{faultStr r}"
  | .sock => "sock"
  | .first lo hi total r => s!"first:n={hi - lo}:hdr={total}:nfds={nfds + 1}:dedlast=1:onchan=1:{faultStr r}"
  | .follow lo hi r => s!"follow:n={hi - lo}:onded=1:{faultStr r}"

def resStr : Res → String
  | .ok => "ok" | .err => "err" | .panic => "panic"

def cmdFrag (toks : List String) : String :=
  match kvNat toks "sys", kvNat toks "len", kvNat toks "nfds" with
  | some sys, some len, some nfds =>
    let faults := ((kv toks "faults").getD "").toList.map faultOfChar
    let r := Cmsg.osSend sys len nfds faults
    s!"res={resStr r.1} atts={"|".intercalate (r.2.map (attStr nfds))}"
  | _, _, _ => "bad-request"

/-- the receiver's system calls for a message whose packets have the given sizes: mirrors `recvMsg`/`recvFollow`
over sizes, printing the size asked of the kernel at every step -/
def recvReads (sys total : Nat) : Nat → List Nat → List String
  | _, [] => []
  | got, p :: q =>
    if got < total then
      let want := Gen.recvEnd sys got total - got
      s!"recv:want={want}:got={min p want}:onded=1" :: (if want < p then [] else recvReads sys total (got + p) q)
    else []

def rresStr : RResN → String
  | .ok n => s!"ok len={n}"
  | .closed => "closed" | .block => "block" | .trunc => "trunc" | .panic => "panic"

def cmdRecv (toks : List String) : String :=
  match kvNat toks "sys", kvNat toks "total", kvNat toks "first", kvNat toks "nfds" with
  | some sys, some total, some first, some nfds =>
    let ded := natList ((kv toks "ded").getD "")
    let eof := (kv toks "eof").getD "1" = "1"
    let r := recvMsgN sys total first (decide (first ≠ total)) ded eof
    let firstRead := s!"recvmsg:want={8 + Gen.recvFirstBuf sys}:got={8 + min first (Gen.recvFirstBuf sys)}:nfds={nfds}:ctlcap={Gen.cmsgSpace (4 * Gen.maxFdsInCmsg)}"
    let reads := if first = total then [] else recvReads sys total first ded
    s!"res={rresStr r} reads={"|".intercalate (firstRead :: reads)}"
  | _, _, _, _ => "bad-request"

/-! ### values and schemas in prefix notation (same text as `Value::text` / `Schema::text` in the harness) -/
open Wire in
partial def parseSchema : List String → Option (Schema × List String)
  | "u8" :: r => some (.int 1, r)
  | "u16" :: r => some (.int 2, r)
  | "u32" :: r => some (.int 4, r)
  | "u64" :: r => some (.int 8, r)
  | "bool" :: r => some (.bool, r)
  | "str" :: r => some (.str, r)
  | "snd" :: r => some (.sender, r)
  | "rcv" :: r => some (.receiver, r)
  | "shm" :: r => some (.shm, r)
  | "opt" :: r => (parseSchema r).map fun (s, r') => (.opt s, r')
  | "seq" :: r => (parseSchema r).map fun (s, r') => (.seq s, r')
  | "tup" :: n :: r => n.toNat?.bind fun k => (many k r).map fun (ss, r') => (.tup ss, r')
  | "enum" :: n :: r => n.toNat?.bind fun k => (many k r).map fun (ss, r') => (.enum ss, r')
  | _ => none
where
  many : Nat → List String → Option (List Wire.Schema × List String)
  | 0, r => some ([], r)
  | k+1, r => (parseSchema r).bind fun (s, r') => (many k r').map fun (ss, r'') => (s :: ss, r'')

def hexVal (c : Char) : Option Nat :=
  if '0' ≤ c ∧ c ≤ '9' then some (c.toNat - '0'.toNat)
  else if 'a' ≤ c ∧ c ≤ 'f' then some (c.toNat - 'a'.toNat + 10) else none

def unhex (s : String) : Option (List Nat) :=
  if s = "-" then some [] else
  let rec go : List Char → Option (List Nat)
    | [] => some []
    | [_] => none
    | a :: b :: r => do
      let x ← hexVal a; let y ← hexVal b; let t ← go r
      pure ((16 * x + y) :: t)
  go s.toList

def hexDigit (n : Nat) : Char := if n < 10 then Char.ofNat (48 + n) else Char.ofNat (87 + n)
def hexStr (b : List Nat) : String :=
  if b.isEmpty then "-" else String.ofList (b.flatMap fun x => [hexDigit (x / 16 % 16), hexDigit (x % 16)])

open Wire in
partial def parseValue : List String → Option (Value × List String)
  | "i8" :: n :: r => n.toNat?.map fun k => (.int 1 k, r)
  | "i16" :: n :: r => n.toNat?.map fun k => (.int 2 k, r)
  | "i32" :: n :: r => n.toNat?.map fun k => (.int 4 k, r)
  | "i64" :: n :: r => n.toNat?.map fun k => (.int 8 k, r)
  | "b0" :: r => some (.bool false, r)
  | "b1" :: r => some (.bool true, r)
  | "s" :: h :: r => (unhex h).map fun b => (.str b, r)
  | "none" :: r => some (.opt none, r)
  | "some" :: r => (parseValue r).map fun (v, r') => (.opt (some v), r')
  | "seq" :: n :: r => n.toNat?.bind fun k => (many k r).map fun (vs, r') => (.seq vs, r')
  | "tup" :: n :: r => n.toNat?.bind fun k => (many k r).map fun (vs, r') => (.tup vs, r')
  | "var" :: n :: r => n.toNat?.bind fun k => (parseValue r).map fun (v, r') => (.var k v, r')
  | "snd" :: c :: r => c.toNat?.map fun k => (.sender (.snd k), r)
  | "rcv" :: c :: r => c.toNat?.map fun k => (.receiver (.rcv k), r)
  | "shm" :: c :: r => c.toNat?.map fun k => (.shm k, r)
  | "eshm" :: r => some (.eshm, r)
  | _ => none
where
  many : Nat → List String → Option (List Wire.Value × List String)
  | 0, r => some ([], r)
  | k+1, r => (parseValue r).bind fun (v, r') => (many k r').map fun (vs, r'') => (v :: vs, r'')

def attLabel : Wire.Att → Nat
  | .snd c => c | .rcv c => c

open Wire in
partial def valueText : Value → String
  | .int w n => s!"i{w * 8} {n}"
  | .bool b => if b then "b1" else "b0"
  | .str b => s!"s {hexStr b}"
  | .opt none => "none"
  | .opt (some v) => s!"some {valueText v}"
  | .seq vs => (s!"seq {vs.length} " ++ " ".intercalate (vs.map valueText)).trimAsciiEnd.toString
  | .tup vs => (s!"tup {vs.length} " ++ " ".intercalate (vs.map valueText)).trimAsciiEnd.toString
  | .var k v => s!"var {k} {valueText v}"
  | .sender a => s!"snd {attLabel a}"
  | .receiver a => s!"rcv {attLabel a}"
  | .shm r => s!"shm {r}"
  | .eshm => "eshm"
  | .bogus => "bogus"

def splitBar (toks : List String) : List (List String) :=
  toks.foldr (fun t acc => if t = "|" then [] :: acc else match acc with | [] => [[t]] | h :: r => (t :: h) :: r) [[]]

def schemaSize : Wire.Schema → Nat
  | .opt s => schemaSize s + 1
  | .seq s => schemaSize s + 1
  | .tup ss => ss.foldl (fun a s => a + schemaSize s) 1
  | .enum ss => ss.foldl (fun a s => a + schemaSize s) 1
  | _ => 1

def dresText : Wire.DRes Wire.Value → String
  | .ok v _ _ => s!"ok {valueText v}"
  | .err => "err"
  | .panic => "panic"

def cmdEnc (toks : List String) : String :=
  match splitBar toks with
  | [_, vt] =>
    match parseValue vt with
    | some (v, []) => s!"{hexStr (Wire.enc v 0 0)} nch={(Wire.chans v).length} nshm={(Wire.shms v).length}"
    | _ => "bad-value"
  | _ => "bad-request"

def cmdRt (toks : List String) : String :=
  match splitBar toks with
  | [st, vt] =>
    match parseSchema st, parseValue vt with
    | some (s, []), some (v, []) =>
      let bytes := Wire.enc v 0 0
      dresText (Wire.toValue ⟨false⟩ (2 * bytes.length + schemaSize s + 64) s bytes (Wire.chans v) (Wire.shms v))
    | _, _ => "bad-value"
  | _ => "bad-request"

def parseAtts (s : String) : Option (List Wire.Att) :=
  if s = "-" then some [] else
  (s.splitOn ",").mapM fun t =>
    match t.toList with
    | 's' :: r => (String.ofList r).toNat?.map Wire.Att.snd
    | 'r' :: r => (String.ofList r).toNat?.map Wire.Att.rcv
    | _ => none

def cmdDec (legacy : Bool) (toks : List String) : String :=
  match splitBar toks with
  | [st, [h], [a], [m]] =>
    match parseSchema st, unhex h, parseAtts a with
    | some (s, []), some bytes, some atts =>
      let regions := if m = "-" then [] else (m.splitOn ",").filterMap String.toNat?
      dresText (Wire.toValue ⟨legacy⟩ (2 * bytes.length + schemaSize s + 64) s bytes atts regions)
    | _, _, _ => "bad-value"
  | _ => "bad-request"

/-! ### serialisation programs (C14) -/
partial def parseNodes : Nat → List String → Option (List Side.Node × List String)
  | 0, r => some ([], r)
  | k+1, r =>
    (match r with
     | "data" :: b :: r' => b.toNat?.map fun x => (Side.Node.data x, r')
     | "snd" :: c :: r' => c.toNat?.map fun x => (Side.Node.sender x, r')
     | "rcv" :: c :: r' => c.toNat?.map fun x => (Side.Node.receiver x, r')
     | "shm" :: c :: r' => c.toNat?.map fun x => (Side.Node.shm x, r')
     | "eshm" :: r' => some (Side.Node.emptyShm, r')
     | "fail" :: r' => some (Side.Node.fail, r')
     | "nested" :: tx :: n :: r' =>
       match tx.toNat?, n.toNat? with
       | some t, some m => (parseNodes m r').map fun (vs, r'') => (Side.Node.nested t vs, r'')
       | _, _ => none
     | _ => none).bind fun (nd, r') => (parseNodes k r').map fun (nds, r'') => (nd :: nds, r'')

def attText : Wire.Att → String
  | .snd c => s!"s{c}" | .rcv c => s!"r{c}"

def msgText (m : Side.OsMsg) : String :=
  let a := if m.chans.isEmpty then "-" else ",".intercalate (m.chans.map attText)
  let sh := if m.shms.isEmpty then "-" else ",".intercalate (m.shms.map toString)
  s!"{m.chan}:{hexStr m.bytes}:{a}:{sh}"

/-- `side legacy=0 osfail=1,3 | send <tx> <n> nodes… | send …` : top-level sends on one thread, in order -/
def cmdSide (toks : List String) : String :=
  match splitBar toks with
  | hdr :: sends =>
    let legacy := (kv hdr "legacy").getD "0" = "1"
    let osfail := natList ((kv hdr "osfail").getD "")
    let osOk := fun c => !(osfail.contains c)
    let step := fun (acc : Option (Side.Tls × Side.Eff × List Bool)) (snd : List String) =>
      match acc, snd with
      | some (tls, eff, rs), "send" :: tx :: n :: r =>
        match tx.toNat?, n.toNat? with
        | some t, some k =>
          match parseNodes k r with
          | some (v, []) =>
            match Side.ipcSend ⟨legacy⟩ osOk t v tls eff with
            | (ok, tls', eff') => some (tls', eff', rs ++ [ok])
          | _ => none
        | _, _ => none
      | _, _ => none
    match sends.foldl step (some (⟨[], []⟩, Side.Eff.empty, [])) with
    | none => "bad-request"
    | some (_, eff, rs) =>
      let b := fun (x : Bool) => if x then "ok" else "err"
      let txs := (eff.sent.map (·.chan)).eraseDups.mergeSort
      let grouped := txs.flatMap fun t => eff.sent.filter (·.chan == t)
      s!"res={",".intercalate (rs.map b)} inner={",".intercalate (eff.results.map b)} msgs={";".intercalate (grouped.map msgText)}"
  | _ => "bad-request"

/-! ### router scripts (C07 / C17) -/
def parseRouterOp : List String → Option Router.Op
  | ["add", r] => r.toNat?.map .addRoute
  | ["send", r, t] => match r.toNat?, t.toNat? with | some a, some b => some (.send a b) | _, _ => none
  | ["drop", r] => r.toNat?.map .dropSender
  | ["badfwd", r] => r.toNat?.map .badFwd
  | ["shutdown"] => some .shutdown
  | ["dropproxy"] => some .dropProxy
  | _ => none

def cmdRouter (toks : List String) : String :=
  match splitBar toks with
  | hdr :: opsT =>
    let legacy := (kv hdr "legacy").getD "0" = "1"
    let V := if legacy then Router.legacy else Router.fixed
    match (opsT.filter (· ≠ [])).mapM parseRouterOp with
    | none => "bad-request"
    | some ops =>
      let w := Router.World.run V ops
      let nroutes := (ops.filter fun o => match o with | .addRoute _ => true | _ => false).length
      let per := (List.range nroutes).map fun r =>
        let items := w.st.log.filterMap fun e => match e with
          | .invoke x t => if x = r then some s!"i{t}" else none
          | .dropH x => if x = r then some "D" else none
          | _ => none
        let items := if w.refused.contains r then items ++ ["D"] else items
        s!"r{r}={if items.isEmpty then "-" else ",".intercalate items}"
      let panic := if w.st.log.contains .panic then 1 else 0
      s!"{" ".intercalate per} panic={panic}"
  | _ => "bad-request"

/-! ### interleaving model (C02 / C12): replay of an executed schedule -/
def parseAct (s : String) : Option IM.Act :=
  match s.toList with
  | ['r'] => some .r
  | 's' :: d => (String.ofList d).toNat?.map .s
  | 'f' :: d => (String.ofList d).toNat?.map .f
  | 'x' :: d => (String.ofList d).toNat?.map .x
  | 'c' :: d => (String.ofList d).toNat?.map .crash
  | _ => none

/-- run the schedule; trailing receiver steps that are not enabled are the harness's end-marker reads and are ignored -/
def imRun : IM.St → List IM.Act → Except String IM.St
  | st, [] => .ok st
  | st, a :: as =>
    match IM.step st a with
    | some st' => imRun st' as
    | none => if (a :: as).all (· == .r) then .ok st else .error s!"stuck with {as.length + 1} steps left"

def cmdIm (toks : List String) : String :=
  match kvNat toks "sys", kv toks "lens", kv toks "threads", kv toks "sched" with
  | some sys, some lensS, some thS, some schedS =>
    let lens := natList lensS
    let threads := (thS.splitOn ";").map natList
    match (if schedS = "" then some [] else (schedS.splitOn ",").mapM parseAct) with
    | none => "bad-schedule"
    | some acts =>
      let init : IM.St := { sys, msgs := lens.map (fun l => ⟨l, .todo, none, [], false, .none⟩), threads, mainq := [], cur := none, firstOrder := [] }
      match imRun init acts with
      | .error e => e
      | .ok st =>
        let del := st.firstOrder.filterMap fun m =>
          match st.msgs[m]? with
          | some x => (match x.rs with | .delivered n => some s!"{m}:{n}" | _ => none)
          | none => none
        let res := st.msgs.map fun x => match x.phase with | .ok => "ok" | .failed => "err" | _ => "-"
        let bad := st.msgs.any fun x => x.rs == .corrupt
        if (kv toks "show").getD "" = "delivered" then s!"{if bad then "corrupt" else "ok"} delivered={",".intercalate del}"
        else s!"{if bad then "corrupt" else "ok"} delivered={",".intercalate del} results={",".intercalate res}"
  | _, _, _, _ => "bad-request"

/-! ### receiver-set scripts (C06) -/
structure SetW where
  st : RSetP.St
  nextId : Nat
  blocked : Nat

/-- `select`: one poll, then drain steps until the batch is finished -/
partial def setDrain (st : RSetP.St) : RSetP.St :=
  match st.pc with
  | .idle => st
  | _ => match RSetP.step st .drain with | some st' => setDrain st' | none => st

def setOp (w : SetW) : List String → Option SetW
  | ["new", k] => k.toNat?.map fun i =>
      -- members are indexed by creation order; a fresh channel has one sender and is not registered
      if i = w.st.members.length then { w with st := { w.st with members := w.st.members ++ [⟨0, [], 1, false, false⟩] } } else w
  | ["add", k] => k.toNat?.bind fun i =>
      match w.st.members[i]? with
      | none => none
      | some m =>
        let st1 := RSetP.setM w.st i { m with id := w.nextId }
        (RSetP.step st1 (.add i)).map fun st2 => { w with st := st2, nextId := w.nextId + 1 }
  | ["send", k, t] => match k.toNat?, t.toNat? with
      | some i, some tag =>
        -- traffic to a member that is not (or no longer) in a set is queued on the socket all the same
        (match w.st.members[i]? with
         | none => none
         | some m =>
           if m.registered then (RSetP.step w.st (.send i tag)).map fun st2 => { w with st := st2 }
           else some { w with st := RSetP.setM w.st i { m with q := m.q ++ [tag] } })
      | _, _ => none
  | ["dropsender", k] => k.toNat?.bind fun i =>
      match w.st.members[i]? with
      | none => none
      | some m =>
        if m.registered then (RSetP.step w.st (.dropSender i)).map fun st2 => { w with st := st2 }
        else some { w with st := RSetP.setM w.st i { m with senders := m.senders - 1 } }
  | ["select"] =>
      match RSetP.step w.st .poll with
      | none => some { w with blocked := w.blocked + 1 }
      | some st1 => some { w with st := setDrain st1 }
  | _ => none

def cmdSet (toks : List String) : String :=
  match splitBar toks with
  | hdr :: opsT =>
    let cap := (kvNat hdr "cap").getD Gen.eventsCap
    let w0 : SetW := ⟨⟨cap, [], [], .idle, []⟩, 0, 0⟩
    match (opsT.filter (· ≠ [])).foldl (fun acc o => acc.bind fun w => setOp w o) (some w0) with
    | none => "bad-request"
    | some w =>
      let n := w.st.members.length
      let per := (List.range n).map fun i =>
        match w.st.members[i]? with
        | none => ""
        | some m =>
          let evs := if m.registered || m.closedReported then w.st.reported.filterMap fun e => match e with
            | .msg id tag => if id = m.id then some (toString tag) else none
            | .closed id => if id = m.id then some "c" else none
          else []
          s!"m{i}={if evs.isEmpty then "-" else ",".intercalate evs}"
      let ids := (List.range n).filterMap fun i =>
        match w.st.members[i]? with
        | some m => if m.registered || m.closedReported then some s!"{i}:{m.id}" else none
        | none => none
      -- `batching=free` (in-process transport): how many events one select call returns is not part of the contract, so the
      -- number of select calls that found nothing new is not reported
      if hdr.contains "batching=free" then s!"{" ".intercalate per} ids={",".intercalate ids}"
      else s!"{" ".intercalate per} ids={",".intercalate ids} blocked={w.blocked}"
  | _ => "bad-request"

/-! ### ideal channels (C03 / C09 / C19 / C04) -/
def parseHandle (t : String) : Option Ideal.Handle :=
  match t.toList with
  | 's' :: d => (String.ofList d).toNat?.map .snd
  | 'r' :: d => (String.ofList d).toNat?.map .rcv
  | 'm' :: d => (String.ofList d).toNat?.map .shm
  | _ => none

def handleText : Ideal.Handle → String
  | .snd c => s!"s{c}" | .rcv c => s!"r{c}" | .shm r => s!"m{r}"

def parseIdealOp : List String → Option Ideal.Op
  | ["new"] => some .newChan
  | ["clone", c] => c.toNat?.map .cloneSender
  | ["dropsnd", c] => c.toNat?.map .dropSender
  | ["recv", c] => c.toNat?.map .recv
  | ["droprcv", c] => c.toNat?.map .dropReceiver
  | "send" :: c :: t :: hs =>
    match c.toNat?, t.toNat?, hs.mapM parseHandle with
    | some a, some b, some l => some (.send a b l)
    | _, _, _ => none
  | _ => none

def idealResText : Ideal.Res → String
  | .ok => "ok"
  | .msg t hs => s!"msg:{t}:{if hs.isEmpty then "-" else ",".intercalate (hs.map handleText)}"
  | .empty => "empty"
  | .disconnected => "disc"
  | .sendError => "senderr"
  | .invalid => "invalid"

def cmdIdeal (toks : List String) : String :=
  match (splitBar toks).filter (· ≠ []) |>.mapM parseIdealOp with
  | none => "bad-request"
  | some ops => " ".intercalate ((Ideal.run ops).2.map idealResText)

/-- the same program read at descriptor level (`Unix`): results, preceded by whether the program is valid -/
def cmdUnix (toks : List String) : String :=
  match (splitBar toks).filter (· ≠ []) |>.mapM parseIdealOp with
  | none => "bad-request"
  | some ops => (if Unix.valid ops then "valid " else "INVALID ") ++ " ".intercalate ((Unix.run ops).2.map idealResText)

/-! ### descriptor ledger (C11 / C03): number of open library descriptors after each step of a history -/
def ledgerStep (st : Ledger.St) (t : String) : Option Ledger.St :=
  match (t.splitOn " ").filter (· ≠ "") with
  | ["nop"] => some st
  | ["inst", "s"] => some (Ledger.opInstall st 0 .snd)
  | ["inst", "r"] => some (Ledger.opInstall st 0 .rcv)
  | ["clone", i] => i.toNat?.bind (Ledger.opClone st)
  | ["drop", i] => i.toNat?.bind (Ledger.opDrop st)
  | _ => none

def cmdLedger (toks : List String) : String :=
  let steps := (splitBar toks).filter (· ≠ [])
  let go := steps.foldl (fun (acc : Option (Ledger.St × List Nat)) stepToks =>
    acc.bind fun (st, outs) =>
      let opsT := (" ".intercalate stepToks).splitOn ","
      (opsT.foldl (fun a t => a.bind fun s => ledgerStep s t) (some st)).map fun st' =>
        (st', outs ++ [st'.ofdOf.length - st'.closed.length])) (some (Ledger.init, []))
  match go with
  | none => "bad-request"
  | some (_, outs) => " ".intercalate (outs.map toString)

/-! ### receive modes (C10): a single-threaded script of sends / sender drops / the three receive calls -/
structure TimedW where
  k : Timed.K
  senders : Nat
  outs : List String

def sysText : Timed.Sys → String
  | .setNB => "N" | .clearNB => "C" | .recvmsg => "R" | .poll ms => s!"P{ms}"

def timedResText : Timed.Res → String
  | .msg t => s!"msg:{t}" | .empty => "empty" | .disconnected => "disc" | .blocks => "blocks" | .waitsSender t => s!"waits:{t}"

def timedRecv (trace : Bool) (w : TimedW) (m : Timed.Mode) : TimedW :=
  -- single-threaded: poll times out exactly when nothing is queued and a sender exists
  let b := w.k.queue.isEmpty && w.k.peerAlive
  let (tr, r, k') := Timed.call w.k m b
  let txt := if trace then " ".intercalate (tr.map sysText) ++ " =" ++ timedResText r else timedResText r
  { w with k := k', outs := w.outs ++ [txt] }

def timedOp (trace : Bool) (w : TimedW) : List String → Option TimedW
  | ["send", t] => t.toNat?.bind fun t =>
      if w.senders = 0 then none else some { w with k := { w.k with queue := w.k.queue ++ [(t, true)] } }
  | ["clone"] => if w.senders = 0 then none else some { w with senders := w.senders + 1 }
  | ["dropsnd"] => if w.senders = 0 then none else
      some { w with senders := w.senders - 1, k := { w.k with peerAlive := decide (w.senders - 1 > 0) } }
  | ["try"] => some (timedRecv trace w .nonblocking)
  | ["tmo", us] => us.toNat?.map fun us => timedRecv trace w (.timeout us)
  | ["recv"] => some (timedRecv trace w .blocking)
  | _ => none

def cmdTimed (toks : List String) : String :=
  let trace := kv toks "trace" = some "1"
  let steps := (splitBar (toks.filter fun t => !(t.startsWith "trace="))).filter (· ≠ [])
  match steps.foldl (fun acc st => acc.bind fun w => timedOp trace w st) (some ⟨⟨[], true, false⟩, 1, []⟩) with
  | none => "bad-request"
  | some w => " ; ".intercalate w.outs

/-! ### async streams (C20) -/
def parseAsyncOp : List String → Option Async.Op
  | ["new", _] => some .new
  | ["send", c, t] => match c.toNat?, t.toNat? with | some a, some b => some (.send a b) | _, _ => none
  | ["dropsnd", c] => c.toNat?.map .dropsnd
  | ["tostream", c] => c.toNat?.map .tostream
  | _ => none

def cmdStream (toks : List String) : String :=
  match (splitBar toks).filter (· ≠ []) |>.mapM parseAsyncOp with
  | none => "bad-request"
  | some ops =>
    let y := Async.script ops
    let outs := (y.chans.zipIdx).filterMap fun (ch, c) =>
      ch.stream.bind fun s => y.r.streams[s]?.map fun st =>
        s!"s{c}={",".intercalate (st.buf.map toString)};{if st.ended then "end" else "open"}"
    " ".intercalate outs

/-! ### shared memory (C05 / C18) -/
def shmContent (seed len : Nat) : List Nat := (List.range len).map fun i => (seed * 31 + i * 7 + i / 256) % 256

def parseShmOp : List String → Option Shm.Op
  | ["fb", len, seed] => match len.toNat?, seed.toNat? with | some l, some sd => some (.fromBytes (shmContent sd l)) | _, _ => none
  | ["fy", b, len] => match b.toNat?, len.toNat? with | some b, some l => some (.fromByte b l) | _, _ => none
  | ["cl", i] => i.toNat?.map .clone
  | ["rc", i] => i.toNat?.map .recvCopy
  | ["dr", i] => i.toNat?.map .drop
  | ["fl", i] => i.toNat?.map .flight
  | ["rf"] => some .recvFlight
  | _ => none

def shmCallText : Shm.Call → String
  | .create n => s!"create:{n}" | .mmap n => s!"mmap:{n}" | .dup => "dup" | .fstat => "fstat"
  | .munmap n => s!"munmap:{n}" | .close => "close"

def cmdShm (toks : List String) : String :=
  match (splitBar toks).filter (· ≠ []) |>.mapM parseShmOp with
  | none => "bad-request"
  | some ops =>
    let w := Shm.run ops
    let hs := (w.hs.zipIdx).filterMap fun (x, i) => x.map fun (h, src) =>
      let ok := match Shm.deref w.k h with | .bytes b => b == src && h.length == src.length | .fault => false
      s!"{i}={h.length}:{if h.ptr.isSome then "map" else "null"}:{if ok then "ok" else "bad"}"
    " ".intercalate (w.k.calls.map shmCallText) ++ " ; " ++ " ".intercalate hs

/-! ### ghost buffer of recv (C18) -/
def cmdBounds (toks : List String) : String :=
  match kvNat toks "sys", kvNat toks "n", kvNat toks "total" with
  | some sys, some n, some total =>
    let pkts := natList ((kv toks "pkts").getD "")
    match Bounds.recv sys n total pkts true with
    | .ok b => s!"ok cap={b.cap} len={b.len} written={b.written}"
    | .closed => "closed"
    | .block => "block"
    | .viol v => s!"violation:{repr v}"
  | _, _, _ => "bad-request"

/-! ### one-shot servers (C08) -/
def parseOneShotOp : List String → Option OneShot.Op
  | ["new", k] => k.toNat?.map .new
  | ["connect", n] => n.toNat?.map .connect
  | ["csend", c, t] => match c.toNat?, t.toNat? with | some a, some b => some (.csend a b) | _, _ => none
  | ["cclose", c] => c.toNat?.map .cclose
  | ["accept", s] => s.toNat?.map .accept
  | ["dropsrv", s] => s.toNat?.map .dropServer
  | ["recv", c] => c.toNat?.map .recv
  | ["droprx", c] => c.toNat?.map .dropRx
  | _ => none

def oneShotResText : OneShot.Res → String
  | .server s _ => s!"server:{s}" | .conn c => s!"conn:{c}" | .ok => "ok" | .err => "err"
  | .accepted c t => s!"accepted:{c}:{t}" | .msg t => s!"msg:{t}" | .empty => "empty" | .disc => "disc"
  | .blocks => "blocks" | .invalid => "invalid"

def cmdOneShot (toks : List String) : String :=
  match (splitBar toks).filter (· ≠ []) |>.mapM parseOneShotOp with
  | none => "bad-request"
  | some ops =>
    let r := OneShot.run ops
    " ".intercalate (r.2.map oneShotResText) ++ s!" ; fs={OneShot.fsCount r.1} listen={OneShot.listenFds r.1} rx={OneShot.rxFds r.1}"

/-- all fault patterns (ENOBUFS or not) of length k, as numbers 0 .. 2^k-1 -/
def patOf (k m : Nat) : List Fault := (List.range k).map fun i => if (m >>> i) % 2 = 1 then .enobufs else .none

def faultChars (f : List Fault) : String :=
  String.ofList (f.map fun | .none => '0' | .enobufs => '1' | .fatal => '2')

def searchLens (sys : Nat) : List Nat :=
  let m := Gen.firstFragmentSize sys
  let f := Gen.fragmentSize sys
  [0, 1, 1500, 2000, 2001, 3000, m - 1, m, m + 1, m + f - 1, m + f, m + f + 1, m + 2 * f + 1, m + 4 * f + 100]

def cmdSearchFrag (toks : List String) : String :=
  match kvNat toks "sys", kvNat toks "k" with
  | some sys, some k =>
    let bad := (searchLens sys).findSome? fun len =>
      (List.range (2 ^ k)).findSome? fun m =>
        let f := patOf k m
        if propHolds sys len f then none else some s!"counterexample sys={sys} len={len} faults={faultChars f}"
    bad.getD "none"
  | _, _ => "bad-request"

def answer (line : String) : String :=
  let toks := (line.trimAscii.toString.splitOn " ").filter (· ≠ "")
  match toks with
  | "frag" :: rest => cmdFrag rest
  | "recv" :: rest => cmdRecv rest
  | "searchfrag" :: rest => cmdSearchFrag rest
  | "side" :: rest => cmdSide rest
  | "router" :: rest => cmdRouter rest
  | "im" :: rest => cmdIm rest
  | "set" :: rest => cmdSet rest
  | "ideal" :: rest => cmdIdeal rest
  | "unix" :: rest => cmdUnix rest
  | "ledger" :: rest => cmdLedger rest
  | "timed" :: rest => cmdTimed rest
  | "stream" :: rest => cmdStream rest
  | "shm" :: rest => cmdShm rest
  | "bounds" :: rest => cmdBounds rest
  | "oneshot" :: rest => cmdOneShot rest
  | "noop" :: _ => "ok"
  | "enc" :: rest => cmdEnc rest
  | "rt" :: rest => cmdRt rest
  | "dec" :: rest => cmdDec false rest
  | "declegacy" :: rest => cmdDec true rest
  | _ => "bad-request"

partial def loop (h : IO.FS.Stream) (out : IO.FS.Stream) : IO Unit := do
  let line ← h.getLine
  if line.isEmpty then return ()
  out.putStrLn (answer line)
  loop h out

end Driver

def main : IO Unit := do
  let out ← IO.getStdout
  Driver.loop (← IO.getStdin) out
  out.flush
