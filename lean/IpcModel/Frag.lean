import IpcModel.Gen
/-!
# L1 `Frag` — the sender's transmission loop and the receiver's reassembly

Mirrors `OsIpcSender::send` and the free function `recv` of `src/platform/unix/mod.rs` at the level of
byte ranges.  All arithmetic comes from the *generated* definitions in `Gen`.
Model files import nothing outside the project (the driver links natively).
-/
namespace Frag
open Gen

/-- outcome of one transmission attempt (`sendmsg`/`send` return value class) -/
inductive Fault | none | enobufs | fatal
deriving DecidableEq, Repr, Inhabited

/-- one system call of `send`, in program order -/
inductive Att
  /-- the single-packet attempt `send_first_fragment(fd, fds, data, len)` -/
  | single (len : Nat) (r : Fault)
  /-- `channel()` creating the dedicated socket pair -/
  | sock
  /-- first fragment: header `total`, payload `[lo, hi)`, all descriptors + dedicated receiver -/
  | first (lo hi total : Nat) (r : Fault)
  /-- follow-up fragment on the dedicated socket: payload `[lo, hi)` -/
  | follow (lo hi : Nat) (r : Fault)
deriving DecidableEq, Repr, Inhabited

/-- result of `send`; `panic` = the Rust code would slice out of range / loop without progress -/
inductive Res | ok | err | panic
deriving DecidableEq, Repr, Inhabited

def nextFault : List Fault → Fault × List Fault
  | [] => (.none, [])
  | f :: fs => (f, fs)

def endPos (len pos sb : Nat) : Nat := if pos = 0 then endFirst sb else endFollow len pos sb
def mkAtt (len pos endp : Nat) (f : Fault) : Att :=
  if pos = 0 then Att.first 0 endp len f else Att.follow pos endp f

/-- the `while byte_position < data.len()` loop -/
def fragLoop (len : Nat) (pos sb : Nat) (faults : List Fault) : Res × List Att :=
  if _h : pos < len then
    let endp := endPos len pos sb
    let f := (nextFault faults).1
    let rest := (nextFault faults).2
    let att := mkAtt len pos endp f
    if _hprog : pos < endp ∧ endp ≤ len then
      match f with
      | .none => let r := fragLoop len endp sb rest; (r.1, att :: r.2)
      | .enobufs =>
        match downsize sb (sentSize pos endp) with
        | some sb' =>
          if _hsb : sb' < sb then let r := fragLoop len pos sb' rest; (r.1, att :: r.2)
          else (.panic, [att])
        | none => (.err, [att])
      | .fatal => (.err, [att])
    else (.panic, [att])     -- slice out of range / zero-length packet in the real code
  else (.ok, [])
termination_by (len - pos, sb)
decreasing_by
  all_goals simp_wf
  · apply Prod.Lex.left; omega
  · apply Prod.Lex.right; assumption

/-- `OsIpcSender::send` for a message of `len` bytes under system send-buffer size `sys`;
one `Fault` is consumed per transmission attempt (missing ⇒ success) -/
def sendLoop (sys len : Nat) (faults : List Fault) : Res × List Att :=
  if singleTest sys len then
    match nextFault faults with
    | (.none, _) => (.ok, [.single len .none])
    | (.fatal, _) => (.err, [.single len .fatal])
    | (.enobufs, rest) =>
      match downsize sys len with
      | some sb' => let r := fragLoop len 0 sb' rest; (r.1, .single len .enobufs :: .sock :: r.2)
      | none => (.err, [.single len .enobufs])
  else
    let r := fragLoop len 0 sys faults; (r.1, .sock :: r.2)

/-- delivered byte ranges, in send order (attempts whose transmission succeeded) -/
def deliv : List Att → List (Nat × Nat)
  | [] => []
  | .single len .none :: r => (0, len) :: deliv r
  | .first lo hi _ .none :: r => (lo, hi) :: deliv r
  | .follow lo hi .none :: r => (lo, hi) :: deliv r
  | _ :: r => deliv r

/-- ranges are contiguous, non-empty and start at `a`; returns the end -/
def cover (a : Nat) : List (Nat × Nat) → Option Nat
  | [] => some a
  | (lo, hi) :: r => if lo = a ∧ lo < hi then cover hi r else none

/-- the header announced by the first delivered packet, if any -/
def announced : List Att → Option Nat
  | [] => none
  | .single len .none :: _ => some len
  | .first _ _ total .none :: _ => some total
  | _ :: r => announced r

/-! ## what reaches the sockets -/

/-- a packet on the channel socket: header `total`, payload, and whether a dedicated socket rides along -/
structure FirstPkt (α : Type) where
  total : Nat
  payload : List α
  hasDed : Bool
deriving Repr

/-- packets produced by a run of `send` over concrete data `d` -/
def firstPkt (d : List α) : List Att → Option (FirstPkt α)
  | [] => none
  | .single _ .none :: _ => some ⟨d.length, d, false⟩
  | .first lo hi total .none :: _ => some ⟨total, (d.take hi).drop lo, true⟩
  | _ :: r => firstPkt d r

def followPkts (d : List α) : List Att → List (List α)
  | [] => []
  | .follow lo hi .none :: r => (d.take hi).drop lo :: followPkts d r
  | _ :: r => followPkts d r

/-! ## receiver -/

inductive RRes (α : Type)
  | ok (data : List α)
  /-- dedicated socket at end-of-file with bytes owed (`ChannelClosed` in the legacy code) -/
  | closed
  /-- would block: follow-ups not yet queued -/
  | block
  /-- a packet did not fit the buffer offered for it: bytes lost (MSG_TRUNC) -/
  | trunc
  /-- `bytes_read - 8` underflow, `total < len` (`reserve_exact` underflow), or no dedicated socket to pop -/
  | panic
deriving Repr

/-- the `while main_data_buffer.len() < total_size` loop; one packet of the dedicated socket per iteration -/
def recvFollow (sys total : Nat) (buf : List α) : List (List α) → Bool → RRes α
  | [], eof => if buf.length < total then (if eof then .closed else .block) else .ok buf
  | p :: q, eof =>
    if buf.length < total then
      let want := recvEnd sys buf.length total - buf.length
      if p.length = 0 ∨ want = 0 then .closed            -- `recv` returning 0
      else if want < p.length then .trunc
      else recvFollow sys total (buf ++ p) q eof
    else .ok buf

/-- `recv`: first packet from the channel socket, follow-ups from the dedicated socket -/
def recvMsg (sys : Nat) (p : FirstPkt α) (ded : List (List α)) (eof : Bool) : RRes α :=
  if recvFirstBuf sys < p.payload.length then .trunc
  else if p.total = p.payload.length then .ok p.payload
  else if p.total < p.payload.length then .panic
  else if !p.hasDed then .panic
  else recvFollow sys p.total p.payload ded eof

/-! ## size-level view of the receiver (what the driver executes; tied to `recvMsg` by `recvMsg_shape`) -/

inductive RResN | ok (len : Nat) | closed | block | trunc | panic
deriving Repr, DecidableEq

def RRes.shape : RRes α → RResN
  | .ok d => .ok d.length | .closed => .closed | .block => .block | .trunc => .trunc | .panic => .panic

def recvFollowN (sys total : Nat) (got : Nat) : List Nat → Bool → RResN
  | [], eof => if got < total then (if eof then .closed else .block) else .ok got
  | p :: q, eof =>
    if got < total then
      let want := recvEnd sys got total - got
      if p = 0 ∨ want = 0 then .closed
      else if want < p then .trunc
      else recvFollowN sys total (got + p) q eof
    else .ok got

def recvMsgN (sys total first : Nat) (hasDed : Bool) (ded : List Nat) (eof : Bool) : RResN :=
  if recvFirstBuf sys < first then .trunc
  else if total = first then .ok first
  else if total < first then .panic
  else if !hasDed then .panic
  else recvFollowN sys total first ded eof

/-! ## executable property predicate (used only by the failing-input search, never as evidence) -/

def firstN : List Att → Option (Nat × Nat × Bool)
  | [] => none
  | .single len .none :: _ => some (len, len, false)
  | .first lo hi total .none :: _ => some (total, hi - lo, true)
  | _ :: r => firstN r

def followN : List Att → List Nat
  | [] => []
  | .follow lo hi .none :: r => (hi - lo) :: followN r
  | _ :: r => followN r

def attOk (sys len : Nat) : Att → Bool
  | .single l _ => l == len && 8 + l ≤ fragmentSize sys
  | .sock => true
  | .first lo hi total _ => lo == 0 && decide (lo < hi) && decide (hi ≤ len) && total == len && decide (8 + (hi - lo) ≤ fragmentSize sys)
  | .follow lo hi _ => decide (0 < lo) && decide (lo < hi) && decide (hi ≤ len) && decide (hi - lo ≤ fragmentSize sys)

/-- C13/C01 as a Boolean function of one run -/
def propHolds (sys len : Nat) (faults : List Fault) : Bool :=
  let r := sendLoop sys len faults
  let fit := r.2.all (attOk sys len)
  let rx := match firstN r.2 with
    | none => none
    | some (total, n, hd) => some (recvMsgN sys total n hd (followN r.2) true)
  match r.1 with
  | .panic => false
  | .ok => fit && rx == some (RResN.ok len)
  | .err => fit && (match rx with | some (RResN.ok _) => false | _ => true)

end Frag
