/-! Reachability in a finite graph on `0 .. n-1` by iteration to a fixed point (used for "which receiving ends exist":
the specification `Ideal` and the descriptor-level model `Unix` both define existence as reachability from what the
program holds through what queued messages carry). -/
namespace Reach

/-- one round: the roots, and everything an already reached node points to -/
def stepG (n : Nat) (root : Nat → Bool) (edge : Nat → Nat → Bool) (r : List Nat) : List Nat :=
  (List.range n).filter fun c => root c || r.any fun d => edge d c

def iterG (n : Nat) (root : Nat → Bool) (edge : Nat → Nat → Bool) : Nat → List Nat → List Nat
  | 0, r => r
  | k+1, r => iterG n root edge k (stepG n root edge r)

/-- the reachable nodes: `n + 1` rounds from nothing (enough for a fixed point — `ReachProof.reachG_iff`) -/
def reachG (n : Nat) (root : Nat → Bool) (edge : Nat → Nat → Bool) : List Nat := iterG n root edge (n + 1) []

/-- the declarative reading -/
inductive ReachG (n : Nat) (root : Nat → Bool) (edge : Nat → Nat → Bool) : Nat → Prop
  | root (c : Nat) : c < n → root c = true → ReachG n root edge c
  | edge (d c : Nat) : c < n → ReachG n root edge d → edge d c = true → ReachG n root edge c

end Reach
