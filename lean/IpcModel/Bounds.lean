import IpcModel.Frag
/-! C18: ghost-buffer view of `recv` (unix back end).  The receive buffer is tracked as `(capacity, len, written)`:
`len` is the `Vec` length (`set_len`), `written` the length of the prefix the kernel has filled.  Every step checks what
the unsafe code relies on; a failed check is a `viol`.  Follow-up packet sizes are **arbitrary** (any list of sizes, the
kernel truncates a packet to the space offered), so the bounds theorem does not depend on the sender being well behaved
beyond the two protocol facts it names. -/
namespace Bounds
open Gen

structure Buf where
  cap : Nat
  len : Nat
  written : Nat
deriving Repr, DecidableEq

inductive Viol
  | headerUnderflow        -- `bytes_read - 8` with fewer than 8 bytes read
  | reserveUnderflow       -- `total_size - len` with `total_size < len`
  | setLenBeyondCapacity   -- `set_len(n)` with `n > capacity` (the `assert!` would fire)
  | negativeCount          -- `end_pos < write_pos`
  | kernelWriteOutside     -- a kernel write `[off, off+count)` not inside `[0, capacity)`
  | lenExposesUnwritten    -- buffer handed on (next iteration / returned) with `len > written`
deriving Repr, DecidableEq

inductive Out
  | ok (b : Buf)
  | closed | block
  | viol (v : Viol)
deriving Repr, DecidableEq

/-- the `while main_data_buffer.len() < total_size` loop; `pkts` are the sizes of the packets queued on the dedicated socket -/
def followWith (setLenAfter : Nat → Nat → Nat → Nat) (sys total : Nat) (b : Buf) : List Nat → Bool → Out
  | [], eof => if b.len < total then (if eof then .closed else .block) else .ok b
  | p :: q, eof =>
    if b.len < total then
      let wp := b.len
      let ep := recvEnd sys wp total
      if b.cap < ep then .viol .setLenBeyondCapacity            -- assert!(end_pos <= capacity); set_len(end_pos)
      else if ep < wp then .viol .negativeCount                 -- assert!(end_pos >= write_pos)
      else
        let count := ep - wp                                    -- recv(fd, buf[wp..], count)
        if b.cap < wp + count then .viol .kernelWriteOutside
        else if p = 0 ∨ count = 0 then .closed                  -- recv returned 0: truncated message, discarded
        else
          let r := min p count                                  -- the kernel writes r bytes at [wp, wp + r)
          let len' := setLenAfter wp r ep
          if wp + r < len' then .viol .lenExposesUnwritten
          else if b.cap < len' then .viol .setLenBeyondCapacity
          else followWith setLenAfter sys total { b with len := len', written := wp + r } q eof
    else .ok b

/-- the loop with the `set_len` expression found in the source on this run -/
def follow (sys total : Nat) (b : Buf) (pkts : List Nat) (eof : Bool) : Out := followWith recvSetLenAfter sys total b pkts eof

/-- `recv`: `n` = bytes returned by the first `recvmsg` (8-byte header + payload), `total` = the header's value -/
def recv (sys n total : Nat) (pkts : List Nat) (eof : Bool) : Out :=
  let m := recvFirstBuf sys                                     -- Vec::with_capacity(M); set_len(M)
  if n < 8 then .viol .headerUnderflow
  else if 8 + m < n then .viol .kernelWriteOutside              -- cannot happen: the iovec offers 8 + M bytes
  else
    let len := recvFirstLen n                                   -- set_len(bytes_read - 8)
    if m < len then .viol .setLenBeyondCapacity
    else
      let b : Buf := ⟨m, len, len⟩
      if total = len then .ok b                                 -- fast path
      else if total < len then .viol .reserveUnderflow
      else follow sys total { b with cap := max m total } pkts eof   -- reserve_exact(total - len)

end Bounds
