import IpcModel.Interleave.Proof
import IpcModel.RecvAtt
/-!
Attachments under every interleaving (C02 / C12): the interleaving model `IM` carries payload ranges only.  Here each message
`m` is given descriptors `atts m` (they travel in the control message of its first packet); the receiver's steps of an `IM`
execution are projected to the events `RecvAtt` speaks about, and fed to the attachment-vector machine of `recv`.
-/
namespace IM
open RecvAtt (Ev RS feed feedAll)

/-- what a step means for the receiver's `recv` -/
inductive ROut
  | nothing
  | first (m : Nat) (complete : Bool)        -- the first packet of message m was taken from the channel
  | finished (m : Nat) (delivered : Bool)    -- the assembly of m ended: delivered, or given up (truncated)
deriving Repr, DecidableEq

def rout (st : St) : Act → ROut
  | .r =>
    match st.cur with
    | none =>
      match st.mainq with
      | m :: _ =>
        match st.msgs[m]? with
        | some x => match rPop x with | some (_, done) => .first m done | none => .nothing
        | none => .nothing
      | [] => .nothing
    | some m =>
      match st.msgs[m]? with
      | some x =>
        match rAsm st.sys x with
        | some (x', true) => .finished m (match x'.rs with | .delivered _ => true | _ => false)
        | _ => .nothing
      | none => .nothing
  | _ => .nothing

def evOf (atts : Nat → List Nat) : ROut → List Ev
  | .nothing => []
  | .first m c => [.first (atts m) c]
  | .finished _ true => [.assembled]
  | .finished _ false => [.truncated]

/-- messages handed to the caller of `recv` by this step -/
def delivOf : ROut → List Nat
  | .first m true => [m]
  | .finished m true => [m]
  | _ => []

/-- the receiver-side meaning of an execution (as far as it is executable) -/
def routs : St → List Act → List ROut
  | _, [] => []
  | st, a :: as => match step st a with | some st' => rout st a :: routs st' as | none => []

theorem applySender_cur (st : St) (t m : Nat) (x' : M) (sd : Side) : (applySender st t m x' sd).cur = st.cur := rfl

/-- how the receiver's "message in assembly" moves with each kind of step -/
theorem cur_step (st st' : St) (a : Act) (h : step st a = some st') :
    match rout st a with
    | .nothing => st'.cur = st.cur
    | .first m true => st.cur = none ∧ st'.cur = none
    | .first m false => st.cur = none ∧ st'.cur = some m
    | .finished _ _ => (∃ m, st.cur = some m ∧ rout st a = .finished m (match rout st a with | .finished _ d => d | _ => false)) ∧ st'.cur = none := by
  cases a with
  | s t =>
    simp only [rout]
    simp only [step] at h
    split at h <;> try (simp at h)
    split at h <;> try (simp at h)
    split at h <;> try (simp at h)
    subst h; rfl
  | f t =>
    simp only [rout]
    simp only [step] at h
    split at h <;> try (simp at h)
    split at h <;> try (simp at h)
    split at h <;> try (simp at h)
    subst h; rfl
  | x t =>
    simp only [rout]
    simp only [step] at h
    split at h <;> try (simp at h)
    split at h <;> try (simp at h)
    split at h <;> try (simp at h)
    subst h; rfl
  | crash t =>
    simp only [rout]
    simp only [step] at h
    split at h <;> try (simp at h)
    split at h <;> try (simp at h)
    split at h <;> try (simp at h)
    subst h; rfl
  | r =>
    simp only [step] at h
    cases hc : st.cur with
    | none =>
      rw [hc] at h
      simp only at h
      simp only [rout, hc]
      cases hq : st.mainq with
      | nil => rw [hq] at h; simp at h
      | cons m q =>
        rw [hq] at h
        simp only at h ⊢
        cases hm : st.msgs[m]? with
        | none => rw [hm] at h; simp at h
        | some x =>
          rw [hm] at h
          simp only at h ⊢
          cases hp : rPop x with
          | none => rw [hp] at h; simp at h
          | some p =>
            obtain ⟨x', done⟩ := p
            rw [hp] at h
            simp only [Option.some.injEq] at h
            subst h
            cases done <;> simp
    | some m =>
      rw [hc] at h
      simp only at h
      simp only [rout, hc]
      cases hm : st.msgs[m]? with
      | none => rw [hm] at h; simp at h
      | some x =>
        rw [hm] at h
        simp only at h ⊢
        cases hp : rAsm st.sys x with
        | none => rw [hp] at h; simp at h
        | some p =>
          obtain ⟨x', done⟩ := p
          rw [hp] at h
          simp only [Option.some.injEq] at h
          subst h
          cases done <;> simp

/-- **attachments under every interleaving** — whatever the schedule (sender steps, ENOBUFS, fatal errors, crashes, receiver steps in
any order), whatever descriptors each message carries: feeding the receiver-side events of the execution to the
attachment-vector machine of `recv` (in the variant regenerated from the source) returns, for the messages delivered, in
delivery order, exactly their own descriptors — however many truncated messages were discarded in between. -/
theorem att_run (atts : Nat → List Nat) (as : List Act) (st : St) (s : RS)
    (hacc : s.acc = []) (hp : s.pend = st.cur.map atts) :
    (feedAll RecvAtt.codeCfg s ((routs st as).flatMap (evOf atts))).out = s.out ++ ((routs st as).flatMap delivOf).map atts := by
  have hc : RecvAtt.codeCfg = ⟨true, true⟩ := by decide
  induction as generalizing st s with
  | nil => simp [routs, feedAll]
  | cons a as ih =>
    simp only [routs]
    cases hst : step st a with
    | none => simp [feedAll]
    | some st' =>
      simp only
      have hcur := cur_step st st' a hst
      cases hr : rout st a with
      | nothing =>
        rw [hr] at hcur
        simp only [List.flatMap_cons, evOf, delivOf, List.nil_append]
        exact ih st' s hacc (by rw [hcur]; exact hp)
      | first m c =>
        rw [hr] at hcur
        cases c with
        | true =>
          simp only at hcur
          simp only [List.flatMap_cons, evOf, delivOf, feedAll, List.foldl_append, List.foldl_cons, List.foldl_nil, feed]
          have := ih st' { acc := [], pend := none, out := s.out ++ [s.acc ++ atts m] } rfl (by rw [hcur.2]; rfl)
          simp only [feedAll] at this
          rw [this, hacc]; simp
        | false =>
          simp only at hcur
          simp only [List.flatMap_cons, evOf, delivOf, feedAll, List.foldl_append, List.foldl_cons, List.foldl_nil, feed, List.nil_append]
          have := ih st' { s with pend := some (atts m) } hacc (by rw [hcur.2]; rfl)
          simp only [feedAll] at this
          exact this
      | finished m d =>
        rw [hr] at hcur
        simp only at hcur
        obtain ⟨⟨m', hm', hrm⟩, hc'⟩ := hcur
        have hmm : m' = m := by injection hrm with h1 _; exact h1.symm
        subst hmm
        have hpend : s.pend = some (atts m') := by rw [hp, hm']; rfl
        cases d with
        | true =>
          simp only [List.flatMap_cons, evOf, delivOf, feedAll, List.foldl_append, List.foldl_cons, List.foldl_nil, feed, hpend]
          have := ih st' { acc := [], pend := none, out := s.out ++ [s.acc ++ atts m'] } rfl (by rw [hc']; rfl)
          simp only [feedAll] at this
          rw [this, hacc]; simp
        | false =>
          simp only [List.flatMap_cons, evOf, delivOf, feedAll, List.foldl_append, List.foldl_cons, List.foldl_nil, feed, hpend, hc, List.nil_append,
            Bool.and_self, if_true]
          have := ih st' { s with acc := [], pend := none } rfl (by rw [hc']; rfl)
          simp only [feedAll] at this
          exact this

/-- from the initial state: nothing collected, nothing pending -/
theorem att_init (atts : Nat → List Nat) (sys : Nat) (lens : List Nat) (threads : List (List Nat)) (as : List Act) :
    (feedAll RecvAtt.codeCfg ⟨[], none, []⟩ ((routs (init sys lens threads) as).flatMap (evOf atts))).out
      = ((routs (init sys lens threads) as).flatMap delivOf).map atts := by
  have := att_run atts as (init sys lens threads) ⟨[], none, []⟩ rfl rfl
  simpa using this

end IM
