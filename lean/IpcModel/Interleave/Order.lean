import IpcModel.Interleave.Proof
namespace IM

def consumed (x : M) : Bool := match x.rs with | .delivered _ | .discarded | .corrupt => true | _ => false
def isAsm (x : M) : Bool := match x.rs with | .asm _ => true | _ => false
def consumedAt (st : St) (m : Nat) : Bool := match st.msgs[m]? with | some x => consumed x | none => false

/-- ordering invariant (on top of SInv): the first-packet order splits into consumed ++ in-assembly ++ queued -/
def OInv (st : St) : Prop :=
  st.firstOrder.Nodup ∧
  (∃ C : List Nat, st.firstOrder = C ++ st.cur.toList ++ st.mainq ∧ ∀ k, k ∈ C → consumedAt st k = true) ∧
  (∀ (m : Nat) (x : M), st.msgs[m]? = some x → (m ∈ st.firstOrder ↔ x.rs ≠ .none)) ∧
  (∀ (m : Nat), st.cur = some m → ∃ x : M, st.msgs[m]? = some x ∧ isAsm x = true)

theorem consumedAt_set (msgs : List M) (m k : Nat) (x x' : M) (hm : msgs[m]? = some x)
    (st st' : St) (h : st.msgs = msgs) (h' : st'.msgs = msgs.set m x') :
    consumedAt st' k = if k = m then consumed x' else consumedAt st k := by
  have hlt : m < msgs.length := (List.getElem?_eq_some_iff.mp hm).1
  unfold consumedAt
  rw [h, h']
  by_cases hk : k = m
  · subst hk; simp [List.getElem?_set_self hlt]
  · simp [hk, List.getElem?_set_ne (Ne.symm hk)]

/-- generic update lemma: message m replaced by x', lists changed as described by the hypotheses -/
theorem oinv_set (st st' : St) (m : Nat) (x x' : M) (C' : List Nat)
    (hO : OInv st) (hm : st.msgs[m]? = some x) (hmsgs : st'.msgs = st.msgs.set m x')
    (hnd : st'.firstOrder.Nodup)
    (hsplit : st'.firstOrder = C' ++ st'.cur.toList ++ st'.mainq)
    (hC : ∀ k, k ∈ C' → (k = m ∧ consumed x' = true) ∨ (k ≠ m ∧ consumedAt st k = true))
    (hmem : ∀ k, k ≠ m → (k ∈ st'.firstOrder ↔ k ∈ st.firstOrder))
    (hmemm : m ∈ st'.firstOrder ↔ x'.rs ≠ .none)
    (hcur : ∀ k, st'.cur = some k → (k = m ∧ isAsm x' = true) ∨ (k ≠ m ∧ st.cur = some k)) : OInv st' := by
  obtain ⟨h1, ⟨C, hsp, hCc⟩, h3, h4⟩ := hO
  have hlt : m < st.msgs.length := (List.getElem?_eq_some_iff.mp hm).1
  refine ⟨hnd, ⟨C', hsplit, ?_⟩, ?_, ?_⟩
  · intro k hk
    rw [consumedAt_set st.msgs m k x x' hm st st' rfl hmsgs]
    rcases hC k hk with ⟨rfl, hc⟩ | ⟨hne, hc⟩
    · simp [hc]
    · simp [hne, hc]
  · intro k y hk
    rw [hmsgs] at hk
    by_cases hkm : k = m
    · subst hkm
      rw [List.getElem?_set_self hlt] at hk; cases hk
      exact hmemm
    · rw [List.getElem?_set_ne (Ne.symm hkm)] at hk
      rw [hmem k hkm]; exact h3 k y hk
  · intro k hk
    rcases hcur k hk with ⟨rfl, ha⟩ | ⟨hne, hc⟩
    · exact ⟨x', by rw [hmsgs, List.getElem?_set_self hlt], ha⟩
    · obtain ⟨y, hy, hya⟩ := h4 k hc
      exact ⟨y, by rw [hmsgs, List.getElem?_set_ne (Ne.symm hne)]; exact hy, hya⟩

theorem rPop_class (x x' : M) (done : Bool) (h : rPop x = some (x', done)) :
    (done = true → consumed x' = true) ∧ (done = false → isAsm x' = true) ∧ x'.rs ≠ .none := by
  unfold rPop at h
  split at h
  · simp at h
  · split at h <;> (simp only [Option.some.injEq, Prod.mk.injEq] at h; obtain ⟨rfl, rfl⟩ := h; simp [consumed, isAsm])

theorem rAsm_class (sys : Nat) (x x' : M) (done : Bool) (h : rAsm sys x = some (x', done)) :
    isAsm x = true ∧ (done = true → consumed x' = true) ∧ (done = false → isAsm x' = true) ∧ x'.rs ≠ .none := by
  unfold rAsm at h
  split at h
  · rename_i got hrs
    refine ⟨by simp [isAsm, hrs], ?_⟩
    split at h
    · dsimp only at h
      split at h
      · split at h <;> (simp only [Option.some.injEq, Prod.mk.injEq] at h; obtain ⟨rfl, rfl⟩ := h; simp [consumed, isAsm])
      · simp only [Option.some.injEq, Prod.mk.injEq] at h; obtain ⟨rfl, rfl⟩ := h; simp [consumed, isAsm]
    · split at h
      · simp only [Option.some.injEq, Prod.mk.injEq] at h; obtain ⟨rfl, rfl⟩ := h; simp [consumed, isAsm]
      · simp at h
  · simp at h

theorem consumed_of_rs_eq (x x' : M) (h : x'.rs = x.rs) : consumed x' = consumed x ∧ isAsm x' = isAsm x := by
  simp [consumed, isAsm, h]

/-- sender-side steps (no receiver progress): `applySender` -/
theorem oinv_sender (st : St) (t m : Nat) (x x' : M) (sd : Side)
    (hS : SInv st) (hO : OInv st) (hm : st.msgs[m]? = some x)
    (he : sd.enqueue = true → x.rs = .none ∧ x'.rs = .queued) (hne : sd.enqueue = false → x'.rs = x.rs) :
    OInv (applySender st t m x' sd) := by
  have hO' := hO
  obtain ⟨h1, ⟨C, hsp, hCc⟩, h3, h4⟩ := hO
  cases hen : sd.enqueue
  · -- lists unchanged, class unchanged
    have hrs := hne hen
    have hcl := consumed_of_rs_eq x x' hrs
    refine oinv_set st _ m x x' C hO' hm (by simp [applySender]) (by simpa [applySender, hen] using h1)
      (by simpa [applySender, hen] using hsp) ?_ (by intro k _; simp [applySender, hen]) ?_ ?_
    · intro k hk
      by_cases hkm : k = m
      · subst hkm; left; refine ⟨rfl, ?_⟩
        have := hCc k hk
        simp only [consumedAt, hm] at this
        rw [hcl.1]; exact this
      · right; exact ⟨hkm, hCc k hk⟩
    · simp only [applySender, hen]; rw [hrs]; simpa using h3 m x hm
    · intro k hk
      simp only [applySender] at hk
      by_cases hkm : k = m
      · subst hkm; left; refine ⟨rfl, ?_⟩
        obtain ⟨y, hy, hya⟩ := h4 k hk
        rw [hm] at hy; cases hy; rw [hcl.2]; exact hya
      · right; exact ⟨hkm, hk⟩
  · -- enqueue
    obtain ⟨hx, hx'⟩ := he hen
    have hnot : m ∉ st.firstOrder := by
      intro hin; exact ((h3 m x hm).mp hin) hx
    refine oinv_set st _ m x x' C hO' hm (by simp [applySender]) ?_ ?_ ?_ ?_ ?_ ?_
    · simp only [applySender, hen, if_true]
      exact List.nodup_append.mpr ⟨h1, by simp, by
        intro a ha b hb; simp at hb; subst hb; intro hab; subst hab; exact hnot ha⟩
    · simp only [applySender, hen, if_true]; rw [hsp]; simp [List.append_assoc]
    · intro k hk
      right
      refine ⟨?_, hCc k hk⟩
      intro hkm; subst hkm; apply hnot; rw [hsp]; simp [hk]
    · intro k hkm; simp [applySender, hen, hkm]
    · simp [applySender, hen, hx']
    · intro k hk
      simp only [applySender] at hk
      right
      refine ⟨?_, hk⟩
      intro hkm; subst hkm
      obtain ⟨y, hy, hya⟩ := h4 k hk
      rw [hm] at hy; cases hy
      simp [isAsm, hx] at hya

theorem oinv_step (st st' : St) (a : Act) (hS : SInv st) (hO : OInv st) (h : step st a = some st') : OInv st' := by
  have hsys := hS.1
  cases a with
  | s t =>
    simp only [step] at h
    split at h; · simp at h
    rename_i m _
    split at h; · simp at h
    rename_i x hm
    split at h; · simp at h
    rename_i x' sd hs
    simp only [Option.some.injEq] at h; subst h
    obtain ⟨_, he, hne⟩ := minv_sMsg st.sys x x' sd hsys (hS.2.1 m x hm) hs
    exact oinv_sender st t m x x' sd hS hO hm he hne
  | f t =>
    simp only [step] at h
    split at h; · simp at h
    rename_i m _
    split at h; · simp at h
    rename_i x hm
    split at h; · simp at h
    rename_i x' sd hs
    simp only [Option.some.injEq] at h; subst h
    obtain ⟨_, he, hr⟩ := minv_fMsg st.sys x x' sd hsys (hS.2.1 m x hm) hs
    exact oinv_sender st t m x x' sd hS hO hm (by rw [he]; simp) (fun _ => hr)
  | x t =>
    simp only [step] at h
    split at h; · simp at h
    rename_i m _
    split at h; · simp at h
    rename_i x hm
    split at h
    · simp at h
    · rename_i x' _ _
      have hk : killMsg x = some x' := by assumption
      simp only [Option.some.injEq] at h; subst h
      obtain ⟨_, hr⟩ := minv_kill st.sys x x' (hS.2.1 m x hm) hk
      exact oinv_sender st t m x x' ⟨false, true⟩ hS hO hm (by simp) (fun _ => hr)
    · simp at h
  | crash t =>
    simp only [step] at h
    split at h; · simp at h
    rename_i m _
    split at h; · simp at h
    rename_i x hm
    split at h
    · rename_i x' hk
      simp only [Option.some.injEq] at h; subst h
      obtain ⟨_, hr⟩ := minv_kill st.sys x x' (hS.2.1 m x hm) hk
      -- same bookkeeping as a non-enqueuing sender step; only `threads` differs
      have := oinv_sender st t m x x' ⟨false, false⟩ hS hO hm (by simp) (fun _ => hr)
      simpa [OInv, applySender, consumedAt] using this
    · simp at h
  | r =>
    have hO' := hO
    obtain ⟨h1, ⟨C, hsp, hCc⟩, h3, h4⟩ := hO
    simp only [step] at h
    split at h
    · -- cur = none: pop head of the channel queue
      rename_i hcur
      split at h; · simp at h
      rename_i m q hmq
      split at h; · simp at h
      rename_i x hm
      split at h; · simp at h
      rename_i x' done hp
      simp only [Option.some.injEq] at h; subst h
      have hin : m ∈ st.mainq := by rw [hmq]; simp
      obtain ⟨y, hy, hyq⟩ := hS.2.2.1 m hin
      rw [hm] at hy; cases hy
      obtain ⟨hd1, hd2, hnn⟩ := rPop_class x x' done hp
      have hfo : st.firstOrder = C ++ m :: q := by rw [hsp, hcur, hmq]; simp
      have hmfo : m ∈ st.firstOrder := by rw [hfo]; simp
      have hmC : m ∉ C := by
        intro hc
        have := h1; rw [hfo] at this
        exact (List.nodup_append.mp this).2.2 m hc m (by simp) rfl
      cases hdone : done
      · -- becomes cur
        refine oinv_set st _ m x x' C hO' hm (by simp) (by simpa using h1) ?_ ?_ (by intro k _; simp) ?_ ?_
        · simp [hdone, hfo]
        · intro k hk; right; exact ⟨fun hkm => hmC (hkm ▸ hk), hCc k hk⟩
        · simp [hmfo, hnn]
        · intro k hk
          simp only [hdone] at hk
          simp at hk; subst hk
          left; exact ⟨rfl, hd2 hdone⟩
      · -- consumed immediately
        refine oinv_set st _ m x x' (C ++ [m]) hO' hm (by simp) (by simpa using h1) ?_ ?_ (by intro k _; simp) ?_ ?_
        · simp [hdone, hfo]
        · intro k hk
          rcases List.mem_append.mp hk with hk | hk
          · right; exact ⟨fun hkm => hmC (hkm ▸ hk), hCc k hk⟩
          · simp at hk; subst hk; left; exact ⟨rfl, hd1 hdone⟩
        · simp [hmfo, hnn]
        · intro k hk; simp [hdone] at hk
    · -- cur = some m: assembly step
      rename_i m hcur
      split at h; · simp at h
      rename_i x hm
      split at h; · simp at h
      rename_i x' done hp
      simp only [Option.some.injEq] at h; subst h
      obtain ⟨ha, hd1, hd2, hnn⟩ := rAsm_class st.sys x x' done hp
      have hfo : st.firstOrder = C ++ m :: st.mainq := by rw [hsp, hcur]; simp
      have hmfo : m ∈ st.firstOrder := by rw [hfo]; simp
      have hmC : m ∉ C := by
        intro hc
        have := h1; rw [hfo] at this
        exact (List.nodup_append.mp this).2.2 m hc m (by simp) rfl
      cases hdone : done
      · refine oinv_set st _ m x x' C hO' hm (by simp) (by simpa using h1) ?_ ?_ (by intro k _; simp) ?_ ?_
        · simp [hdone, hfo]
        · intro k hk; right; exact ⟨fun hkm => hmC (hkm ▸ hk), hCc k hk⟩
        · simp [hmfo, hnn]
        · intro k hk
          simp [hdone] at hk; subst hk
          left; exact ⟨rfl, hd2 hdone⟩
      · refine oinv_set st _ m x x' (C ++ [m]) hO' hm (by simp) (by simpa using h1) ?_ ?_ (by intro k _; simp) ?_ ?_
        · simp [hdone, hfo]
        · intro k hk
          rcases List.mem_append.mp hk with hk | hk
          · right; exact ⟨fun hkm => hmC (hkm ▸ hk), hCc k hk⟩
          · simp at hk; subst hk; left; exact ⟨rfl, hd1 hdone⟩
        · simp [hmfo, hnn]
        · intro k hk; simp [hdone] at hk

theorem oinv_init (sys : Nat) (lens : List Nat) (threads : List (List Nat)) : OInv (init sys lens threads) := by
  refine ⟨by simp [init], ⟨[], by simp [init], by simp⟩, ?_, by simp [init]⟩
  intro m x hm
  simp only [init, List.getElem?_map] at hm
  cases hl : lens[m]? with
  | none => simp [hl] at hm
  | some l => simp [hl] at hm; subst hm; simp [init]

theorem inv_run (st st' : St) (as : List Act) (hS : SInv st) (hO : OInv st) (h : run st as = some st') : SInv st' ∧ OInv st' := by
  induction as generalizing st with
  | nil => simp [run] at h; subst h; exact ⟨hS, hO⟩
  | cons a as ih =>
    simp only [run] at h
    split at h
    · rename_i st1 h1; exact ih st1 (sinv_step st st1 a hS h1) (oinv_step st st1 a hS hO h1) h
    · simp at h

/-- **C02 exactly-once / FIFO, all schedules**: in every reachable state the first-packet order has no duplicates and splits as
    consumed ++ (message under assembly) ++ (messages still queued): messages are consumed in exactly the order their first packets
    were enqueued, each at most once, none skipped. -/
theorem fifo_consumption (sys : Nat) (lens : List Nat) (threads : List (List Nat)) (hsys : 1000 ≤ sys)
    (as : List Act) (st : St) (h : run (init sys lens threads) as = some st) :
    st.firstOrder.Nodup ∧
    ∃ C : List Nat, st.firstOrder = C ++ st.cur.toList ++ st.mainq ∧
      (∀ k, k ∈ C → consumedAt st k = true) ∧
      (∀ k, k ∈ st.cur.toList ++ st.mainq → consumedAt st k = false) := by
  obtain ⟨hS, hO⟩ := inv_run _ _ as (sinv_init sys lens threads hsys) (oinv_init sys lens threads) h
  obtain ⟨h1, ⟨C, hsp, hCc⟩, h3, h4⟩ := hO
  refine ⟨h1, C, hsp, hCc, ?_⟩
  intro k hk
  rcases List.mem_append.mp hk with hk | hk
  · cases hc : st.cur with
    | none => simp [hc] at hk
    | some m =>
      simp [hc] at hk; subst hk
      obtain ⟨y, hy, hya⟩ := h4 k hc
      simp only [consumedAt, hy, consumed]
      cases hr : y.rs <;> simp [isAsm, hr] at hya ⊢
  · obtain ⟨y, hy, hyq⟩ := hS.2.2.1 k hk
    simp [consumedAt, hy, consumed, hyq]

end IM
