/-! Message-centric interleaving model, factored into per-message transition functions. -/
namespace IM

def RESERVED : Nat := 32
def fs (sb : Nat) : Nat := sb - RESERVED
def ffs (sb : Nat) : Nat := (fs sb - 8) / 8 * 8
def downsize (sb sent : Nat) : Option Nat :=
  if sent > 2000 then
    let sb' := sb / 2
    some (if sb' ≥ sent then sent / 2 else sb')
  else none
def endPos (len pos sb : Nat) : Nat := if pos = 0 then ffs sb else min (pos + fs sb) len

inductive Phase
  | todo | single | frag (pos sb : Nat) | ok | failed
deriving Repr, BEq, DecidableEq, Hashable

inductive RState
  | none | queued | asm (got : Nat) | delivered (n : Nat) | corrupt | discarded
deriving Repr, BEq, DecidableEq, Hashable

structure Chunk where
  lo : Nat
  hi : Nat
deriving Repr, BEq, DecidableEq, Hashable

structure M where
  len : Nat
  phase : Phase
  firstHi : Option Nat
  dedq : List Chunk
  txClosed : Bool
  rs : RState
deriving Repr, BEq, DecidableEq, Hashable

/-- what a sender step does to the shared channel queue / the thread -/
structure Side where
  enqueue : Bool     -- first packet appended to the channel queue
  finished : Bool    -- send() returned (Ok or Err): thread moves on
deriving Repr, BEq, DecidableEq

/-- sender: next system call succeeds -/
def sMsg (sys : Nat) (x : M) : Option (M × Side) :=
  match x.phase with
  | .todo =>
    if x.len ≤ ffs sys then some ({ x with phase := .single }, ⟨false, false⟩)
    else some ({ x with phase := .frag 0 sys }, ⟨false, false⟩)
  | .single => some ({ x with phase := .ok, firstHi := some x.len, rs := .queued }, ⟨true, true⟩)
  | .frag pos sb =>
    let e := endPos x.len pos sb
    if pos = 0 then some ({ x with phase := .frag e sb, firstHi := some e, rs := .queued }, ⟨true, false⟩)
    else if e = x.len then some ({ x with dedq := x.dedq ++ [Chunk.mk pos e], phase := .ok, txClosed := true }, ⟨false, true⟩)
    else some ({ x with dedq := x.dedq ++ [Chunk.mk pos e], phase := .frag e sb }, ⟨false, false⟩)
  | _ => none

/-- sender: next transmission attempt gets ENOBUFS -/
def fMsg (sys : Nat) (x : M) : Option (M × Side) :=
  match x.phase with
  | .single =>
    match downsize sys x.len with
    | some sb' => some ({ x with phase := .frag 0 sb' }, ⟨false, false⟩)
    | none => some ({ x with phase := .failed }, ⟨false, true⟩)
  | .frag pos sb =>
    match downsize sb (endPos x.len pos sb - pos) with
    | some sb' => some ({ x with phase := .frag pos sb' }, ⟨false, false⟩)
    | none => some ({ x with phase := .failed, txClosed := true }, ⟨false, true⟩)
  | _ => none

/-- sender: fatal error on the next transmission, or the process dies (same effect on the message) -/
def killMsg (x : M) : Option M :=
  match x.phase with
  | .todo => some x
  | .single => some { x with phase := .failed }
  | .frag _ _ => some { x with phase := .failed, txClosed := true }
  | _ => none

/-- receiver takes the first packet from the channel queue; `true` = message complete (fast path) -/
def rPop (x : M) : Option (M × Bool) :=
  match x.firstHi with
  | none => none
  | some h => if h = x.len then some ({ x with rs := .delivered h }, true) else some ({ x with rs := .asm h }, false)

/-- receiver reads from the dedicated socket; `true` = assembly finished (delivered, corrupt or discarded) -/
def rAsm (sys : Nat) (x : M) : Option (M × Bool) :=
  match x.rs with
  | .asm got =>
    match x.dedq with
    | c :: rest =>
      let want := min (fs sys) (x.len - got)
      let n := min (c.hi - c.lo) want
      if c.lo = got ∧ n = c.hi - c.lo ∧ 0 < n then
        if got + n = x.len then some ({ x with dedq := rest, rs := .delivered (got + n) }, true)
        else some ({ x with dedq := rest, rs := .asm (got + n) }, false)
      else some ({ x with dedq := rest, rs := .corrupt }, true)
    | [] => if x.txClosed then some ({ x with rs := .discarded }, true) else none
  | _ => none

structure St where
  sys : Nat
  msgs : List M
  threads : List (List Nat)
  mainq : List Nat
  cur : Option Nat
  firstOrder : List Nat
deriving Repr, BEq, DecidableEq, Hashable

inductive Act
  | s (t : Nat) | f (t : Nat) | x (t : Nat) | crash (t : Nat) | r
deriving Repr, BEq, DecidableEq, Hashable

def curMsg (st : St) (t : Nat) : Option Nat :=
  match st.threads[t]? with
  | some (m :: _) => some m
  | _ => none

def applySender (st : St) (t m : Nat) (x' : M) (sd : Side) : St :=
  { st with msgs := st.msgs.set m x',
            mainq := if sd.enqueue then st.mainq ++ [m] else st.mainq,
            firstOrder := if sd.enqueue then st.firstOrder ++ [m] else st.firstOrder,
            threads := if sd.finished then st.threads.modify t List.tail else st.threads }

def step (st : St) : Act → Option St
  | .s t =>
    match curMsg st t with
    | none => none
    | some m =>
      match st.msgs[m]? with
      | none => none
      | some x =>
        match sMsg st.sys x with
        | none => none
        | some (x', sd) => some (applySender st t m x' sd)
  | .f t =>
    match curMsg st t with
    | none => none
    | some m =>
      match st.msgs[m]? with
      | none => none
      | some x =>
        match fMsg st.sys x with
        | none => none
        | some (x', sd) => some (applySender st t m x' sd)
  | .x t =>
    match curMsg st t with
    | none => none
    | some m =>
      match st.msgs[m]? with
      | none => none
      | some x =>
        match x.phase, killMsg x with
        | .todo, _ => none
        | _, some x' => some (applySender st t m x' ⟨false, true⟩)
        | _, none => none
  | .crash t =>
    match curMsg st t with
    | none => none
    | some m =>
      match st.msgs[m]? with
      | none => none
      | some x =>
        match killMsg x with
        | some x' => some { st with msgs := st.msgs.set m x', threads := st.threads.set t [] }
        | none => none
  | .r =>
    match st.cur with
    | none =>
      match st.mainq with
      | [] => none
      | m :: q =>
        match st.msgs[m]? with
        | none => none
        | some x =>
          match rPop x with
          | none => none
          | some (x', done) => some { st with msgs := st.msgs.set m x', mainq := q, cur := if done then none else some m }
    | some m =>
      match st.msgs[m]? with
      | none => none
      | some x =>
        match rAsm st.sys x with
        | none => none
        | some (x', done) => some { st with msgs := st.msgs.set m x', cur := if done then none else some m }

-- invariants -----------------------------------------------------------------------------------
def cover (a : Nat) : List Chunk → Option Nat
  | [] => some a
  | c :: r => if c.lo = a ∧ c.lo < c.hi then cover c.hi r else none

def chunksOk (sys len : Nat) (q : List Chunk) : Bool := q.all fun c => c.hi ≤ len && c.hi - c.lo ≤ fs sys

/-- receiver-side view of an in-flight fragmented message whose sender has put bytes [.., upTo) on the wire;
    `strict`: upTo must be < len (failed send) -/
def rview (len : Nat) (dedq : List Chunk) (rs : RState) (h upTo : Nat) (allowDelivered allowDiscarded : Bool) : Bool :=
  match rs with
  | .queued => decide (cover h dedq = some upTo)
  | .asm got => decide (h ≤ got) && decide (got < len) && decide (cover got dedq = some upTo)
  | .delivered n => allowDelivered && decide (n = len)
  | .discarded => allowDiscarded
  | _ => false

def MInv (sys : Nat) (x : M) : Bool :=
  match x.phase, x.firstHi with
  | .todo, none => decide (x.dedq = []) && !x.txClosed && decide (x.rs = .none)
  | .single, none => decide (x.dedq = []) && !x.txClosed && decide (x.rs = .none) && decide (x.len ≤ ffs sys)
  | .frag pos sb, none => decide (pos = 0) && decide (x.dedq = []) && !x.txClosed && decide (x.rs = .none) && decide (1000 ≤ sb) && decide (sb ≤ sys) && decide (ffs sb < x.len)
  | .frag pos sb, some h =>
      decide (0 < pos) && decide (pos < x.len) && decide (1000 ≤ sb) && decide (sb ≤ sys) && decide (h ≤ ffs sys) && decide (0 < h) && decide (h ≤ pos) &&
      !x.txClosed && chunksOk sys x.len x.dedq && rview x.len x.dedq x.rs h pos false false
  | .ok, some h =>
      if h = x.len then decide (x.dedq = []) && (decide (x.rs = .queued) || decide (x.rs = .delivered x.len))
      else decide (0 < h) && decide (h < x.len) && decide (h ≤ ffs sys) && x.txClosed && chunksOk sys x.len x.dedq && rview x.len x.dedq x.rs h x.len true false
  | .failed, none => decide (x.dedq = []) && decide (x.rs = .none)
  | .failed, some h =>
      decide (0 < h) && decide (h < x.len) && decide (h ≤ ffs sys) && x.txClosed && chunksOk sys x.len x.dedq &&
      (match x.rs with
       | .queued => (match cover h x.dedq with | some p => decide (p < x.len) | none => false)
       | .asm got => decide (h ≤ got) && (match cover got x.dedq with | some p => decide (p < x.len) | none => false)
       | .discarded => true
       | _ => false)
  | _, _ => false

/-- safety invariant -/
def SInv (st : St) : Prop :=
  1000 ≤ st.sys ∧
  (∀ (m : Nat) (x : M), st.msgs[m]? = some x → MInv st.sys x = true) ∧
  (∀ (m : Nat), m ∈ st.mainq → ∃ x : M, st.msgs[m]? = some x ∧ x.rs = .queued) ∧
  st.mainq.Nodup

end IM
