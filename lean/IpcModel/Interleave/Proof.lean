import IpcModel.Interleave.Core
namespace IM

theorem ffs_lt (sb : Nat) (h : 1000 ≤ sb) : 0 < ffs sb ∧ ffs sb + 8 ≤ fs sb ∧ fs sb < sb := by
  unfold ffs fs RESERVED; omega
theorem ffs_mono (a b : Nat) (h : a ≤ b) : ffs a ≤ ffs b := by
  unfold ffs fs RESERVED; omega
theorem fs_mono (a b : Nat) (h : a ≤ b) : fs a ≤ fs b := by
  unfold fs RESERVED; omega

theorem downsize_spec (sb n sb' : Nat) (h : downsize sb n = some sb') :
    2000 < n ∧ sb' < n ∧ sb' ≤ sb / 2 ∧ (n ≤ sb → 1000 ≤ sb') := by
  unfold downsize at h
  split at h
  · simp at h; subst h; split <;> omega
  · simp at h

theorem cover_append (a p e : Nat) (q : List Chunk) (h : cover a q = some p) (hpe : p < e) :
    cover a (q ++ [⟨p, e⟩]) = some e := by
  induction q generalizing a with
  | nil => simp [cover] at h; subst h; simp [cover, hpe]
  | cons c r ih =>
    simp only [cover] at h
    split at h
    · rename_i hc; simp only [List.cons_append, cover]; rw [if_pos hc]; exact ih _ h
    · simp at h

theorem cover_le (a p : Nat) (q : List Chunk) (h : cover a q = some p) : a ≤ p := by
  induction q generalizing a with
  | nil => simp [cover] at h; omega
  | cons c r ih =>
    simp only [cover] at h
    split at h
    · rename_i hc; have := ih _ h; omega
    · simp at h

theorem chunksOk_append (sys len : Nat) (q : List Chunk) (c : Chunk) (h : chunksOk sys len q = true)
    (h1 : c.hi ≤ len) (h2 : c.hi - c.lo ≤ fs sys) : chunksOk sys len (q ++ [c]) = true := by
  simp [chunksOk] at *
  exact ⟨h, h1, by omega⟩

theorem endPos_first (len sb : Nat) : endPos len 0 sb = ffs sb := by simp [endPos]
theorem endPos_follow (len pos sb sys : Nat) (hp : 0 < pos) (hl : pos < len) (hsb : 1000 ≤ sb) (hs : sb ≤ sys) :
    pos < endPos len pos sb ∧ endPos len pos sb ≤ len ∧ endPos len pos sb - pos ≤ fs sys ∧ endPos len pos sb - pos ≤ sb := by
  have := ffs_lt sb hsb
  have := fs_mono sb sys hs
  have hne : ¬ pos = 0 := by omega
  simp only [endPos, hne, if_false]
  omega

/-- rview is monotone in what it needs when a chunk is appended -/
theorem rview_append (len : Nat) (q : List Chunk) (rs : RState) (h pos e : Nat) (hv : rview len q rs h pos false false = true) (hpe : pos < e) (b : Bool) :
    rview len (q ++ [Chunk.mk pos e]) rs h e b false = true := by
  unfold rview at *
  cases rs <;> simp at hv ⊢
  · exact cover_append _ _ _ _ hv hpe
  · exact ⟨hv.1, cover_append _ _ _ _ hv.2 hpe⟩

set_option maxHeartbeats 400000 in
theorem minv_sMsg (sys : Nat) (x x' : M) (sd : Side) (hsys : 1000 ≤ sys) (hI : MInv sys x = true)
    (h : sMsg sys x = some (x', sd)) :
    MInv sys x' = true ∧ (sd.enqueue = true → x.rs = .none ∧ x'.rs = .queued) ∧ (sd.enqueue = false → x'.rs = x.rs) := by
  unfold sMsg at h
  cases hp : x.phase with
  | todo =>
    simp only [hp] at h
    cases hf : x.firstHi with
    | some v => simp [MInv, hp, hf] at hI
    | none =>
      simp only [MInv, hp, hf, Bool.and_eq_true, decide_eq_true_eq, Bool.not_eq_true'] at hI
      split at h
      · rename_i hle
        simp only [Option.some.injEq, Prod.mk.injEq] at h; obtain ⟨rfl, rfl⟩ := h
        simp [MInv, hf, hI.1.1, hI.1.2, hI.2, hle]
      · rename_i hle
        simp only [Option.some.injEq, Prod.mk.injEq] at h; obtain ⟨rfl, rfl⟩ := h
        simp [MInv, hf, hI.1.1, hI.1.2, hI.2, hsys]; omega
  | single =>
    simp only [hp] at h
    cases hf : x.firstHi with
    | some v => simp [MInv, hp, hf] at hI
    | none =>
      simp only [MInv, hp, hf, Bool.and_eq_true, decide_eq_true_eq, Bool.not_eq_true'] at hI
      simp only [Option.some.injEq, Prod.mk.injEq] at h; obtain ⟨rfl, rfl⟩ := h
      simp [MInv, hI.1.1.1, hI.1.1.2, hI.1.2]
  | frag pos sb =>
    simp only [hp] at h
    cases hf : x.firstHi with
    | none =>
      simp only [MInv, hp, hf, Bool.and_eq_true, decide_eq_true_eq, Bool.not_eq_true'] at hI
      obtain ⟨⟨⟨⟨⟨⟨hpos, hdq⟩, htx⟩, hrs⟩, hsb⟩, hsbs⟩, hffs⟩ := hI
      subst hpos
      simp only [↓reduceIte, Option.some.injEq, Prod.mk.injEq] at h; obtain ⟨rfl, rfl⟩ := h
      have hb := ffs_lt sb hsb
      have hm := ffs_mono sb sys hsbs
      simp only [endPos_first]
      simp [MInv, rview, cover, chunksOk, hdq, htx, hrs, hsb, hsbs, hb.1, hffs, hm]
    | some hh =>
      simp only [MInv, hp, hf, Bool.and_eq_true, decide_eq_true_eq, Bool.not_eq_true'] at hI
      obtain ⟨⟨⟨⟨⟨⟨⟨⟨⟨hpos, hlt⟩, hsb⟩, hsbs⟩, hh1⟩, hh0⟩, hhp⟩, htx⟩, hck⟩, hrv⟩ := hI
      have hne : ¬ pos = 0 := by omega
      have he := endPos_follow x.len pos sb sys hpos hlt hsb hsbs
      have hck' := chunksOk_append sys x.len x.dedq ⟨pos, endPos x.len pos sb⟩ hck he.2.1 he.2.2.1
      simp only [hne, ↓reduceIte] at h
      split at h
      · rename_i hel
        simp only [Option.some.injEq, Prod.mk.injEq] at h; obtain ⟨rfl, rfl⟩ := h
        have hrv' := rview_append x.len x.dedq x.rs hh pos (endPos x.len pos sb) hrv he.1 true
        have hne2 : ¬ hh = x.len := by omega
        refine ⟨?_, by simp, by simp⟩
        simp only [MInv, hf]
        rw [if_neg hne2]
        rw [hel] at hrv' hck'
        rw [hel]
        simp [hh0, hh1, hck', hrv']
        omega
      · rename_i hel
        simp only [Option.some.injEq, Prod.mk.injEq] at h; obtain ⟨rfl, rfl⟩ := h
        have hrv' := rview_append x.len x.dedq x.rs hh pos (endPos x.len pos sb) hrv he.1 false
        refine ⟨?_, by simp, by simp⟩
        simp only [MInv, hf]
        simp [hh0, hh1, hck', hrv', hsb, hsbs, htx]
        omega
  | ok => simp [hp] at h
  | failed => simp [hp] at h


theorem minv_fMsg (sys : Nat) (x x' : M) (sd : Side) (hsys : 1000 ≤ sys) (hI : MInv sys x = true)
    (h : fMsg sys x = some (x', sd)) :
    MInv sys x' = true ∧ sd.enqueue = false ∧ x'.rs = x.rs := by
  unfold fMsg at h
  cases hp : x.phase with
  | todo => simp [hp] at h
  | ok => simp [hp] at h
  | failed => simp [hp] at h
  | single =>
    simp only [hp] at h
    cases hf : x.firstHi with
    | some v => simp [MInv, hp, hf] at hI
    | none =>
      simp only [MInv, hp, hf, Bool.and_eq_true, decide_eq_true_eq, Bool.not_eq_true'] at hI
      obtain ⟨⟨⟨hdq, htx⟩, hrs⟩, hlen⟩ := hI
      split at h
      · rename_i sb' hd
        simp only [Option.some.injEq, Prod.mk.injEq] at h; obtain ⟨rfl, rfl⟩ := h
        have hs := downsize_spec _ _ _ hd
        have hb := ffs_lt sys hsys
        have h1000 : 1000 ≤ sb' := hs.2.2.2 (by omega)
        have hb' := ffs_lt sb' h1000
        refine ⟨?_, rfl, rfl⟩
        simp [MInv, hf, hdq, htx, hrs, h1000]
        omega
      · simp only [Option.some.injEq, Prod.mk.injEq] at h; obtain ⟨rfl, rfl⟩ := h
        refine ⟨?_, rfl, rfl⟩
        simp [MInv, hf, hdq, hrs]
  | frag pos sb =>
    simp only [hp] at h
    cases hf : x.firstHi with
    | none =>
      simp only [MInv, hp, hf, Bool.and_eq_true, decide_eq_true_eq, Bool.not_eq_true'] at hI
      obtain ⟨⟨⟨⟨⟨⟨hpos, hdq⟩, htx⟩, hrs⟩, hsb⟩, hsbs⟩, hffs⟩ := hI
      subst hpos
      have hb := ffs_lt sb hsb
      split at h
      · rename_i sb' hd
        simp only [Option.some.injEq, Prod.mk.injEq] at h; obtain ⟨rfl, rfl⟩ := h
        have hs := downsize_spec _ _ _ hd
        simp only [endPos_first] at hs
        have h1000 : 1000 ≤ sb' := hs.2.2.2 (by omega)
        have hb' := ffs_lt sb' h1000
        refine ⟨?_, rfl, rfl⟩
        simp [MInv, hf, hdq, htx, hrs, h1000]
        omega
      · simp only [Option.some.injEq, Prod.mk.injEq] at h; obtain ⟨rfl, rfl⟩ := h
        refine ⟨?_, rfl, rfl⟩
        simp [MInv, hf, hdq, hrs]
    | some hh =>
      simp only [MInv, hp, hf, Bool.and_eq_true, decide_eq_true_eq, Bool.not_eq_true'] at hI
      obtain ⟨⟨⟨⟨⟨⟨⟨⟨⟨hpos, hlt⟩, hsb⟩, hsbs⟩, hh1⟩, hh0⟩, hhp⟩, htx⟩, hck⟩, hrv⟩ := hI
      have he := endPos_follow x.len pos sb sys hpos hlt hsb hsbs
      split at h
      · rename_i sb' hd
        simp only [Option.some.injEq, Prod.mk.injEq] at h; obtain ⟨rfl, rfl⟩ := h
        have hs := downsize_spec _ _ _ hd
        have h1000 : 1000 ≤ sb' := hs.2.2.2 he.2.2.2
        refine ⟨?_, rfl, rfl⟩
        simp [MInv, hf, htx, hck, hrv, h1000, hpos, hlt, hh1, hh0, hhp]
        omega
      · simp only [Option.some.injEq, Prod.mk.injEq] at h; obtain ⟨rfl, rfl⟩ := h
        refine ⟨?_, rfl, rfl⟩
        -- failed with first packet out: receiver sees a strict prefix
        simp only [MInv, hf]
        unfold rview at hrv
        cases hrs : x.rs <;> simp [hrs] at hrv ⊢
        · simp [hh0, hh1, hck, hrv]; omega
        · simp [hh0, hh1, hck, hrv]; omega

theorem minv_kill (sys : Nat) (x x' : M) (hI : MInv sys x = true) (h : killMsg x = some x') :
    MInv sys x' = true ∧ x'.rs = x.rs := by
  unfold killMsg at h
  cases hp : x.phase with
  | ok => simp [hp] at h
  | failed => simp [hp] at h
  | todo => simp only [hp, Option.some.injEq] at h; subst h; exact ⟨hI, rfl⟩
  | single =>
    simp only [hp, Option.some.injEq] at h; subst h
    cases hf : x.firstHi with
    | some v => simp [MInv, hp, hf] at hI
    | none =>
      simp only [MInv, hp, hf, Bool.and_eq_true, decide_eq_true_eq, Bool.not_eq_true'] at hI
      refine ⟨?_, rfl⟩
      simp [MInv, hf, hI.1.1.1, hI.1.2]
  | frag pos sb =>
    simp only [hp, Option.some.injEq] at h; subst h
    cases hf : x.firstHi with
    | none =>
      simp only [MInv, hp, hf, Bool.and_eq_true, decide_eq_true_eq, Bool.not_eq_true'] at hI
      obtain ⟨⟨⟨⟨⟨⟨hpos, hdq⟩, htx⟩, hrs⟩, hsb⟩, hsbs⟩, hffs⟩ := hI
      refine ⟨?_, rfl⟩
      simp [MInv, hf, hdq, hrs]
    | some hh =>
      simp only [MInv, hp, hf, Bool.and_eq_true, decide_eq_true_eq, Bool.not_eq_true'] at hI
      obtain ⟨⟨⟨⟨⟨⟨⟨⟨⟨hpos, hlt⟩, hsb⟩, hsbs⟩, hh1⟩, hh0⟩, hhp⟩, htx⟩, hck⟩, hrv⟩ := hI
      refine ⟨?_, rfl⟩
      simp only [MInv, hf]
      unfold rview at hrv
      cases hrs : x.rs <;> simp [hrs] at hrv ⊢
      · simp [hh0, hh1, hck, hrv]; omega
      · simp [hh0, hh1, hck, hrv]; omega


theorem cover_cons (a p : Nat) (c : Chunk) (r : List Chunk) (h : cover a (c :: r) = some p) :
    c.lo = a ∧ c.lo < c.hi ∧ cover c.hi r = some p := by
  simp only [cover] at h
  split at h
  · rename_i hc; exact ⟨hc.1, hc.2, h⟩
  · simp at h

theorem chunksOk_cons (sys len : Nat) (c : Chunk) (r : List Chunk) (h : chunksOk sys len (c :: r) = true) :
    c.hi ≤ len ∧ c.hi - c.lo ≤ fs sys ∧ chunksOk sys len r = true := by
  simp [chunksOk] at h ⊢
  exact ⟨h.1.1, by omega, h.2⟩

theorem minv_rPop (sys : Nat) (x x' : M) (done : Bool) (hI : MInv sys x = true) (hq : x.rs = .queued)
    (h : rPop x = some (x', done)) :
    MInv sys x' = true ∧ x'.rs ≠ .queued ∧ x'.rs ≠ .corrupt := by
  unfold rPop at h
  cases hf : x.firstHi with
  | none => simp [hf] at h
  | some hh =>
    simp only [hf] at h
    cases hp : x.phase with
    | todo => simp [MInv, hp, hf] at hI
    | single => simp [MInv, hp, hf] at hI
    | frag pos sb =>
      simp only [MInv, hp, hf, Bool.and_eq_true, decide_eq_true_eq, Bool.not_eq_true'] at hI
      obtain ⟨⟨⟨⟨⟨⟨⟨⟨⟨hpos, hlt⟩, hsb⟩, hsbs⟩, hh1⟩, hh0⟩, hhp⟩, htx⟩, hck⟩, hrv⟩ := hI
      have hne : ¬ hh = x.len := by omega
      simp only [hne, if_false, Option.some.injEq, Prod.mk.injEq] at h; obtain ⟨rfl, rfl⟩ := h
      simp only [rview, hq, decide_eq_true_eq] at hrv
      refine ⟨?_, by simp, by simp⟩
      simp [MInv, hp, hf, rview, hpos, hlt, hsb, hsbs, hh1, hh0, hhp, htx, hck, hrv]
      omega
    | ok =>
      simp only [MInv, hp, hf] at hI
      split at h
      · rename_i hel
        simp only [Option.some.injEq, Prod.mk.injEq] at h; obtain ⟨rfl, rfl⟩ := h
        rw [if_pos hel] at hI
        simp only [Bool.and_eq_true, decide_eq_true_eq] at hI
        refine ⟨?_, by simp, by simp⟩
        simp [MInv, hp, hf, hel, hI.1]
      · rename_i hel
        simp only [Option.some.injEq, Prod.mk.injEq] at h; obtain ⟨rfl, rfl⟩ := h
        rw [if_neg hel] at hI
        simp only [Bool.and_eq_true, decide_eq_true_eq, rview, hq] at hI
        obtain ⟨⟨⟨⟨⟨hh0, hhl⟩, hh1⟩, htx⟩, hck⟩, hcov⟩ := hI
        refine ⟨?_, by simp, by simp⟩
        simp [MInv, hp, hf, hel, rview, hh0, hhl, hh1, htx, hck, hcov]
    | failed =>
      simp only [MInv, hp, hf, hq, Bool.and_eq_true, decide_eq_true_eq] at hI
      obtain ⟨⟨⟨⟨⟨hh0, hhl⟩, hh1⟩, htx⟩, hck⟩, hcov⟩ := hI
      have hne : ¬ hh = x.len := by omega
      simp only [hne, if_false, Option.some.injEq, Prod.mk.injEq] at h; obtain ⟨rfl, rfl⟩ := h
      refine ⟨?_, by simp, by simp⟩
      simp [MInv, hp, hf, hh0, hhl, hh1, htx, hck, hcov]

theorem minv_rAsm (sys : Nat) (x x' : M) (done : Bool) (hI : MInv sys x = true)
    (h : rAsm sys x = some (x', done)) :
    MInv sys x' = true ∧ x.rs ≠ .queued ∧ x'.rs ≠ .queued ∧ x'.rs ≠ .corrupt := by
  unfold rAsm at h
  cases hrs : x.rs with
  | none => simp [hrs] at h
  | queued => simp [hrs] at h
  | delivered n => simp [hrs] at h
  | corrupt => simp [hrs] at h
  | discarded => simp [hrs] at h
  | asm got =>
    simp only [hrs] at h
    cases hf : x.firstHi with
    | none =>
      exfalso
      cases hp : x.phase <;> simp [MInv, hp, hf, hrs] at hI
    | some hh =>
      cases hp : x.phase with
      | todo => simp [MInv, hp, hf] at hI
      | single => simp [MInv, hp, hf] at hI
      | frag pos sb =>
        simp only [MInv, hp, hf, Bool.and_eq_true, decide_eq_true_eq, Bool.not_eq_true', rview, hrs] at hI
        obtain ⟨⟨⟨⟨⟨⟨⟨⟨⟨hpos, hlt⟩, hsb⟩, hsbs⟩, hh1⟩, hh0⟩, hhp⟩, htx⟩, hck⟩, ⟨⟨hhg, hgl⟩, hcov⟩⟩ := hI
        cases hd : x.dedq with
        | nil => simp [hd, htx] at h
        | cons c rest =>
          simp only [hd] at h hck hcov
          obtain ⟨hc1, hc2, hc3⟩ := cover_cons _ _ _ _ hcov
          obtain ⟨hk1, hk2, hk3⟩ := chunksOk_cons _ _ _ _ hck
          have hle := cover_le _ _ _ hc3
          have hn : min (c.hi - c.lo) (min (fs sys) (x.len - got)) = c.hi - c.lo := by omega
          have hcond : c.lo = got ∧ min (c.hi - c.lo) (min (fs sys) (x.len - got)) = c.hi - c.lo ∧ 0 < min (c.hi - c.lo) (min (fs sys) (x.len - got)) := by
            refine ⟨hc1, hn, ?_⟩; omega
          rw [if_pos hcond, hn] at h
          have hne : ¬ got + (c.hi - c.lo) = x.len := by omega
          rw [if_neg hne] at h
          simp only [Option.some.injEq, Prod.mk.injEq] at h; obtain ⟨rfl, rfl⟩ := h
          refine ⟨?_, by simp, by simp, by simp⟩
          have e : got + (c.hi - c.lo) = c.hi := by omega
          simp [MInv, hp, hf, rview, e, hpos, hlt, hsb, hsbs, hh1, hh0, hhp, htx, hk3, hc3]
          omega
      | ok =>
        simp only [MInv, hp, hf] at hI
        by_cases hel : hh = x.len
        · rw [if_pos hel] at hI; simp [hrs] at hI
        · rw [if_neg hel] at hI
          simp only [Bool.and_eq_true, decide_eq_true_eq, rview, hrs] at hI
          obtain ⟨⟨⟨⟨⟨hh0, hhl⟩, hh1⟩, htx⟩, hck⟩, ⟨⟨hhg, hgl⟩, hcov⟩⟩ := hI
          cases hd : x.dedq with
          | nil => simp [hd, cover] at hcov; omega
          | cons c rest =>
            simp only [hd] at h hck hcov
            obtain ⟨hc1, hc2, hc3⟩ := cover_cons _ _ _ _ hcov
            obtain ⟨hk1, hk2, hk3⟩ := chunksOk_cons _ _ _ _ hck
            have hn : min (c.hi - c.lo) (min (fs sys) (x.len - got)) = c.hi - c.lo := by omega
            have hcond : c.lo = got ∧ min (c.hi - c.lo) (min (fs sys) (x.len - got)) = c.hi - c.lo ∧ 0 < min (c.hi - c.lo) (min (fs sys) (x.len - got)) := by
              refine ⟨hc1, hn, ?_⟩; omega
            rw [if_pos hcond, hn] at h
            have e : got + (c.hi - c.lo) = c.hi := by omega
            split at h
            · rename_i hfin
              simp only [Option.some.injEq, Prod.mk.injEq] at h; obtain ⟨rfl, rfl⟩ := h
              refine ⟨?_, by simp, by simp, by simp⟩
              simp [MInv, hp, hf, hel, rview, hfin, hh0, hhl, hh1, htx, hk3]
            · rename_i hfin
              simp only [Option.some.injEq, Prod.mk.injEq] at h; obtain ⟨rfl, rfl⟩ := h
              refine ⟨?_, by simp, by simp, by simp⟩
              simp [MInv, hp, hf, hel, rview, e, hh0, hhl, hh1, htx, hk3, hc3]
              omega
      | failed =>
        simp only [MInv, hp, hf, hrs, Bool.and_eq_true, decide_eq_true_eq] at hI
        obtain ⟨⟨⟨⟨⟨hh0, hhl⟩, hh1⟩, htx⟩, hck⟩, ⟨hhg, hcov⟩⟩ := hI
        cases hd : x.dedq with
        | nil =>
          simp only [hd, htx, if_true, Option.some.injEq, Prod.mk.injEq] at h; obtain ⟨rfl, rfl⟩ := h
          refine ⟨?_, by simp, by simp, by simp⟩
          simp [MInv, hp, hf, hh0, hhl, hh1, htx, hd, chunksOk]
        | cons c rest =>
          simp only [hd] at h hck hcov
          cases hcv : cover got (c :: rest) with
          | none => simp [hcv] at hcov
          | some p =>
            simp only [hcv, decide_eq_true_eq] at hcov
            obtain ⟨hc1, hc2, hc3⟩ := cover_cons _ _ _ _ hcv
            obtain ⟨hk1, hk2, hk3⟩ := chunksOk_cons _ _ _ _ hck
            have hle := cover_le _ _ _ hc3
            have hn : min (c.hi - c.lo) (min (fs sys) (x.len - got)) = c.hi - c.lo := by omega
            have hcond : c.lo = got ∧ min (c.hi - c.lo) (min (fs sys) (x.len - got)) = c.hi - c.lo ∧ 0 < min (c.hi - c.lo) (min (fs sys) (x.len - got)) := by
              refine ⟨hc1, hn, ?_⟩; omega
            rw [if_pos hcond, hn] at h
            have hne : ¬ got + (c.hi - c.lo) = x.len := by omega
            rw [if_neg hne] at h
            simp only [Option.some.injEq, Prod.mk.injEq] at h; obtain ⟨rfl, rfl⟩ := h
            refine ⟨?_, by simp, by simp, by simp⟩
            have e : got + (c.hi - c.lo) = c.hi := by omega
            simp [MInv, hp, hf, e, hh0, hhl, hh1, htx, hk3, hc3, hcov]
            omega


-- state level ----------------------------------------------------------------------------------
theorem sinv_set (st st' : St) (m : Nat) (x x' : M)
    (hS : SInv st) (hm : st.msgs[m]? = some x) (hI' : MInv st.sys x' = true)
    (hsys : st'.sys = st.sys) (hmsgs : st'.msgs = st.msgs.set m x')
    (hnd : st'.mainq.Nodup)
    (hq : ∀ k, k ∈ st'.mainq → (k = m ∧ x'.rs = .queued) ∨ (k ≠ m ∧ k ∈ st.mainq)) : SInv st' := by
  obtain ⟨h1, h2, h3, h4⟩ := hS
  have hlt : m < st.msgs.length := (List.getElem?_eq_some_iff.mp hm).1
  refine ⟨by rw [hsys]; exact h1, ?_, ?_, hnd⟩
  · intro k y hk
    rw [hmsgs] at hk
    by_cases hkm : k = m
    · subst hkm
      rw [List.getElem?_set_self hlt] at hk
      cases hk; rw [hsys]; exact hI'
    · rw [List.getElem?_set_ne (Ne.symm hkm)] at hk
      rw [hsys]; exact h2 k y hk
  · intro k hk
    rcases hq k hk with ⟨rfl, hr⟩ | ⟨hne, hin⟩
    · exact ⟨x', by rw [hmsgs, List.getElem?_set_self hlt], hr⟩
    · obtain ⟨y, hy, hyq⟩ := h3 k hin
      exact ⟨y, by rw [hmsgs, List.getElem?_set_ne (Ne.symm hne)]; exact hy, hyq⟩

theorem sinv_sender (st : St) (t m : Nat) (x x' : M) (sd : Side)
    (hS : SInv st) (hm : st.msgs[m]? = some x) (hI' : MInv st.sys x' = true)
    (he : sd.enqueue = true → x.rs = .none ∧ x'.rs = .queued) (hne : sd.enqueue = false → x'.rs = x.rs) :
    SInv (applySender st t m x' sd) := by
  have hS' := hS
  obtain ⟨h1, h2, h3, h4⟩ := hS
  refine sinv_set st _ m x x' hS' hm hI' (by rfl) (by rfl) ?_ ?_
  · simp only [applySender]
    cases hen : sd.enqueue
    · simpa using h4
    · simp only [if_true]
      have hnot : m ∉ st.mainq := by
        intro hin
        obtain ⟨y, hy, hyq⟩ := h3 m hin
        rw [hm] at hy; cases hy
        rw [(he hen).1] at hyq; cases hyq
      exact List.nodup_append.mpr ⟨h4, by simp, by
        intro a ha b hb; simp at hb; subst hb; intro hab; subst hab; exact hnot ha⟩
  · intro k hk
    simp only [applySender] at hk
    cases hen : sd.enqueue
    · simp only [hen] at hk
      by_cases hkm : k = m
      · subst hkm
        left; refine ⟨rfl, ?_⟩
        obtain ⟨y, hy, hyq⟩ := h3 k hk
        rw [hm] at hy; cases hy
        rw [hne hen]; exact hyq
      · right; exact ⟨hkm, by simpa using hk⟩
    · simp only [hen, if_true, List.mem_append, List.mem_singleton] at hk
      rcases hk with hk | hk
      · right
        refine ⟨?_, hk⟩
        intro hkm; subst hkm
        obtain ⟨y, hy, hyq⟩ := h3 k hk
        rw [hm] at hy; cases hy
        rw [(he hen).1] at hyq; cases hyq
      · left; exact ⟨hk, (he hen).2⟩

theorem sinv_step (st st' : St) (a : Act) (hS : SInv st) (h : step st a = some st') : SInv st' := by
  have hsys := hS.1
  cases a with
  | s t =>
    simp only [step] at h
    split at h; · simp at h
    rename_i m _
    split at h; · simp at h
    rename_i x hm
    split at h; · simp at h
    rename_i x' sd hs
    simp only [Option.some.injEq] at h; subst h
    have hI := hS.2.1 m x hm
    obtain ⟨hI', he, hne⟩ := minv_sMsg st.sys x x' sd hsys hI hs
    exact sinv_sender st t m x x' sd hS hm hI' he hne
  | f t =>
    simp only [step] at h
    split at h; · simp at h
    rename_i m _
    split at h; · simp at h
    rename_i x hm
    split at h; · simp at h
    rename_i x' sd hs
    simp only [Option.some.injEq] at h; subst h
    have hI := hS.2.1 m x hm
    obtain ⟨hI', he, hr⟩ := minv_fMsg st.sys x x' sd hsys hI hs
    exact sinv_sender st t m x x' sd hS hm hI' (by rw [he]; simp) (fun _ => hr)
  | x t =>
    simp only [step] at h
    split at h; · simp at h
    rename_i m _
    split at h; · simp at h
    rename_i x hm
    split at h
    · simp at h
    · rename_i x' _ _
      have hk : killMsg x = some x' := by assumption
      simp only [Option.some.injEq] at h; subst h
      have hI := hS.2.1 m x hm
      obtain ⟨hI', hr⟩ := minv_kill st.sys x x' hI hk
      exact sinv_sender st t m x x' ⟨false, true⟩ hS hm hI' (by simp) (fun _ => hr)
    · simp at h
  | crash t =>
    simp only [step] at h
    split at h; · simp at h
    rename_i m _
    split at h; · simp at h
    rename_i x hm
    split at h
    · rename_i x' hk
      simp only [Option.some.injEq] at h; subst h
      have hI := hS.2.1 m x hm
      obtain ⟨hI', hr⟩ := minv_kill st.sys x x' hI hk
      refine sinv_set st _ m x x' hS hm hI' (by rfl) (by rfl) hS.2.2.2 ?_
      intro k hk'
      by_cases hkm : k = m
      · subst hkm; left; refine ⟨rfl, ?_⟩
        obtain ⟨y, hy, hyq⟩ := hS.2.2.1 k hk'
        rw [hm] at hy; cases hy; rw [hr]; exact hyq
      · right; exact ⟨hkm, hk'⟩
    · simp at h
  | r =>
    simp only [step] at h
    split at h
    · -- cur = none: pop
      split at h; · simp at h
      rename_i m q hmq
      split at h; · simp at h
      rename_i x hm
      split at h; · simp at h
      rename_i x' done hp
      simp only [Option.some.injEq] at h; subst h
      have hI := hS.2.1 m x hm
      have hin : m ∈ st.mainq := by rw [hmq]; simp
      obtain ⟨y, hy, hyq⟩ := hS.2.2.1 m hin
      rw [hm] at hy; cases hy
      obtain ⟨hI', hnq, _⟩ := minv_rPop st.sys x x' done hI hyq hp
      have hnd : (m :: q).Nodup := by rw [← hmq]; exact hS.2.2.2
      refine sinv_set st _ m x x' hS hm hI' (by rfl) (by rfl) ?_ ?_
      · exact (List.nodup_cons.mp hnd).2
      · intro k hk
        right
        refine ⟨?_, by rw [hmq]; exact List.mem_cons_of_mem _ hk⟩
        intro hkm; subst hkm; exact (List.nodup_cons.mp hnd).1 hk
    · rename_i m _
      split at h; · simp at h
      rename_i x hm
      split at h; · simp at h
      rename_i x' done hp
      simp only [Option.some.injEq] at h; subst h
      have hI := hS.2.1 m x hm
      obtain ⟨hI', hxq, hnq, _⟩ := minv_rAsm st.sys x x' done hI hp
      refine sinv_set st _ m x x' hS hm hI' (by rfl) (by rfl) hS.2.2.2 ?_
      intro k hk
      right
      refine ⟨?_, hk⟩
      intro hkm; subst hkm
      obtain ⟨y, hy, hyq⟩ := hS.2.2.1 k hk
      rw [hm] at hy; cases hy; exact hxq hyq

def run : St → List Act → Option St
  | st, [] => some st
  | st, a :: as => match step st a with | some st' => run st' as | none => none

theorem sinv_run (st st' : St) (as : List Act) (hS : SInv st) (h : run st as = some st') : SInv st' := by
  induction as generalizing st with
  | nil => simp [run] at h; subst h; exact hS
  | cons a as ih =>
    simp only [run] at h
    split at h
    · rename_i st1 h1; exact ih st1 (sinv_step st st1 a hS h1) h
    · simp at h

def init (sys : Nat) (lens : List Nat) (threads : List (List Nat)) : St :=
  { sys, msgs := lens.map (fun l => ⟨l, .todo, none, [], false, .none⟩), threads, mainq := [], cur := none, firstOrder := [] }

theorem sinv_init (sys : Nat) (lens : List Nat) (threads : List (List Nat)) (h : 1000 ≤ sys) : SInv (init sys lens threads) := by
  refine ⟨h, ?_, by simp [init], by simp [init]⟩
  intro m x hm
  simp only [init, List.getElem?_map] at hm
  cases hl : lens[m]? with
  | none => simp [hl] at hm
  | some l => simp [hl] at hm; subst hm; simp [MInv]

/-- **C02/C12/C13 safety, all schedules**: for any number of sender threads and messages, any lengths, any send-buffer size ≥ 1000,
    any interleaving of sender steps, ENOBUFS faults, fatal errors, sender crashes and receiver steps:
    no message is ever delivered corrupt; a delivered message has exactly its own `len` bytes and its send returned Ok;
    a discarded message belongs to a failed send. -/
theorem delivery_safe (sys : Nat) (lens : List Nat) (threads : List (List Nat)) (hsys : 1000 ≤ sys)
    (as : List Act) (st : St) (h : run (init sys lens threads) as = some st) (m : Nat) (x : M) (hm : st.msgs[m]? = some x) :
    x.rs ≠ .corrupt ∧ (∀ n, x.rs = .delivered n → n = x.len ∧ x.phase = .ok) ∧ (x.rs = .discarded → x.phase = .failed) ∧
    (x.phase = .ok → x.rs ≠ .discarded) := by
  have hS := sinv_run _ _ as (sinv_init sys lens threads hsys) h
  have hI := hS.2.1 m x hm
  refine ⟨?_, ?_, ?_, ?_⟩
  · intro hc
    cases hp : x.phase <;> cases hf : x.firstHi <;> simp [MInv, hp, hf, hc, rview] at hI
    all_goals (split at hI <;> simp_all [rview])
  · intro n hn
    cases hp : x.phase <;> cases hf : x.firstHi <;> simp [MInv, hp, hf, hn, rview] at hI
    all_goals (try (split at hI <;> simp_all [rview]))
    all_goals omega
  · intro hd
    cases hp : x.phase <;> cases hf : x.firstHi <;> simp [MInv, hp, hf, hd, rview] at hI
    all_goals (try (split at hI <;> simp_all [rview]))
    all_goals (try rfl)
  · intro hok hd
    cases hf : x.firstHi <;> simp [MInv, hok, hf, hd, rview] at hI
    all_goals (try (split at hI <;> simp_all [rview]))

end IM
