import IpcModel.Interleave.HB
import IpcModel.Lemmas.Arith
/-! The interleaving model uses closed forms of the packet-capacity functions; these lemmas, re-proved on every run, tie
them to the definitions *generated* from the Rust source. -/
namespace IM

theorem fs_is_gen (sb : Nat) : fs sb = Gen.fragmentSize sb := by
  rw [Arith.fs_eq]; rfl

theorem ffs_is_gen (sb : Nat) (h : sb < 2^64) : ffs sb = Gen.firstFragmentSize sb := by
  rw [Arith.ffs_eq sb h]; rfl

theorem downsize_is_gen (sb n : Nat) : downsize sb n = Gen.downsize sb n := by
  unfold downsize Gen.downsize; rfl

theorem endPos_is_gen (len pos sb : Nat) (h : sb < 2^64) :
    endPos len pos sb = if pos = 0 then Gen.endFirst sb else Gen.endFollow len pos sb := by
  unfold endPos Gen.endFirst Gen.endFollow
  rw [ffs_is_gen sb h, fs_is_gen]

/-- the single-packet test of the model is the generated one -/
theorem single_is_gen (sys len : Nat) (h : sys < 2^64) : decide (len ≤ ffs sys) = Gen.singleTest sys len := by
  unfold Gen.singleTest; rw [ffs_is_gen sys h]

/-- the receiver's follow-up read size of the model is the generated one -/
theorem want_is_gen (sys len got : Nat) (h : got ≤ len) :
    min (fs sys) (len - got) = Gen.recvEnd sys got len - got := by
  unfold Gen.recvEnd; rw [fs_is_gen]; omega

end IM
