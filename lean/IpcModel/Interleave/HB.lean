import IpcModel.Interleave.Order
namespace IM

def finished (x : M) : Prop := x.phase = .ok ∨ x.phase = .failed

/-- the first-packet order only ever grows at the end -/
theorem firstOrder_prefix (st st' : St) (a : Act) (h : step st a = some st') : st.firstOrder <+: st'.firstOrder := by
  cases a with
  | s t =>
    simp only [step] at h
    split at h; · simp at h
    split at h; · simp at h
    split at h; · simp at h
    rename_i x' sd _
    simp only [Option.some.injEq] at h; subst h
    simp only [applySender]; split <;> simp
  | f t =>
    simp only [step] at h
    split at h; · simp at h
    split at h; · simp at h
    split at h; · simp at h
    simp only [Option.some.injEq] at h; subst h
    simp only [applySender]; split <;> simp
  | x t =>
    simp only [step] at h
    split at h; · simp at h
    split at h; · simp at h
    split at h
    · simp at h
    · simp only [Option.some.injEq] at h; subst h; simp [applySender]
    · simp at h
  | crash t =>
    simp only [step] at h
    split at h; · simp at h
    split at h; · simp at h
    split at h
    · simp only [Option.some.injEq] at h; subst h; simp
    · simp at h
  | r =>
    simp only [step] at h
    split at h
    · split at h; · simp at h
      split at h; · simp at h
      split at h; · simp at h
      simp only [Option.some.injEq] at h; subst h; simp
    · split at h; · simp at h
      split at h; · simp at h
      simp only [Option.some.injEq] at h; subst h; simp

theorem firstOrder_prefix_run (st st' : St) (as : List Act) (h : run st as = some st') : st.firstOrder <+: st'.firstOrder := by
  induction as generalizing st with
  | nil => simp [run] at h; subst h; exact List.prefix_refl _
  | cons a as ih =>
    simp only [run] at h
    split at h
    · rename_i st1 h1; exact List.IsPrefix.trans (firstOrder_prefix st st1 a h1) (ih st1 h)
    · simp at h


/-- a message whose send has returned without its first packet ever being enqueued is never touched again -/
theorem finished_none_stable (st st' : St) (act : Act) (a : Nat) (x : M) (hS : SInv st)
    (h : step st act = some st') (ha : st.msgs[a]? = some x) (hfin : finished x) (hrs : x.rs = .none) :
    st'.msgs[a]? = some x := by
  have hph : sMsg st.sys x = none ∧ fMsg st.sys x = none ∧ killMsg x = none := by
    rcases hfin with h | h <;> simp [sMsg, fMsg, killMsg, h]
  cases act with
  | s t =>
    simp only [step] at h
    split at h; · simp at h
    rename_i m _
    split at h; · simp at h
    rename_i y hm
    split at h; · simp at h
    rename_i y' sd hs
    simp only [Option.some.injEq] at h; subst h
    by_cases hma : a = m
    · subst hma; rw [ha] at hm; cases hm; rw [hph.1] at hs; cases hs
    · simp [applySender, List.getElem?_set_ne (Ne.symm hma), ha]
  | f t =>
    simp only [step] at h
    split at h; · simp at h
    rename_i m _
    split at h; · simp at h
    rename_i y hm
    split at h; · simp at h
    rename_i y' sd hs
    simp only [Option.some.injEq] at h; subst h
    by_cases hma : a = m
    · subst hma; rw [ha] at hm; cases hm; rw [hph.2.1] at hs; cases hs
    · simp [applySender, List.getElem?_set_ne (Ne.symm hma), ha]
  | x t =>
    simp only [step] at h
    split at h; · simp at h
    rename_i m _
    split at h; · simp at h
    rename_i y hm
    split at h
    · simp at h
    · rename_i y' _ _
      have hk : killMsg y = some y' := by assumption
      simp only [Option.some.injEq] at h; subst h
      by_cases hma : a = m
      · subst hma; rw [ha] at hm; cases hm; rw [hph.2.2] at hk; cases hk
      · simp [applySender, List.getElem?_set_ne (Ne.symm hma), ha]
    · simp at h
  | crash t =>
    simp only [step] at h
    split at h; · simp at h
    rename_i m _
    split at h; · simp at h
    rename_i y hm
    split at h
    · rename_i y' hk
      simp only [Option.some.injEq] at h; subst h
      by_cases hma : a = m
      · subst hma; rw [ha] at hm; cases hm; rw [hph.2.2] at hk; cases hk
      · simp [List.getElem?_set_ne (Ne.symm hma), ha]
    · simp at h
  | r =>
    simp only [step] at h
    split at h
    · split at h; · simp at h
      rename_i m q hmq
      split at h; · simp at h
      rename_i y hm
      split at h; · simp at h
      simp only [Option.some.injEq] at h; subst h
      by_cases hma : a = m
      · subst hma
        have hin : a ∈ st.mainq := by rw [hmq]; simp
        obtain ⟨z, hz, hzq⟩ := hS.2.2.1 a hin
        rw [ha] at hz; cases hz; rw [hrs] at hzq; cases hzq
      · simp [List.getElem?_set_ne (Ne.symm hma), ha]
    · rename_i m _
      split at h; · simp at h
      rename_i y hm
      split at h; · simp at h
      rename_i y' done hp
      simp only [Option.some.injEq] at h; subst h
      by_cases hma : a = m
      · subst hma; rw [ha] at hm; cases hm
        have := (rAsm_class st.sys x y' done hp).1
        simp [isAsm, hrs] at this
      · simp [List.getElem?_set_ne (Ne.symm hma), ha]

theorem finished_none_stable_run (st st' : St) (as : List Act) (a : Nat) (x : M) (hS : SInv st)
    (h : run st as = some st') (ha : st.msgs[a]? = some x) (hfin : finished x) (hrs : x.rs = .none) :
    st'.msgs[a]? = some x := by
  induction as generalizing st with
  | nil => simp [run] at h; subst h; exact ha
  | cons act as ih =>
    simp only [run] at h
    split at h
    · rename_i st1 h1
      exact ih st1 (sinv_step st st1 act hS h1) h (finished_none_stable st st1 act a x hS h1 ha hfin hrs)
    · simp at h

/-- **happened-before**: if at some point of the execution a's send has returned and b's send has not begun,
    and later both have their first packet on the channel, then a's precedes b's. -/
theorem happened_before (sys : Nat) (lens : List Nat) (threads : List (List Nat)) (hsys : 1000 ≤ sys)
    (as₁ as₂ : List Act) (st₁ st₂ : St)
    (h₁ : run (init sys lens threads) as₁ = some st₁) (h₂ : run st₁ as₂ = some st₂)
    (a b : Nat) (xa xb : M) (ha : st₁.msgs[a]? = some xa) (hb : st₁.msgs[b]? = some xb)
    (hfin : finished xa) (htodo : xb.phase = .todo)
    (ha₂ : a ∈ st₂.firstOrder) (hb₂ : b ∈ st₂.firstOrder) :
    ∃ l₁ l₂ l₃, st₂.firstOrder = l₁ ++ a :: l₂ ++ b :: l₃ := by
  obtain ⟨hS, hO⟩ := inv_run _ _ as₁ (sinv_init sys lens threads hsys) (oinv_init sys lens threads) h₁
  -- b has not started: not in the order yet
  have hb₁ : b ∉ st₁.firstOrder := by
    intro hin
    have hI := hS.2.1 b xb hb
    have hrs := (hO.2.2.1 b xb hb).mp hin
    cases hf : xb.firstHi <;> simp [MInv, htodo, hf] at hI
    exact hrs hI.2
  have ha₁ : a ∈ st₁.firstOrder := by
    by_cases hin : a ∈ st₁.firstOrder
    · exact hin
    · exfalso
      have hrs : xa.rs = .none := by
        by_cases hr : xa.rs = .none
        · exact hr
        · exact absurd ((hO.2.2.1 a xa ha).mpr hr) hin
      have hst := finished_none_stable_run st₁ st₂ as₂ a xa hS h₂ ha hfin hrs
      obtain ⟨_, hO₂⟩ := inv_run _ _ as₂ hS hO h₂
      exact ((hO₂.2.2.1 a xa hst).mp ha₂) hrs
  obtain ⟨rest, hrest⟩ := firstOrder_prefix_run st₁ st₂ as₂ h₂
  have hbr : b ∈ rest := by
    rw [← hrest] at hb₂
    rcases List.mem_append.mp hb₂ with h | h
    · exact absurd h hb₁
    · exact h
  obtain ⟨p, q, hpq⟩ := List.append_of_mem ha₁
  obtain ⟨u, v, huv⟩ := List.append_of_mem hbr
  refine ⟨p, q ++ u, v, ?_⟩
  rw [← hrest, hpq, huv]; simp [List.append_assoc]

end IM
