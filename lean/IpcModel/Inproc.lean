import IpcModel.GenInproc
/-!
# In-process transport: from the answer of the queue to the answer of the API

The in-process transport (`src/platform/inprocess/mod.rs`, feature `force-inprocess`) keeps one crossbeam queue per channel.
A receive makes one crossbeam call and maps its outcome to a platform error, which `ipc.rs` maps to the public error.
`Gen.inprocCall_*` / `Gen.inprocArms_*` are that call and the arms of that mapping, regenerated from the source on every run;
this file interprets them (first matching arm, as `match` does) and states what the public API answers for every outcome.

Trusted: crossbeam's queue itself (its outcomes are the `XB` below: `disconnected` only when the queue is empty and every
sender is gone — which is the `Ideal` model's rule and is compared with the real in-process build by the `world` scenario).
-/
namespace Inproc
open Gen

/-- what the crossbeam call can answer -/
inductive XB | msg | empty | timeout | disconnected
deriving Repr, DecidableEq

/-- which outcomes each crossbeam call has: `recv` blocks (message or disconnected), `try_recv` adds empty, `recv_timeout` adds time-out -/
def possible : XCall → XB → Bool
  | _, .msg => true
  | _, .disconnected => true
  | .tryRecv, .empty => true
  | .recvTimeout, .timeout => true
  | _, _ => false

def patMatches : XPat → XB → Bool
  | .any, x => x != .msg
  | .empty, .empty => true
  | .timeout, .timeout => true
  | .disconnected, .disconnected => true
  | _, _ => false

/-- first arm that matches (Rust `match`); `none`: no arm — the real code would not compile, the model refuses -/
def firstArm : List (XPat × CErr) → XB → Option CErr
  | [], _ => none
  | (p, e) :: rest, x => if patMatches p x then some e else firstArm rest x

/-- public answers -/
inductive Answer | message | empty | disconnected | otherError | refused
deriving Repr, DecidableEq

/-- `From<ChannelError> for TryRecvError / IpcError`, as far as the flags regenerated from the source pin it down: with the flag
off the mapping is unknown and the model refuses -/
def publicOf (convOk : Bool) : CErr → Answer
  | .closed => if convOk then .disconnected else .refused
  | .empty => if convOk then .empty else .refused
  | _ => if convOk then .otherError else .refused

def answer (arms : List (XPat × CErr)) (convOk : Bool) (x : XB) : Answer :=
  match x with
  | .msg => .message
  | x => match firstArm arms x with
    | some e => publicOf convOk e
    | none => .refused

/-- what the API has to answer -/
def spec : XB → Answer
  | .msg => .message
  | .empty => .empty
  | .timeout => .empty
  | .disconnected => .disconnected

def armsOf : XCall → List (XPat × CErr)
  | .recv => inprocArms_recv
  | .tryRecv => inprocArms_tryRecv
  | .recvTimeout => inprocArms_recvTimeout

def callOf : XCall → XCall
  | .recv => inprocCall_recv
  | .tryRecv => inprocCall_tryRecv
  | .recvTimeout => inprocCall_recvTimeout

/-- the code as it is now -/
def codeAnswer (c : XCall) (x : XB) : Answer :=
  answer (armsOf c) (inprocConvIpcError && inprocConvTryRecvError) x

/-- **every receive flavour of the in-process transport answers exactly what its queue said**: a message for a message, empty
for empty or timed out, disconnected for disconnected — for every flavour and every outcome that flavour's crossbeam call has;
and each flavour makes the call it is named after. -/
theorem code_answers (c : XCall) (x : XB) (h : possible c x = true) : codeAnswer c x = spec x ∧ callOf c = c := by
  cases c <;> cases x <;> first | (exact absurd h (by decide)) | decide

/-- consequences used by the properties: disconnection is reported iff the queue said so; "empty" never hides a disconnection -/
theorem disconnected_iff (c : XCall) (x : XB) (h : possible c x = true) : codeAnswer c x = .disconnected ↔ x = .disconnected := by
  rw [(code_answers c x h).1]; cases x <;> simp [spec]

theorem empty_iff (c : XCall) (x : XB) (h : possible c x = true) : codeAnswer c x = .empty ↔ (x = .empty ∨ x = .timeout) := by
  rw [(code_answers c x h).1]; cases x <;> simp [spec]

/-- sensitivity: the mappings of seeded changes C03-5 (`Err(_) => ChannelEmpty` after a fast path) and C10-5 (`Err(_) => closed`
for the timed wait) give wrong answers -/
example : answer [(.any, .empty)] true .disconnected = .empty := by decide
example : answer [(.any, .closed)] true .timeout = .disconnected := by decide

/-- statement facts of the in-process transport, regenerated from the source: the queue is unbounded (a send never waits),
`consume` empties the handle it is called on, `send` is one queue operation passing data, channels and regions on as given,
and adding a receiver to a set moves it -/
theorem shape : inprocUnbounded = true ∧ inprocConsumeTakes = true ∧ inprocSendPassesThrough = true ∧ inprocAddMoves = true := by decide

end Inproc
