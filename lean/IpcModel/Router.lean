import IpcModel.GenRouter
/-!
# L7 `Router` — the router thread as a pure event processor, and the proxy that feeds it

`step` is the body of `Router::run` for one element of a `select()` batch; `run = foldl step`.
`Variant` flags reproduce the code before the `fix:` commits: `breakInnerOnly` (the `break` on `Shutdown` only left the
inner loop: handlers kept and invoked), `panicOnWakeClosed` (`ChannelClosed(wakeup id)` hit `handlers.remove(..).unwrap()`),
`ackBeforeDrop`, `oneMsgPerWake` (one wake-up message per request and one blocking `recv` per wake-up: the wake-up channel
fills up when a callback registers routes faster than the router returns to `select`).  The theorems are about `fixed`:
a wake-up makes the router serve *everything* queued (`drainQ`), and an empty queue is not an error.
-/
namespace Router

structure Variant where
  breakInnerOnly : Bool
  panicOnWakeClosed : Bool
  ackBeforeDrop : Bool
  oneMsgPerWake : Bool
  fwdUnwraps : Bool      -- the library's crossbeam-forwarding handler `unwrap`s the decode result (D19)
deriving Repr, DecidableEq

def fixed : Variant := ⟨false, false, false, false, false⟩
def legacy : Variant := ⟨true, true, true, true, true⟩
/-- the variant the translator reads from `src/router.rs` now (`GenRouter`: order of statements in the wake-up and `Shutdown` arms,
the dedicated arm for a closed wake-up channel) -/
def codeVariant : Variant := ⟨Gen.vBreakInnerOnly, Gen.vPanicOnWakeClosed, Gen.vAckBeforeDrop, Gen.vOneMsgPerWake, Gen.vFwdUnwraps⟩

inductive RMsg | addRoute (r : Nat) | shutdown (caller : Nat)
deriving Repr, DecidableEq

/-- one element of a select() batch -/
inductive Ev
  | wake                    -- message on the wake-up channel
  | wakeClosed              -- the wake-up channel was closed (proxy dropped)
  | msg (id tag : Nat)      -- message on the member with receiver-set id `id`
  | closed (id : Nat)       -- that member's channel closed
  | badFwd (id : Nat)       -- a message that does not decode as the route's type, on a member whose handler is the library's
                            -- crossbeam-forwarding closure (on a user callback route the callback gets the `Err`: an ordinary `msg`)
deriving Repr, DecidableEq

inductive Eff | invoke (r tag : Nat) | dropH (r : Nat) | ack (caller : Nat) | stop | panic
deriving Repr, DecidableEq

structure St where
  handlers : List (Nat × Nat)    -- (receiver-set id, route)
  nextId : Nat                   -- ids handed out by the receiver set (the wake-up channel has id 0)
  msgq : List RMsg               -- crossbeam queue from the proxy
  stopped : Bool
  log : List Eff
deriving Repr, DecidableEq

def init : St := ⟨[], 1, [], false, []⟩

def lookup (h : List (Nat × Nat)) (id : Nat) : Option Nat := (h.find? (·.1 = id)).map (·.2)

def dropAll (st : St) : St := { st with log := st.log ++ st.handlers.map (fun p => Eff.dropH p.2), handlers := [] }

/-- serve the proxy's queue (repaired code): everything that is queued, in order; a shutdown request ends the router -/
def drainQ (st : St) : List RMsg → St
  | [] => { st with msgq := [] }
  | .addRoute r :: q => drainQ { st with handlers := st.handlers ++ [(st.nextId, r)], nextId := st.nextId + 1 } q
  | .shutdown c :: q =>
    let st := dropAll { st with msgq := q }
    { st with log := st.log ++ [.ack c, .stop], stopped := true }

/-- `Router::run`'s body for one event -/
def step (V : Variant) (st : St) (e : Ev) : St :=
  if st.stopped then st else
  match e with
  | .wake =>
    if !V.oneMsgPerWake then drainQ st st.msgq else
    match st.msgq with
    | [] => { st with log := st.log ++ [.panic] }            -- would block forever on msg_receiver.recv(): contract violation
    | .addRoute r :: q => { st with msgq := q, handlers := st.handlers ++ [(st.nextId, r)], nextId := st.nextId + 1 }
    | .shutdown c :: q =>
      if V.breakInnerOnly then { st with msgq := q, log := st.log ++ [.ack c] }      -- keeps running with all handlers
      else if V.ackBeforeDrop then
        let st := dropAll { st with msgq := q, log := st.log ++ [.ack c] }
        { st with log := st.log ++ [.stop], stopped := true }
      else
        let st := dropAll { st with msgq := q }
        { st with log := st.log ++ [.ack c, .stop], stopped := true }
  | .wakeClosed =>
    if V.panicOnWakeClosed then { st with log := st.log ++ [.panic], stopped := true }
    else
      let st := dropAll st
      { st with log := st.log ++ [.stop], stopped := true }
  | .msg id tag =>
    match lookup st.handlers id with
    | some r => { st with log := st.log ++ [.invoke r tag] }
    | none => { st with log := st.log ++ [.panic] }           -- handlers.get_mut(&id).unwrap()
  | .closed id =>
    match lookup st.handlers id with
    | some r => { st with handlers := st.handlers.filter (·.1 ≠ id), log := st.log ++ [.dropH r] }
    | none => { st with log := st.log ++ [.panic] }
  | .badFwd id =>
    match lookup st.handlers id with
    | some _ => if V.fwdUnwraps then { st with log := st.log ++ [.panic] } else st    -- repaired: the message is dropped
    | none => { st with log := st.log ++ [.panic] }

def run (V : Variant) (st : St) (es : List Ev) : St := es.foldl (step V) st

/-- contract on the event stream (from C06 and the proxy's pairing of wake-ups with queued messages):
a `msg`/`closed` event only for a currently registered id; a `wake` only when a proxy message is queued -/
def okEv (st : St) : Ev → Prop
  | .wake => True                    -- a wake-up with nothing queued is harmless in the repaired code
  | .wakeClosed => True
  | .msg id _ => (lookup st.handlers id).isSome
  | .closed id => (lookup st.handlers id).isSome
  | .badFwd id => (lookup st.handlers id).isSome

def okRun (V : Variant) : St → List Ev → Prop
  | _, [] => True
  | st, e :: es => (st.stopped = true ∨ okEv st e) ∧ okRun V (step V st e) es

def noPanic (st : St) : Prop := Eff.panic ∉ st.log

/-! ## a sequential client driving the proxy (used by the correspondence check)

Client operations, executed one after the other with the router quiescent in between; each operation is turned into the
events the router thread will see.  Routes are numbered by the client; `ids` maps a route to its receiver-set id. -/

inductive Op
  | addRoute (r : Nat)            -- RouterProxy::add_route (a fresh channel for route r)
  | send (r tag : Nat)            -- send on route r's channel
  | dropSender (r : Nat)          -- drop the (only) sender of route r's channel
  | badFwd (r : Nat)              -- an undecodable message on route r, a crossbeam-forwarding route
  | shutdown
  | dropProxy
deriving Repr, DecidableEq

structure World where
  st : St
  flag : Bool                     -- RouterProxyComm::shutdown
  proxyAlive : Bool
  ids : List (Nat × Nat)          -- (route, receiver-set id) for routes that reached the router
  refused : List Nat              -- routes offered after the flag: receiver and callback dropped by the proxy
  backlog : List (Nat × Nat)      -- messages sent on a route before the router registered it (not used sequentially)
deriving Repr

def World.init : World := ⟨Router.init, false, true, [], [], []⟩

def idOf (w : World) (r : Nat) : Option Nat := (w.ids.find? (·.1 = r)).map (·.2)

def World.op (V : Variant) (w : World) : Op → World
  | .addRoute r =>
    if w.flag || !w.proxyAlive then { w with refused := w.refused ++ [r] }
    else
      let id := w.st.nextId
      let st := step V { w.st with msgq := w.st.msgq ++ [.addRoute r] } .wake
      { w with st := st, ids := if w.st.stopped then w.ids else w.ids ++ [(r, id)] }
  | .send r tag =>
    match idOf w r with
    | some id => { w with st := step V w.st (.msg id tag) }
    | none => w
  | .dropSender r =>
    match idOf w r with
    | some id => { w with st := step V w.st (.closed id) }
    | none => w
  | .badFwd r =>
    match idOf w r with
    | some id => { w with st := step V w.st (.badFwd id) }
    | none => w
  | .shutdown =>
    if w.flag || !w.proxyAlive then w
    else { w with flag := true, st := step V { w.st with msgq := w.st.msgq ++ [.shutdown 0] } .wake }
  | .dropProxy =>
    if !w.proxyAlive then w else { w with proxyAlive := false, st := step V w.st .wakeClosed }

def World.run (V : Variant) (ops : List Op) : World := ops.foldl (World.op V) World.init

end Router
