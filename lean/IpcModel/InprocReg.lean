import IpcModel.GenInproc
/-!
# The rendezvous registry of the in-process transport

`IpcOneShotServer::new` registers a fresh name, `accept` and (since the repair of D17) dropping the server unregister it,
`IpcSender::connect` looks the name up.  The model keeps, next to the registry, what *should* decide a connect — whether the
server with that name is still waiting (`live`) — and proves that the two coincide after every sequence of operations, for the
variant of the code the translator reads off the source; the pre-repair variant is kept to show what it did (panic with the
registry locked ⇒ every later operation panics; a dropped server stays reachable).
-/
namespace InprocReg
open Gen

structure Variant where
  connectChecked : Bool   -- lookup failure is an error (else: `unwrap` panics while the registry is locked)
  acceptUnregisters : Bool
  dropUnregisters : Bool
deriving Repr, DecidableEq

def codeVariant : Variant := ⟨inprocConnectChecked, inprocAcceptUnregisters, inprocDropUnregisters⟩
def fixed : Variant := ⟨true, true, true⟩
def legacy : Variant := ⟨false, true, false⟩

inductive Phase | live | accepted | dropped
deriving Repr, DecidableEq

structure St where
  phase : List Phase        -- server k has name k (names are assumed distinct: UUIDs)
  reg : List Nat            -- registered names
  poisoned : Bool           -- a panic happened while the registry was locked
deriving Repr, DecidableEq

inductive Op | new | connect (name : Nat) | accept (s : Nat) | dropServer (s : Nat)
deriving Repr, DecidableEq

inductive Res | server (s : Nat) | connected (s : Nat) | err | ok | invalid | panic
deriving Repr, DecidableEq

def step (V : Variant) (st : St) : Op → St × Res
  | .new =>
    if st.poisoned then (st, .panic)
    else ({ st with phase := st.phase ++ [.live], reg := st.reg ++ [st.phase.length] }, .server st.phase.length)
  | .connect name =>
    if st.poisoned then (st, .panic)
    else if st.reg.contains name then (st, .connected name)
    else if V.connectChecked then (st, .err)
    else ({ st with poisoned := true }, .panic)
  | .accept s =>
    -- issued when a client has connected and sent (it completes)
    if st.poisoned then (st, .panic)
    else match st.phase[s]? with
      | some .live => ({ st with phase := st.phase.set s .accepted, reg := if V.acceptUnregisters then st.reg.erase s else st.reg }, .ok)
      | _ => (st, .invalid)
  | .dropServer s =>
    match st.phase[s]? with
    | some .live => ({ st with phase := st.phase.set s .dropped, reg := if V.dropUnregisters then st.reg.erase s else st.reg }, .ok)
    | _ => (st, .invalid)

def run (V : Variant) (ops : List Op) : St × List Res :=
  ops.foldl (fun (acc : St × List Res) op => let r := step V acc.1 op; (r.1, acc.2 ++ [r.2])) (⟨[], [], false⟩, [])

/-- the registry holds exactly the names of the servers still waiting, each once; nothing ever panicked -/
def Inv (st : St) : Prop :=
  st.poisoned = false ∧ st.reg.Nodup ∧ ∀ n, n ∈ st.reg ↔ st.phase[n]? = some .live

theorem inv_init : Inv ⟨[], [], false⟩ := by
  refine ⟨rfl, List.nodup_nil, ?_⟩
  intro n; simp

theorem inv_step (st : St) (op : Op) (h : Inv st) : Inv (step fixed st op).1 := by
  obtain ⟨hp, hnd, hreg⟩ := h
  cases op with
  | new =>
    simp only [step, hp, Bool.false_eq_true, if_false]
    refine ⟨rfl, ?_, ?_⟩
    · refine List.nodup_append.mpr ⟨hnd, by simp, ?_⟩
      intro a ha b hb hab
      simp only [List.mem_singleton] at hb
      subst hab; subst hb
      have := (hreg _).mp ha
      simp at this
    · intro n
      simp only [List.mem_append, List.mem_singleton]
      by_cases hn : n < st.phase.length
      · rw [List.getElem?_append_left hn]
        constructor
        · rintro (h1 | h1)
          · exact (hreg n).mp h1
          · omega
        · intro h1; exact Or.inl ((hreg n).mpr h1)
      · by_cases hn2 : n = st.phase.length
        · subst hn2; simp
        · have : st.phase.length < n := by omega
          constructor
          · rintro (h1 | h1)
            · have := (hreg n).mp h1
              rw [List.getElem?_eq_none (by omega)] at this; cases this
            · exact absurd h1 hn2
          · intro h1
            rw [List.getElem?_eq_none (by simp; omega)] at h1; cases h1
  | connect name =>
    simp only [step, hp, Bool.false_eq_true, if_false, fixed, if_true]
    split <;> exact ⟨hp, hnd, hreg⟩
  | accept s =>
    simp only [step, hp, Bool.false_eq_true, if_false]
    split
    · rename_i hl
      simp only [fixed, if_true]
      refine ⟨rfl, hnd.erase s, ?_⟩
      intro n
      rw [hnd.mem_erase_iff, hreg n]
      by_cases hns : n = s
      · subst hns
        have hlt : n < st.phase.length := by
          rcases Nat.lt_or_ge n st.phase.length with h1 | h1
          · exact h1
          · rw [List.getElem?_eq_none h1] at hl; cases hl
        simp [List.getElem?_set_self hlt]
      · simp [hns, List.getElem?_set_ne (Ne.symm hns)]
    · exact ⟨hp, hnd, hreg⟩
  | dropServer s =>
    simp only [step]
    split
    · rename_i hl
      simp only [fixed, if_true]
      refine ⟨hp, hnd.erase s, ?_⟩
      intro n
      rw [hnd.mem_erase_iff, hreg n]
      by_cases hns : n = s
      · subst hns
        have hlt : n < st.phase.length := by
          rcases Nat.lt_or_ge n st.phase.length with h1 | h1
          · exact h1
          · rw [List.getElem?_eq_none h1] at hl; cases hl
        simp [List.getElem?_set_self hlt]
      · simp [hns, List.getElem?_set_ne (Ne.symm hns)]
    · exact ⟨hp, hnd, hreg⟩

theorem inv_run (ops : List Op) : Inv (run fixed ops).1 := by
  unfold run
  suffices h : ∀ (acc : St × List Res), Inv acc.1 →
      Inv (ops.foldl (fun (acc : St × List Res) op => let r := step fixed acc.1 op; (r.1, acc.2 ++ [r.2])) acc).1 from h _ inv_init
  induction ops with
  | nil => intro acc h; simpa using h
  | cons op ops ih => intro acc h; simp only [List.foldl_cons]; exact ih _ (inv_step acc.1 op h)

/-- **what a connect answers, after any history**: it reaches server `n` exactly when that server is still waiting (created,
not yet accepted, not dropped), and is an error — never a panic — otherwise. -/
theorem connect_spec (ops : List Op) (n : Nat) :
    let st := (run fixed ops).1
    (step fixed st (.connect n)).2 = (if st.phase[n]? = some .live then .connected n else .err) ∧ (step fixed st (.connect n)).1 = st := by
  intro st
  obtain ⟨hp, _, hreg⟩ := inv_run ops
  have hp' : st.poisoned = false := hp
  have hreg' : ∀ n, n ∈ st.reg ↔ st.phase[n]? = some .live := hreg
  by_cases hl : st.phase[n]? = some .live
  · have hm : n ∈ st.reg := (hreg' n).mpr hl
    simp [step, hp', hm, hl]
  · have hm : ¬ n ∈ st.reg := fun h => hl ((hreg' n).mp h)
    simp [step, hp', fixed, hm, hl]

/-- nothing ever panics and nothing is left behind: when no server is waiting the registry is empty -/
theorem clean (ops : List Op) (h : ∀ n : Nat, (run fixed ops).1.phase[n]? ≠ some Phase.live) :
    (run fixed ops).1.reg = [] ∧ (run fixed ops).1.poisoned = false := by
  obtain ⟨hp, _, hreg⟩ := inv_run ops
  refine ⟨?_, hp⟩
  apply List.eq_nil_iff_forall_not_mem.mpr
  intro n hn
  exact h n ((hreg n).mp hn)

theorem no_panic (ops : List Op) : Res.panic ∉ (run fixed ops).2 := by
  unfold run
  suffices h : ∀ (acc : St × List Res), Inv acc.1 → Res.panic ∉ acc.2 →
      Res.panic ∉ (ops.foldl (fun (acc : St × List Res) op => let r := step fixed acc.1 op; (r.1, acc.2 ++ [r.2])) acc).2 from
    h _ inv_init (by simp)
  induction ops with
  | nil => intro acc _ h; simpa using h
  | cons op ops ih =>
    intro acc hi hn
    simp only [List.foldl_cons]
    apply ih _ (inv_step acc.1 op hi)
    simp only [List.mem_append, List.mem_singleton, not_or]
    refine ⟨hn, ?_⟩
    obtain ⟨hp, _, _⟩ := hi
    cases op <;> simp only [step, hp, Bool.false_eq_true, if_false, fixed, if_true] <;> (repeat' split) <;> simp

/-- the variant read off the source is the repaired one -/
theorem code_variant : codeVariant = fixed ∧ inprocNewRegisters = true := by decide

/-- the pre-repair behaviour (D17): a connect to a name never handed out panics and every later operation panics too; a server
dropped unused can still be connected to -/
example : (run legacy [.new, .connect 7, .new, .connect 0]).2 = [.server 0, .panic, .panic, .panic] := by decide
example : (run legacy [.new, .dropServer 0, .connect 0]).2 = [.server 0, .ok, .connected 0] := by decide
example : (run fixed [.new, .connect 7, .new, .dropServer 0, .connect 0, .connect 1, .accept 1, .connect 1]).2
    = [.server 0, .err, .server 1, .ok, .err, .connected 1, .ok, .err] := by decide

end InprocReg
