import IpcModel.Gen
/-! C09 mid-send case: who keeps the dedicated socket's receiving end alive while the sender writes follow-ups. -/
namespace NoHang

structure Variant where
  keepOwnRef : Bool     -- legacy: the sender holds its own descriptor of the dedicated receive end until send() returns

/-- the variant the translator reads from `OsIpcSender::send` now -/
def codeVariant : Variant := ⟨Gen.vKeepOwnRef⟩

structure St where
  senderRef : Bool      -- sender's own copy of the dedicated rx
  flightRef : Bool      -- copy in flight inside the first packet, still in the channel queue
  recvRef : Bool        -- copy installed in the receiving process
  receiverExists : Bool -- the channel's receiving end exists (not dropped / process alive)
  dedLen : Nat          -- packets queued on the dedicated socket
  cap : Nat             -- its capacity (≥ 1)
  firstSent : Bool
  remaining : Nat       -- follow-ups still to send
deriving Repr, DecidableEq

def rxAlive (st : St) : Bool := st.senderRef || st.flightRef || st.recvRef

inductive Act | sendStep | recvStep | receiverGone
deriving Repr, DecidableEq

inductive Out | progressed | sendErr | done
deriving Repr, DecidableEq

/-- `none` = the thread is blocked / the action is not enabled -/
def step (V : Variant) (st : St) : Act → Option (St × Out)
  | .sendStep =>
    if !st.firstSent then
      if !st.receiverExists then some (st, .sendErr)     -- first sendmsg fails: EPIPE / ECONNRESET
      else some ({ st with firstSent := true, flightRef := true, senderRef := V.keepOwnRef }, .progressed)
    else if st.remaining = 0 then some ({ st with senderRef := false }, .done)
    else if !rxAlive st then some ({ st with senderRef := false }, .sendErr)    -- follow-up send fails: peer released
    else if st.dedLen < st.cap then some ({ st with dedLen := st.dedLen + 1, remaining := st.remaining - 1 }, .progressed)
    else none                                                                      -- blocks on a full socket
  | .recvStep =>
    if !st.receiverExists then none
    else if st.flightRef then some ({ st with flightRef := false, recvRef := true }, .progressed)
    else if st.recvRef && st.dedLen > 0 then some ({ st with dedLen := st.dedLen - 1 }, .progressed)
    else none
  | .receiverGone =>
    if st.receiverExists then some ({ st with receiverExists := false, flightRef := false, recvRef := false }, .progressed)
    else none

/-- consistency of the reference flags with who can hold them -/
def Inv (V : Variant) (st : St) : Prop :=
  (st.receiverExists = false → st.flightRef = false ∧ st.recvRef = false) ∧
  (V.keepOwnRef = false → st.firstSent = true → st.senderRef = false) ∧
  (st.firstSent = false → st.flightRef = false ∧ st.recvRef = false)

theorem inv_step (V : Variant) (st st' : St) (a : Act) (o : Out) (hI : Inv V st) (h : step V st a = some (st', o)) : Inv V st' := by
  obtain ⟨h1, h2, h3⟩ := hI
  cases a <;> simp only [step] at h
  · -- sendStep
    repeat' split at h
    all_goals (try (simp at h))
    all_goals (obtain ⟨rfl, _⟩ := h)
    all_goals (refine ⟨?_, ?_, ?_⟩ <;> simp_all)
  · repeat' split at h
    all_goals (try (simp at h))
    all_goals (obtain ⟨rfl, _⟩ := h)
    all_goals (refine ⟨?_, ?_, ?_⟩ <;> simp_all)
  · repeat' split at h
    all_goals (try (simp at h))
    all_goals (obtain ⟨rfl, _⟩ := h)
    all_goals (refine ⟨?_, ?_, ?_⟩ <;> simp_all)

/-- **C09_no_hang** (repaired code): once the receiving end no longer exists, the sender's next step is always enabled —
    it is never left waiting on a socket that only it keeps alive — and it does not report progress on a full queue. -/
theorem no_hang (st : St) (hI : Inv ⟨false⟩ st) (hgone : st.receiverExists = false) :
    ∃ st' o, step ⟨false⟩ st .sendStep = some (st', o) := by
  obtain ⟨h1, h2, h3⟩ := hI
  have hr := h1 hgone
  simp only [step]
  by_cases hf : st.firstSent
  · have hs := h2 rfl hf
    have : rxAlive st = false := by simp [rxAlive, hs, hr.1, hr.2]
    simp [hf, this]
    by_cases hz : st.remaining = 0 <;> simp [hz]
  · simp [hf, hgone]

/-- legacy: a reachable state in which the sender is blocked forever (nothing is enabled) -/
def stuck : St := { senderRef := true, flightRef := false, recvRef := false, receiverExists := false, dedLen := 1, cap := 1, firstSent := true, remaining := 3 }
example : Inv ⟨true⟩ stuck := by simp [Inv, stuck]
example : step ⟨true⟩ stuck .sendStep = none ∧ step ⟨true⟩ stuck .recvStep = none ∧ step ⟨true⟩ stuck .receiverGone = none := by decide
/-- and it is reached: first fragment, one follow-up fills the socket, receiver goes away -/
def start : St := { senderRef := false, flightRef := false, recvRef := false, receiverExists := true, dedLen := 0, cap := 1, firstSent := false, remaining := 4 }
example : (do let (s1, _) ← step ⟨true⟩ start .sendStep
              let (s2, _) ← step ⟨true⟩ s1 .sendStep
              let (s3, _) ← step ⟨true⟩ s2 .receiverGone
              pure s3) = some stuck := by decide

end NoHang
