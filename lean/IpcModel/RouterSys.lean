import IpcModel.GenRouter
/-! C17 (closed system): `RouterProxy` calls from several client threads, the proxy mutex, the crossbeam message queue,
the wake-up channel with its `wakeup_pending` flag, the router thread and callbacks that re-enter `add_route` on the router
thread — as a small-step system.  `step st a = none` means action `a` is not enabled (the thread is blocked).  The `Variant`
flag `lockWhileWaiting` reproduces the code before the first router fix (shutdown waited for the acknowledgement while
holding the mutex).  Wake-ups are coalesced as in the repaired code: a request sends a wake-up only if none is pending; the
router clears the flag and then serves the queue until it is empty (`draining`). -/
namespace RSys

structure Variant where
  lockWhileWaiting : Bool
deriving Repr, DecidableEq

def fixed : Variant := ⟨false⟩
def legacy : Variant := ⟨true⟩
/-- the variant the translator reads from `RouterProxy::shutdown` now: is the acknowledgement awaited inside the locked block? -/
def codeVariant : Variant := ⟨Gen.vLockWhileWaiting⟩

inductive RMsg | addRoute (r : Nat) | shutdown
deriving Repr, DecidableEq

inductive Call | addRoute (r : Nat) | shutdown
deriving Repr, DecidableEq

/-- where a client thread is inside its current proxy call -/
inductive Phase
  | ready                    -- about to lock the mutex for the next call (or finished)
  | holding                  -- inside the critical section of the current call
  | waiting                  -- shutdown: waiting for the acknowledgement
deriving Repr, DecidableEq

structure Thread where
  todo : List Call
  ph : Phase
deriving Repr, DecidableEq

/-- router thread -/
inductive RPc
  | select                               -- in select()
  | wakeRecv                             -- took a wake-up from the channel, about to clear `wakeup_pending`
  | draining                             -- serving the queue: `while let Ok(msg) = msg_receiver.try_recv()`
  | callback (r : Nat) (reenter : Nat)   -- running route r's callback, which still wants to call add_route `reenter` times
  | cbHolding (r : Nat) (reenter : Nat)  -- … and holds the proxy mutex for one of those calls
  | stopped
deriving Repr, DecidableEq

structure St where
  mutex : Option Nat            -- 0 = router thread, i+1 = client thread i
  flag : Bool                   -- RouterProxyComm::shutdown
  ackReleased : Bool            -- the router sent the acknowledgement / dropped its sender
  msgq : List RMsg
  wakeq : Nat                   -- wake-up messages sitting in the wake-up channel
  wakePending : Bool            -- the shared `wakeup_pending` flag
  rpc : RPc
  handlers : List Nat
  droppedLog : List Nat         -- callbacks dropped (by the router at stop, or by the proxy for late offers)
  invokedLog : List Nat
  threads : Nat → Thread        -- client threads (all but finitely many have nothing to do)
  traffic : List (Nat × Nat)    -- pending external messages: (route, how often its callback re-enters add_route)
  nextRoute : Nat               -- fresh route numbers for re-entrant registrations

inductive Act
  | thread (i : Nat)
  | router
  | deliver (k : Nat)
deriving Repr, DecidableEq

/-- `RouterProxyComm::wake`: send a wake-up unless one is pending -/
def wake (st : St) : St :=
  if st.wakePending then st else { st with wakePending := true, wakeq := st.wakeq + 1 }

/-- the critical section of `add_route` -/
def addRouteBody (st : St) (r : Nat) : St :=
  if st.flag then { st with droppedLog := st.droppedLog ++ [r] }        -- offered after shutdown: dropped, never invoked
  else wake { st with msgq := st.msgq ++ [.addRoute r] }

def setThread (st : St) (i : Nat) (t : Thread) : St := { st with threads := fun j => if j = i then t else st.threads j }

def step (V : Variant) (st : St) : Act → Option St
  | .thread i =>
    let t := st.threads i
    match t.ph, t.todo with
    | _, [] => none
    | .ready, _ :: _ =>
      if st.mutex = none then some (setThread { st with mutex := some (i + 1) } i { t with ph := .holding }) else none
    | .holding, .addRoute r :: rest =>
      some (setThread { (addRouteBody st r) with mutex := none } i ⟨rest, .ready⟩)
    | .holding, .shutdown :: rest =>
      let st1 := if st.flag then st
                 else wake { st with flag := true, msgq := st.msgq ++ [.shutdown] }
      some (setThread { st1 with mutex := if V.lockWhileWaiting then st.mutex else none } i ⟨.shutdown :: rest, .waiting⟩)
    | .waiting, _ :: rest =>
      if st.ackReleased then
        some (setThread { st with mutex := if V.lockWhileWaiting then none else st.mutex } i ⟨rest, .ready⟩)
      else none
  | .router =>
    match st.rpc with
    | .select => if st.wakeq = 0 then none else some { st with wakeq := st.wakeq - 1, rpc := .wakeRecv }
    | .wakeRecv => some { st with wakePending := false, rpc := .draining }
    | .draining =>
      match st.msgq with
      | [] => some { st with rpc := .select }        -- try_recv() found nothing more
      | .addRoute r :: q => some { st with msgq := q, handlers := st.handlers ++ [r] }
      | .shutdown :: q =>
        some { st with msgq := q, droppedLog := st.droppedLog ++ st.handlers, handlers := [], ackReleased := true, rpc := .stopped }
    | .callback _ 0 => some { st with rpc := .select }
    | .callback r (n + 1) =>
      if st.mutex = none then some { st with mutex := some 0, rpc := .cbHolding r n } else none
    | .cbHolding r n =>
      some { (addRouteBody st st.nextRoute) with mutex := none, nextRoute := st.nextRoute + 1, rpc := .callback r n }
    | .stopped => none
  | .deliver k =>
    match st.rpc, st.traffic[k]? with
    | .select, some (r, n) =>
      if r ∈ st.handlers then
        some { st with traffic := st.traffic.eraseIdx k, invokedLog := st.invokedLog ++ [r], rpc := .callback r n }
      else none
    | _, _ => none

def init (threads : List (List Call)) (routes : List Nat) (traffic : List (Nat × Nat)) : St :=
  ⟨none, false, false, [], 0, false, .select, routes, [], [], fun i => ⟨threads.getD i [], .ready⟩, traffic, 1000⟩

def run (V : Variant) : St → List Act → Option St
  | st, [] => some st
  | st, a :: as => match step V st a with | some st' => run V st' as | none => none

/-- every client thread has finished all its calls -/
def Finished (st : St) : Prop := ∀ i, (st.threads i).todo = []

end RSys
