import IpcModel.Ledger.L
namespace Ledger

theorem lt_of_get {α} {l : List α} {i : Nat} {x : α} (h : l[i]? = some x) : i < l.length :=
  (List.getElem?_eq_some_iff.mp h).1

theorem get_append_single {α} (l : List α) (y : α) (i : Nat) (x : α) (h : (l ++ [y])[i]? = some x) :
    (i < l.length ∧ l[i]? = some x) ∨ (i = l.length ∧ x = y) := by
  by_cases hi : i < l.length
  · left; rw [List.getElem?_append_left hi] at h; exact ⟨hi, h⟩
  · right
    have hle : l.length ≤ i := by omega
    rw [List.getElem?_append_right hle] at h
    have : i - l.length = 0 := by
      by_cases h0 : i - l.length = 0
      · exact h0
      · rw [List.getElem?_eq_none (by simp; omega)] at h; cases h
    simp [this] at h
    exact ⟨by omega, h.symm⟩

theorem get_append_left' {α} (l : List α) (y : α) (i : Nat) (x : α) (h : l[i]? = some x) : (l ++ [y])[i]? = some x := by
  rw [List.getElem?_append_left (lt_of_get h)]; exact h

theorem sndCount_append (hs : List H) (h : H) (a : Nat) :
    sndCount (hs ++ [h]) a = sndCount hs a + (if h = H.snd a then 1 else 0) := by
  simp [sndCount, List.countP_append, List.countP_cons]

theorem isOpen_grow (st : St) (o fd : Nat) (h : isOpen st fd) :
    fd < (st.ofdOf ++ [o]).length ∧ fd ∉ st.closed := by
  refine ⟨?_, h.2⟩; simp; have := h.1; omega

/-- installing a receiver descriptor -/
theorem inv_installRcv (st : St) (o : Nat) (hI : Inv st) : Inv (opInstall st o .rcv) := by
  simp only [opInstall]
  have hfresh : st.ofdOf.length ∉ st.closed := fun h => Nat.lt_irrefl _ (hI.closedBound _ h)
  constructor
  · intro a arc ha hc; exact isOpen_grow st o _ (hI.arcOpen a arc ha hc)
  · intro a arc ha hc; exact hI.arcClosed a arc ha hc
  · intro a arc ha; have := hI.arcBound a arc ha; simp; omega
  · intro i fd hi
    rcases get_append_single _ _ _ _ hi with ⟨_, h⟩ | ⟨_, h⟩
    · exact isOpen_grow st o _ (hI.rcvOpen i fd h)
    · cases h; exact ⟨by simp, hfresh⟩
  · intro fd hfd
    by_cases hlt : fd < st.ofdOf.length
    · rcases hI.owned fd ⟨hlt, hfd.2⟩ with ⟨a, arc, h1, h2, h3⟩ | ⟨i, hi⟩
      · exact Or.inl ⟨a, arc, h1, h2, h3⟩
      · exact Or.inr ⟨i, get_append_left' _ _ _ _ hi⟩
    · have : fd = st.ofdOf.length := by have := hfd.1; simp at this; omega
      subst this
      exact Or.inr ⟨st.hs.length, by simp⟩
  · exact hI.arcDistinct
  · intro i j fd hi hj
    rcases get_append_single _ _ _ _ hi with ⟨_, h1⟩ | ⟨e1, h1⟩ <;> rcases get_append_single _ _ _ _ hj with ⟨_, h2⟩ | ⟨e2, h2⟩
    · exact hI.rcvDistinct i j fd h1 h2
    · cases h2; have := (hI.rcvOpen i _ h1).1; omega
    · cases h1; have := (hI.rcvOpen j _ h2).1; omega
    · omega
  · intro a x i ha hi
    rcases get_append_single _ _ _ _ hi with ⟨_, h⟩ | ⟨_, h⟩
    · exact hI.arcRcv a x i ha h
    · have h' : x.fd = st.ofdOf.length := by injection h
      have := hI.arcBound a x ha; omega
  · intro a arc ha
    rw [sndCount_append]; simp; exact hI.counts a arc ha
  · intro i a hi
    rcases get_append_single _ _ _ _ hi with ⟨_, h⟩ | ⟨_, h⟩
    · exact hI.sndValid i a h
    · cases h
  · intro fd hfd; have := hI.closedBound fd hfd; simp; omega

/-- installing a sender descriptor (fresh Arc group of one) -/
theorem inv_installSnd (st : St) (o : Nat) (hI : Inv st) : Inv (opInstall st o .snd) := by
  simp only [opInstall]
  have hfresh : st.ofdOf.length ∉ st.closed := fun h => Nat.lt_irrefl _ (hI.closedBound _ h)
  constructor
  · intro a arc ha hc
    rcases get_append_single _ _ _ _ ha with ⟨_, h⟩ | ⟨_, h⟩
    · exact isOpen_grow st o _ (hI.arcOpen a arc h hc)
    · subst h; exact ⟨by simp, hfresh⟩
  · intro a arc ha hc
    rcases get_append_single _ _ _ _ ha with ⟨_, h⟩ | ⟨_, h⟩
    · exact hI.arcClosed a arc h hc
    · subst h; simp at hc
  · intro a arc ha
    rcases get_append_single _ _ _ _ ha with ⟨_, h⟩ | ⟨_, h⟩
    · have := hI.arcBound a arc h; simp; omega
    · subst h; simp
  · intro i fd hi
    rcases get_append_single _ _ _ _ hi with ⟨_, h⟩ | ⟨_, h⟩
    · exact isOpen_grow st o _ (hI.rcvOpen i fd h)
    · cases h
  · intro fd hfd
    by_cases hlt : fd < st.ofdOf.length
    · rcases hI.owned fd ⟨hlt, hfd.2⟩ with ⟨a, arc, h1, h2, h3⟩ | ⟨i, hi⟩
      · exact Or.inl ⟨a, arc, get_append_left' _ _ _ _ h1, h2, h3⟩
      · exact Or.inr ⟨i, get_append_left' _ _ _ _ hi⟩
    · have : fd = st.ofdOf.length := by have := hfd.1; simp at this; omega
      subst this
      exact Or.inl ⟨st.arcs.length, ⟨st.ofdOf.length, 1⟩, by simp, by simp, rfl⟩
  · intro a b x y ha hb hxy
    rcases get_append_single _ _ _ _ ha with ⟨_, h1⟩ | ⟨e1, h1⟩ <;> rcases get_append_single _ _ _ _ hb with ⟨_, h2⟩ | ⟨e2, h2⟩
    · exact hI.arcDistinct a b x y h1 h2 hxy
    · subst h2; have := hI.arcBound a x h1; simp at hxy; omega
    · subst h1; have := hI.arcBound b y h2; simp at hxy; omega
    · omega
  · intro i j fd hi hj
    rcases get_append_single _ _ _ _ hi with ⟨_, h1⟩ | ⟨_, h1⟩ <;> rcases get_append_single _ _ _ _ hj with ⟨_, h2⟩ | ⟨_, h2⟩
    · exact hI.rcvDistinct i j fd h1 h2
    · cases h2
    · cases h1
    · cases h1
  · intro a x i ha hi
    rcases get_append_single _ _ _ _ hi with ⟨_, h⟩ | ⟨_, h⟩
    · rcases get_append_single _ _ _ _ ha with ⟨_, h'⟩ | ⟨_, h'⟩
      · exact hI.arcRcv a x i h' h
      · subst h'; have := (hI.rcvOpen i _ h).1; simp at this
    · cases h
  · intro a arc ha
    rw [sndCount_append]
    rcases get_append_single _ _ _ _ ha with ⟨hlt, h⟩ | ⟨e, h⟩
    · have hne : ¬ (st.arcs.length = a) := by omega
      simp [hne]; exact hI.counts a arc h
    · subst h; subst e
      simp
      -- no existing handle points at the new Arc index
      have : sndCount st.hs st.arcs.length = 0 := by
        simp only [sndCount, List.countP_eq_zero]
        intro h hmem
        simp only [decide_eq_true_eq]
        intro heq; subst heq
        obtain ⟨i, hi⟩ := List.getElem?_of_mem hmem
        exact Nat.lt_irrefl _ (hI.sndValid i _ hi)
      omega
  · intro i a hi
    rcases get_append_single _ _ _ _ hi with ⟨_, h⟩ | ⟨_, h⟩
    · have := hI.sndValid i a h; simp; omega
    · cases h; simp
  · intro fd hfd; have := hI.closedBound fd hfd; simp; omega


theorem get_set {α} (l : List α) (i j : Nat) (y x : α) (h : (l.set i y)[j]? = some x) :
    (j = i ∧ x = y ∧ i < l.length) ∨ (j ≠ i ∧ l[j]? = some x) := by
  by_cases hji : j = i
  · subst hji
    have hlt : j < l.length := by have := lt_of_get h; simpa using this
    rw [List.getElem?_set_self hlt] at h; cases h; exact Or.inl ⟨rfl, rfl, hlt⟩
  · rw [List.getElem?_set_ne (Ne.symm hji)] at h; exact Or.inr ⟨hji, h⟩

theorem sndCount_set_dead (hs : List H) (i a : Nat) (h : H) (hi : hs[i]? = some h) :
    sndCount (hs.set i H.dead) a = sndCount hs a - (if h = H.snd a then 1 else 0) := by
  have hlt := lt_of_get hi
  have hget : hs[i] = h := by
    have := List.getElem?_eq_some_iff.mp hi; exact this.2
  simp only [sndCount]
  rw [List.countP_set hlt, hget]
  by_cases hh : h = H.snd a <;> simp [hh]

/-- sender.clone() -/
theorem inv_clone (st st' : St) (i : Nat) (hI : Inv st) (h : opClone st i = some st') : Inv st' := by
  unfold opClone at h
  split at h
  · rename_i a hi
    split at h
    · rename_i arc ha
      simp only [Option.some.injEq] at h; subst h
      have hcnt := hI.counts a arc ha
      have hpos : arc.cnt > 0 := by
        rw [hcnt]; simp only [sndCount]
        exact List.countP_pos_iff.mpr ⟨H.snd a, List.mem_of_getElem? hi, by simp⟩
      constructor
      · intro b x hb hc
        rcases get_set _ _ _ _ _ hb with ⟨rfl, rfl, _⟩ | ⟨_, hb'⟩
        · exact hI.arcOpen _ arc ha hpos
        · exact hI.arcOpen b x hb' hc
      · intro b x hb hc
        rcases get_set _ _ _ _ _ hb with ⟨rfl, rfl, _⟩ | ⟨_, hb'⟩
        · simp at hc
        · exact hI.arcClosed b x hb' hc
      · intro b x hb
        rcases get_set _ _ _ _ _ hb with ⟨rfl, rfl, _⟩ | ⟨_, hb'⟩
        · exact hI.arcBound _ arc ha
        · exact hI.arcBound b x hb'
      · intro j fd hj
        rcases get_append_single _ _ _ _ hj with ⟨_, h'⟩ | ⟨_, h'⟩
        · exact hI.rcvOpen j fd h'
        · cases h'
      · intro fd hfd
        rcases hI.owned fd hfd with ⟨b, x, h1, h2, h3⟩ | ⟨j, hj⟩
        · by_cases hba : b = a
          · subst hba; rw [ha] at h1; cases h1
            exact Or.inl ⟨b, { arc with cnt := arc.cnt + 1 }, by simp [List.getElem?_set_self (lt_of_get ha)], by simp, h3⟩
          · exact Or.inl ⟨b, x, by rw [List.getElem?_set_ne (Ne.symm hba)]; exact h1, h2, h3⟩
        · exact Or.inr ⟨j, get_append_left' _ _ _ _ hj⟩
      · intro b c x y hb hc hxy
        rcases get_set _ _ _ _ _ hb with ⟨rfl, rfl, _⟩ | ⟨_, hb'⟩ <;> rcases get_set _ _ _ _ _ hc with ⟨rfl, rfl, _⟩ | ⟨_, hc'⟩
        · rfl
        · exact hI.arcDistinct _ c arc y ha hc' hxy
        · exact hI.arcDistinct b _ x arc hb' ha hxy
        · exact hI.arcDistinct b c x y hb' hc' hxy
      · intro j k fd hj hk
        rcases get_append_single _ _ _ _ hj with ⟨_, h1⟩ | ⟨_, h1⟩ <;> rcases get_append_single _ _ _ _ hk with ⟨_, h2⟩ | ⟨_, h2⟩
        · exact hI.rcvDistinct j k fd h1 h2
        · cases h2
        · cases h1
        · cases h1
      · intro b x j hb hj
        rcases get_append_single _ _ _ _ hj with ⟨_, h'⟩ | ⟨_, h'⟩
        · rcases get_set _ _ _ _ _ hb with ⟨rfl, rfl, _⟩ | ⟨_, hb'⟩
          · exact hI.arcRcv _ arc j ha h'
          · exact hI.arcRcv b x j hb' h'
        · cases h'
      · intro b x hb
        rw [sndCount_append]
        rcases get_set _ _ _ _ _ hb with ⟨rfl, rfl, _⟩ | ⟨hne, hb'⟩
        · simp; exact hcnt
        · have : ¬ (a = b) := fun e => hne e.symm
          simp [this]; exact hI.counts b x hb'
      · intro j b hj
        rcases get_append_single _ _ _ _ hj with ⟨_, h'⟩ | ⟨_, h'⟩
        · have := hI.sndValid j b h'; simpa using this
        · cases h'; have := lt_of_get ha; simpa using this
      · exact hI.closedBound
    · simp at h
  · simp at h

/-- drop(receiver handle) -/
theorem inv_dropRcv (st : St) (i fd : Nat) (hI : Inv st) (hi : st.hs[i]? = some (H.rcv fd)) :
    Inv { st with closed := fd :: st.closed, hs := st.hs.set i H.dead } := by
  have hopen := hI.rcvOpen i fd hi
  constructor
  · intro a arc ha hc
    have := hI.arcOpen a arc ha hc
    refine ⟨this.1, ?_⟩
    simp only [List.mem_cons, not_or]
    exact ⟨fun h => hI.arcRcv a arc i ha (h ▸ hi), this.2⟩
  · intro a arc ha hc; exact List.mem_cons_of_mem _ (hI.arcClosed a arc ha hc)
  · exact hI.arcBound
  · intro j fd' hj
    rcases get_set _ _ _ _ _ hj with ⟨_, h', _⟩ | ⟨hne, hj'⟩
    · cases h'
    · have := hI.rcvOpen j fd' hj'
      refine ⟨this.1, ?_⟩
      simp only [List.mem_cons, not_or]
      exact ⟨fun h => hne (hI.rcvDistinct j i fd (h ▸ hj') hi), this.2⟩
  · intro fd' hfd'
    have hne : fd' ≠ fd := by intro h; subst h; exact hfd'.2 (by simp)
    have hop : isOpen st fd' := ⟨hfd'.1, fun h => hfd'.2 (List.mem_cons_of_mem _ h)⟩
    rcases hI.owned fd' hop with ⟨a, arc, h1, h2, h3⟩ | ⟨j, hj⟩
    · exact Or.inl ⟨a, arc, h1, h2, h3⟩
    · have hji : j ≠ i := by intro h; subst h; rw [hi] at hj; cases hj; exact hne rfl
      exact Or.inr ⟨j, by simp [List.getElem?_set_ne (Ne.symm hji), hj]⟩
  · exact hI.arcDistinct
  · intro j k fd' hj hk
    rcases get_set _ _ _ _ _ hj with ⟨_, h', _⟩ | ⟨_, hj'⟩
    · cases h'
    · rcases get_set _ _ _ _ _ hk with ⟨_, h', _⟩ | ⟨_, hk'⟩
      · cases h'
      · exact hI.rcvDistinct j k fd' hj' hk'
  · intro a x j ha hj
    rcases get_set _ _ _ _ _ hj with ⟨_, h', _⟩ | ⟨_, hj'⟩
    · cases h'
    · exact hI.arcRcv a x j ha hj'
  · intro a arc ha
    rw [sndCount_set_dead st.hs i a _ hi]; simp; exact hI.counts a arc ha
  · intro j a hj
    rcases get_set _ _ _ _ _ hj with ⟨_, h', _⟩ | ⟨_, hj'⟩
    · cases h'
    · exact hI.sndValid j a hj'
  · intro fd' hfd'
    rcases List.mem_cons.mp hfd' with h | h
    · subst h; exact hopen.1
    · exact hI.closedBound fd' h


/-- drop(sender handle): the last clone closes the descriptor -/
theorem inv_dropSnd (st : St) (i a : Nat) (arc : Arc) (hI : Inv st) (hi : st.hs[i]? = some (H.snd a)) (ha : st.arcs[a]? = some arc) :
    Inv { st with arcs := st.arcs.set a { arc with cnt := arc.cnt - 1 }, hs := st.hs.set i H.dead,
                  closed := if arc.cnt = 1 then arc.fd :: st.closed else st.closed } := by
  have hcnt := hI.counts a arc ha
  have hpos : arc.cnt > 0 := by
    rw [hcnt]; simp only [sndCount]
    exact List.countP_pos_iff.mpr ⟨H.snd a, List.mem_of_getElem? hi, by simp⟩
  have hsub : ∀ fd, fd ∈ st.closed → fd ∈ (if arc.cnt = 1 then arc.fd :: st.closed else st.closed) := by
    intro fd h; split <;> simp [h]
  have hnew : ∀ fd, fd ∈ (if arc.cnt = 1 then arc.fd :: st.closed else st.closed) → fd ∈ st.closed ∨ (fd = arc.fd ∧ arc.cnt = 1) := by
    intro fd h; split at h
    · rename_i h1; rcases List.mem_cons.mp h with h | h
      · exact Or.inr ⟨h, h1⟩
      · exact Or.inl h
    · exact Or.inl h
  constructor
  · intro b x hb hc
    rcases get_set _ _ _ _ _ hb with ⟨rfl, rfl, _⟩ | ⟨hne, hb'⟩
    · have := hI.arcOpen _ arc ha hpos
      refine ⟨this.1, ?_⟩
      intro hmem
      rcases hnew _ hmem with h | ⟨_, h1⟩
      · exact this.2 h
      · simp at hc; omega
    · have := hI.arcOpen b x hb' hc
      refine ⟨this.1, ?_⟩
      intro hmem
      rcases hnew _ hmem with h | ⟨hfd, _⟩
      · exact this.2 h
      · exact hne (hI.arcDistinct b a x arc hb' ha hfd)
  · intro b x hb hc
    rcases get_set _ _ _ _ _ hb with ⟨rfl, rfl, _⟩ | ⟨_, hb'⟩
    · simp at hc
      have h1 : arc.cnt = 1 := by omega
      simp [h1]
    · exact hsub _ (hI.arcClosed b x hb' hc)
  · intro b x hb
    rcases get_set _ _ _ _ _ hb with ⟨rfl, rfl, _⟩ | ⟨_, hb'⟩
    · exact hI.arcBound _ arc ha
    · exact hI.arcBound b x hb'
  · intro j fd hj
    rcases get_set _ _ _ _ _ hj with ⟨_, h', _⟩ | ⟨_, hj'⟩
    · cases h'
    · have := hI.rcvOpen j fd hj'
      refine ⟨this.1, ?_⟩
      intro hmem
      rcases hnew _ hmem with h | ⟨hfd, _⟩
      · exact this.2 h
      · subst hfd; exact hI.arcRcv a arc j ha hj'
  · intro fd hfd
    have hop : isOpen st fd := ⟨hfd.1, fun h => hfd.2 (hsub _ h)⟩
    rcases hI.owned fd hop with ⟨b, x, h1, h2, h3⟩ | ⟨j, hj⟩
    · by_cases hba : b = a
      · subst hba; rw [ha] at h1; cases h1
        have hlt := lt_of_get ha
        by_cases hone : arc.cnt = 1
        · exfalso; apply hfd.2; simp [hone, h3]
        · exact Or.inl ⟨b, { arc with cnt := arc.cnt - 1 }, by simp [List.getElem?_set_self hlt], by simp; omega, h3⟩
      · exact Or.inl ⟨b, x, by rw [List.getElem?_set_ne (Ne.symm hba)]; exact h1, h2, h3⟩
    · have hji : j ≠ i := by intro h; subst h; rw [hi] at hj; cases hj
      exact Or.inr ⟨j, by simp [List.getElem?_set_ne (Ne.symm hji), hj]⟩
  · intro b c x y hb hc hxy
    rcases get_set _ _ _ _ _ hb with ⟨rfl, rfl, _⟩ | ⟨_, hb'⟩ <;> rcases get_set _ _ _ _ _ hc with ⟨rfl, rfl, _⟩ | ⟨_, hc'⟩
    · rfl
    · exact hI.arcDistinct _ c arc y ha hc' hxy
    · exact hI.arcDistinct b _ x arc hb' ha hxy
    · exact hI.arcDistinct b c x y hb' hc' hxy
  · intro j k fd hj hk
    rcases get_set _ _ _ _ _ hj with ⟨_, h', _⟩ | ⟨_, hj'⟩
    · cases h'
    · rcases get_set _ _ _ _ _ hk with ⟨_, h', _⟩ | ⟨_, hk'⟩
      · cases h'
      · exact hI.rcvDistinct j k fd hj' hk'
  · intro b x j hb hj
    rcases get_set _ _ _ _ _ hj with ⟨_, h', _⟩ | ⟨_, hj'⟩
    · cases h'
    · rcases get_set _ _ _ _ _ hb with ⟨rfl, rfl, _⟩ | ⟨_, hb'⟩
      · exact hI.arcRcv _ arc j ha hj'
      · exact hI.arcRcv b x j hb' hj'
  · intro b x hb
    rw [sndCount_set_dead st.hs i b _ hi]
    rcases get_set _ _ _ _ _ hb with ⟨rfl, rfl, _⟩ | ⟨hne, hb'⟩
    · simp; omega
    · have : ¬ (a = b) := fun e => hne e.symm
      simp [this]; exact hI.counts b x hb'
  · intro j b hj
    rcases get_set _ _ _ _ _ hj with ⟨_, h', _⟩ | ⟨_, hj'⟩
    · cases h'
    · have := hI.sndValid j b hj'; simpa using this
  · intro fd hfd
    rcases hnew _ hfd with h | ⟨h, _⟩
    · exact hI.closedBound fd h
    · subst h; exact hI.arcBound a arc ha

theorem inv_drop (st st' : St) (i : Nat) (hI : Inv st) (h : opDrop st i = some st') : Inv st' := by
  unfold opDrop at h
  split at h
  · rename_i a hi
    split at h
    · rename_i arc ha
      simp only [Option.some.injEq] at h; subst h
      exact inv_dropSnd st i a arc hI hi ha
    · simp at h
  · rename_i fd hi
    simp only [Option.some.injEq] at h; subst h
    exact inv_dropRcv st i fd hI hi
  · simp at h

/-- operations of a history; `recv` installs the in-flight descriptors of one message, `send` moves embedded receivers out -/
inductive Op
  | install (o : Nat) (k : Kind)     -- socketpair() / accept() / one descriptor received through SCM_RIGHTS
  | clone (i : Nat)
  | drop (i : Nat)                   -- drop a handle, or: an embedded receiver handle is moved into a message and closed after sendmsg

def step (st : St) : Op → Option St
  | .install o k => some (opInstall st o k)
  | .clone i => opClone st i
  | .drop i => opDrop st i

def run : St → List Op → Option St
  | st, [] => some st
  | st, op :: ops => match step st op with | some st' => run st' ops | none => none

theorem inv_step (st st' : St) (op : Op) (hI : Inv st) (h : step st op = some st') : Inv st' := by
  cases op with
  | install o k =>
    simp only [step, Option.some.injEq] at h; subst h
    cases k
    · exact inv_installSnd st o hI
    · exact inv_installRcv st o hI
  | clone i => exact inv_clone st st' i hI h
  | drop i => exact inv_drop st st' i hI h

theorem inv_run (st st' : St) (ops : List Op) (hI : Inv st) (h : run st ops = some st') : Inv st' := by
  induction ops generalizing st with
  | nil => simp [run] at h; subst h; exact hI
  | cons op ops ih =>
    simp only [run] at h
    split at h
    · rename_i st1 h1; exact ih st1 (inv_step st st1 op hI h1) h
    · simp at h

/-- **C11_restore** (descriptor part): after any history, once every handle has been dropped, every descriptor the library
    ever created or received is closed — nothing leaked; and (from `closedBound`/`arcOpen`/`rcvOpen`) nothing was closed
    that was not owned. -/
theorem restore (ops : List Op) (st : St) (h : run init ops = some st)
    (hall : ∀ (i : Nat) (hd : H), st.hs[i]? = some hd → hd = H.dead) : ∀ fd, fd < st.ofdOf.length → fd ∈ st.closed := by
  have hI := inv_run init st ops inv_init h
  intro fd hlt
  apply Classical.byContradiction
  intro hnc
  rcases hI.owned fd ⟨hlt, hnc⟩ with ⟨a, arc, h1, h2, _⟩ | ⟨i, hi⟩
  · have hc := hI.counts a arc h1
    have : sndCount st.hs a = 0 := by
      simp only [sndCount, List.countP_eq_zero]
      intro hd hmem
      obtain ⟨i, hi⟩ := List.getElem?_of_mem hmem
      have := hall i hd hi; subst this; simp
    omega
  · have := hall i _ hi; cases this

/-- **C03 roots**: the open descriptors are exactly those reachable from live handles -/
theorem roots_coincide (ops : List Op) (st : St) (h : run init ops = some st) (fd : Nat) :
    isOpen st fd ↔ Owned st fd := by
  have hI := inv_run init st ops inv_init h
  constructor
  · exact hI.owned fd
  · rintro (⟨a, arc, h1, h2, h3⟩ | ⟨i, hi⟩)
    · subst h3; exact hI.arcOpen a arc h1 h2
    · exact hI.rcvOpen i fd hi

end Ledger
