/-! Ledger model (C11 / C03): descriptors are never renumbered (creation-order ids); sequential histories of library operations. -/
namespace Ledger

inductive Kind | snd | rcv
deriving Repr, DecidableEq

structure Arc where
  fd : Nat
  cnt : Nat
deriving Repr, DecidableEq

inductive H | snd (a : Nat) | rcv (fd : Nat) | dead
deriving Repr, DecidableEq

structure St where
  ofdOf : List Nat        -- descriptor number -> open file description; next descriptor = ofdOf.length
  closed : List Nat       -- descriptors that have been closed
  arcs : List Arc
  hs : List H
deriving Repr

def isOpen (st : St) (fd : Nat) : Prop := fd < st.ofdOf.length ∧ fd ∉ st.closed

def sndCount (hs : List H) (a : Nat) : Nat := hs.countP (fun h => decide (h = H.snd a))

def Owned (st : St) (fd : Nat) : Prop :=
  (∃ (a : Nat) (arc : Arc), st.arcs[a]? = some arc ∧ arc.cnt > 0 ∧ arc.fd = fd) ∨ (∃ i : Nat, st.hs[i]? = some (H.rcv fd))

structure Inv (st : St) : Prop where
  arcOpen : ∀ (a : Nat) (arc : Arc), st.arcs[a]? = some arc → arc.cnt > 0 → isOpen st arc.fd
  arcClosed : ∀ (a : Nat) (arc : Arc), st.arcs[a]? = some arc → arc.cnt = 0 → arc.fd ∈ st.closed
  arcBound : ∀ (a : Nat) (arc : Arc), st.arcs[a]? = some arc → arc.fd < st.ofdOf.length
  rcvOpen : ∀ (i fd : Nat), st.hs[i]? = some (H.rcv fd) → isOpen st fd
  owned : ∀ fd, isOpen st fd → Owned st fd
  arcDistinct : ∀ (a b : Nat) (x y : Arc), st.arcs[a]? = some x → st.arcs[b]? = some y → x.fd = y.fd → a = b
  rcvDistinct : ∀ (i j fd : Nat), st.hs[i]? = some (H.rcv fd) → st.hs[j]? = some (H.rcv fd) → i = j
  arcRcv : ∀ (a : Nat) (x : Arc) (i : Nat), st.arcs[a]? = some x → st.hs[i]? = some (H.rcv x.fd) → False
  counts : ∀ (a : Nat) (arc : Arc), st.arcs[a]? = some arc → arc.cnt = sndCount st.hs a
  sndValid : ∀ (i a : Nat), st.hs[i]? = some (H.snd a) → a < st.arcs.length
  closedBound : ∀ fd, fd ∈ st.closed → fd < st.ofdOf.length

/-- a received or freshly created descriptor for open file description `o` becomes a handle of kind `k` -/
def opInstall (st : St) (o : Nat) (k : Kind) : St :=
  let f := st.ofdOf.length
  match k with
  | .snd => { st with ofdOf := st.ofdOf ++ [o], arcs := st.arcs ++ [⟨f, 1⟩], hs := st.hs ++ [H.snd st.arcs.length] }
  | .rcv => { st with ofdOf := st.ofdOf ++ [o], hs := st.hs ++ [H.rcv f] }

def opClone (st : St) (i : Nat) : Option St :=
  match st.hs[i]? with
  | some (H.snd a) =>
    match st.arcs[a]? with
    | some arc => some { st with arcs := st.arcs.set a { arc with cnt := arc.cnt + 1 }, hs := st.hs ++ [H.snd a] }
    | none => none
  | _ => none

def opDrop (st : St) (i : Nat) : Option St :=
  match st.hs[i]? with
  | some (H.snd a) =>
    match st.arcs[a]? with
    | some arc =>
      some { st with arcs := st.arcs.set a { arc with cnt := arc.cnt - 1 }, hs := st.hs.set i H.dead,
                     closed := if arc.cnt = 1 then arc.fd :: st.closed else st.closed }
    | none => none
  | some (H.rcv fd) => some { st with closed := fd :: st.closed, hs := st.hs.set i H.dead }
  | _ => none

def init : St := ⟨[], [], [], []⟩

theorem inv_init : Inv init := by
  constructor <;> intros <;> simp_all [init, isOpen]

end Ledger
