import IpcModel.Gen
/-!
# `RecvAtt` — which attachments one call of the free function `recv` hands to its caller (C12 / C04 / C15 / C16)

A call meets, in order: the first packet of some message with the descriptors of its control message; if the message
is fragmented, the outcome of its reassembly — completed, or truncated because its sender failed or died.  A truncated
message is discarded and the call goes on with the next first packet.  What is returned with the message that is finally
delivered depends on two facts about the code, regenerated from the source: the attachment vectors are created when `recv`
is entered (`freshVectors`), and discarding a truncated message drops what was collected and starts over
(`discardRestarts`).
-/
namespace RecvAtt

inductive Ev
  | first (atts : List Nat) (complete : Bool)   -- a first packet arrives with these descriptors; `complete`: single-packet message
  | assembled                                   -- the follow-up fragments of the current message all arrived
  | truncated                                   -- the dedicated socket was closed with part of the message missing
deriving Repr, DecidableEq

structure Cfg where
  freshVectors : Bool
  discardRestarts : Bool
deriving Repr, DecidableEq

/-- the variant the translator reads from `recv` now -/
def codeCfg : Cfg := ⟨Gen.shape_recvFreshVectors, Gen.shape_recvDiscardRestarts⟩

/-- `acc`: what the vectors hold.  Result: the attachments returned with the delivered message (`none`: the events end
before a message is complete — the call is still waiting). -/
def run (c : Cfg) : List Ev → List Nat → Option (List Nat)
  | .first a true :: _, acc => some (acc ++ a)
  | .first a false :: .assembled :: _, acc => some (acc ++ a)
  | .first a false :: .truncated :: more, acc => run c more (if c.discardRestarts then [] else acc ++ a)
  | _, _ => none

/-- one call: the vectors start empty if they are created at entry; `leftover` is whatever an earlier call left behind
when they are not -/
def call (c : Cfg) (leftover : List Nat) (evs : List Ev) : Option (List Nat) := run c evs (if c.freshVectors then [] else leftover)

/-- the events of a call that discards the messages `dead` (first packet, then truncation) and then delivers a message with
attachments `own` -/
def history (dead : List (List Nat)) (own : List Nat) (fragmented : Bool) : List Ev :=
  dead.flatMap (fun a => [Ev.first a false, Ev.truncated]) ++ (if fragmented then [.first own false, .assembled] else [.first own true])

/-! ## a receiver's whole life: one call after the other -/

/-- `acc`: what the attachment vectors hold; `pend`: descriptors of the first packet of the message being assembled;
`out`: the attachment lists returned so far, one per delivered message -/
structure RS where
  acc : List Nat
  pend : Option (List Nat)
  out : List (List Nat)
deriving Repr, DecidableEq

/-- after a delivery the vectors have been moved out to the caller, so the next call starts empty either way; what differs
between the variants is what a discarded message leaves behind -/
def feed (c : Cfg) (s : RS) : Ev → RS
  | .first a true => { acc := [], pend := none, out := s.out ++ [s.acc ++ a] }
  | .first a false => { s with pend := some a }
  | .assembled => match s.pend with
    | some a => { acc := [], pend := none, out := s.out ++ [s.acc ++ a] }
    | none => s
  | .truncated => match s.pend with
    | some a => { s with acc := if c.discardRestarts && c.freshVectors then [] else s.acc ++ a, pend := none }
    | none => s

def feedAll (c : Cfg) (s : RS) (evs : List Ev) : RS := evs.foldl (feed c) s

end RecvAtt
