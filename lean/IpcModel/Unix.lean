import IpcModel.Ideal
/-!
# `Unix` — the descriptor-level reading of the same programs (C03 / C19)

What the OS transports do, and nothing more: a handle is a descriptor; dropping a receiver **closes one descriptor**;
a send passes the descriptors of the embedded handles to the kernel and afterwards closes the embedded receivers'
descriptors, whether or not the send succeeded.  There is no destruction cascade in user space: whether a socket still
exists is decided by the kernel — a socket exists while a descriptor for it is open or a queued packet of an existing
socket carries it (reference counting plus the kernel's collector for in-flight cycles = reachability from the
descriptor table).  Packets queued on a socket that no longer exists stay in the state; they are unreachable.

The specification `Ideal` destroys queues explicitly and recursively (that is what the in-process transport does when an
`mpsc` receiver is dropped).  `RefineProof.refine_run`: for every valid program both give the same results.
-/
namespace Unix
open Ideal (Handle Msg Op Res)

structure Chan where
  queue : List Msg         -- packets in the receive queue of the receiving socket (each carries descriptors in flight)
  senders : Nat            -- sender handles of this channel held by the program
  held : Bool              -- the program has a descriptor for the receiving socket
deriving Repr, DecidableEq, Inhabited

structure St where
  chans : List Chan
deriving Repr, DecidableEq, Inhabited

def rootB (st : St) (c : Nat) : Bool :=
  match st.chans[c]? with | some ch => ch.held | none => false

/-- a packet queued on socket `d` carries the receiving socket of channel `c` -/
def carriesRcv (st : St) (d c : Nat) : Bool :=
  match st.chans[d]? with | some chd => chd.queue.any fun m => m.handles.contains (.rcv c) | none => false

def carriesSnd (st : St) (d c : Nat) : Bool :=
  match st.chans[d]? with | some chd => chd.queue.any fun m => m.handles.contains (.snd c) | none => false

/-- receiving sockets that exist (kernel reachability) -/
def alive (st : St) : List Nat := Reach.reachG st.chans.length (rootB st) (carriesRcv st)

/-- the sending socket of channel `c` exists: a descriptor is open, or one is in flight towards a socket that exists -/
def senderOpen (st : St) (c : Nat) : Bool :=
  (match st.chans[c]? with | some ch => decide (0 < ch.senders) | none => false) ||
  (alive st).any fun d => carriesSnd st d c

def modify (st : St) (c : Nat) (f : Chan → Chan) : St := { st with chans := st.chans.modify c f }

/-- close the descriptors of the receivers embedded in a message that was handed to `sendmsg` -/
def unhold (st : St) (hs : List Handle) : St :=
  ⟨st.chans.mapIdx fun i ch => if hs.contains (.rcv i) then { ch with held := false } else ch⟩

/-- the descriptors that arrived with a packet become handles of the program -/
def install (st : St) (hs : List Handle) : St :=
  ⟨st.chans.mapIdx fun i ch => { ch with held := ch.held || hs.contains (.rcv i), senders := ch.senders + hs.count (.snd i) }⟩

def step (st : St) : Op → St × Res
  | .newChan => ({ st with chans := st.chans ++ [⟨[], 1, true⟩] }, .ok)
  | .cloneSender c =>
    match st.chans[c]? with
    | some ch => if ch.senders = 0 then (st, .invalid) else (modify st c fun ch => { ch with senders := ch.senders + 1 }, .ok)
    | none => (st, .invalid)
  | .dropSender c =>
    match st.chans[c]? with
    | some ch => if ch.senders = 0 then (st, .invalid) else (modify st c fun ch => { ch with senders := ch.senders - 1 }, .ok)
    | none => (st, .invalid)
  | .send c tag hs =>
    match st.chans[c]? with
    | none => (st, .invalid)
    | some ch =>
      if ch.senders = 0 then (st, .invalid)
      else
        let st1 := unhold st hs
        if (alive st).contains c then
          (modify st1 c fun ch => { ch with queue := ch.queue ++ [⟨tag, hs⟩] }, .ok)
        else
          (st1, .sendError)
  | .recv c =>
    match st.chans[c]? with
    | none => (st, .invalid)
    | some ch =>
      if ch.held = false then (st, .invalid)
      else
        match ch.queue with
        | m :: q => (install (modify st c fun ch => { ch with queue := q }) m.handles, .msg m.tag m.handles)
        | [] => if senderOpen st c then (st, .empty) else (st, .disconnected)
  | .dropReceiver c =>
    match st.chans[c]? with
    | none => (st, .invalid)
    | some ch =>
      if ch.held = false then (st, .invalid)
      else (modify st c fun ch => { ch with held := false }, .ok)

def runFrom (st : St) (ops : List Op) : St × List Res :=
  ops.foldl (fun (acc : St × List Res) op => let r := step acc.1 op; (r.1, acc.2 ++ [r.2])) (st, [])

def run (ops : List Op) : St × List Res := runFrom ⟨[]⟩ ops

/-- the program only puts into a message what it holds: each embedded receiver is held and named once -/
def validOp (st : St) : Op → Bool
  | .send _ _ hs => hs.all fun h =>
      match h with
      | .rcv d => rootB st d && decide (hs.count (.rcv d) = 1)
      | _ => true
  | _ => true

def validFrom : St → List Op → Bool
  | _, [] => true
  | st, op :: rest => validOp st op && validFrom (step st op).1 rest

def valid (ops : List Op) : Bool := validFrom ⟨[]⟩ ops

end Unix
