import IpcModel.InprocReg
import IpcModel.Lemmas.OneShotProof
/-!
# C08 — one-shot server bootstrap connects two processes and leaves nothing behind

Model `OneShot`: servers (listening socket bound to a name inside its own temp directory, FIFO backlog), connections with
their message queues, and the operations `new` (with a failure injected at any of its steps), `connect`, client sends,
client exit, `accept` (which consumes the server), dropping an unused server, receives on the returned receiver.  An
operation that would wait answers `blocks` and leaves the state unchanged, so "connect before or after accept is called"
is covered by every interleaving of the client's and the server's operations.

Shape facts about `new` / `accept` / `new_sockaddr_un` are regenerated from the source (`Gen.shape_*`): the server object
owns descriptor and directory before `bind`, the path is checked against `sun_path`, the default `tempfile` naming is used,
`accept` consumes the server and makes the connection lingering before the first receive.

Not reached: uniqueness of `mkdtemp` names and file-system behaviour (the model draws names from a fresh counter; the
harness checks 3 000 consecutive and 200 simultaneous real names for distinctness and lists the temp root).
-/
namespace C08
open OneShot

/-- **C08_first** — accept returns the first message of the first connection, with a receiver on that connection whose
queue is what the client sent afterwards. -/
theorem C08_first (st : St) (s c t : Nat) (sv : Srv) (x : Conn) (rest : List Nat) (q : List Nat)
    (hs : st.srvs[s]? = some sv) (ho : sv.fdOpen = true) (hl : sv.listening = true) (hb : sv.backlog = c :: rest)
    (hc : st.conns[c]? = some x) (hq : x.queue = t :: q) :
    (step st (.accept s)).2 = .accepted c t ∧ Qc (step st (.accept s)).1 c = some q :=
  accept_first st s c t sv x rest q hs ho hl hb hc hq

/-- **C08_orders** — for every history (any interleaving of connect, client sends, client exit, accept attempts, receives)
and every connection whose receiver the program keeps: first message ++ later messages ++ still queued = everything the
client sent, in order. -/
theorem C08_orders (ops : List Op) (st : St) (c : Nat) (q0 : List Nat) (hQ : Qc st c = some q0) (hnd : ¬ rxDropped c ops) :
    ∃ q', Qc (runFrom st ops).1 c = some q' ∧ recvdOn c (runFrom st ops).2 ++ q' = q0 ++ sentOn c (runFrom st ops).2 :=
  conn_fifo ops st c q0 hQ hnd

/-- **C08_clean** — once accept has returned (message or error), or the server was dropped unused, its descriptor is
closed and its file-system entries are gone; a `new` that fails at any step leaves no server behind. -/
theorem C08_clean_accept (st : St) (s : Nat) (h : (step st (.accept s)).2 ≠ .blocks) (hv : (step st (.accept s)).2 ≠ .invalid) :
    Gone (step st (.accept s)).1 s := accept_clean st s h hv
theorem C08_clean_drop (st : St) (s : Nat) (h : (step st (.dropServer s)).2 = .ok) : Gone (step st (.dropServer s)).1 s :=
  drop_clean st s h
theorem C08_clean_failed_new (st : St) (k : Nat) (hk : k ≠ 0) :
    (step st (.new k)).2 = .err ∧ (step st (.new k)).1.srvs = st.srvs ∧ (step st (.new k)).1.conns = st.conns :=
  new_fail_clean st k hk

/-- **C08_distinct** — in every history all servers ever created have pairwise distinct names (given fresh directory names). -/
theorem C08_distinct (ops : List Op) : ((run ops).1.srvs.map (·.name)).Nodup := (names_run ops).1

/-- shape facts regenerated on this run -/
theorem C08_shape : Gen.shape_tempdirDefault = true ∧ Gen.shape_serverOwnsBeforeBind = true ∧ Gen.shape_pathChecked = true ∧
    Gen.shape_acceptLingerThenRecv = true ∧ Gen.shape_acceptConsumesServer = true ∧ Gen.listenBacklog = 10 ∧
    Gen.shape_rendezvousCloexec = true ∧ Gen.shape_acceptOwnsBeforeLinger = true := by decide

/-! non-vacuity: the client connects, sends 7 and 8 and exits before accept; accept returns 7, the receiver then yields 8 and
reports disconnection; nothing is left -/
example : (run [.new 0, .accept 0, .connect 0, .accept 0, .csend 0 7, .csend 0 8, .cclose 0, .accept 0, .recv 0, .recv 0]).2
    = [.server 0 0, .blocks, .conn 0, .blocks, .ok, .ok, .ok, .accepted 0 7, .msg 8, .disc] := by decide
example : fsCount (run [.new 0, .connect 0, .csend 0 7, .accept 0]).1 = 0 ∧ listenFds (run [.new 0, .connect 0, .csend 0 7, .accept 0]).1 = 0 := by decide
example : fsCount (run [.new 3, .new 0, .dropServer 0]).1 = 0 := by decide

/-- **C08_inproc_registry** — the in-process transport's rendezvous (registry operations regenerated from `src/platform/inprocess/mod.rs`:
`new` registers, `accept` and dropping the server unregister, `connect` looks up without unwrapping): after any sequence of
new / connect / accept / drop, a connect reaches server `n` exactly when that server is still waiting and is an *error*
otherwise (a name never handed out, a server that has accepted, a server dropped unused); no operation ever panics; and
once no server is waiting the registry is empty — nothing created for a rendezvous remains. -/
theorem C08_inproc_registry (ops : List InprocReg.Op) (n : Nat) :
    InprocReg.codeVariant = InprocReg.fixed ∧
    (InprocReg.step InprocReg.fixed (InprocReg.run InprocReg.fixed ops).1 (.connect n)).2
      = (if (InprocReg.run InprocReg.fixed ops).1.phase[n]? = some .live then .connected n else .err) ∧
    InprocReg.Res.panic ∉ (InprocReg.run InprocReg.fixed ops).2 ∧
    ((∀ k : Nat, (InprocReg.run InprocReg.fixed ops).1.phase[k]? ≠ some InprocReg.Phase.live) → (InprocReg.run InprocReg.fixed ops).1.reg = []) :=
  ⟨InprocReg.code_variant.1, (InprocReg.connect_spec ops n).1, InprocReg.no_panic ops, fun h => (InprocReg.clean ops h).1⟩

/-- what one call of a blocking wait (`accept4`, the receive of the first message) answers -/
inductive WaitAns (α : Type) | eintr | done (a : α)

/-- the wait as `accept` performs it: `none` — still waiting; `some none` — an error passed on to the caller (who cannot retry:
`accept` has consumed the server); `some (some a)` — the awaited connection / message -/
def waitLoop {α : Type} (retry : Bool) : List (WaitAns α) → Option (Option α)
  | [] => none
  | .done a :: _ => some (some a)
  | .eintr :: q => if retry then waitLoop retry q else some none

theorem waitLoop_retry {α : Type} (n : Nat) (a : α) (rest : List (WaitAns α)) :
    waitLoop true (List.replicate n .eintr ++ .done a :: rest) = some (some a) := by
  induction n with
  | zero => rfl
  | succ n ih => simpa [List.replicate_succ, waitLoop] using ih

/-- **C08_accept_survives_signals** — however many times a signal cuts the wait in `accept4` or the wait for the first message short (`EINTR`), `accept` still
ends with the connection and its first message: both waits are repeated (regenerated: `shape_acceptRetriesEintr`).  Before the
repair (D22) the first interruption made `accept` fail — with the server consumed, the rendezvous was lost. -/
theorem C08_accept_survives_signals {α : Type} (n : Nat) (a : α) (rest : List (WaitAns α)) :
    Gen.shape_acceptRetriesEintr = true ∧
    waitLoop Gen.shape_acceptRetriesEintr (List.replicate n .eintr ++ .done a :: rest) = some (some a) := by
  have h : Gen.shape_acceptRetriesEintr = true := by decide
  exact ⟨h, by rw [h]; exact waitLoop_retry n a rest⟩

example : waitLoop false [WaitAns.eintr, .done 5] = some none := by decide

end C08
