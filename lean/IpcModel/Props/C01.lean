import IpcModel.Props.C13
/-!
# C01 — values and byte payloads arrive exactly as sent, at every size (transport part)

`d : List α` is the payload (any element type); `sys` the effective `SO_SNDBUF`.
-/
namespace C01
open Frag Gen Arith

/-- **C01_frag** — for every payload (length 0, one packet, one byte more, many packets …) and every buffer size
`1000 ≤ sys < 2^64`, an undisturbed `send` succeeds and the receiver reassembles exactly the payload. -/
theorem C01_frag (sys : Nat) (d : List α) (h : 1000 ≤ sys) (h64 : sys < 2^64) :
    (sendLoop sys d.length []).1 = .ok ∧
    ∃ p, firstPkt d (sendLoop sys d.length []).2 = some p ∧
      ∀ eof, recvMsg sys p (followPkts d (sendLoop sys d.length []).2) eof = .ok d := by
  have h1 := C13.C13_safe sys d.length [] h h64
  have h2 := sendLoop_nofault sys d.length
  have hok : (sendLoop sys d.length []).1 = .ok := by
    cases hr : (sendLoop sys d.length []).1 <;> simp_all
  exact ⟨hok, C13.C13_ok sys d [] h h64 hok⟩

/-- **C01_single_iff** — sender and receiver agree on which messages are fragmented: the message travels as one packet
exactly when it fits `first_fragment_size(sys)`, and exactly then the receiver's fast-path test `total = len` succeeds
and no dedicated socket rides along. -/
theorem C01_single_iff (sys : Nat) (d : List α) (h : 1000 ≤ sys) (h64 : sys < 2^64) (p : FirstPkt α)
    (hp : firstPkt d (sendLoop sys d.length []).2 = some p) :
    (p.total = p.payload.length ↔ d.length ≤ firstFragmentSize sys) ∧
    (p.hasDed = false ↔ d.length ≤ firstFragmentSize sys) ∧
    ((sendLoop sys d.length []).2 = [.single d.length .none] ↔ d.length ≤ firstFragmentSize sys) := by
  unfold sendLoop at hp ⊢
  by_cases hs : singleTest sys d.length = true
  · have hs' : d.length ≤ firstFragmentSize sys := by simpa [singleTest] using hs
    simp only [hs, if_true, nextFault] at hp ⊢
    simp [firstPkt] at hp
    subst hp
    simp [hs']
  · have hs' : ¬ d.length ≤ firstFragmentSize sys := by simpa [singleTest] using hs
    simp only [hs] at hp ⊢
    have hspec := fragLoop_spec sys d 0 sys [] h64 h (by omega) (by intro _; omega) (by omega)
    rcases hspec.2.2 rfl with ⟨hn, _, _⟩ | ⟨e, h1, h2, h3, h4, h5⟩
    · simp [firstPkt] at hp; rw [hn] at hp; simp at hp
    · simp [firstPkt] at hp; rw [h4] at hp; simp at hp
      subst hp
      have hl : (d.take e).length = e := by simp; omega
      simp [hl, hs']
      omega

/-- **C01_fits** (also C18_slices) — every slice `send` takes is inside the payload and non-empty, and every packet it
hands to the kernel is at most `fragment_size(sys) = sys − RESERVED_SIZE` bytes, the kernel's per-packet limit —
under every fault stream. -/
theorem C01_fits (sys len : Nat) (faults : List Fault) (h : 1000 ≤ sys) (h64 : sys < 2^64) :
    ∀ a ∈ (sendLoop sys len faults).2, attInRange len a ∧ attBytes a ≤ sys - 32 := by
  intro a ha
  have := sendLoop_bounds sys len faults h h64 a ha
  rw [fs_eq] at this
  exact this

/-! non-vacuity: a three-packet message under a 4608-byte buffer -/
example : sendLoop 4608 13000 [] = (.ok, [.sock, .first 0 4568 13000 .none, .follow 4568 9144 .none, .follow 9144 13000 .none]) := by
  simp [sendLoop, singleTest, ffs_eq, fs_eq, fragLoop, nextFault, endPos, mkAtt, endFirst, endFollow]

end C01
