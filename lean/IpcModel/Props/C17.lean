import IpcModel.Lemmas.RouterProof
/-!
# C17 — stopping a router, by shutdown or proxy drop, is clean and complete

The router thread is `run fixed st events`, where `events` is the flattened stream of `select()` results it consumes.
Theorems quantify over every state `st` (any number of live routes, anything queued) and every continuation `es` of the
event stream (further traffic on old routes, closures, wake-ups …).

Full statement of the remaining clause, **not proved here** (covered by the harness only, see DESIGN.md §5 C17):
`C17_returns_stopped / C17_no_deadlock` — in the closed system proxy + mutex + router + clients + re-entrant handlers, every
`shutdown()` call returns, and only after the `stop` effect.  The sequential part is `C17_shutdown_sequential` below.
-/
namespace C17
open Router

/-- **C17_stopped (shutdown)** — when the router processes `Shutdown`, every handler is dropped (one `dropH` per registered
route, logged *before* the acknowledgement), no handler remains, and whatever arrives afterwards has no effect at all:
no callback is ever invoked again. -/
theorem C17_stopped_shutdown (st : St) (c : Nat) (q : List RMsg) (es : List Ev)
    (hs : st.stopped = false) (hq : st.msgq = .shutdown c :: q) :
    (run fixed st (.wake :: es)).handlers = [] ∧ (run fixed st (.wake :: es)).stopped = true ∧
    (run fixed st (.wake :: es)).log = st.log ++ st.handlers.map (fun p => Eff.dropH p.2) ++ [.ack c, .stop] :=
  shutdown_stops st c q es hs hq

/-- **C17_stopped (proxy drop)** — closure of the wake-up channel stops the router the same way, without a panic. -/
theorem C17_stopped_proxy_drop (st : St) (es : List Ev) (hs : st.stopped = false) :
    (run fixed st (.wakeClosed :: es)).handlers = [] ∧ (run fixed st (.wakeClosed :: es)).stopped = true ∧
    (run fixed st (.wakeClosed :: es)).log = st.log ++ st.handlers.map (fun p => Eff.dropH p.2) ++ [.stop] :=
  wakeClosed_stops st es hs

/-- **C17_no_panic** — on every event stream that respects the receiver-set contract (C06) and the proxy's pairing of
wake-ups with queued messages, the router thread never panics. -/
theorem C17_no_panic (es : List Ev) (hok : okRun fixed Router.init es) : noPanic (run fixed Router.init es) :=
  run_noPanic Router.init es (by simp [noPanic, Router.init]) hok

/-- **C17_late** — a route offered after shutdown was requested (or after the proxy is gone) never reaches the router:
receiver and callback are dropped by the caller, nothing is invoked. -/
theorem C17_late (w : World) (r : Nat) (h : w.flag = true ∨ w.proxyAlive = false) :
    (World.op fixed w (.addRoute r)).st = w.st ∧ (World.op fixed w (.addRoute r)).refused = w.refused ++ [r] := by
  rcases h with h | h <;> simp [World.op, h]

/-- **C17_idempotent** — a second `shutdown` request does not reach the router. -/
theorem C17_idempotent (w : World) (h : w.flag = true) : World.op fixed w .shutdown = w := by
  simp [World.op, h]

/-- **C17_shutdown_sequential** — for a sequential client: after `shutdown` the router is stopped with no handler left,
whatever routes and traffic came before, and every later operation leaves the router's log unchanged. -/
theorem C17_shutdown_sequential (w : World) (hf : w.flag = false) (hp : w.proxyAlive = true) (hq : w.st.msgq = [])
    (hs : w.st.stopped = false) (later : List Op) :
    let w' := World.op fixed w .shutdown
    w'.st.stopped = true ∧ w'.st.handlers = [] ∧
    (later.foldl (World.op fixed) w').st.log = w'.st.log ∧ (later.foldl (World.op fixed) w').st.handlers = [] := by
  intro w'
  have h1 : w'.st = step fixed { w.st with msgq := [.shutdown 0] } .wake := by
    simp [w', World.op, hf, hp, hq]
  have h2 := shutdown_stops { w.st with msgq := [.shutdown 0] } 0 [] [] hs rfl
  simp only [run, List.foldl_cons, List.foldl_nil] at h2
  rw [← h1] at h2
  -- once stopped, every operation leaves the router's log and handlers unchanged
  have key : ∀ (ops : List Op) (x : World), x.st.stopped = true →
      (ops.foldl (World.op fixed) x).st.log = x.st.log ∧ (ops.foldl (World.op fixed) x).st.handlers = x.st.handlers := by
    intro ops
    induction ops with
    | nil => intro x _; exact ⟨rfl, rfl⟩
    | cons o ops ih =>
      intro x hx
      simp only [List.foldl_cons]
      have hstep : (World.op fixed x o).st.log = x.st.log ∧ (World.op fixed x o).st.handlers = x.st.handlers ∧
          (World.op fixed x o).st.stopped = true := by
        cases o with
        | addRoute r => simp only [World.op]; split <;> simp [step, hx]
        | send r tag => simp only [World.op]; split <;> simp [step_stopped, hx]
        | dropSender r => simp only [World.op]; split <;> simp [step_stopped, hx]
        | shutdown => simp only [World.op]; split <;> simp [step, hx]
        | dropProxy => simp only [World.op]; split <;> simp [step_stopped, hx]
      have := ih _ hstep.2.2
      exact ⟨this.1.trans hstep.1, this.2.trans hstep.2.1⟩
  have k := key later w' h2.2.1
  exact ⟨h2.2.1, h2.1, k.1, k.2.trans h2.1⟩

/-! ### sensitivity: the pre-fix router -/
/-- D6: after the acknowledgement the legacy router still holds and invokes the callback -/
example : (run legacy ⟨[(1, 7)], 2, [.shutdown 0], false, []⟩ [.wake, .msg 1 42]).log = [.ack 0, .invoke 7 42] := by decide
/-- D7: dropping the proxy panics the legacy router thread -/
example : (run legacy ⟨[(1, 7)], 2, [], false, []⟩ [.wakeClosed]).log = [.panic] := by decide
/-- repaired, same inputs -/
example : (run fixed ⟨[(1, 7)], 2, [.shutdown 0], false, []⟩ [.wake, .msg 1 42]).log = [.dropH 7, .ack 0, .stop] := by decide
example : (run fixed ⟨[(1, 7)], 2, [], false, []⟩ [.wakeClosed]).log = [.dropH 7, .stop] := by decide

end C17
