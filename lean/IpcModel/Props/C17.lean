import IpcModel.Lemmas.RouterProof
import IpcModel.GenRouter
import IpcModel.Lemmas.RouterSysProof
/-!
# C17 — stopping a router, by shutdown or proxy drop, is clean and complete

The router thread is `run fixed st events`, where `events` is the flattened stream of `select()` results it consumes.
Theorems quantify over every state `st` (any number of live routes, anything queued) and every continuation `es` of the
event stream (further traffic on old routes, closures, wake-ups …).

The closed system — client threads calling `add_route` / `shutdown` (any number of times, concurrently), the proxy mutex,
the crossbeam queue, the wake-up channel, the router thread and callbacks that re-enter `add_route` on the router thread
— is the small-step model `RSys`; over all its interleavings: `C17_returns_stopped` (a `shutdown()` call, first or late,
returns only in states where the router has stopped and holds no callback), `C17_stopped_forever`, and `C17_no_deadlock`
(no reachable state in which an unfinished call has no enabled step).  The code before the fix (`RSys.legacy`: waiting for
the acknowledgement while holding the mutex) has a reachable stuck state — exhibited below.
Not reached by a theorem: fairness of the OS scheduler (that enabled steps are eventually taken).
-/
namespace C17
open Router

/-- **C17_stopped (shutdown)** — when the router processes `Shutdown`, every handler is dropped (one `dropH` per registered
route, logged *before* the acknowledgement), no handler remains, and whatever arrives afterwards has no effect at all:
no callback is ever invoked again. -/
theorem C17_stopped_shutdown (st : St) (c : Nat) (q : List RMsg) (es : List Ev)
    (hs : st.stopped = false) (hq : st.msgq = .shutdown c :: q) :
    (run fixed st (.wake :: es)).handlers = [] ∧ (run fixed st (.wake :: es)).stopped = true ∧
    (run fixed st (.wake :: es)).log = st.log ++ st.handlers.map (fun p => Eff.dropH p.2) ++ [.ack c, .stop] :=
  shutdown_stops st c q es hs hq

/-- **C17_stopped (proxy drop)** — closure of the wake-up channel stops the router the same way, without a panic. -/
theorem C17_stopped_proxy_drop (st : St) (es : List Ev) (hs : st.stopped = false) :
    (run fixed st (.wakeClosed :: es)).handlers = [] ∧ (run fixed st (.wakeClosed :: es)).stopped = true ∧
    (run fixed st (.wakeClosed :: es)).log = st.log ++ st.handlers.map (fun p => Eff.dropH p.2) ++ [.stop] :=
  wakeClosed_stops st es hs

/-- **C17_no_panic** — on every event stream that respects the receiver-set contract (C06) and the proxy's pairing of
wake-ups with queued messages, the router thread never panics. -/
theorem C17_no_panic (es : List Ev) (hok : okRun fixed Router.init es) : noPanic (run fixed Router.init es) :=
  run_noPanic Router.init es (by simp [noPanic, Router.init]) hok

/-- **C17_late** — a route offered after shutdown was requested (or after the proxy is gone) never reaches the router:
receiver and callback are dropped by the caller, nothing is invoked. -/
theorem C17_late (w : World) (r : Nat) (h : w.flag = true ∨ w.proxyAlive = false) :
    (World.op fixed w (.addRoute r)).st = w.st ∧ (World.op fixed w (.addRoute r)).refused = w.refused ++ [r] := by
  rcases h with h | h <;> simp [World.op, h]

/-- **C17_idempotent** — a second `shutdown` request does not reach the router. -/
theorem C17_idempotent (w : World) (h : w.flag = true) : World.op fixed w .shutdown = w := by
  simp [World.op, h]

/-- **C17_shutdown_sequential** — for a sequential client: after `shutdown` the router is stopped with no handler left,
whatever routes and traffic came before, and every later operation leaves the router's log unchanged. -/
theorem C17_shutdown_sequential (w : World) (hf : w.flag = false) (hp : w.proxyAlive = true) (hq : w.st.msgq = [])
    (hs : w.st.stopped = false) (later : List Op) :
    let w' := World.op fixed w .shutdown
    w'.st.stopped = true ∧ w'.st.handlers = [] ∧
    (later.foldl (World.op fixed) w').st.log = w'.st.log ∧ (later.foldl (World.op fixed) w').st.handlers = [] := by
  intro w'
  have h1 : w'.st = step fixed { w.st with msgq := [.shutdown 0] } .wake := by
    simp [w', World.op, hf, hp, hq]
  have h2 := shutdown_stops { w.st with msgq := [.shutdown 0] } 0 [] [] hs rfl
  simp only [run, List.foldl_cons, List.foldl_nil] at h2
  rw [← h1] at h2
  -- once stopped, every operation leaves the router's log and handlers unchanged
  have key : ∀ (ops : List Op) (x : World), x.st.stopped = true →
      (ops.foldl (World.op fixed) x).st.log = x.st.log ∧ (ops.foldl (World.op fixed) x).st.handlers = x.st.handlers := by
    intro ops
    induction ops with
    | nil => intro x _; exact ⟨rfl, rfl⟩
    | cons o ops ih =>
      intro x hx
      simp only [List.foldl_cons]
      have hstep : (World.op fixed x o).st.log = x.st.log ∧ (World.op fixed x o).st.handlers = x.st.handlers ∧
          (World.op fixed x o).st.stopped = true := by
        cases o with
        | addRoute r => simp only [World.op]; split <;> simp [step, hx]
        | send r tag => simp only [World.op]; split <;> simp [step_stopped, hx]
        | dropSender r => simp only [World.op]; split <;> simp [step_stopped, hx]
        | badFwd r => simp only [World.op]; split <;> simp [step_stopped, hx]
        | shutdown => simp only [World.op]; split <;> simp [step, hx]
        | dropProxy => simp only [World.op]; split <;> simp [step_stopped, hx]
      have := ih _ hstep.2.2
      exact ⟨this.1.trans hstep.1, this.2.trans hstep.2.1⟩
  have k := key later w' h2.2.1
  exact ⟨h2.2.1, h2.1, k.1, k.2.trans h2.1⟩

/-! ### sensitivity: the pre-fix router -/
/-- D6: after the acknowledgement the legacy router still holds and invokes the callback -/
example : (run legacy ⟨[(1, 7)], 2, [.shutdown 0], false, []⟩ [.wake, .msg 1 42]).log = [.ack 0, .invoke 7 42] := by decide
/-- D7: dropping the proxy panics the legacy router thread -/
example : (run legacy ⟨[(1, 7)], 2, [], false, []⟩ [.wakeClosed]).log = [.panic] := by decide
/-- D19: a message that does not decode, on a crossbeam-forwarding route, panics the legacy router thread (and every other route with it) -/
example : (run legacy ⟨[(1, 7), (2, 8)], 3, [], false, []⟩ [.badFwd 1, .msg 2 5]).log = [.panic, .invoke 8 5] ∧
    (run fixed ⟨[(1, 7), (2, 8)], 3, [], false, []⟩ [.badFwd 1, .msg 2 5]).log = [.invoke 8 5] := by decide
/-- repaired, same inputs -/
example : (run fixed ⟨[(1, 7)], 2, [.shutdown 0], false, []⟩ [.wake, .msg 1 42]).log = [.dropH 7, .ack 0, .stop] := by decide
example : (run fixed ⟨[(1, 7)], 2, [], false, []⟩ [.wakeClosed]).log = [.dropH 7, .stop] := by decide

/-! ### closed system: proxy, mutex, router thread, client threads, re-entrant callbacks -/

/-- the invariant holds initially (any client programs, any registered routes, any pending traffic) and along every run -/
theorem C17_sys_inv (threads : List (List RSys.Call)) (routes : List Nat) (traffic : List (Nat × Nat)) (as : List RSys.Act)
    (st' : RSys.St) (h : RSys.run RSys.fixed (RSys.init threads routes traffic) as = some st') : RSys.Inv st' :=
  RSys.inv_run _ st' as (RSys.inv_init threads routes traffic) h

/-- **C17_returns_stopped** — every `shutdown()` call, first or late, from any thread, returns only when the router thread
has stopped and every callback has been dropped. -/
theorem C17_returns_stopped (st st' : RSys.St) (i : Nat) (hi : RSys.Inv st) (hw : (st.threads i).ph = .waiting)
    (h : RSys.step RSys.fixed st (.thread i) = some st') :
    st.rpc = .stopped ∧ st.handlers = [] ∧ st'.rpc = .stopped ∧ st'.handlers = [] :=
  RSys.shutdown_returns_stopped st st' i hi hw h

/-- **C17_stopped_forever** — after the stop no callback is invoked and no route is registered, whatever the other threads do -/
theorem C17_stopped_forever (st st' : RSys.St) (a : RSys.Act) (hs : st.rpc = .stopped) (hh : st.handlers = [])
    (h : RSys.step RSys.fixed st a = some st') : st'.rpc = .stopped ∧ st'.handlers = [] ∧ st'.invokedLog = st.invokedLog :=
  RSys.stopped_forever RSys.fixed st st' a hs hh h

/-- **C17_no_deadlock** — in every reachable state in which some proxy call is unfinished, some step is enabled. -/
theorem C17_no_deadlock (st : RSys.St) (hi : RSys.Inv st) (hnf : ¬ RSys.Finished st) : ∃ a st', RSys.step RSys.fixed st a = some st' :=
  RSys.no_stuck st hi hnf

/-- **C17_wake_channel_bounded** — with coalesced wake-ups (a request sends a wake-up only if none is pending; the router clears
the flag before it serves the queue) the wake-up channel never holds more than one message, in every reachable state of
every variant: no `send` on it can ever block, whoever issues it — in particular not the router thread itself when a
callback registers routes.  (Before this repair every request sent its own wake-up: 278 registrations made by callbacks
within one `select` batch filled the channel, and the router thread blocked on its own wake-up while holding the proxy
mutex — reproduced on the real crate, see DESIGN.md §12.5 D15; `router --mode selfwake` is the regression case.) -/
theorem C17_wake_channel_bounded (V : RSys.Variant) (threads : List (List RSys.Call)) (routes : List Nat) (traffic : List (Nat × Nat))
    (as : List RSys.Act) (st' : RSys.St) (h : RSys.run V (RSys.init threads routes traffic) as = some st') : st'.wakeq ≤ 1 :=
  (RSys.winv_run V _ st' as (RSys.winv_init threads routes traffic) h).atMostOne

/-- sensitivity — the code before the fix: a callback re-entering `add_route` on the router thread while another thread waits
for the acknowledgement holding the mutex: after these three steps nothing is enabled and two calls are unfinished -/
def legacyCfg : RSys.St := RSys.init [[.shutdown], [.shutdown]] [1] [(1, 1)]
example : (RSys.run RSys.legacy legacyCfg [.deliver 0, .thread 1, .thread 1]).map (fun st =>
      (RSys.step RSys.legacy st (.thread 0)).isNone && (RSys.step RSys.legacy st (.thread 1)).isNone &&
      (RSys.step RSys.legacy st .router).isNone && (RSys.step RSys.legacy st (.deliver 0)).isNone &&
      !(st.threads 0).todo.isEmpty && !(st.threads 1).todo.isEmpty) = some true := by decide
/-- the same schedule in the repaired system is not stuck: the router thread gets the mutex -/
example : (RSys.run RSys.fixed legacyCfg [.deliver 0, .thread 1, .thread 1]).map (fun st => (RSys.step RSys.fixed st .router).isSome) = some true := by decide

/-- the event loop of the real `Router::run` distinguishes exactly the four kinds of select result the model's `step` has
(wake-up message, routed message, wake-up channel closed, routed channel closed) — regenerated from `src/router.rs` -/
theorem C17_shape : Gen.routerRunArms = 4 := by decide

/-- **C17_code_variant** — the source as it is now is the variant the theorems of this file are about: a wake-up clears the flag and
then serves the whole queue; the `Shutdown` arm drops the handlers, then acknowledges, then ends the thread; a closed wake-up
channel has its own arm; `shutdown` awaits the acknowledgement after the locked block; `add_route` locks, checks for a late
offer, queues the request and wakes the router, in this order; wake-ups are coalesced through the shared flag. -/
theorem C17_code_variant : Router.codeVariant = Router.fixed ∧ RSys.codeVariant = RSys.fixed ∧ Gen.shape_shutdownOrder = true ∧
    Gen.shape_shutdownIdempotent = true ∧ Gen.shape_addRouteOrder = true ∧ Gen.shape_wakeCoalesced = true := by decide

end C17
