import IpcModel.Lemmas.BoundsProof
import IpcModel.GenUnsafe
import IpcModel.Props.C01
import IpcModel.Props.C05
/-!
# C18 — unsafe transport code stays inside its buffers for every message shape

What is proved is the **index arithmetic** of the unsafe code, on ghost models whose checks are exactly the facts the
`unsafe` blocks rely on (`Bounds`: capacity / length / kernel-written prefix of the receive buffer; `Frag`: the slices
`send` takes; `Gen`: control-message space; `Shm`: map/unmap pairing and zero length).  The arithmetic itself
(`recvEnd`, `recvFirstLen`, `recvSetLenAfter`, `cmsg*`, `channelLength`, fragment sizes) is regenerated from the Rust
source on every run.  **Not reached**: memory safety of the compiled code as such (no Lean model of Rust's memory); the
thorough tier adds a valgrind run of the same shapes as support, which is not a proof.
-/
namespace C18
open Bounds Frag Gen Arith

/-- **C18_recv_bounds** — for every buffer size, every first packet the kernel can return that has its 8-byte header,
every announced total not smaller than the first payload and **every** sequence of follow-up packet sizes (also ones no
correct sender would produce): `set_len` never exceeds the capacity, no count is negative, every kernel write lies
inside the allocation, and a returned buffer has exactly the announced length with every byte written by the kernel. -/
theorem C18_recv_bounds (sys n total : Nat) (pkts : List Nat) (eof : Bool)
    (hn8 : 8 ≤ n) (hnm : n ≤ 8 + recvFirstBuf sys) (htot : n - 8 ≤ total) :
    (∀ v, Bounds.recv sys n total pkts eof ≠ .viol v) ∧
    (∀ b, Bounds.recv sys n total pkts eof = .ok b → b.len = total ∧ b.written = total ∧ b.len ≤ b.cap) :=
  recv_spec sys n total pkts eof hn8 hnm htot

/-- **C18_protocol** — the two facts `C18_recv_bounds` asks of a first packet hold for every packet any `send` puts on
the channel socket, under every ENOBUFS / error pattern: it carries its header, fits the receiver's first buffer, and
announces at least its own payload.  (That the channel socket carries nothing but such packets is C02's invariant.) -/
theorem C18_protocol (sys len : Nat) (faults : List Fault) (h : 1000 ≤ sys) (h64 : sys < 2^64) :
    ∀ a ∈ (sendLoop sys len faults).2,
      match a with
      | .single l _ => 8 ≤ 8 + l ∧ 8 + l ≤ 8 + recvFirstBuf sys ∧ (8 + l) - 8 ≤ l ∧ l = len
      | .first lo hi total _ => 8 ≤ 8 + (hi - lo) ∧ 8 + (hi - lo) ≤ 8 + recvFirstBuf sys ∧ (8 + (hi - lo)) - 8 ≤ total ∧ total = len
      | _ => True := by
  intro a ha
  have h1 := sendLoop_firstFits sys len faults h h64 a ha
  have h2 := (sendLoop_bounds sys len faults h h64 a ha).1
  cases a with
  | single l r => simp only [attFirstOk, attInRange] at h1 h2; simp only [recvFirstBuf]; omega
  | first lo hi total r => simp only [attFirstOk, attInRange] at h1 h2; simp only [recvFirstBuf]; omega
  | sock => trivial
  | follow lo hi r => trivial

/-- **C18_slices** — every slice `send` takes from the payload is inside it and non-empty, under every fault stream. -/
theorem C18_slices (sys len : Nat) (faults : List Fault) (h : 1000 ≤ sys) (h64 : sys < 2^64) :
    (sendLoop sys len faults).1 ≠ .panic ∧ ∀ a ∈ (sendLoop sys len faults).2, attInRange len a :=
  ⟨C13.C13_safe sys len faults h h64, fun a ha => (sendLoop_bounds sys len faults h h64 a ha).1⟩

/-- **C18_cmsg** — writer: the control message for `n` descriptors fits the space computed for it; reader: the number of
descriptors read from a control buffer of the allocated size never exceeds what that buffer can hold. -/
theorem C18_cmsg_writer (n : Nat) (h : 4 * n + 8 < 2^64) : cmsgLen (4 * n) ≤ cmsgSpace (4 * n) := cmsg_writer n h

theorem C18_cmsg_reader (cmsg_len : Nat) (h16 : 16 ≤ cmsg_len) (hle : cmsg_len ≤ cmsgSpace (4 * maxFdsInCmsg)) :
    16 + 4 * channelLength cmsg_len ≤ cmsgSpace (4 * maxFdsInCmsg) := by
  have hs : cmsgSpace (4 * maxFdsInCmsg) = 272 := by decide
  have ha : cmsgAlign 16 = 16 := by decide
  simp only [channelLength, ha] at *
  omega

/-- **C18_shm** — a region is unmapped with exactly the length it was mapped with, only by the handle that owns the
mapping, and a zero-length region has no mapping at all (never a slice from a null pointer). -/
theorem C18_shm_pairing (ops : List Shm.Op) (i : Nat) (h : Shm.Handle) (src : List Nat)
    (hl : (Shm.run ops).hs[i]? = some (some (h, src))) :
    match h.ptr with
    | none => h.length = 0
    | some a => ∃ o, (Shm.run ops).k.maps a = some (o, h.length) ∧ h.length ≠ 0 := by
  obtain ⟨hlen, _, o, _, _, hp⟩ := (Shm.inv_run ops C05.size_is_length).2.1 i h src hl
  cases hptr : h.ptr with
  | none => simp only [hptr] at hp; simp [hp] at hlen; simpa using hlen
  | some a =>
    simp only [hptr] at hp
    refine ⟨o, by rw [hlen]; exact hp.2.2, ?_⟩
    rw [hlen]; simpa using hp.1

theorem C18_shm_zero (ops : List Shm.Op) : ∀ c ∈ (Shm.run ops).k.calls, c ≠ Shm.Call.mmap 0 ∧ c ≠ Shm.Call.munmap 0 :=
  C05.C05_zero ops

/-- shape facts regenerated on this run -/
theorem C18_shape : Gen.shape_recvSetLenBeforeRead = true ∧ Gen.shape_mapZeroIsNull = true ∧ Gen.shape_derefNullIsEmpty = true := by decide

/-! non-vacuity: a three-packet message under a 4608-byte buffer, with well-formed and with adversarial follow-ups -/
example : Bounds.recv 4608 4576 13000 [4576, 3856] true = .ok ⟨13000, 13000, 13000⟩ := by decide
example : Bounds.recv 4608 4576 13000 [9999, 1, 0] true = .closed := by decide

/-! sensitivity: setting the length to the requested end instead of what the kernel delivered (a short follow-up packet,
as after ENOBUFS downsizing) exposes bytes the kernel never wrote -/
example : Bounds.followWith (fun _ _ ep => ep) 4608 13000 ⟨13000, 4568, 4568⟩ [100] true = .viol .lenExposesUnwritten := by decide
/-! sensitivity: without the 8-byte header the subtraction underflows -/
example : Bounds.recv 4608 5 13000 [] true = .viol .headerUnderflow := by decide

/-! ### inventory of `unsafe` (regenerated): every site is accounted for

`platform/unix/mod.rs` has 38 `unsafe` blocks / functions in 36 functions (plus `unsafe impl Send / Sync` for the region type).
They fall into:

* **system calls on descriptors and plain values, no buffer of ours involved** — `channel`, the `drop`s (close / munmap / free
  of what the object owns: C11_shape), `get_system_sendbuf_size`, `connect`, `select` (close of a member), `new`, `accept`,
  `make_socket_lingering`, `clone` (dup), `from_fd`, `create_shmem`, `is_socket`, `memfd_create`, `UnixCmsg::recv` (poll /
  fcntl / recvmsg on the prepared header);
* **`sockaddr_un` path copy** — `new_sockaddr_un`: `strncpy` of at most `len − 1` bytes after the `strlen ≥ len` refusal
  (`Gen.shape_pathChecked`, C08_shape);
* **send side** — `send` (the two calls pass slices `&data[..end]`, `&data[pos..end]`: `C18_slices`), `send_first_fragment`
  (control buffer of `CMSG_SPACE(4·n)` bytes, `copy_nonoverlapping` of `n` descriptors at `CMSG_DATA`: `C18_cmsg_writer`;
  the two `iovec`s are the 8-byte header and the slice), `send_followup_fragment` (pointer + length of one slice);
* **receive side** — `recv` (first buffer, `set_len` after the first packet, `cmsg_fds.add(index)` for
  `index < channel_length`: `C18_cmsg_reader`; the reassembly loop's `set_len` / pointer / length: `C18_recv_bounds`,
  `C18_protocol`), `UnixCmsg::new` (control buffer of `CMSG_SPACE(4·MAX_FDS_IN_CMSG)`), `new_msghdr` (zeroed header),
  `cmsg_len`, `CMSG_DATA` (header-sized offset into that buffer), `UnixCmsg::drop` (free);
* **regions** — `map_file`, `deref`, `from_raw_parts`, `from_byte`, `from_bytes` (mapping length = object length = slice
  length; null for length 0: `C18_shm_pairing`, `C18_shm_zero`, C05).

`C18_unsafe_inventory` pins the list and the number of pointer-level operations of each kind, so that a new, moved or
removed site breaks this obligation and has to be classified again. -/

/-- **C18_unsafe_inventory** — the functions containing `unsafe` and the pointer-level operations of the Unix transport are exactly
the ones the bounds theorems of this file (and C05 / C08 / C11) speak about. -/
theorem C18_unsafe_inventory :
    Gen.unsafeSites = [("new_sockaddr_un", 1), ("channel", 1), ("drop", 1), ("drop", 1), ("get_system_sendbuf_size", 1), ("send", 2),
      ("send_first_fragment", 1), ("send_followup_fragment", 1), ("connect", 1), ("drop", 1), ("select", 1), ("drop", 1), ("drop", 1),
      ("new", 1), ("accept", 1), ("make_socket_lingering", 1), ("map_file", 1), ("drop", 1), ("drop", 1), ("clone", 1), ("deref", 1),
      ("from_raw_parts", 1), ("from_fd", 1), ("from_byte", 1), ("from_bytes", 1), ("recv", 2), ("new_msghdr", 1), ("create_shmem", 1),
      ("create_shmem", 1), ("drop", 1), ("new", 1), ("recv", 1), ("cmsg_len", 1), ("is_socket", 1), ("memfd_create", 1), ("CMSG_DATA", 1)] ∧
    Gen.unsafeOutsideFns = 2 ∧
    Gen.ptrOps = [("set_len", 4), ("as_mut_ptr", 7), ("as_ptr", 9), ("copy_nonoverlapping", 2), ("from_raw_parts", 2), ("offset/add", 2),
      ("malloc", 2), ("free", 2), ("mmap", 1), ("munmap", 1), ("write_bytes/memset", 0), ("strncpy", 1), ("zeroed", 2), ("transmute", 0),
      ("get_unchecked", 0)] := ⟨rfl, rfl, rfl⟩

end C18
