import IpcModel.Ledger.LP
import IpcModel.GenOwn
/-!
# C11 — no descriptor is leaked, closed twice or closed without being owned

Ledger model: descriptor numbers in creation order (never reused), sender clones as `Arc` groups with counts, handles
`snd arc | rcv fd | dead`.  Histories are arbitrary sequences of `install` (socketpair / accept / a descriptor received
through SCM_RIGHTS becomes a handle), `clone`, `drop` (also: an embedded receiver moved into a message and closed after
`sendmsg`).  The harness maps every public-API program to such a history and compares the number of open descriptors
after each step (`ledger` requests of the `world` scenario).
-/
namespace C11
open Ledger

/-- **C11_own** — after any history, every open descriptor the library created or received is owned by exactly one live handle
(or `Arc` group with a positive count), and every handle's descriptor is open (the 11-clause invariant `Inv`). -/
theorem C11_own (ops : List Op) (st : St) (h : run init ops = some st) : Inv st :=
  inv_run init st ops inv_init h

/-- **C11_restore** — once every handle has been dropped, every descriptor ever created or received is closed: nothing leaked. -/
theorem C11_restore (ops : List Op) (st : St) (h : run init ops = some st)
    (hall : ∀ (i : Nat) (hd : H), st.hs[i]? = some hd → hd = H.dead) : ∀ fd, fd < st.ofdOf.length → fd ∈ st.closed :=
  restore ops st h hall

/-- **C11_close_once** — the library closes only descriptors it owns, and never one twice: the list of closed descriptors
has no duplicates and every entry was a descriptor it had created or received. -/
theorem C11_close_once (ops : List Op) (st : St) (h : run init ops = some st) :
    st.closed.Nodup ∧ ∀ fd, fd ∈ st.closed → fd < st.ofdOf.length := by
  have key : ∀ (ops : List Op) (s s' : St), Inv s → s.closed.Nodup → run s ops = some s' → s'.closed.Nodup := by
    intro ops
    induction ops with
    | nil => intro s s' _ hn hr; simp [run] at hr; subst hr; exact hn
    | cons op ops ih =>
      intro s s' hI hn hr
      simp only [run] at hr
      split at hr
      · rename_i s1 h1
        refine ih s1 s' (inv_step s s1 op hI h1) ?_ hr
        cases op with
        | install o k =>
          simp only [step, Option.some.injEq] at h1; subst h1
          cases k <;> simpa [opInstall] using hn
        | clone i =>
          simp only [step, opClone] at h1
          split at h1
          · split at h1
            · simp only [Option.some.injEq] at h1; subst h1; simpa using hn
            · simp at h1
          · simp at h1
        | drop i =>
          simp only [step, opDrop] at h1
          split at h1
          · rename_i a hi
            split at h1
            · rename_i arc ha
              simp only [Option.some.injEq] at h1; subst h1
              simp only
              split
              · rename_i hc
                have := hI.arcOpen a arc ha (by omega)
                exact List.nodup_cons.mpr ⟨this.2, hn⟩
              · exact hn
            · simp at h1
          · rename_i fd hi
            simp only [Option.some.injEq] at h1; subst h1
            have := hI.rcvOpen i fd hi
            exact List.nodup_cons.mpr ⟨this.2, hn⟩
          · simp at h1
      · simp at hr
  exact ⟨key ops init st inv_init (by simp [init]) h, (inv_run init st ops inv_init h).closedBound⟩

/-- non-vacuity: a channel, a clone, everything dropped -/
example : (run init [.install 0 .snd, .install 0 .rcv, .clone 0, .drop 0, .drop 2, .drop 1]).map (fun s => (s.closed, s.hs))
    = some ([1, 0], [H.dead, H.dead, H.dead]) := by decide

/-- **C11_shape** — what the ledger model's operations assume about who owns a descriptor, regenerated from the source: a receiver
closes its descriptor when dropped unless it was consumed (moved into a message, a set or another receiver); sender clones
share one descriptor closed by the last clone; an attachment that was never converted into an endpoint closes its
descriptor; a set closes its members; a region closes its backing store once and unmaps exactly the mapped length; every
way a descriptor enters the process (socketpair, socket, accept4, recvmsg, dup, memfd) asks for close-on-exec. -/
theorem C11_shape : Gen.shape_receiverOwnsOnce = true ∧ Gen.shape_senderSharedDescriptor = true ∧ Gen.shape_opaqueOwnsUntilConverted = true ∧
    Gen.shape_setClosesMembers = true ∧ Gen.shape_regionReleases = true ∧ Gen.shape_everythingCloexec = true ∧
    Gen.shape_connectOwnsBeforeFallible = true := by decide

/-- who owns a receiver's descriptor after `OsIpcReceiverSet::add`, given the kernel's answer to the registration -/
inductive AddOwner | set | closedByReceiver | nobody
deriving Repr, DecidableEq

/-- `takeFirst`: the descriptor is taken out of the receiver before the (fallible) registration — the code before the repair (D21) -/
def addOwner (takeFirst registerOk : Bool) : AddOwner :=
  if registerOk then .set else if takeFirst then .nobody else .closedByReceiver

/-- **C11_set_add_never_orphans** — whatever the kernel answers to the registration, the descriptor handed to `add` has an owner afterwards: the set,
or the receiver (which is dropped on return and closes it) — for the order of the two statements regenerated from the source.
Before the repair a refused registration left it owned by nobody (open for ever). -/
theorem C11_set_add_never_orphans (registerOk : Bool) :
    Gen.shape_setAddOwnsAfterRegister = true ∧ addOwner (!Gen.shape_setAddOwnsAfterRegister) registerOk ≠ .nobody := by
  cases registerOk <;> decide

example : addOwner true false = .nobody := by decide

end C11
