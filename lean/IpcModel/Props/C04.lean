import IpcModel.Lemmas.IdealProof
import IpcModel.Props.C14
import IpcModel.Props.C15
import IpcModel.Props.C16
/-!
# C04 — endpoints sent inside messages keep their identity, position and backlog

Three layers, each with its theorem:
* **wire** (`Wire`): a value with endpoints and regions anywhere in it decodes from its own encoding to the same value —
  every endpoint at its position — consuming exactly its own attachment slots (`C04_roundtrip`);
* **ipc.rs tables** (`Side`): a successful `send` hands the OS exactly the value's endpoints, in traversal order, indexed
  from 0, whatever nested sends happened meanwhile (`C04_own`);
* **descriptors** (`Cmsg`): channels ++ regions ++ dedicated socket go through the kernel and are split back into exactly
  (channels, regions, dedicated) on the other side, for single- and multi-packet messages (`C04_fd_order`);
* **queues** (`Ideal`, the specification the transports are compared with step by step): the queue of a channel belongs to
  the channel, not to a handle — moving the receiver handle inside messages, over any number of hops, never changes what
  is queued; everything sent before, during and after the hops is received in order (`C04_backlog`), and while the
  receiver is in transit the program's old handle yields nothing (`C04_moved_from`).
-/
namespace C04
open Ideal

/-- **C04_roundtrip** — identity and position of every endpoint and region in any well-typed value. -/
theorem C04_roundtrip (v : Wire.Value) (s : Wire.Schema) (h : Wire.HasType v s) (r : Wire.Bytes) (fuel : Nat) (hf : Wire.vsize v < fuel)
    (hc : (Wire.chans v).length < 256 ^ 8) (hs : (Wire.shms v).length < Wire.USIZE_MAX) :
    Wire.toValue ⟨false⟩ fuel s (Wire.enc v 0 0 ++ r) (Wire.chans v) (Wire.shms v)
      = .ok v r ⟨(Wire.chans v).map fun _ => none, (Wire.shms v).map fun _ => none⟩ :=
  C16.C16_roundtrip v s h r fuel hf hc hs

/-- **C04_own** — the attachments of the OS-level message are the value's own endpoints in traversal order. -/
theorem C04_own (osOk : Nat → Bool) (tx : Nat) (v : List Side.Node) (tls : Side.Tls) (eff : Side.Eff)
    (h : (Side.ipcSend ⟨false⟩ osOk tx v tls eff).1 = true) :
    ∃ before, (Side.ipcSend ⟨false⟩ osOk tx v tls eff).2.2.sent
      = before ++ [⟨tx, Side.ownBytes v 0 0, Side.ownChans v, Side.ownShms v⟩] :=
  C14.C14_own osOk tx v tls eff h

/-- **C04_fd_order** — descriptor lists survive the kernel and are split back exactly, small or multi-packet. -/
theorem C04_fd_order (sys len : Nat) (faults : List Frag.Fault) (chans shms : List Cmsg.Fd) (ded : Cmsg.Fd)
    (hc : ∀ c ∈ chans, c.sock = true) (hs : ∀ s ∈ shms, s.sock = false) (hd : ded.sock = true)
    (hok : (Cmsg.osSend sys len (chans.length + shms.length) faults).1 = .ok) :
    Cmsg.recvSplit (Cmsg.sendFds chans shms (if Cmsg.isFrag (Cmsg.osSend sys len (chans.length + shms.length) faults).2 then some ded else none))
        (Cmsg.isFrag (Cmsg.osSend sys len (chans.length + shms.length) faults).2)
      = some (chans, shms, if Cmsg.isFrag (Cmsg.osSend sys len (chans.length + shms.length) faults).2 then some ded else none) :=
  (C15.C15_accept_all sys len faults chans shms ded hc hs hd hok).2

/-- **C04_backlog (one step)** — no operation other than a successful send on `d`, a successful receive from `d`, or the
destruction of `d`'s receiver changes `d`'s queue; sends append at the tail, receives remove the head. -/
theorem C04_queue_step (st : St) (op : Op) (d : Nat) : QEffect st (step st op).1 d op (step st op).2 := fifo_step st op d

/-- **C04_backlog** — over every program, for every channel `d` whose receiver is not destroyed along the way:
received ++ still queued = initially queued ++ successfully sent, in order.  Hops of `d`'s receiver (sent inside a message,
unpacked, sent again, between any sends to `d`) are ordinary operations of the program, so any number of them is covered. -/
theorem C04_backlog (ops : List Op) (st : St) (d : Nat) (q0 : List Msg) (hQ : Q st d = some q0) :
    DestroyedAlong st d ops ∨
    ∃ q', Q (runFrom st ops).1 d = some q' ∧ recvdOn d (runFrom st ops).2 ++ q' = q0 ++ sentOn d (runFrom st ops).2 :=
  fifo_run ops st d q0 hQ

theorem markInMsg_keeps (hs : List Handle) (st : St) (d : Nat) (ch : Chan) (h : st.chans[d]? = some ch) (hr : ch.rx = .inMsg) :
    ∃ ch', (markInMsg st hs).chans[d]? = some ch' ∧ ch'.rx = .inMsg := by
  unfold markInMsg
  induction hs generalizing st ch with
  | nil => exact ⟨ch, h, hr⟩
  | cons x t ih =>
    simp only [List.foldl_cons]
    cases x with
    | snd e => exact ih st ch h hr
    | shm e => exact ih st ch h hr
    | rcv e =>
      by_cases he : e = d
      · subst he; exact ih _ { ch with rx := .inMsg } (by simp [modify_get, h]) rfl
      · exact ih _ ch (by simp [modify_get, he, h]) hr

theorem markInMsg_sets (hs : List Handle) (st : St) (d : Nat) (ch : Chan) (h : st.chans[d]? = some ch) (hm : Handle.rcv d ∈ hs) :
    ∃ ch', (markInMsg st hs).chans[d]? = some ch' ∧ ch'.rx = .inMsg := by
  induction hs generalizing st ch with
  | nil => cases hm
  | cons x t ih =>
    rcases List.mem_cons.mp hm with rfl | hm'
    · have := markInMsg_keeps t (modify st d fun x => { x with rx := .inMsg }) d { ch with rx := .inMsg } (by simp [modify_get, h]) rfl
      simpa [markInMsg] using this
    · cases x with
      | snd e => simpa [markInMsg] using ih st ch h hm'
      | shm e => simpa [markInMsg] using ih st ch h hm'
      | rcv e =>
        by_cases he : e = d
        · subst he
          have := markInMsg_keeps t (modify st e fun x => { x with rx := .inMsg }) e { ch with rx := .inMsg } (by simp [modify_get, h]) rfl
          simpa [markInMsg] using this
        · have := ih (modify st e fun x => { x with rx := .inMsg }) ch (by simp [modify_get, he, h]) hm'
          simpa [markInMsg] using this

/-- **C04_moved_from** — once a message carrying the receiver of `d` has been accepted, the program no longer holds that
receiver: a receive on `d` issued by the program yields no message (the handle it was sent from receives nothing further),
until the carrying message is unpacked. -/
theorem C04_moved_from (st : St) (c d tag : Nat) (hs : List Handle) (chd : Chan) (hd : st.chans[d]? = some chd) (hcd : c ≠ d)
    (hm : Handle.rcv d ∈ hs) (hok : (step st (.send c tag hs)).2 = .ok) :
    (step (step st (.send c tag hs)).1 (.recv d)).2 = .invalid := by
  simp only [step] at hok ⊢
  cases hc : st.chans[c]? with
  | none => simp [hc] at hok
  | some ch =>
    simp only [hc] at hok ⊢
    by_cases hz : ch.senders = 0
    · simp [hz] at hok
    · simp only [hz, if_false] at hok ⊢
      by_cases ha : (rxAlive st).contains c = true
      · simp only [ha, if_true]
        obtain ⟨ch', h1, h2⟩ := markInMsg_sets hs st d chd hd hm
        have : (modify (markInMsg st hs) c fun ch => { ch with queue := ch.queue ++ [⟨tag, hs⟩] }).chans[d]? = some ch' := by
          simp [modify_get, hcd, h1]
        simp [this, h2]
      · have ha' : c ∉ rxAlive st := by simpa using ha
        simp [ha'] at hok

/-! non-vacuity: the receiver of channel 1 hops through channel 0 twice while messages 7, 8, 9 are sent to it before,
between and after the hops; they are received in order at the end -/
example : (Ideal.run [.newChan, .newChan, .send 1 7 [], .send 0 1 [.rcv 1], .send 1 8 [], .recv 0,
                      .send 0 2 [.rcv 1], .recv 1, .send 1 9 [], .recv 0, .recv 1, .recv 1, .recv 1]).2
    = [.ok, .ok, .ok, .ok, .ok, .msg 1 [.rcv 1], .ok, .invalid, .ok, .msg 2 [.rcv 1], .msg 7 [], .msg 8 [], .msg 9 []] := by decide

end C04
