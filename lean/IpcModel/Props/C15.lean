import IpcModel.Cmsg
import IpcModel.Props.C13
/-!
# C15 — messages with too many attachments for one message are refused, not mangled

`osSend sys len nfds faults` is `OsIpcSender::send` with `nfds` attached descriptors (channel endpoints and regions);
`kernelDeliver`/`recvSplit` model what the kernel hands to the receiver's control buffer and how `recv` sorts it.
-/
namespace C15
open Cmsg Frag Gen Arith

/-- **C15_limits** — the generated refusals are exactly the receiver's capacity: a message is refused iff its descriptors
(plus the dedicated socket when it must be fragmented) exceed `MAX_FDS_IN_CMSG`; and that capacity is within what one
control message can carry at all (`SCM_MAX_FD`) and within the control buffer `recv` allocates (`cmsg_fits_iff`). -/
theorem C15_limits (nfds : Nat) :
    (refuseAll nfds = true ↔ maxFdsInCmsg < nfds) ∧ (refuseFrag nfds = true ↔ maxFdsInCmsg < nfds + 1) ∧
    maxFdsInCmsg ≤ scmMaxFd := by
  refine ⟨by simp [refuseAll], by simp [refuseFrag], by decide⟩

theorem beforeSock_sendLoop (sys len : Nat) (faults : List Fault) (h : isFrag (sendLoop sys len faults).2 = true) :
    deliv (beforeSock (sendLoop sys len faults).2) = [] := by
  by_cases hs : singleTest sys len = true
  · rcases hnf : nextFault faults with ⟨f, rest⟩
    cases f with
    | none => simp [sendLoop, hs, hnf, isFrag] at h
    | fatal => simp [sendLoop, hs, hnf, isFrag] at h
    | enobufs =>
      cases hd : downsize sys len with
      | none => simp [sendLoop, hs, hnf, hd, isFrag] at h
      | some sb' => simp [sendLoop, hs, hnf, hd, beforeSock, deliv]
  · simp [sendLoop, hs, beforeSock, deliv]

/-- what acceptance implies: the counts fit, and the send is the plain transmission loop of C13/C01 -/
theorem osSend_ok (sys len nfds : Nat) (faults : List Fault) (hok : (osSend sys len nfds faults).1 = .ok) :
    nfds ≤ maxFdsInCmsg ∧ (isFrag (sendLoop sys len faults).2 = true → nfds + 1 ≤ maxFdsInCmsg) ∧
    osSend sys len nfds faults = sendLoop sys len faults := by
  simp only [osSend] at hok ⊢
  by_cases h1 : refuseAll nfds = true
  · simp [h1] at hok
  · have h1' : nfds ≤ maxFdsInCmsg := by simpa [refuseAll] using h1
    simp only [h1] at hok ⊢
    by_cases h2 : (isFrag (sendLoop sys len faults).2 && refuseFrag nfds) = true
    · simp [h2] at hok
    · simp only [h2]
      refine ⟨h1', ?_, by simp⟩
      intro hf
      simp [hf, refuseFrag] at h2; omega

/-- **C15_refuse** — a message whose attachments (plus the dedicated socket if it has to be fragmented) do not fit one
message is rejected with an error, and no packet of it reaches the receiver: the channel is exactly as before. -/
theorem C15_refuse (sys len nfds : Nat) (faults : List Fault)
    (h : maxFdsInCmsg < nfds ∨ (isFrag (sendLoop sys len faults).2 = true ∧ maxFdsInCmsg < nfds + 1)) :
    (osSend sys len nfds faults).1 = .err ∧ deliv (osSend sys len nfds faults).2 = [] := by
  unfold osSend
  by_cases h1 : refuseAll nfds = true
  · simp [h1, deliv]
  · have h1' : ¬ maxFdsInCmsg < nfds := by simpa [refuseAll] using h1
    rcases h with h | ⟨hf, hn⟩
    · exact absurd h h1'
    · have h2 : refuseFrag nfds = true := by simp [refuseFrag]; omega
      simp [h1, hf, h2, beforeSock_sendLoop sys len faults hf]

theorem filter_sock (chans shms : List Fd) (d : List Fd) (hc : ∀ c ∈ chans, c.sock = true) (hs : ∀ s ∈ shms, s.sock = false)
    (hd : ∀ x ∈ d, x.sock = true) :
    (chans ++ shms ++ d).filter (·.sock) = chans ++ d ∧ (chans ++ shms ++ d).filter (!·.sock) = shms := by
  constructor
  · rw [List.filter_append, List.filter_append]
    rw [List.filter_eq_self.2 (by simpa using hc), List.filter_eq_nil_iff.2 (by intro a ha; simp [hs a ha]),
      List.filter_eq_self.2 (by simpa using hd)]
    simp
  · rw [List.filter_append, List.filter_append]
    rw [List.filter_eq_nil_iff.2 (by intro a ha; simp [hc a ha]), List.filter_eq_self.2 (by intro a ha; simp [hs a ha]),
      List.filter_eq_nil_iff.2 (by intro a ha; simp [hd a ha])]
    simp

/-- **C04_fd_order / C15_accept_all** — any message `send` accepts arrives with *all* its attachments, in order, the
channel endpoints as channels and the regions as regions, and the dedicated socket (present iff the message is
fragmented) is the one `recv` pops: nothing is truncated by the kernel or mis-assigned. -/
theorem C15_accept_all (sys len : Nat) (faults : List Fault) (chans shms : List Fd) (ded : Fd)
    (hc : ∀ c ∈ chans, c.sock = true) (hs : ∀ s ∈ shms, s.sock = false) (hd : ded.sock = true)
    (hok : (osSend sys len (chans.length + shms.length) faults).1 = .ok) :
    kernelDeliver (sendFds chans shms (if isFrag (osSend sys len (chans.length + shms.length) faults).2 then some ded else none))
      = some (sendFds chans shms (if isFrag (osSend sys len (chans.length + shms.length) faults).2 then some ded else none)) ∧
    recvSplit (sendFds chans shms (if isFrag (osSend sys len (chans.length + shms.length) faults).2 then some ded else none))
        (isFrag (osSend sys len (chans.length + shms.length) faults).2)
      = some (chans, shms, if isFrag (osSend sys len (chans.length + shms.length) faults).2 then some ded else none) := by
  have hmax : maxFdsInCmsg ≤ scmMaxFd := by decide
  obtain ⟨h1, h3, heq⟩ := osSend_ok sys len _ faults hok
  rw [heq]
  by_cases hf : isFrag (sendLoop sys len faults).2 = true
  · have h3' := h3 hf
    simp only [hf, if_true]
    have hlen : (sendFds chans shms (some ded)).length ≤ maxFdsInCmsg := by simp [sendFds]; omega
    refine ⟨?_, ?_⟩
    · unfold kernelDeliver
      rw [if_neg (by omega), List.take_of_length_le hlen]
    · have hfs := filter_sock chans shms [ded] hc hs (by simp [hd])
      simp only [recvSplit, sendFds, Option.toList, hfs.1, hfs.2, if_true]
      simp
  · have hf' : isFrag (sendLoop sys len faults).2 = false := by simpa using hf
    simp only [hf', Bool.false_eq_true, if_false]
    have hlen : (sendFds chans shms none).length ≤ maxFdsInCmsg := by simp [sendFds]; omega
    refine ⟨?_, ?_⟩
    · unfold kernelDeliver
      rw [if_neg (by omega), List.take_of_length_le hlen]
    · have hfs := filter_sock chans shms [] hc hs (by simp)
      simp only [recvSplit, sendFds, Option.toList, List.append_nil] at hfs ⊢
      simp [hfs.1, hfs.2]

/-! ### sensitivity: the pre-fix code (no refusal) — the kernel model then drops descriptors silently -/
example : kernelDeliver (List.replicate 65 ⟨true, 0⟩) = some (List.replicate 64 ⟨true, 0⟩) := by decide
/-- … and a fragmented message with 64 attachments loses its dedicated socket: `recv` pops a user channel instead -/
example : (kernelDeliver ((List.replicate 64 ⟨true, 1⟩) ++ [⟨true, 99⟩])).map (fun l => recvSplit l true)
    = some (some (List.replicate 63 ⟨true, 1⟩, [], some ⟨true, 1⟩)) := by decide
/-- non-vacuity: 63 attachments on a fragmented message are accepted -/
example : (osSend 4608 13000 63 []).1 = .ok := by
  simp [osSend, refuseAll, refuseFrag, maxFdsInCmsg, sendLoop, singleTest, ffs_eq, fs_eq, fragLoop, nextFault, endPos, mkAtt,
    endFirst, endFollow, isFrag]

end C15
