import IpcModel.Lemmas.ShmProof
import IpcModel.Lemmas.ShmMany
import IpcModel.Props.C15
/-!
# C05 — shared-memory regions arrive with identical contents

Model `Shm`: memory objects, descriptors and mappings of a small kernel; `OsIpcSharedMemory` handles `{ptr, length, fd}`
built by `from_bytes` / `from_byte`, `clone` (dup + map the same length), the receiving side of a transfer (`from_fd`: a new
descriptor of the same object installed by SCM_RIGHTS, length from `fstat`) and `drop` (munmap own mapping, close own
descriptor).  The size given to the memory object (`Gen.shmObjectSize`) is regenerated from `BackingStore::new` /
`create_shmem` on every run; the theorems need it to be the requested length, which `rfl` re-checks.

A *send* of region `i` is the history `[clone i, flight (the clone), drop (the clone), recvFlight]` (the message owns a
clone whose descriptor is put in flight by `sendmsg`, the clone dies when `send` returns, the receiver builds its handle
from the in-flight descriptor — the kernel keeps the object alive meanwhile); all histories of the seven operations are
covered, so "readable after the sender's copies and the carrying channel were dropped" is the
statement for histories that end with those drops.

Not reached by a theorem: that the kernel's `mmap` of a `ftruncate`d object really shows the bytes written through
another mapping (kernel model; exercised by the harness in clones, across a transfer and in a spawned process).
-/
namespace C05
open Shm

theorem size_is_length : ∀ n, Gen.shmObjectSize n = n := fun _ => rfl

/-- **C05_contents** — after any history, every live handle (original, clone, or copy obtained through a transfer, at any
depth) reads exactly the bytes of the region it stems from, and reports exactly that length. -/
theorem C05_contents (ops : List Op) (i : Nat) (h : Handle) (src : List Nat)
    (hl : (run ops).hs[i]? = some (some (h, src))) :
    deref (run ops).k h = .bytes src ∧ h.length = src.length := by
  have hk := (inv_run ops size_is_length).2.1 i h src hl
  exact ⟨deref_ok _ _ _ hk, hk.1⟩

/-- **C05_lifetime** — dropping any other copy (the sender's, a clone, the one that travelled) leaves a handle readable. -/
theorem C05_lifetime (ops : List Op) (i j : Nat) (h : Handle) (src : List Nat) (hij : i ≠ j)
    (hl : (run ops).hs[j]? = some (some (h, src))) :
    deref (run (ops ++ [.drop i])).k h = .bytes src := by
  have hl' : (run (ops ++ [.drop i])).hs[j]? = some (some (h, src)) := by
    simp only [run, List.foldl_append, List.foldl_cons, List.foldl_nil]
    show (step (run ops) (.drop i)).hs[j]? = _
    simp only [step]
    cases hg : (run ops).hs[i]? with
    | none => simpa using hl
    | some x =>
      cases x with
      | none => simpa using hl
      | some p => simp only; rw [List.getElem?_set_ne hij]; exact hl
  exact (C05_contents _ j h src hl').1

/-- **C05_lifetime_all** — dropping any number of other copies, in any order and with repeats (all the sender's copies,
every clone, the handles that travelled in the carrying channel), leaves a handle readable with its own bytes. -/
theorem C05_lifetime_all (ops : List Op) (ds : List Nat) (j : Nat) (h : Handle) (src : List Nat) (hj : j ∉ ds)
    (hl : (run ops).hs[j]? = some (some (h, src))) :
    (run (ops ++ ds.map Op.drop)).hs[j]? = some (some (h, src)) ∧ deref (run (ops ++ ds.map Op.drop)).k h = .bytes src := by
  induction ds generalizing ops with
  | nil => simpa using ⟨hl, (C05_contents ops j h src hl).1⟩
  | cons d ds ih =>
    have hdj : d ≠ j := fun e => hj (e ▸ List.mem_cons_self ..)
    have hl' : (run (ops ++ [.drop d])).hs[j]? = some (some (h, src)) := by
      simp only [run, List.foldl_append, List.foldl_cons, List.foldl_nil]
      show (step (run ops) (.drop d)).hs[j]? = _
      simp only [step]
      cases hg : (run ops).hs[d]? with
      | none => simpa using hl
      | some x =>
        cases x with
        | none => simpa using hl
        | some p => simp only; rw [List.getElem?_set_ne hdj]; exact hl
    have := ih (ops ++ [.drop d]) (fun hm => hj (List.mem_cons_of_mem _ hm)) hl'
    simpa [List.append_assoc] using this

/-- **C05_zero** — no history ever maps or unmaps zero bytes: a zero-length region never reaches `mmap`/`munmap`
(and by `C05_contents` it reads as the empty slice, through the null-pointer branch of `deref`). -/
theorem C05_zero (ops : List Op) : ∀ c ∈ (run ops).k.calls, c ≠ Call.mmap 0 ∧ c ≠ Call.munmap 0 :=
  calls_run ops size_is_length

theorem C05_zero_reads_empty (ops : List Op) (i : Nat) (h : Handle)
    (hl : (run ops).hs[i]? = some (some (h, []))) : h.ptr = none ∧ h.length = 0 ∧ deref (run ops).k h = .bytes [] := by
  have hk := (inv_run ops size_is_length).2.1 i h [] hl
  obtain ⟨hlen, _, o, _, _, hp⟩ := hk
  have hp0 : h.ptr = none := by
    cases hptr : h.ptr with
    | none => rfl
    | some a => simp [hptr] at hp
  exact ⟨hp0, by simpa using hlen, by simp [deref, hp0]⟩

/-- **C05_many_in_order** — several regions in one message: after any history (with nothing else in flight), putting the
descriptors of the live regions `ps` (index, bytes it stems from) in flight and receiving as many descriptors yields
exactly `ps.length` new handles, in the order of the regions in the message, each reading exactly its own region's bytes
with its own length (clones of one region, zero-length regions and repeated indices included). -/
theorem C05_many_in_order (ops : List Op) (ps : List (Nat × List Nat)) (hnf : (run ops).flight = [])
    (hlive : ∀ p ∈ ps, ∃ h, (run ops).hs[p.1]? = some (some (h, p.2))) :
    let ops' := ops ++ ps.map flightOf ++ List.replicate ps.length Op.recvFlight
    (run ops').hs.length = (run ops).hs.length + ps.length ∧ (run ops').flight = [] ∧
    ∀ k p, ps[k]? = some p → ∃ h', (run ops').hs[(run ops).hs.length + k]? = some (some (h', p.2)) ∧
      deref (run ops').k h' = .bytes p.2 ∧ h'.length = p.2.length := by
  intro ops'
  obtain ⟨fl, hfl, hA⟩ := flights_spec ps (run ops) (inv_run ops size_is_length) hlive
  have hlen : fl.length = ps.length := by simpa using congrArg List.length hfl
  have hrunA : run (ops ++ ps.map flightOf) = ⟨(run ops).k, (run ops).hs, fl⟩ := by
    simp only [run, List.foldl_append] at hA ⊢
    rw [hA]; simp only [run] at hnf; rw [hnf]; rfl
  obtain ⟨nw, hnw, hhs, hflt⟩ := recvs_spec fl (run (ops ++ ps.map flightOf)) (by rw [hrunA])
  have hrun' : run ops' = (List.replicate fl.length Op.recvFlight).foldl step (run (ops ++ ps.map flightOf)) := by
    simp only [ops', run, List.foldl_append, hlen]
  have hnwlen : nw.length = ps.length := by
    have := congrArg List.length hnw; simp at this; omega
  have hhs' : (run ops').hs = (run ops).hs ++ nw.map some := by rw [hrun', hhs, hrunA]
  refine ⟨by rw [hhs']; simp [hnwlen], by rw [hrun']; exact hflt, ?_⟩
  intro k p hk
  have hklt : k < nw.length := by
    rw [hnwlen]; exact (List.getElem?_eq_some_iff.mp hk).1
  have hsnd : (nw[k]).2 = p.2 := by
    have h1 : (nw.map Prod.snd)[k]? = (ps.map Prod.snd)[k]? := by rw [hnw, hfl]
    simp only [List.getElem?_map, hk, List.getElem?_eq_getElem hklt, Option.map_some] at h1
    exact Option.some.inj h1
  have hget : (run ops').hs[(run ops).hs.length + k]? = some (some ((nw[k]).1, p.2)) := by
    rw [hhs', List.getElem?_append_right (Nat.le_add_right _ _), Nat.add_sub_cancel_left,
      List.getElem?_map, List.getElem?_eq_getElem hklt, Option.map_some, ← hsnd]
  exact ⟨(nw[k]).1, hget, C05_contents ops' _ _ _ hget⟩

/-- **C05_many_after_drops** — the same with any drops between `sendmsg` and the receipt (the message's own clones die when
`send` returns, the sender may drop every copy it has, the handles in `ds` are arbitrary and may include the regions sent):
the in-flight descriptors keep the memory objects alive, the regions still arrive in order, each with its own bytes. -/
theorem C05_many_after_drops (ops : List Op) (ps : List (Nat × List Nat)) (ds : List Nat) (hnf : (run ops).flight = [])
    (hlive : ∀ p ∈ ps, ∃ h, (run ops).hs[p.1]? = some (some (h, p.2))) :
    let ops' := ops ++ ps.map flightOf ++ ds.map Op.drop ++ List.replicate ps.length Op.recvFlight
    (run ops').hs.length = (run ops).hs.length + ps.length ∧ (run ops').flight = [] ∧
    ∀ k p, ps[k]? = some p → ∃ h', (run ops').hs[(run ops).hs.length + k]? = some (some (h', p.2)) ∧
      deref (run ops').k h' = .bytes p.2 ∧ h'.length = p.2.length := by
  intro ops'
  obtain ⟨fl, hfl, hA⟩ := flights_spec ps (run ops) (inv_run ops size_is_length) hlive
  have hlen : fl.length = ps.length := by simpa using congrArg List.length hfl
  have hrunA : run (ops ++ ps.map flightOf) = ⟨(run ops).k, (run ops).hs, fl⟩ := by
    simp only [run, List.foldl_append] at hA ⊢
    rw [hA]; simp only [run] at hnf; rw [hnf]; rfl
  have hB := drops_keep ds (run (ops ++ ps.map flightOf))
  have hrunB : run (ops ++ ps.map flightOf ++ ds.map Op.drop) = (ds.map Op.drop).foldl step (run (ops ++ ps.map flightOf)) := by
    simp only [run, List.foldl_append]
  rw [← hrunB, hrunA] at hB
  obtain ⟨nw, hnw, hhs, hflt⟩ := recvs_spec fl (run (ops ++ ps.map flightOf ++ ds.map Op.drop)) hB.1
  have hrun' : run ops' = (List.replicate fl.length Op.recvFlight).foldl step (run (ops ++ ps.map flightOf ++ ds.map Op.drop)) := by
    simp only [ops', run, List.foldl_append, hlen]
  have hnwlen : nw.length = ps.length := by
    have := congrArg List.length hnw; simp at this; omega
  have hhs' : (run ops').hs = (run (ops ++ ps.map flightOf ++ ds.map Op.drop)).hs ++ nw.map some := by rw [hrun', hhs]
  have hbase : (run (ops ++ ps.map flightOf ++ ds.map Op.drop)).hs.length = (run ops).hs.length := hB.2
  refine ⟨by rw [hhs', List.length_append, List.length_map, hnwlen, hbase], by rw [hrun']; exact hflt, ?_⟩
  intro k p hk
  have hklt : k < nw.length := by
    rw [hnwlen]; exact (List.getElem?_eq_some_iff.mp hk).1
  have hsnd : (nw[k]).2 = p.2 := by
    have h1 : (nw.map Prod.snd)[k]? = (ps.map Prod.snd)[k]? := by rw [hnw, hfl]
    simp only [List.getElem?_map, hk, List.getElem?_eq_getElem hklt, Option.map_some] at h1
    exact Option.some.inj h1
  have hget : (run ops').hs[(run ops).hs.length + k]? = some (some ((nw[k]).1, p.2)) := by
    rw [hhs', ← hbase, List.getElem?_append_right (Nat.le_add_right _ _), Nat.add_sub_cancel_left,
      List.getElem?_map, List.getElem?_eq_getElem hklt, Option.map_some, ← hsnd]
  exact ⟨(nw[k]).1, hget, C05_contents ops' _ _ _ hget⟩

/-- **C05_send_literal** — the history the library really performs for one message with the regions `ps`: `send` clones every
region into the message (`cl…`), `sendmsg` puts the clones' descriptors in flight (`fl…`), the clones die when `send`
returns (`dr…`), the receiver turns the descriptors into handles (`rf…`).  The `ps.length` handles that come out stand in
message order and each reads its own region's bytes with its own length.  (This is the operation sequence the `shm`
scenario logs for every message, so the driver replays exactly the histories this theorem quantifies over.) -/
theorem C05_send_literal (ops : List Op) (ps : List (Nat × List Nat)) (hnf : (run ops).flight = [])
    (hlive : ∀ p ∈ ps, ∃ h, (run ops).hs[p.1]? = some (some (h, p.2))) :
    let base := (run ops).hs.length
    let cl := (List.range ps.length).map (base + ·)
    let ops' := ops ++ ps.map cloneOf ++ cl.map Op.flight ++ cl.map Op.drop ++ List.replicate ps.length Op.recvFlight
    (run ops').hs.length = base + ps.length + ps.length ∧ (run ops').flight = [] ∧
    ∀ k p, ps[k]? = some p → ∃ h', (run ops').hs[base + ps.length + k]? = some (some (h', p.2)) ∧
      deref (run ops').k h' = .bytes p.2 ∧ h'.length = p.2.length := by
  intro base cl ops'
  obtain ⟨nw, hnw, hhs, hfl⟩ := clones_spec ps (run ops) (inv_run ops size_is_length) size_is_length hlive
  have hnwlen : nw.length = ps.length := by
    have := congrArg List.length hnw; simpa using this
  have hrun1 : run (ops ++ ps.map cloneOf) = (ps.map cloneOf).foldl step (run ops) := by
    simp only [run, List.foldl_append]
  rw [← hrun1] at hhs hfl
  let srcs := ps.map Prod.snd
  let ps2 := cl.zip srcs
  have hcllen : cl.length = ps.length := by simp [cl]
  have hps2len : ps2.length = ps.length := by simp [ps2, srcs, hcllen]
  have hfl2 : ps2.map flightOf = cl.map Op.flight := by
    have : ps2.map flightOf = (ps2.map Prod.fst).map Op.flight := by simp [flightOf, List.map_map, Function.comp_def]
    rw [this, List.map_fst_zip (by simp [srcs, hcllen])]
  have hget2 : ∀ k a b, ps2[k]? = some (a, b) → a = base + k ∧ ∃ p, ps[k]? = some p ∧ p.2 = b := by
    intro k a b hk
    obtain ⟨h1, h2⟩ := List.getElem?_zip_eq_some.mp hk
    constructor
    · simp only [cl, List.getElem?_map, Option.map_eq_some_iff] at h1
      obtain ⟨x, hx, rfl⟩ := h1
      have := List.getElem?_eq_some_iff.mp hx
      obtain ⟨_, hx'⟩ := this
      simp at hx'; omega
    · simp only [srcs, List.getElem?_map, Option.map_eq_some_iff] at h2
      exact h2
  have hlive2 : ∀ q ∈ ps2, ∃ h, (run (ops ++ ps.map cloneOf)).hs[q.1]? = some (some (h, q.2)) := by
    intro q hq
    obtain ⟨k, hk⟩ := List.getElem?_of_mem hq
    obtain ⟨ha, p, hp, hp2⟩ := hget2 k q.1 q.2 hk
    have hklt : k < nw.length := by rw [hnwlen]; exact (List.getElem?_eq_some_iff.mp hp).1
    have hsnd : (nw[k]).2 = q.2 := by
      have h1 : (nw.map Prod.snd)[k]? = (ps.map Prod.snd)[k]? := by rw [hnw]
      simp only [List.getElem?_map, hp, List.getElem?_eq_getElem hklt, Option.map_some] at h1
      rw [← hp2]; exact Option.some.inj h1
    refine ⟨(nw[k]).1, ?_⟩
    rw [hhs, ha, List.getElem?_append_right (Nat.le_add_right _ _), Nat.add_sub_cancel_left,
      List.getElem?_map, List.getElem?_eq_getElem hklt, Option.map_some, ← hsnd]
  have hnf1 : (run (ops ++ ps.map cloneOf)).flight = [] := by rw [hfl]; exact hnf
  have hbase1 : (run (ops ++ ps.map cloneOf)).hs.length = base + ps.length := by
    rw [hhs]; simp [hnwlen, base]
  have main := C05_many_after_drops (ops ++ ps.map cloneOf) ps2 cl hnf1 hlive2
  simp only [hfl2, hps2len, hbase1] at main
  refine ⟨main.1, main.2.1, ?_⟩
  intro k p hk
  have hklt : k < ps2.length := by rw [hps2len]; exact (List.getElem?_eq_some_iff.mp hk).1
  have hk2 : ps2[k]? = some (ps2[k]) := List.getElem?_eq_getElem hklt
  obtain ⟨_, p', hp', hp2'⟩ := hget2 k (ps2[k]).1 (ps2[k]).2 hk2
  rw [hk] at hp'; cases hp'
  have := main.2.2 k (ps2[k]) hk2
  rw [← hp2'] at this
  exact this

/-- **C05_order** — several regions in one message arrive in order, after the channels and before the dedicated socket
(descriptor order of the message; proved in the control-message model). -/
theorem C05_order (sys len : Nat) (faults : List Frag.Fault) (chans shms : List Cmsg.Fd) (ded : Cmsg.Fd)
    (hc : ∀ c ∈ chans, c.sock = true) (hs : ∀ s ∈ shms, s.sock = false) (hd : ded.sock = true)
    (hok : (Cmsg.osSend sys len (chans.length + shms.length) faults).1 = .ok) :
    Cmsg.recvSplit (Cmsg.sendFds chans shms (if Cmsg.isFrag (Cmsg.osSend sys len (chans.length + shms.length) faults).2 then some ded else none))
        (Cmsg.isFrag (Cmsg.osSend sys len (chans.length + shms.length) faults).2)
      = some (chans, shms, if Cmsg.isFrag (Cmsg.osSend sys len (chans.length + shms.length) faults).2 then some ded else none) :=
  (C15.C15_accept_all sys len faults chans shms ded hc hs hd hok).2

/-- shape facts regenerated from the source -/
theorem C05_shape : Gen.shape_mapZeroIsNull = true ∧ Gen.shape_derefNullIsEmpty = true := by decide

/-! non-vacuity: a concrete history with a clone, a transfer and drops of the originals -/
def demo : List Op := [.fromBytes [1, 2, 3], .fromByte 7 0, .clone 0, .flight 2, .drop 2, .drop 0, .recvFlight, .recvCopy 1]
example : ((run demo).hs[3]?.bind id).map (fun p => (deref (run demo).k p.1, p.1.length)) = some (.bytes [1, 2, 3], 3) := by decide
example : ((run demo).hs[4]?.bind id).map (fun p => (deref (run demo).k p.1, p.1.ptr)) = some (.bytes [], none) := by decide
example : (run demo).k.calls = [.create 3, .mmap 3, .create 0, .dup, .mmap 3, .munmap 3, .close, .munmap 3, .close, .fstat, .mmap 3, .fstat] := by decide

/-! sensitivity: if the memory object were larger than the requested length (say rounded up), the receiving side —
which sizes its mapping with `fstat` — would report the object's size, not the region's -/
example : (mapFile ⟨upd (fun _ => none) 0 (some [1, 2, 3, 0]), 1, fun _ => none, fun _ => none, 0, []⟩ 0 none).2.2 = 4 := by decide

/-! non-vacuity of `C05_many_in_order`: three regions (one empty, one a clone) in one message after the demo history -/
def demo2 : List Op := [.fromBytes [1, 2, 3], .fromBytes [], .fromBytes [9, 8], .clone 0]
example : (run demo2).flight = [] ∧ (∀ p ∈ [(2, [9, 8]), (1, []), (3, [1, 2, 3])], ∃ h, (run demo2).hs[p.1]? = some (some (h, p.2))) := by
  refine ⟨by decide, ?_⟩
  intro p hp
  simp only [List.mem_cons, List.not_mem_nil, or_false] at hp
  rcases hp with rfl | rfl | rfl
  · exact ⟨⟨some 4, 2, 3⟩, by decide⟩
  · exact ⟨⟨none, 0, 2⟩, by decide⟩
  · exact ⟨⟨some 6, 3, 5⟩, by decide⟩

example : (run (demo2 ++ [0, 2, 0, 1].map Op.drop)).hs[3]? = some (some (⟨some 6, 3, 5⟩, [1, 2, 3])) := by decide
/-- `C05_many_after_drops` on a concrete history: every handle dropped while the three regions are in flight -/
example : let w := run (demo2 ++ [(2, [9, 8]), (1, []), (3, [1, 2, 3])].map flightOf ++ [0, 1, 2, 3].map Op.drop ++ List.replicate 3 Op.recvFlight)
    (w.hs.drop 4).map (fun x => x.map fun p => (deref w.k p.1, p.2)) =
      [some (.bytes [9, 8], [9, 8]), some (.bytes [], []), some (.bytes [1, 2, 3], [1, 2, 3])] := by decide
/-- `C05_send_literal` on a concrete message: regions 2, 1 (empty) and 3 (a clone of region 0) of `demo2` -/
example : let w := run (demo2 ++ [(2, [9, 8]), (1, []), (3, [1, 2, 3])].map cloneOf ++ [4, 5, 6].map Op.flight ++ [4, 5, 6].map Op.drop ++ List.replicate 3 Op.recvFlight)
    (w.hs.drop 7).map (fun x => x.map fun p => (deref w.k p.1, p.2)) =
      [some (.bytes [9, 8], [9, 8]), some (.bytes [], []), some (.bytes [1, 2, 3], [1, 2, 3])] := by decide

end C05
