import IpcModel.Props.C01
import IpcModel.Props.C16
/-!
# C01 (continued) — a typed value end to end: serialise, fragment under any fault stream, reassemble, decode

Composition of the two halves of C01: the bytes `Wire.enc v` produced by the serialiser for a well-typed value travel through
`send` — as one packet or as fragments, with `ENOBUFS` retries at arbitrary points — and whenever `send` reports success the
receiver reassembles exactly those bytes and decodes exactly `v` from them, consuming exactly `v`'s own attachments.
-/
namespace C01
open Frag Gen Wire

/-- **C01_value_end_to_end** — for every well-typed value (nested options, sequences, tuples, enums, strings, integers,
embedded endpoints and regions), every buffer size `1000 ≤ sys < 2^64` and every fault stream: if `send` returns Ok then
the receiver's reassembled payload decodes to the value that was sent, with nothing left over and every attachment slot
consumed. -/
theorem C01_value_end_to_end (sys : Nat) (v : Value) (s : Schema) (hty : HasType v s) (faults : List Fault)
    (h : 1000 ≤ sys) (h64 : sys < 2^64) (fuel : Nat) (hf : vsize v < fuel)
    (hc : (chans v).length < 256 ^ 8) (hs : (shms v).length < USIZE_MAX)
    (hok : (sendLoop sys (enc v 0 0).length faults).1 = .ok) :
    ∃ p, firstPkt (enc v 0 0) (sendLoop sys (enc v 0 0).length faults).2 = some p ∧
      ∀ eof, ∃ bytes, recvMsg sys p (followPkts (enc v 0 0) (sendLoop sys (enc v 0 0).length faults).2) eof = .ok bytes ∧
        toValue ⟨false⟩ fuel s bytes (chans v) (shms v) = .ok v [] ⟨(chans v).map fun _ => none, (shms v).map fun _ => none⟩ := by
  obtain ⟨p, hp, hr⟩ := C13.C13_ok sys (enc v 0 0) faults h h64 hok
  refine ⟨p, hp, fun eof => ⟨enc v 0 0, hr eof, ?_⟩⟩
  have := C16.C16_roundtrip v s hty [] fuel hf hc hs
  simpa using this

end C01
