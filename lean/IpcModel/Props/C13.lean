import IpcModel.Lemmas.FragProof
/-!
# C13 — transient buffer exhaustion during send is absorbed or reported, never damaging

Property theorems only.  `sendLoop` mirrors `OsIpcSender::send`, `recvMsg` mirrors `recv`; all arithmetic is the
generated `Gen.*`.  Quantified over every buffer size `1000 ≤ sys < 2^64`, every payload `d` and every fault stream.
-/
namespace C13
open Frag Gen Arith

/-- **C13_safe** — for every fault stream the send never reaches an out-of-range slice, a zero-length packet or a
non-decreasing retry (`panic`), and no generated `usize` side-condition is violated on the buffer sizes it uses. -/
theorem C13_safe (sys : Nat) (len : Nat) (faults : List Fault) (h : 1000 ≤ sys) (h64 : sys < 2^64) :
    (sendLoop sys len faults).1 ≠ .panic := by
  obtain ⟨d, hd⟩ : ∃ d : List Unit, d.length = len := ⟨List.replicate len (), by simp⟩
  subst hd
  unfold sendLoop
  split
  · rename_i hs
    have hs' : d.length ≤ firstFragmentSize sys := by simpa [singleTest] using hs
    split
    · simp
    · simp
    · rename_i rest _
      split
      · rename_i sb' hd
        have hsp := downsize_spec _ _ _ hd
        have hb := ffs_lt sys h h64
        have h1000 : 1000 ≤ sb' := hsp.2.2.2 (by omega)
        have := (fragLoop_spec sys d 0 sb' rest h64 h1000 (by omega)
          (by intro _; have := ffs_lt sb' h1000 (by omega); rw [fs_eq] at this; omega) (by omega)).1
        simpa using this
      · simp
  · rename_i hs
    have hs' : firstFragmentSize sys < d.length := by simpa [singleTest] using hs
    have := (fragLoop_spec sys d 0 sys faults h64 h (by omega) (by intro _; exact hs') (by omega)).1
    simpa using this

/-- **C13_ok / C13_acceptable** — if `send` reports success, the packets it put on the two sockets make the
receiver return exactly the message: no packet exceeds the buffer the receiver offers for it (no truncation),
the header matches, nothing is missing, duplicated or reordered — whatever ENOBUFS pattern occurred. -/
theorem C13_ok (sys : Nat) (d : List α) (faults : List Fault) (h : 1000 ≤ sys) (h64 : sys < 2^64)
    (hok : (sendLoop sys d.length faults).1 = .ok) :
    ∃ p, firstPkt d (sendLoop sys d.length faults).2 = some p ∧
      ∀ eof, recvMsg sys p (followPkts d (sendLoop sys d.length faults).2) eof = .ok d := by
  unfold sendLoop at hok ⊢
  split at hok
  · rename_i hs
    have hs' : d.length ≤ firstFragmentSize sys := by simpa [singleTest] using hs
    simp only [hs, if_true]
    split at hok
    · rename_i heq; try simp only [heq]
      refine ⟨⟨d.length, d, false⟩, by simp [firstPkt], ?_⟩
      intro eof
      simp [recvMsg, recvFirstBuf]; omega
    · simp at hok
    · rename_i rest heq
      try simp only [heq]
      split at hok
      · rename_i sb' hd
        try simp only [hd]
        have hsp := downsize_spec _ _ _ hd
        have hb := ffs_lt sys h h64
        have h1000 : 1000 ≤ sb' := hsp.2.2.2 (by omega)
        have hspec := fragLoop_spec sys d 0 sb' rest h64 h1000 (by omega)
          (by intro _; have := ffs_lt sb' h1000 (by omega); rw [fs_eq] at this; omega) (by omega)
        rcases hspec.2.2 rfl with ⟨_, _, he⟩ | ⟨e, h1, h2, h3, h4, h5⟩
        · simp at hok; rw [he] at hok; simp at hok
        · refine ⟨⟨d.length, d.take e, true⟩, by simpa [firstPkt] using h4, ?_⟩
          intro eof
          have hl : (d.take e).length = e := by simp; omega
          simp only [recvMsg, recvFirstBuf, hl]
          have : ¬ firstFragmentSize sys < e := by omega
          have h6 : ¬ d.length = e := by omega
          have h7 : ¬ d.length < e := by omega
          simp only [this, h6, h7, if_false]
          simp only [followPkts]
          simp at hok
          rw [h5 eof, hok]; simp [expected]
      · simp at hok
  · rename_i hs
    have hs' : firstFragmentSize sys < d.length := by simpa [singleTest] using hs
    simp only [hs]
    have hspec := fragLoop_spec sys d 0 sys faults h64 h (by omega) (by intro _; exact hs') (by omega)
    simp at hok
    rcases hspec.2.2 rfl with ⟨_, _, he⟩ | ⟨e, h1, h2, h3, h4, h5⟩
    · rw [he] at hok; simp at hok
    · refine ⟨⟨d.length, d.take e, true⟩, by simpa [firstPkt] using h4, ?_⟩
      intro eof
      have hl : (d.take e).length = e := by simp; omega
      simp only [recvMsg, recvFirstBuf, hl]
      have : ¬ firstFragmentSize sys < e := by omega
      have h6 : ¬ d.length = e := by omega
      have h7 : ¬ d.length < e := by omega
      simp only [this, h6, h7, if_false]
      simp only [Bool.false_eq_true, if_false, followPkts]
      rw [h5 eof, hok]; simp [expected]

/-- **C13_err** — if `send` reports an error, then either nothing reached the channel socket, or what reached
the sockets is a strict prefix whose header announces more than was delivered: the receiver never takes it
for a complete message (it waits while the sender lives, and sees end-of-file on the dedicated socket afterwards). -/
theorem C13_err (sys : Nat) (d : List α) (faults : List Fault) (h : 1000 ≤ sys) (h64 : sys < 2^64)
    (herr : (sendLoop sys d.length faults).1 = .err) :
    firstPkt d (sendLoop sys d.length faults).2 = none ∨
    ∃ p, firstPkt d (sendLoop sys d.length faults).2 = some p ∧
      ∀ eof, recvMsg sys p (followPkts d (sendLoop sys d.length faults).2) eof = (if eof then .closed else .block) := by
  unfold sendLoop at herr ⊢
  split at herr
  · rename_i hs
    have hs' : d.length ≤ firstFragmentSize sys := by simpa [singleTest] using hs
    simp only [hs, if_true]
    split at herr
    · simp at herr
    · rename_i heq; (try simp only [heq]); left; simp [firstPkt]
    · rename_i rest heq
      try simp only [heq]
      split at herr
      · rename_i sb' hd
        try simp only [hd]
        have hsp := downsize_spec _ _ _ hd
        have hb := ffs_lt sys h h64
        have h1000 : 1000 ≤ sb' := hsp.2.2.2 (by omega)
        have hspec := fragLoop_spec sys d 0 sb' rest h64 h1000 (by omega)
          (by intro _; have := ffs_lt sb' h1000 (by omega); rw [fs_eq] at this; omega) (by omega)
        rcases hspec.2.2 rfl with ⟨hn, _, he⟩ | ⟨e, h1, h2, h3, h4, h5⟩
        · left; simpa [firstPkt] using hn
        · right
          refine ⟨⟨d.length, d.take e, true⟩, by simpa [firstPkt] using h4, ?_⟩
          intro eof
          have hl : (d.take e).length = e := by simp; omega
          simp only [recvMsg, recvFirstBuf, hl]
          have : ¬ firstFragmentSize sys < e := by omega
          have h6 : ¬ d.length = e := by omega
          have h7 : ¬ d.length < e := by omega
          simp only [this, h6, h7, if_false]
          simp only [followPkts]
          simp at herr
          rw [h5 eof, herr]; simp [expected]
      · rename_i hd; (try simp only [hd]); left; simp [firstPkt]
  · rename_i hs
    have hs' : firstFragmentSize sys < d.length := by simpa [singleTest] using hs
    simp only [hs]
    have hspec := fragLoop_spec sys d 0 sys faults h64 h (by omega) (by intro _; exact hs') (by omega)
    simp at herr
    rcases hspec.2.2 rfl with ⟨hn, _, he⟩ | ⟨e, h1, h2, h3, h4, h5⟩
    · left; simpa [firstPkt] using hn
    · right
      refine ⟨⟨d.length, d.take e, true⟩, by simpa [firstPkt] using h4, ?_⟩
      intro eof
      have hl : (d.take e).length = e := by simp; omega
      simp only [recvMsg, recvFirstBuf, hl]
      have : ¬ firstFragmentSize sys < e := by omega
      have h6 : ¬ d.length = e := by omega
      have h7 : ¬ d.length < e := by omega
      simp only [this, h6, h7, if_false]
      simp only [Bool.false_eq_true, if_false, followPkts]
      rw [h5 eof, herr]; simp [expected]

/-- **C13_fds_once** — on success the descriptors travel on exactly one delivered packet (the single packet or the
first fragment, which in the fragmented case also carries the dedicated socket, appended last by `shape_fdOrder`);
in every case on at most one. -/
theorem C13_fds_once (sys len : Nat) (faults : List Fault) :
    fdCarriers (sendLoop sys len faults).2 ≤ 1 ∧
    ((sendLoop sys len faults).1 = .ok → fdCarriers (sendLoop sys len faults).2 = 1) := by
  unfold sendLoop
  split
  · split
    · simp [fdCarriers]
    · simp [fdCarriers]
    · rename_i rest _
      split
      · rename_i sb' hd
        have := (fragLoop_fdCarriers len 0 sb' rest).2 rfl
        have hl : 0 < len := by
          have := (Arith.downsize_spec _ _ _ hd).1; omega
        simp only [fdCarriers]
        exact ⟨this.1, fun h => this.2 h hl⟩
      · simp [fdCarriers]
  · rename_i hs
    have := (fragLoop_fdCarriers len 0 sys faults).2 rfl
    have hl : 0 < len := by
      simp [singleTest] at hs; omega
    simp only [fdCarriers]
    exact ⟨this.1, fun h => this.2 h hl⟩

theorem C13_shape_fdOrder : Gen.shape_fdOrder = true := by decide

/-- **C13_small_enobufs** — ENOBUFS on a single-packet attempt of at most 2000 bytes is reported, not retried. -/
theorem C13_small_enobufs (sys len : Nat) (rest : List Fault) (hs : len ≤ firstFragmentSize sys) (h : len ≤ 2000) :
    sendLoop sys len (.enobufs :: rest) = (.err, [.single len .enobufs]) := by
  have hd : downsize sys len = none := (Arith.downsize_none sys len).2 h
  simp [sendLoop, singleTest, hs, nextFault, hd]

/-- **C13_terminates** — explicit bound on the number of system calls of one `send`. -/
theorem C13_terminates (sys len : Nat) (faults : List Fault) :
    (sendLoop sys len faults).2.length ≤ faults.length + len + 3 := by
  unfold sendLoop
  split
  · split
    · simp
    · simp
    · rename_i rest heq
      have hr : rest.length + 1 = faults.length := by
        cases faults with
        | nil => simp [nextFault] at heq
        | cons a t => simp [nextFault] at heq; simp [heq.2]
      split
      · rename_i sb' _
        have := fragLoop_attempts len 0 sb' rest
        simp only [List.length_cons]; omega
      · simp
  · have := fragLoop_attempts len 0 sys faults
    simp only [List.length_cons]; omega

/-! ### non-vacuity and sensitivity -/

/-- the hypotheses are met by a concrete run with retries: 13000 bytes, 4608-byte buffer, ENOBUFS on attempts 1 and 3
(the same trace is produced by the real crate under the interposer, see the correspondence run) -/
example : sendLoop 4608 13000 [.enobufs, .none, .enobufs] = (.ok,
    [.sock, .first 0 4568 13000 .enobufs, .first 0 2264 13000 .none, .follow 2264 4536 .enobufs,
     .follow 2264 3384 .none, .follow 3384 4504 .none, .follow 4504 5624 .none, .follow 5624 6744 .none,
     .follow 6744 7864 .none, .follow 7864 8984 .none, .follow 8984 10104 .none, .follow 10104 11224 .none,
     .follow 11224 12344 .none, .follow 12344 13000 .none]) := by
  simp [sendLoop, singleTest, ffs_eq, fs_eq, fragLoop, nextFault, endPos, mkAtt, endFirst, endFollow, downsize, sentSize]

/-- sensitivity: the receiver model *can* lose bytes — a follow-up packet one byte longer than the chunk the receiver
offers is truncated; `C13_ok` says the sender never produces one -/
example (a b c : List α) (ha : a.length = 4568) (hb : b.length = 4577) :
    recvMsg 4608 ⟨10000, a, true⟩ [b, c] true = .trunc := by
  simp [recvMsg, recvFollow, recvFirstBuf, recvEnd, ffs_eq, fs_eq, ha, hb]

end C13
