import IpcModel.RecvSetP
import IpcModel.Lemmas.RecvSetOrder
import IpcModel.GenSet
/-!
# C06 — a receiver set reports every event of every member exactly once

Model `RSetP`: members (channels) with a queue, a sender count and registration flags; the kernel's edge-triggered ready
list (`wake` appends a registered member unless present); `poll` hands out at most `cap` ready tokens; `drain` is one
iteration of `select`'s per-token loop (non-blocking receive until would-block; on closure: report, deregister, close).
Actions `send`, `dropSender`, `add`, `poll`, `drain` interleave arbitrarily (sender threads vs the selecting thread).

`C06_once_ordered` is the per-member statement over all interleavings: the concatenation of all select results
restricted to member m equals `map msg (sent to m, in order) ++ [closed]?`, the closed event at most once, after all
messages, only when no sender exists.  Member ids are assumed pairwise distinct (`OthersDiffer`; the real set hands them
out from a counter — `C06_ids` is checked by the harness on every run).
-/
namespace C06
open RSetP

/-- **C06_no_lost_wakeup** — invariant of every execution (any members, any traffic, any interleaving, any `cap`): a registered
member with a queued message or an unreported closure is in the kernel's ready list or in the batch `select` is draining. -/
theorem C06_no_lost_wakeup (st st' : St) (as : List Act) (hI : Inv st) (h : run st as = some st') : Inv st' :=
  inv_run st st' as hI h

/-- the empty set satisfies the invariant, so it holds in every reachable state -/
theorem C06_init (cap : Nat) : Inv ⟨cap, [], [], .idle, []⟩ := by
  intro k m hm; simp at hm

/-- **C06_select_enabled** — hence `select`'s wait is enabled (does not go on blocking) whenever anything is pending: however many members
are ready (more or fewer than the events buffer), whether the traffic was queued before `add`, and after an interrupted wait
(`EINTR` leaves the ready list untouched and the code retries the same `poll`). -/
theorem C06_select_enabled (st : St) (hI : Inv st) (hidle : st.pc = .idle) (k : Nat) (m : Member)
    (hm : st.members[k]? = some m) (hp : pending m) : (step st .poll).isSome :=
  poll_enabled st hI hidle k m hm hp

/-- **C06_once_ordered** — for every execution from a state where nothing has been reported for member `k` (id `i`, queue
`q0`): at every later point the events reported for `i` are `del.map msg ++ [closed]?` where `del ++ (still queued) =
q0 ++ (everything sent to k since)`, in order; and if the closure was reported then nothing is queued, no sender exists
and the member is deregistered — so the closure comes once, last, and only after every message. -/
theorem C06_once_ordered (as : List Act) (st st' : St) (k i : Nat) (m : Member)
    (hI : Inv2 st) (hod : OthersDiffer st k i) (hm : st.members[k]? = some m) (hid : m.id = i) (hcl : m.closedReported = false)
    (hrep : evsOf i (allRep st) = []) (h : run st as = some st') :
    ∃ del m', st'.members[k]? = some m' ∧
      evsOf i (allRep st') = del.map some ++ (if m'.closedReported then [none] else []) ∧
      del ++ m'.q = m.q ++ sentTo k as ∧
      (m'.closedReported = true → m'.q = [] ∧ m'.senders = 0 ∧ m'.registered = false) := by
  have ha : Acct st k i [] m := ⟨hm, hid, by simp [hrep, hcl]⟩
  obtain ⟨del, m', ha', _, he⟩ := acct_run as st st' k i [] m hI hod ha h
  refine ⟨del, m', ha'.1, ha'.2.2, by simpa using he, fun hc => ?_⟩
  have := (inv2_run st st' as hI h).closedDone k m' ha'.1 hc
  exact ⟨this.2.1, this.2.2, this.1⟩

/-- the structural invariant (`ready` and the batch hold distinct registered members; a member whose closure was reported is
deregistered, drained and has no sender) holds for the empty set and is preserved by every step -/
theorem C06_inv2_init (cap : Nat) : Inv2 ⟨cap, [], [], .idle, []⟩ :=
  ⟨by simp, by simp [toksOf], by simp, by simp [toksOf], by intro k m hm; simp at hm⟩
/-- any set of not yet added channels (whatever is queued on them, whatever senders they have) is a valid start -/
theorem C06_inv2_fresh (cap : Nat) (ms : List Member) (h : ∀ m ∈ ms, m.registered = false ∧ m.closedReported = false) :
    Inv2 ⟨cap, ms, [], .idle, []⟩ := by
  refine ⟨by simp, by simp [toksOf], by simp, by simp [toksOf], ?_⟩
  intro k m hm hc
  have := (h m (List.mem_of_getElem? hm)).2
  rw [this] at hc; cases hc
theorem C06_inv2_step (st st' : St) (a : Act) (hI : Inv2 st) (h : step st a = some st') : Inv2 st' := inv2_step st st' a hI h

/-- the events buffer of the real code (generated constant) is positive, so every `poll` hands out at least one token -/
theorem C06_cap_pos : 0 < Gen.eventsCap := by decide

/-- **C06_shape** — what the model's actions assume about `OsIpcReceiverSet`, regenerated from the source: ids come from a counter
(never re-used, so members are told apart for ever); a member is registered for readability before it is recorded; the wait
blocks without time-out and retries on `EINTR`; every reported event is served, and serving a member means receiving until
`EWOULDBLOCK` or closure, with no cap (`drain`), closure deregistering and closing the member. -/
theorem C06_shape : Gen.shape_idsFromCounter = true ∧ Gen.shape_registerReadable = true ∧ Gen.shape_waitRetriesOnEintr = true ∧
    Gen.shape_drainUntilWouldBlock = true ∧ Gen.shape_everyEventServed = true := by decide

/-! non-vacuity: two channels with traffic queued before `add`, cap 1 (more ready members than the events buffer), a sender
drop, interleaved polls and drains: member 0 (id 10) is reported 5, 6, closed; member 1 (id 20) is reported 7 -/
def demoSt : St := ⟨1, [⟨10, [5], 1, false, false⟩, ⟨20, [], 1, false, false⟩], [], .idle, []⟩
def demoActs : List Act := [.add 0, .add 1, .send 1 7, .send 0 6, .dropSender 0, .poll, .drain, .drain, .drain, .drain, .poll, .drain, .drain, .drain]
example : (run demoSt demoActs).map (fun st => (evsOf 10 (allRep st), evsOf 20 (allRep st)))
    = some ([some 5, some 6, none], [some 7]) := by decide

end C06
