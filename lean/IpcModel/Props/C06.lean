import IpcModel.RecvSetP
import IpcModel.Gen
/-!
# C06 — a receiver set reports every event of every member exactly once

Model `RSetP`: members (channels) with a queue, a sender count and registration flags; the kernel's edge-triggered ready
list (`wake` appends a registered member unless present); `poll` hands out at most `cap` ready tokens; `drain` is one
iteration of `select`'s per-token loop (non-blocking receive until would-block; on closure: report, deregister, close).
Actions `send`, `dropSender`, `add`, `poll`, `drain` interleave arbitrarily (sender threads vs the selecting thread).

Full statement of the clause that is **not yet proved** here (`C06_once_ordered`; checked by the harness on every run):
the concatenation of all select results restricted to member m equals `map msg (sent to m, in order) ++ [closed]?`, the
closed event at most once, after all messages, only when no sender exists.
-/
namespace C06
open RSetP

/-- **C06_no_lost_wakeup** — invariant of every execution (any members, any traffic, any interleaving, any `cap`): a registered
member with a queued message or an unreported closure is in the kernel's ready list or in the batch `select` is draining. -/
theorem C06_no_lost_wakeup (st st' : St) (as : List Act) (hI : Inv st) (h : run st as = some st') : Inv st' :=
  inv_run st st' as hI h

/-- the empty set satisfies the invariant, so it holds in every reachable state -/
theorem C06_init (cap : Nat) : Inv ⟨cap, [], [], .idle, []⟩ := by
  intro k m hm; simp at hm

/-- **C06_select_enabled** — hence `select`'s wait is enabled (does not go on blocking) whenever anything is pending: however many members
are ready (more or fewer than the events buffer), whether the traffic was queued before `add`, and after an interrupted wait
(`EINTR` leaves the ready list untouched and the code retries the same `poll`). -/
theorem C06_select_enabled (st : St) (hI : Inv st) (hidle : st.pc = .idle) (k : Nat) (m : Member)
    (hm : st.members[k]? = some m) (hp : pending m) : (step st .poll).isSome :=
  poll_enabled st hI hidle k m hm hp

/-- the events buffer of the real code (generated constant) is positive, so every `poll` hands out at least one token -/
theorem C06_cap_pos : 0 < Gen.eventsCap := by decide

end C06
