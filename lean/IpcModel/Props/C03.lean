import IpcModel.Inproc
import IpcModel.Ledger.LP
import IpcModel.Ideal
import IpcModel.Lemmas.RefineRun
import IpcModel.Timed
/-!
# C03 — disconnection is reported exactly when no sender can exist any more

Three layers.  (1) `Ledger`: the open descriptors of a process are exactly those owned by live handles (`roots_coincide`) —
so the kernel's notion "the peer is still referenced" (reachability from descriptor tables through queued packets) and
the specification's notion "a sender handle exists" (reachability from program-held handles through queued messages) start
from the same roots and run over the same queues.  (2) `Ideal`: the specification itself, whose receive result is
`disconnected` iff the queue is empty and no sender handle exists.

(3) `Unix ⊑ Ideal` (`C03_refine`, proved in `Lemmas/Refine*.lean`): the descriptor-level reading of a program — handles are
descriptors, dropping closes one descriptor, the kernel decides by reachability which sockets exist, nothing is destroyed
in user space — gives the same result for every operation of every valid program as the specification with its explicit
destruction cascade; in particular `disconnected` / `empty` / the delivered messages coincide.  The step from the real
crate to `Unix` is the correspondence check: the OS builds are run on seeded programs and compared with `Unix.run`.
-/
namespace C03

/-- **C03_roots** — after any history of handle operations, a descriptor is open iff a live handle owns it. -/
theorem C03_roots (ops : List Ledger.Op) (st : Ledger.St) (h : Ledger.run Ledger.init ops = some st) (fd : Nat) :
    Ledger.isOpen st fd ↔ Ledger.Owned st fd :=
  Ledger.roots_coincide ops st h fd

/-- **C03_refine** — for every valid program (it embeds only receivers it holds, each once) the descriptor-level reading and
the specification answer every operation alike: messages, `empty`, `disconnected`, send failures. -/
theorem C03_refine (ops : List Ideal.Op) (hv : Unix.valid ops = true) : (Unix.run ops).2 = (Ideal.run ops).2 :=
  Refine.refine_run ops hv

/-- descriptor level, stated directly: a receive on a held receiver reports `disconnected` exactly when nothing is queued and
the sending socket exists nowhere — no descriptor for it is open and none is in flight towards a socket that exists. -/
theorem C03_unix_iff (u : Unix.St) (c : Nat) (ch : Unix.Chan) (hc : u.chans[c]? = some ch) (hh : ch.held = true) :
    ((Unix.step u (.recv c)).2 = .disconnected ↔ ch.queue = [] ∧ Unix.senderOpen u c = false) := by
  simp only [Unix.step, hc, hh]
  cases hq : ch.queue with
  | nil => by_cases hs : Unix.senderOpen u c = true <;> simp [hs]
  | cons m q => simp

open Ideal

/-- **C03_iff** — the specification: a receive on a held receiver answers `disconnected` exactly when the queue is empty and no
sender handle of the channel exists anywhere (held, cloned, or in transit inside a message whose carrying receiver exists);
`empty` exactly when the queue is empty and one does; otherwise the oldest message — so disconnection comes only after
every earlier message. -/
theorem C03_iff (st : St) (c : Nat) (ch : Chan) (hc : st.chans[c]? = some ch) (hr : ch.rx = .held) :
    ((step st (.recv c)).2 = .disconnected ↔ ch.queue = [] ∧ senderExists st c = false) ∧
    ((step st (.recv c)).2 = .empty ↔ ch.queue = [] ∧ senderExists st c = true) ∧
    (∀ m q, ch.queue = m :: q → (step st (.recv c)).2 = .msg m.tag m.handles) := by
  refine ⟨?_, ?_, ?_⟩
  · simp only [step, hc, hr]
    cases hq : ch.queue with
    | nil => by_cases hs : senderExists st c = true <;> simp [hs]
    | cons m q => simp
  · simp only [step, hc, hr]
    cases hq : ch.queue with
    | nil => by_cases hs : senderExists st c = true <;> simp [hs]
    | cons m q => simp
  · intro m q hq
    simp [step, hc, hr, hq]

/-- a sender handle held by the program keeps the channel connected -/
theorem C03_held_sender_connected (st : St) (c : Nat) (ch : Chan) (hc : st.chans[c]? = some ch) (hs : 0 < ch.senders) :
    senderExists st c = true := by
  simp [senderExists, hc, hs]

/-- non-vacuity: the last program-held sender is dropped while a clone is in transit inside an undelivered message —
still `empty`; after the carrying receiver is dropped — `disconnected` -/
example : (Ideal.run [.newChan, .newChan, .send 0 1 [.snd 1], .dropSender 1, .recv 1, .dropReceiver 0, .recv 1]).2
    = [.ok, .ok, .ok, .ok, .empty, .ok, .disconnected] := by decide

/-- **C03_eof_confirmed** — "only after every message sent before that has been delivered", at the level of one receive call on the kernel
socket: the kernel can report end of file while a packet queued by a peer that closed right afterwards is still queued; the
source confirms an end of file with a second look (`Gen.shape_eofConfirmed`), and then `disconnected` is answered only when
the queue is empty and no sender is left, in every receive mode, race or no race. -/
theorem C03_eof_confirmed (k : Timed.K) (m : Timed.Mode) (b race : Bool) (h : (Timed.recvFirstR k m b race).1 = .disconnected) :
    k.queue = [] ∧ k.peerAlive = false ∧ Gen.shape_eofConfirmed = true :=
  ⟨(Timed.disconnected_only_when_drained k m b race h).1, (Timed.disconnected_only_when_drained k m b race h).2, by decide⟩

/-- **C03_inproc** — on the in-process transport (error arms regenerated from `src/platform/inprocess/mod.rs` and the `From`
conversions): whichever receive flavour is used, the public answer is "disconnected" exactly when the channel's queue reported
disconnection — which crossbeam does only for an empty queue with every sender gone — and never "empty" in that case. -/
theorem C03_inproc (c : Gen.XCall) (x : Inproc.XB) (h : Inproc.possible c x = true) :
    (Inproc.codeAnswer c x = .disconnected ↔ x = .disconnected) ∧ (x = .disconnected → Inproc.codeAnswer c x ≠ .empty) := by
  refine ⟨Inproc.disconnected_iff c x h, ?_⟩
  intro hx; rw [(Inproc.code_answers c x h).1, hx]; decide

end C03
