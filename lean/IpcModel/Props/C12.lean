import IpcModel.RecvSig
import IpcModel.Interleave.Bridge
import IpcModel.RecvAtt
import IpcModel.Interleave.Att
/-!
# C12 — a sender crashing mid-send cannot corrupt a message or falsely close a channel

Same model as C02; `crash t` (allowed between any two system calls of any sender) closes all the sender's descriptors:
the message it was sending becomes `failed` and the sending end of its dedicated socket is closed.
-/
namespace C12
open IM

/-- **C12_intact / C12_atomic** — under every schedule with crashes at arbitrary points: messages whose send had returned are delivered
intact (`delivered n ⇒ n = len`), the interrupted message is never delivered as a shortened or mixed payload (`corrupt` is
unreachable), and the only messages dropped are those whose send did not complete. -/
theorem C12_intact (sys : Nat) (lens : List Nat) (threads : List (List Nat)) (hsys : 1000 ≤ sys)
    (as : List Act) (st : St) (h : run (init sys lens threads) as = some st) (m : Nat) (x : M) (hm : st.msgs[m]? = some x) :
    x.rs ≠ .corrupt ∧ (∀ n, x.rs = .delivered n → n = x.len ∧ x.phase = .ok) ∧ (x.rs = .discarded → x.phase = .failed) ∧
    (x.phase = .ok → x.rs ≠ .discarded) :=
  delivery_safe sys lens threads hsys as st h m x hm

/-- **C12_no_wait_on_dead** — the receiver is never left waiting on a dead dedicated socket: whenever it is assembling a message whose
sender has finished or died, its next step is enabled (it reads the next chunk, completes the message, or discards it). -/
theorem C12_no_wait_on_dead (sys : Nat) (lens : List Nat) (threads : List (List Nat)) (hsys : 1000 ≤ sys)
    (as : List Act) (st : St) (h : run (init sys lens threads) as = some st) (m : Nat) (x : M)
    (hm : st.msgs[m]? = some x) (hasm : isAsm x = true) (hfin : finished x) : (rAsm st.sys x).isSome = true := by
  have hS := sinv_run _ _ as (sinv_init sys lens threads hsys) h
  have hI := hS.2.1 m x hm
  have hsys' : st.sys = sys := by
    have : ∀ (as : List Act) (s s' : St), run s as = some s' → s'.sys = s.sys := by
      intro as
      induction as with
      | nil => intro s s' hr; simp [run] at hr; subst hr; rfl
      | cons a as ih =>
        intro s s' hr
        simp only [run] at hr
        split at hr
        · rename_i s1 h1
          have e1 : s1.sys = s.sys := by
            cases a <;> simp only [step] at h1 <;> (repeat' (split at h1)) <;> simp_all [applySender] <;>
              (try (subst h1; rfl))
          rw [ih s1 s' hr, e1]
        · simp at hr
    simpa [init] using this as _ st h
  unfold rAsm
  cases hrs : x.rs with
  | asm got =>
    simp only
    cases hd : x.dedq with
    | cons c rest => simp only; split <;> (try split) <;> simp
    | nil =>
      simp only
      -- empty dedicated queue: the sender's end must be closed, otherwise the message would not be finished
      have htx : x.txClosed = true := by
        rcases hfin with hp | hp
        · cases hf : x.firstHi <;> simp [MInv, hp, hf, hrs, rview] at hI
          exact hI.2.1.1.2
        · cases hf : x.firstHi <;> simp [MInv, hp, hf, hrs] at hI
          exact hI.1.1.2
      simp [htx]
  | none => simp [isAsm, hrs] at hasm
  | queued => simp [isAsm, hrs] at hasm
  | delivered n => simp [isAsm, hrs] at hasm
  | corrupt => simp [isAsm, hrs] at hasm
  | discarded => simp [isAsm, hrs] at hasm

/-- **C12_survivor (shape)** — the repaired receiver discards a truncated message and goes on receiving; it does not report channel
closure for it (fact regenerated from the source on every run). -/
theorem C12_truncated_not_closed : Gen.recvTruncatedIsClosed = false := by decide

/-- **C12_own_attachments** — for the way `recv` handles its attachment vectors now (regenerated: created at entry, filled from the
first packet only, dropped when a truncated message is discarded): however many truncated messages — with whatever
descriptors — a call discards first, and whatever an earlier call left behind, the message it finally delivers comes with
exactly its own descriptors. -/
theorem C12_own_attachments (dead : List (List Nat)) (own leftover : List Nat) (fragmented : Bool) :
    RecvAtt.call RecvAtt.codeCfg leftover (RecvAtt.history dead own fragmented) = some own := by
  have hc : RecvAtt.codeCfg = ⟨true, true⟩ := by decide
  rw [hc]
  unfold RecvAtt.call RecvAtt.history
  simp only [if_true]
  induction dead with
  | nil => cases fragmented <;> simp [RecvAtt.run]
  | cons a t ih => simpa [RecvAtt.run] using ih

/-- sensitivity: vectors kept across the discard (a loop instead of the recursion, or the drops removed) — the survivor's
message arrives with the dead message's descriptors in front of its own -/
example : RecvAtt.call ⟨true, false⟩ [] (RecvAtt.history [[7, 8]] [1] false) = some [7, 8, 1] := by decide

/-- non-vacuity: the sender of a 3-packet message dies after the second packet; the message is discarded and the next sender's
message is delivered -/
example : (run (init 4608 [13000, 100] [[0], [1]])
    [.s 0, .s 0, .s 0, .crash 0, .s 1, .s 1, .r, .r, .r, .r]).map (fun st => st.msgs.map (·.rs))
    = some [.discarded, .delivered 100] := by decide

/-- **C12_attachments_all_schedules** — every message may carry descriptors (`atts m`, in the control message of its first packet).  For
every execution — any threads, sizes, ENOBUFS, fatal errors and sender crashes at any point, any order of receiver steps —
the attachment lists handed to the receiver's caller are, in delivery order, exactly the delivered messages' own
descriptors: a truncated message that is discarded in between leaves nothing behind (for the handling of `recv`'s vectors
regenerated from the source, `RecvAtt.codeCfg`). -/
theorem C12_attachments_all_schedules (atts : Nat → List Nat) (sys : Nat) (lens : List Nat) (threads : List (List Nat)) (as : List Act) :
    (RecvAtt.feedAll RecvAtt.codeCfg ⟨[], none, []⟩ ((routs (init sys lens threads) as).flatMap (evOf atts))).out
      = ((routs (init sys lens threads) as).flatMap delivOf).map atts :=
  att_init atts sys lens threads as

/-- non-vacuity and sensitivity on the crash schedule above (message 0 carries descriptors 7, 8 and dies; message 1 carries 1):
the code variant returns `[1]` with the delivered message; with the vectors kept across the discard it would be `[7, 8, 1]` -/
example : ((routs (init 4608 [13000, 100] [[0], [1]]) [.s 0, .s 0, .s 0, .crash 0, .s 1, .s 1, .r, .r, .r, .r]).flatMap delivOf) = [1] := by decide
example : (RecvAtt.feedAll ⟨true, true⟩ ⟨[], none, []⟩ ((routs (init 4608 [13000, 100] [[0], [1]])
    [.s 0, .s 0, .s 0, .crash 0, .s 1, .s 1, .r, .r, .r, .r]).flatMap (evOf fun m => if m = 0 then [7, 8] else [1]))).out = [[1]] := by decide
example : (RecvAtt.feedAll ⟨true, false⟩ ⟨[], none, []⟩ ((routs (init 4608 [13000, 100] [[0], [1]])
    [.s 0, .s 0, .s 0, .crash 0, .s 1, .s 1, .r, .r, .r, .r]).flatMap (evOf fun m => if m = 0 then [7, 8] else [1]))).out = [[7, 8, 1]] := by decide

/-- **C12_sigchld_transparent** — a sender that dies raises `SIGCHLD` in its parent; when the parent is the receiver and is reassembling another sender's
message, its read of the next fragment is cut short (`EINTR`).  For the code as it is (retry, and the buffer length put back
after every read — both regenerated) the survivor's message comes out exactly as without the signal, however often that happens. -/
theorem C12_sigchld_transparent {α : Type} (sys total : Nat) (buf : List α) (answers : List (RecvSig.Ans α)) (eof : Bool) :
    RecvSig.loop Gen.shape_followupRetriesEintr sys total buf answers eof Gen.shape_followupRestoresLen
      = RecvSig.embed (Frag.recvFollow sys total buf (RecvSig.strip answers) eof) := by
  rw [RecvSig.code_retries.1, RecvSig.code_retries.2]; exact RecvSig.loop_retry sys total buf answers eof

end C12
