import IpcModel.RecvSig
import IpcModel.Interleave.Bridge
import IpcModel.Interleave.Att
/-!
# C02 — messages are delivered exactly once, whole, and in the order they were sent

Model `IM`: any number of sender threads, each with a list of messages to send (any lengths); every message owns its
dedicated socket; actions `s t` (thread t's next system call succeeds), `f t` (it gets ENOBUFS), `x t` (fatal error),
`crash t` (the sender dies), `r` (the receiver's next system call).  `run (init sys lens threads) schedule = some st`
ranges over **all** schedules.  A receive that would be truncated or misplaced yields `corrupt`, so absence of
corruption is a theorem, not a modelling choice.
-/
namespace C02
open IM

/-- **C02_whole** (`delivery_safe`) — in every reachable state of every schedule: no message is ever delivered corrupt (bytes of
different messages are never mixed, nothing is truncated); a delivered message has exactly its own length and its send
returned `Ok`; only failed sends are discarded; a message whose send returned `Ok` is never discarded. -/
theorem C02_whole (sys : Nat) (lens : List Nat) (threads : List (List Nat)) (hsys : 1000 ≤ sys)
    (as : List Act) (st : St) (h : run (init sys lens threads) as = some st) (m : Nat) (x : M) (hm : st.msgs[m]? = some x) :
    x.rs ≠ .corrupt ∧ (∀ n, x.rs = .delivered n → n = x.len ∧ x.phase = .ok) ∧ (x.rs = .discarded → x.phase = .failed) ∧
    (x.phase = .ok → x.rs ≠ .discarded) :=
  delivery_safe sys lens threads hsys as st h m x hm

/-- **C02_once_ordered** (`fifo_consumption`) — the order in which first packets reached the channel has no duplicates and always
splits as *consumed ++ under assembly ++ still queued*: messages are consumed exactly once, in that order, none skipped. -/
theorem C02_once_ordered (sys : Nat) (lens : List Nat) (threads : List (List Nat)) (hsys : 1000 ≤ sys)
    (as : List Act) (st : St) (h : run (init sys lens threads) as = some st) :
    st.firstOrder.Nodup ∧
    ∃ C : List Nat, st.firstOrder = C ++ st.cur.toList ++ st.mainq ∧
      (∀ k, k ∈ C → consumedAt st k = true) ∧
      (∀ k, k ∈ st.cur.toList ++ st.mainq → consumedAt st k = false) :=
  fifo_consumption sys lens threads hsys as st h

/-- **C02_ok_in_order** — every message whose send returned `Ok` is in that order (nothing that was acknowledged to the sender
is lost; with `C02_once_ordered` and `C02_whole` it is delivered exactly once, intact, when its turn comes). -/
theorem C02_ok_in_order (sys : Nat) (lens : List Nat) (threads : List (List Nat)) (hsys : 1000 ≤ sys)
    (as : List Act) (st : St) (h : run (init sys lens threads) as = some st) (m : Nat) (x : M)
    (hm : st.msgs[m]? = some x) (hok : x.phase = .ok) : m ∈ st.firstOrder := by
  obtain ⟨hS, hO⟩ := inv_run _ _ as (sinv_init sys lens threads hsys) (oinv_init sys lens threads) h
  have hI := hS.2.1 m x hm
  apply (hO.2.2.1 m x hm).mpr
  intro hn
  cases hf : x.firstHi <;> simp [MInv, hok, hf, hn, rview] at hI

/-- **C02_hb** (`happened_before`) — whenever one send returned before another began (same handle, a clone, another thread or
process), the first message's first packet precedes the second's, hence it is delivered first. -/
theorem C02_hb (sys : Nat) (lens : List Nat) (threads : List (List Nat)) (hsys : 1000 ≤ sys)
    (as₁ as₂ : List Act) (st₁ st₂ : St)
    (h₁ : run (init sys lens threads) as₁ = some st₁) (h₂ : run st₁ as₂ = some st₂)
    (a b : Nat) (xa xb : M) (ha : st₁.msgs[a]? = some xa) (hb : st₁.msgs[b]? = some xb)
    (hfin : finished xa) (htodo : xb.phase = .todo)
    (ha₂ : a ∈ st₂.firstOrder) (hb₂ : b ∈ st₂.firstOrder) :
    ∃ l₁ l₂ l₃, st₂.firstOrder = l₁ ++ a :: l₂ ++ b :: l₃ :=
  happened_before sys lens threads hsys as₁ as₂ st₁ st₂ h₁ h₂ a b xa xb ha hb hfin htodo ha₂ hb₂

/-- non-vacuity: two threads, a 3-packet and a 1-packet message, an interleaved schedule that delivers both -/
example : (run (init 4608 [13000, 100] [[0], [1]])
    [.s 0, .s 0, .s 1, .s 0, .s 1, .r, .r, .s 0, .r, .r]).map (fun st => (st.msgs.map (·.rs), st.firstOrder))
    = some ([.delivered 13000, .delivered 100], [0, 1]) := by decide

/-- **C02_whole_with_attachments** — "as one whole message" includes what is attached: over all schedules the descriptors returned
with each delivered message are exactly the ones it was sent with (see `C12_attachments_all_schedules`). -/
theorem C02_whole_with_attachments (atts : Nat → List Nat) (sys : Nat) (lens : List Nat) (threads : List (List Nat)) (as : List Act) :
    (RecvAtt.feedAll RecvAtt.codeCfg ⟨[], none, []⟩ ((routs (init sys lens threads) as).flatMap (evOf atts))).out
      = ((routs (init sys lens threads) as).flatMap delivOf).map atts :=
  att_init atts sys lens threads as

/-- **C02_shape_followups_blocking** — the model's receiver stays with a message from its first packet until the message is complete or
found truncated (`cur`); the source does the same: inside the reassembly loop the follow-up fragments are read with a plain
blocking `recv` on the dedicated socket, with no poll, time-out or non-blocking flag — whatever receive call the program
used (regenerated from `recv`). -/
theorem C02_shape_followups_blocking : Gen.shape_followupsBlocking = true := by decide

/-- **C02_signal_transparent** — a signal handled by the receiving thread while it reassembles a multi-fragment message (any number of `recv()` calls on
the dedicated socket answered `EINTR`, at any positions) changes nothing: for the code as it is now (`shape_followupRetriesEintr`,
regenerated) the reassembly ends exactly as the uninterrupted one — the message is delivered once, whole.  Without the retry one
interruption loses the message (`RecvSig.loop_noretry_err`, D20). -/
theorem C02_signal_transparent {α : Type} (sys total : Nat) (buf : List α) (answers : List (RecvSig.Ans α)) (eof : Bool) :
    Gen.shape_followupRetriesEintr = true ∧ Gen.shape_followupRestoresLen = true ∧
    RecvSig.loop Gen.shape_followupRetriesEintr sys total buf answers eof Gen.shape_followupRestoresLen
      = RecvSig.embed (Frag.recvFollow sys total buf (RecvSig.strip answers) eof) := by
  refine ⟨RecvSig.code_retries.1, RecvSig.code_retries.2, ?_⟩
  rw [RecvSig.code_retries.1, RecvSig.code_retries.2]; exact RecvSig.loop_retry sys total buf answers eof

/-- non-vacuity / sensitivity: a 3-packet message, the second and third read interrupted (twice in a row) -/
example : RecvSig.loop true 4608 20 [1, 2] [.eintr, .data [3, 4, 5], .eintr, .eintr, .data (List.replicate 15 9)] false
    = .ok ([1, 2, 3, 4, 5] ++ List.replicate 15 9) := by decide
example : RecvSig.loop false 4608 20 [1, 2] [.eintr, .data [3, 4, 5]] false = .err := by decide
example : RecvSig.loop true 4608 20 [1, 2] [.eintr, .data [3, 4, 5]] false false = .corrupt := by decide

end C02
