import IpcModel.Inproc
import IpcModel.Timed
import IpcModel.GenTimed
/-!
# C10 — non-blocking and timed receives never block, miss a message, or poison

Model `Timed`: `UnixCmsg::recv`'s three modes over a kernel socket with an `O_NONBLOCK` flag on the open file
description; `poll` may report a time-out only if nothing was ready for the whole wait (`pollConsistent`).
The order "set the flag — recvmsg — clear the flag", "poll time-out ⇒ EAGAIN", the poll event mask and the unit in
which the duration is handed to `poll` are regenerated from the source on every run (`Gen.shape_*`, `Gen.pollUnit*`).
The system calls `Timed.call` lists are compared with the interposed trace of the real crate (scenario `timed`).

Not reached by a theorem: that the kernel's `poll` really waits the time it was given (lower bound checked on the real
system by the oracle) and the wake-up when a message or closure arrives during the wait (exercised with threads).
-/
namespace C10
open Timed

theorem C10_flag (k : K) (m : Mode) (b : Bool) (h : k.nonblock = false) : (recvFirst k m b).2.nonblock = false :=
  flag_restored k m b h

theorem C10_try (k : K) (b : Bool) :
    (recvFirst k .nonblocking b).1 ≠ .blocks ∧
    (∀ t q, k.queue = (t, true) :: q → (recvFirst k .nonblocking b).1 = .msg t) ∧
    (k.queue = [] → k.peerAlive = true → (recvFirst k .nonblocking b).1 = .empty) ∧
    (k.queue = [] → k.peerAlive = false → (recvFirst k .nonblocking b).1 = .disconnected) ∧
    (∀ t, (recvFirst k .nonblocking b).1 = .waitsSender t → ∃ q, k.queue = (t, false) :: q) :=
  try_outcome k b

theorem C10_timeout (k : K) (us : Nat) (b : Bool) (hk : k.nonblock = false) (hc : pollConsistent k b) :
    ((recvFirst k (.timeout us) b).1 = .empty → b = true) ∧
    (∀ t q, k.queue = (t, true) :: q → (recvFirst k (.timeout us) b).1 = .msg t) ∧
    (k.queue = [] → k.peerAlive = false → (recvFirst k (.timeout us) b).1 = .disconnected) :=
  timeout_outcome k us b hk hc

/-- **C10_no_poison** — after any sequence of the three calls with any outcomes, a blocking receive on an idle connected channel blocks
(waits for a message) instead of failing. -/
theorem C10_no_poison (k : K) (calls : List (Mode × Bool)) (h : k.nonblock = false) :
    let k' := calls.foldl (fun k c => (recvFirst k c.1 c.2).2) k
    k'.queue = [] → k'.peerAlive = true → (recvFirst k' .blocking false).1 = .blocks :=
  later_blocking_blocks k calls h

/-- **C10_no_miss** — no call of any mode loses, duplicates or reorders a queued message. -/
theorem C10_no_miss (k : K) (m : Mode) (b : Bool) :
    tagOf (recvFirst k m b).1 ++ (recvFirst k m b).2.queue.map Prod.fst = k.queue.map Prod.fst :=
  queue_conserved k m b

/-- **C10_wait** — the wait handed to the kernel by `try_recv_timeout(d)` is `d` rounded down to whole milliseconds
(or unbounded when it does not fit a C int), for the conversion found in the source on this run. -/
theorem C10_wait (us : Nat) :
    pollArg us = -1 ∨ (0 ≤ pollArg us ∧ pollArg us * 1000 ≤ (us : Int) ∧ (us : Int) < (pollArg us + 1) * 1000) :=
  pollArg_granularity us (by decide) (by decide)

/-- **C10_no_early_eof** — the kernel may report end of file while a packet queued by a peer that closed right afterwards is still in the
queue (it looks at the queue first and at the shutdown flag afterwards; `race = true`).  In the variant of the source
(end of file confirmed by a second, non-blocking look — `C10_shape`), whatever the receive mode and whether or not the race
happens: `disconnected` is answered only when nothing is queued and no sender is left, and every answer is the one the
race-free kernel would have given. -/
theorem C10_no_early_eof (k : K) (m : Mode) (b race : Bool) :
    ((recvFirstR k m b race).1 = .disconnected → k.queue = [] ∧ k.peerAlive = false) ∧
    recvFirstR k m b race = recvFirst k m b :=
  ⟨disconnected_only_when_drained k m b race, recvFirstR_eq k m b race⟩

/-- the system calls of one receive (compared with the interposed trace): one recvmsg, two when the first reported end of file -/
theorem C10_trace_shape (k : K) (m : Mode) (b race : Bool) :
    let rr := (callV true k m b race).1
    rr = [.recvmsg] ∨ rr = [.recvmsg, .recvmsg] ∨ rr = [.setNB, .recvmsg, .clearNB] ∨ rr = [.setNB, .recvmsg, .recvmsg, .clearNB] ∨
    (∃ us, m = .timeout us ∧ (rr = [.poll (pollArg us)] ∨ rr = [.poll (pollArg us), .recvmsg] ∨ rr = [.poll (pollArg us), .recvmsg, .recvmsg])) :=
  trace_shape k m b race

/-- shape facts regenerated from `UnixCmsg::recv` on every run -/
theorem C10_shape : Gen.shape_nonblockSetBefore = true ∧ Gen.shape_nonblockClearedAfter = true ∧
    Gen.shape_pollTimeoutIsEagain = true ∧ Gen.shape_pollEvents = true ∧ Gen.shape_eofConfirmed = true := by decide

/-- non-vacuity: a concrete idle connected channel in blocking mode; `try_recv` says empty and leaves the flag clear,
a 1.5 ms timed receive polls for 1 ms -/
example : (recvFirst ⟨[], true, false⟩ .nonblocking false) = (.empty, ⟨[], true, false⟩) := by decide
example : pollArg 1500 = 1 := by decide
example : (call ⟨[(7, true)], true, false⟩ (.timeout 1500) false).1 = [.poll 1, .recvmsg] := by decide

/-- sensitivity (the code before the repair, D16): without the confirming look a message queued just before the close is overtaken by
`disconnected` in the race window; with it the message is delivered -/
example : (callV false ⟨[(7, true)], false, false⟩ .nonblocking false true).2.1 = .disconnected := by decide
example : (callV true ⟨[(7, true)], false, false⟩ .nonblocking false true).2.1 = .msg 7 := by decide

/-- sensitivity: the variant that forgets to clear the flag poisons a later blocking receive (it would answer `empty`, an
error, instead of blocking) -/
example : (Timed.recvmsg ⟨[], true, true⟩).1 = .empty := by decide

/-- **C10_inproc** — the in-process transport's three receive flavours (regenerated call and error arms): each makes the crossbeam
call of its own kind (`recv` / `try_recv` / `recv_timeout(duration)`, so the polling ones cannot block beyond their budget),
returns a queued message as a message, and reports "empty" exactly for empty / timed out. -/
theorem C10_inproc (c : Gen.XCall) (x : Inproc.XB) (h : Inproc.possible c x = true) :
    Inproc.callOf c = c ∧ (x = .msg → Inproc.codeAnswer c x = .message) ∧
    (Inproc.codeAnswer c x = .empty ↔ (x = .empty ∨ x = .timeout)) := by
  refine ⟨(Inproc.code_answers c x h).2, ?_, Inproc.empty_iff c x h⟩
  intro hx; rw [(Inproc.code_answers c x h).1, hx]; rfl

end C10
