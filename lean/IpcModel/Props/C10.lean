import IpcModel.Timed
import IpcModel.Gen
/-!
# C10 — non-blocking and timed receives never block, miss a message, or poison

Model `Timed`: `UnixCmsg::recv`'s three modes over a kernel socket with an `O_NONBLOCK` flag on the open file
description; `poll` may report a time-out only if nothing was ready for the whole wait (`pollConsistent`).
The order "set the flag — recvmsg — clear the flag" and "poll time-out ⇒ EAGAIN" are regenerated shape facts.
-/
namespace C10
open Timed

theorem C10_flag (k : K) (m : Mode) (b : Bool) (h : k.nonblock = false) : (recvFirst k m b).2.nonblock = false :=
  flag_restored k m b h

theorem C10_try (k : K) (b : Bool) :
    (recvFirst k .nonblocking b).1 ≠ .blocks ∧
    (∀ t q, k.queue = t :: q → (recvFirst k .nonblocking b).1 = .msg t) ∧
    (k.queue = [] → k.peerAlive = true → (recvFirst k .nonblocking b).1 = .empty) ∧
    (k.queue = [] → k.peerAlive = false → (recvFirst k .nonblocking b).1 = .disconnected) :=
  try_outcome k b

theorem C10_timeout (k : K) (ms : Nat) (b : Bool) (hk : k.nonblock = false) (hc : pollConsistent k b) :
    ((recvFirst k (.timeout ms) b).1 = .empty → b = true) ∧
    (∀ t q, k.queue = t :: q → (recvFirst k (.timeout ms) b).1 = .msg t) ∧
    (k.queue = [] → k.peerAlive = false → (recvFirst k (.timeout ms) b).1 = .disconnected) :=
  timeout_outcome k ms b hk hc

/-- **C10_no_poison** — after any sequence of the three calls with any outcomes, a blocking receive on an idle connected channel blocks
(waits for a message) instead of failing. -/
theorem C10_no_poison (k : K) (calls : List (Mode × Bool)) (h : k.nonblock = false) :
    let k' := calls.foldl (fun k c => (recvFirst k c.1 c.2).2) k
    k'.queue = [] → k'.peerAlive = true → (recvFirst k' .blocking false).1 = .blocks :=
  later_blocking_blocks k calls h

/-- shape facts regenerated from `UnixCmsg::recv` on every run -/
theorem C10_shape : Gen.shape_nonblockSetBefore = true ∧ Gen.shape_nonblockClearedAfter = true ∧
    Gen.shape_pollTimeoutIsEagain = true := by decide

end C10
