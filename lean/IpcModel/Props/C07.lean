import IpcModel.Lemmas.RouterProof
import IpcModel.GenRouter
import IpcModel.RouterSys
import IpcModel.Lemmas.RouterDispatch
/-!
# C07 — router: each routed message reaches its handler once, in order; then it is freed

One-step dispatch theorems over the router thread model, for every state: together with the freshness invariant they
say that the effects concerning route `r` are exactly `invoke r m₁ … invoke r m_k` for the messages delivered on r's
receiver-set id, in that order, followed by one `dropH r` at its closure, and that no other route is affected.

`C07_dispatch` is the end-to-end statement over whole event streams: for every history of registrations, traffic and
closures, `(log restricted to r) = map (invoke r) (messages reported for r's id, in order) ++ [dropH r]?`; the one-step
theorems below are its building blocks.  The event stream itself (each member's messages in order, then one closure) is
the receiver set's contract (C06); messages queued before registration are reported after it, so they are covered.
-/
namespace C07
open Router

/-- **C07_dispatch** — over every event stream that does not stop the router: the effects concerning route `r` are exactly
one `invoke r t` per message reported for its id, in order, followed by one `dropH r` iff the id's closure was reported;
other members' events, other routes' registrations and wake-ups contribute nothing to it. -/
theorem C07_dispatch (es : List Ev) {st : St} (hi : RInv st) {id r : Nat} (hl : lookup st.handlers id = some r) (hnc : Ev.wakeClosed ∉ es) :
    routeLog r (run fixed st es).log
      = routeLog r st.log ++ (proj id es).1.map (Eff.invoke r) ++ (if (proj id es).2 then [Eff.dropH r] else []) :=
  dispatch_run es hi hl hnc

/-- a message event for a registered id invokes exactly the handler registered for that id, once; registrations unchanged -/
theorem C07_dispatch_partial_msg (st : St) (id tag r : Nat) (hs : st.stopped = false) (hr : routeOf st id = some r) :
    (step fixed st (.msg id tag)).log = st.log ++ [.invoke r tag] ∧ (step fixed st (.msg id tag)).handlers = st.handlers :=
  step_msg st id tag r hs hr

/-- closure drops exactly that handler, once, and unregisters the id; other routes are untouched -/
theorem C07_dispatch_partial_closed (st : St) (id r : Nat) (hs : st.stopped = false) (hr : routeOf st id = some r) :
    (step fixed st (.closed id)).log = st.log ++ [.dropH r] ∧
    routeOf (step fixed st (.closed id)) id = none ∧
    ∀ id', id' ≠ id → routeOf (step fixed st (.closed id)) id' = routeOf st id' :=
  step_closed st id r hs hr

/-- **C07_keys** — registering a route gives it a fresh id and never changes the route of an existing id
(so routes registered concurrently — the proxy mutex serialises them — do not disturb one another) -/
theorem C07_keys (st : St) (r : Nat) (q : List RMsg) (hs : st.stopped = false) (hq : st.msgq = .addRoute r :: q)
    (hns : ∀ m ∈ q, ∀ c, m ≠ .shutdown c) (hfresh : Fresh st) (id : Nat) (hid : id < st.nextId) :
    routeOf (step fixed st .wake) id = routeOf st id ∧ routeOf (step fixed st .wake) st.nextId = some r :=
  step_add_preserves st r q hs hq hns hfresh id hid

/-- freshness is an invariant of every run from the initial state, for any event stream -/
theorem C07_fresh (es : List Ev) : Fresh (run fixed Router.init es) := by
  have : ∀ (es : List Ev) (st : St), Fresh st → Fresh (run fixed st es) := by
    intro es
    induction es with
    | nil => intro st h; simpa [run] using h
    | cons e es ih => intro st h; simp only [run, List.foldl_cons]; exact ih _ (step_fresh fixed st e h)
  exact this es _ (by simp [Fresh, Router.init])

/-- non-vacuity: two routes, interleaved traffic, one closure -/
example : (run fixed ⟨[], 1, [.addRoute 10, .addRoute 20], false, []⟩
    [.wake, .wake, .msg 1 5, .msg 2 6, .msg 1 7, .closed 1, .msg 2 8]).log
    = [.invoke 10 5, .invoke 20 6, .invoke 10 7, .dropH 10, .invoke 20 8] := by decide

/-- the event loop of the real `Router::run` distinguishes exactly the four kinds of select result the model's `step` has
(wake-up message, routed message, wake-up channel closed, routed channel closed) — regenerated from `src/router.rs` -/
theorem C07_shape : Gen.routerRunArms = 4 := by decide

/-- **C07_code_variant** — the source as it is now is the variant the theorems of this file are about: a wake-up clears the flag and
then serves the whole queue; the `Shutdown` arm drops the handlers, then acknowledges, then ends the thread; a closed wake-up
channel has its own arm; `shutdown` awaits the acknowledgement after the locked block; `add_route` locks, checks for a late
offer, queues the request and wakes the router, in this order; wake-ups are coalesced through the shared flag. -/
theorem C07_code_variant : Router.codeVariant = Router.fixed ∧ RSys.codeVariant = RSys.fixed ∧ Gen.shape_shutdownOrder = true ∧
    Gen.shape_shutdownIdempotent = true ∧ Gen.shape_addRouteOrder = true ∧ Gen.shape_wakeCoalesced = true := by decide

/-- **C07_undecodable_isolated** — a message that does not decode as the route's type, arriving on a crossbeam-forwarding route (event `badFwd`; on a
user callback route the callback receives the decode error as an ordinary invocation): the repaired forwarding handler (variant
flag `fwdUnwraps = false`, regenerated from `route_ipc_receiver_to_crossbeam_sender`) drops it and *nothing else changes* — no
panic, the router keeps running, every registration stays; together with `C07_dispatch` (whose event streams may contain such
events anywhere: the projection of a route's traffic skips them) every other message of every route is still delivered exactly
once, in order. -/
theorem C07_undecodable_isolated (st : St) (i r : Nat) (hs : st.stopped = false) (hl : lookup st.handlers i = some r) :
    step fixed st (.badFwd i) = st ∧ Router.codeVariant.fwdUnwraps = false := by
  refine ⟨?_, by decide⟩
  unfold step; simp [hs, hl, fixed]

/-- before the repair (D19): the router thread panics -/
example : (step legacy ⟨[(1, 7)], 2, [], false, []⟩ (.badFwd 1)).log = [.panic] := by decide

end C07
