import IpcModel.TableScript
import IpcModel.Wire
/-!
# C16 (continued) — the table handling of `OpaqueIpcMessage::to`, as the translator reads it from `src/ipc.rs`

Kept apart from `Props/C16.lean` (the decoder theorems, shared with C01 and C04) so that a change to `to` touches only the
properties that are about it.
-/
namespace C16

/-! ### the statement order of the real `to`, regenerated from `src/ipc.rs` on every run -/

/-- **C16_to_script** — for the order of table operations the translator reads from `OpaqueIpcMessage::to` now
(`Gen.toScript`), whatever the thread-local tables hold when `to` is called (empty, or the tables of an enclosing `to`
whose `Deserialize` impl is receiving), whichever indices the decoder asks for (out of range, repeated) and whether it
fails: afterwards the thread-local tables are exactly what they were; the message keeps exactly the attachments that were
not handed out (they are dropped with the message when `to` returns: released, not kept open); the decode result is what
is returned. -/
theorem C16_to_script {α β : Type} (o : TS.DeOutcome) (tlsC msgC : List (Option α)) (tlsR msgR : List (Option β)) :
    (TS.runTo o Gen.toScript ⟨tlsC, tlsR, msgC, msgR, none, none⟩).tlsC = tlsC ∧
    (TS.runTo o Gen.toScript ⟨tlsC, tlsR, msgC, msgR, none, none⟩).tlsR = tlsR ∧
    (TS.runTo o Gen.toScript ⟨tlsC, tlsR, msgC, msgR, none, none⟩).msgC = TS.takeAll msgC o.takeC ∧
    (TS.runTo o Gen.toScript ⟨tlsC, tlsR, msgC, msgR, none, none⟩).msgR = TS.takeAll msgR o.takeR ∧
    (TS.runTo o Gen.toScript ⟨tlsC, tlsR, msgC, msgR, none, none⟩).ret = some o.ok := by
  simp [TS.runTo, TS.toStep, Gen.toScript]

/-- what `get_mut(index).and_then(Option::take)` leaves behind: a requested slot is emptied, every other slot is untouched,
an index out of range touches nothing -/
theorem C16_takeAll_get {α : Type} (idx : List Nat) (l : List (Option α)) (i : Nat) :
    (TS.takeAll l idx)[i]? = if i ∈ idx then (l[i]?).map (fun _ => none) else l[i]? := by
  unfold TS.takeAll
  induction idx generalizing l with
  | nil => simp
  | cons j t ih =>
    simp only [List.foldl_cons]
    rw [ih]
    by_cases hij : i = j
    · subst hij
      by_cases hit : i ∈ t
      · simp only [hit, List.mem_cons, or_true, if_true]
        by_cases hl : i < l.length
        · simp [List.getElem?_set, hl]
        · simp [List.getElem?_set, hl, List.getElem?_eq_none (Nat.le_of_not_lt hl)]
      · simp only [hit, List.mem_cons, true_or, if_true, if_false]
        by_cases hl : i < l.length
        · simp [List.getElem?_set, hl]
        · simp [List.getElem?_set, hl, List.getElem?_eq_none (Nat.le_of_not_lt hl)]
    · have hji : ¬ j = i := fun h => hij h.symm
      simp [List.getElem?_set, hji, hij]

theorem C16_takeAll_length {α : Type} (idx : List Nat) (l : List (Option α)) : (TS.takeAll l idx).length = l.length := by
  unfold TS.takeAll
  induction idx generalizing l with
  | nil => rfl
  | cons j t ih => simp only [List.foldl_cons]; rw [ih]; simp

/-- the shapes of the endpoint / region (de)serialisers the decoder model relies on, regenerated: the index written is the
table length before the push; an index is honoured only in range and once; `usize::MAX` stands for the empty region -/
theorem C16_shape : Gen.shape_serIndexBeforePush = true ∧ Gen.shape_takeChecked = true ∧ Gen.shape_shmEmptySentinel = true := by decide

/-- **C16_code_variant** — the decoder variant the theorems of `Props/C16.lean` are about (`Wire.Variant.legacy = false`: an index is
honoured only in range and once, otherwise an error — never a panic or a handle on an invalid descriptor) is the one the
source has now: every table lookup in the (de)serialisers goes through `get_mut(index).and_then(Option::take)`. -/
theorem C16_code_variant : (⟨!Gen.shape_takeChecked⟩ : Wire.Variant) = ⟨false⟩ := by decide

/-- the order of a change that returns the decode error before swapping back (`deserialize(..)?`): after a failed decode
the thread-local tables hold the message's attachments and the enclosing tables are lost -/
example : (TS.runTo (⟨[], [], false⟩ : TS.DeOutcome) [.swapChans, .swapRegions, .deserializeProp, .swapRegions, .swapChans]
      (⟨[some 1], [], [some 7, some 8], [], none, none⟩ : TS.ToSt Nat Nat)).tlsC = [some 7, some 8] := by decide

end C16
