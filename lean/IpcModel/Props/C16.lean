import IpcModel.Lemmas.WireProof
/-!
# C16 — undecodable or mismatched payloads produce errors, not panics or leaks

`toValue V fuel s bytes atts regions` models `OpaqueIpcMessage::to::<T>()`: bincode decoding of *arbitrary* bytes against
the schema of `T`, resolving endpoint indices in the message's own attachment slots.  Theorems are about the repaired
code (`legacy = false`); the `legacy = true` variant reproduces the defects that were fixed, as sensitivity examples.
-/
namespace C16
open Wire

/-- **C16_total** — decoding never panics: for every expected type, every byte string, every attachment list
(out-of-range indices, indices used twice, wrong types, truncated data … all yield `err` or `ok`). -/
theorem C16_total (fuel : Nat) (s : Schema) (bytes : Bytes) (atts : List Att) (regions : List Nat) :
    toValue ⟨false⟩ fuel s bytes atts regions ≠ .panic :=
  (dec_ne_panic_all fuel).1 s bytes _

/-- **C16_sound / C16_release** — if decoding succeeds, the endpoints and regions inside the value are exactly attachments of
this message, each handed out at most once (the attachment list is a permutation of *handed out ++ still in the slots*),
and no handle on an invalid descriptor is produced.  What is still in the slots is released when the message is dropped. -/
theorem C16_sound (fuel : Nat) (s : Schema) (bytes : Bytes) (atts : List Att) (regions : List Nat)
    (v : Value) (rest : Bytes) (sl : Slots) (h : toValue ⟨false⟩ fuel s bytes atts regions = .ok v rest sl) :
    atts.Perm (chans v ++ (leftover sl).1) ∧ regions.Perm (shms v ++ (leftover sl).2) ∧ hasBogus v = false := by
  have := (dec_sound_all fuel).1 s bytes _ v rest sl h
  simpa [Sound, liveC, liveS, leftover, List.filterMap_map] using this

/-- **C16_roundtrip** (shared with C01/C04) — a well-typed value decodes to itself from its own encoding, and consumes exactly its
own attachments, whatever else is in the slots. -/
theorem C16_roundtrip (v : Value) (s : Schema) (h : HasType v s) (r : Bytes) (fuel : Nat) (hf : vsize v < fuel)
    (hc : (chans v).length < 256 ^ 8) (hs : (shms v).length < USIZE_MAX) :
    toValue ⟨false⟩ fuel s (enc v 0 0 ++ r) (chans v) (shms v)
      = .ok v r ⟨(chans v).map fun _ => none, (shms v).map fun _ => none⟩ := by
  have := dec_enc v s h [] [] [] [] r fuel hf (by simpa using hc) (by simpa using hs)
  simpa [toValue, usedC, usedS] using this

/-! ### non-vacuity and sensitivity (the pre-fix code) -/

/-- D3: `u64 = 5` received as `IpcSender` — the legacy lookup panics, the repaired one reports an error -/
example : toValue ⟨true⟩ 5 .sender (le 8 5) [] [] = .panic := by rfl
example : toValue ⟨false⟩ 5 .sender (le 8 5) [] [] = .err := by rfl
/-- D4: the same index used twice — legacy yields a handle on descriptor −1 (`bogus`), repaired code an error -/
example : toValue ⟨true⟩ 5 (.tup [.sender, .sender]) (le 8 0 ++ le 8 0) [.snd 7] []
    = .ok (.tup [.sender (.snd 7), .bogus]) [] ⟨[none], []⟩ := by rfl
example : toValue ⟨false⟩ 5 (.tup [.sender, .sender]) (le 8 0 ++ le 8 0) [.snd 7] [] = .err := by rfl
/-- a region index used twice panics in the legacy code (`.take().unwrap()` on `None`) -/
example : toValue ⟨true⟩ 5 (.tup [.shm, .shm]) (le 8 0 ++ le 8 0) [] [3] = .panic := by rfl
/-- non-vacuity: a successful decode that leaves an unreferenced attachment in its slot -/
example : toValue ⟨false⟩ 5 (.tup [.int 1, .receiver]) ([9] ++ le 8 1) [.snd 4, .rcv 6] []
    = .ok (.tup [.int 1 9, .receiver (.rcv 6)]) [] ⟨[some (.snd 4), none], []⟩ := by rfl

end C16
