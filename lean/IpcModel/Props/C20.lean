import IpcModel.Lemmas.AsyncProof
import IpcModel.GenAsync
/-!
# C20 — a receiver turned into an async stream yields the same messages, then ends

Model `Async`: the routing thread of `asynch.rs` as a processor of `select()` batches over an id → stream map; routes
offered by `to_stream` are registered after each batch; `futures::mpsc` unbounded channels are FIFO buffers with an `ended`
flag (end-of-stream once the forwarding sender is dropped and the buffer is drained).

`C20_forward` is the end-to-end statement over **whole histories** (any sequence of batches and offers, any other traffic);
the events of one id are what the receiver set reports for that member (C06: its messages in order, then one closure).
Not reached by a theorem: waker delivery inside `futures` (exercised with a counting waker) and the receiver-set contract
itself (C06).
-/
namespace C20
open Async

/-- **C20_forward** — for every history of routing-thread iterations and `to_stream` offers, the stream registered for a
receiver-set id ends up with exactly that id's messages, in order, once each, and is ended exactly when the id's closure
was reported; events of other ids, registrations and offers never touch it (isolation). -/
theorem C20_forward (acts : List Act) {st : St} (hi : Inv st) {id s : Nat} (b : List Nat)
    (hl : lookup st.senders id = some s) (hb : bufOf st s = some (b, false)) :
    bufOf (acts.foldl act st) s = some (b ++ (proj id (allEvents acts)).1, (proj id (allEvents acts)).2) :=
  forward_run acts hi b hl hb

/-- **C20_registration** — a route offered by `to_stream` is registered by the next iteration, under a fresh id, with an
empty open stream; together with `C20_forward` nothing reported for that member afterwards can be missed. -/
theorem C20_registration {st : St} (hi : Inv st) (evs : List Ev) (hp : st.pending = []) :
    ∃ id, lookup (act (act st .offer) (.batch evs)).senders id = some st.streams.length ∧
      bufOf (act (act st .offer) (.batch evs)) st.streams.length = some ([], false) :=
  offer_registered hi evs hp

/-- the invariant holds initially and is preserved by every iteration and offer -/
theorem C20_inv_init : Inv ⟨[], 1, [], []⟩ := ⟨by simp, by simp, by simp, by simp, by simp, by simp⟩
theorem C20_inv_step {st : St} (hi : Inv st) (a : Act) : Inv (act st a) := inv_act hi a

theorem C20_msg_forward (st : St) (id tag s : Nat) (h : lookup st.senders id = some s) :
    (onEv st (.msg id tag)).streams = push st.streams s tag ∧ (onEv st (.msg id tag)).senders = st.senders :=
  msg_forward st id tag s h

theorem C20_isolation (st : St) (id tag s s' : Nat) (h : lookup st.senders id = some s) (hne : s' ≠ s) :
    (onEv st (.msg id tag)).streams[s']? = st.streams[s']? := isolation st id tag s s' h hne

theorem C20_closed_ends (st : St) (id s : Nat) (x : Stream) (h : lookup st.senders id = some s) (hx : st.streams[s]? = some x) :
    (onEv st (.closed id)).streams[s]? = some { x with ended := true } :=
  closed_ends st id s x h hx

theorem C20_unknown_ignored (st : St) (id tag : Nat) (h : lookup st.senders id = none) : onEv st (.msg id tag) = st :=
  unknown_ignored st id tag h

/-! non-vacuity: two streams offered, traffic interleaved with a wake-up (id 0) and the other stream's events -/
example : bufOf ([Act.offer, .offer, .batch [.msg 0 0], .batch [.msg 1 5, .msg 2 9, .msg 0 0, .msg 1 6], .batch [.closed 1, .msg 2 10]].foldl act ⟨[], 1, [], []⟩) 0
    = some ([5, 6], true) := by decide
example : bufOf ([Act.offer, .offer, .batch [.msg 0 0], .batch [.msg 1 5, .msg 2 9, .msg 0 0, .msg 1 6], .batch [.closed 1, .msg 2 10]].foldl act ⟨[], 1, [], []⟩) 1
    = some ([9, 10], false) := by decide

/-! sensitivity: a routing thread that registers only one offered route per iteration leaves the second stream without
a registration — nothing sent on its channel would ever reach it -/
def drainOne (st : St) : St := match st.pending with
  | [] => st
  | p :: rest => { st with senders := st.senders ++ [(st.nextId, p)], nextId := st.nextId + 1, pending := rest }
example : (drainOne ([Act.offer, .offer].foldl act ⟨[], 1, [], []⟩)).pending = [1] := by decide

/-- **C20_shape** — what the model's routing iteration assumes about the routing thread, regenerated from `src/asynch.rs`: the loop
body is exactly "handle every result of the select batch, then take every pending registration"; a message is forwarded
to the queue of the route with that id (a wake-up has none); a closure removes the route, which drops the queue's sender
and ends the stream; `to_stream` queues the registration before it wakes the routing thread; `poll_next` passes the queue's
answer through. -/
theorem C20_shape : Gen.shape_asyncEveryResult = true ∧ Gen.shape_asyncForward = true ∧ Gen.shape_asyncClosedRemoves = true ∧
    Gen.shape_asyncRegistersAll = true ∧ Gen.shape_toStreamRegistersThenWakes = true ∧ Gen.shape_pollNextPassesThrough = true := by decide

end C20
