import IpcModel.Async
/-!
# C20 — a receiver turned into an async stream yields the same messages, then ends

Model `Async`: the routing thread of `asynch.rs` as a pure processor of `select()` batches (id → stream map; routes
offered meanwhile are registered after each batch); `futures::mpsc` unbounded channels as FIFO buffers with an `ended`
flag.  One-step theorems (the end-to-end statement over whole histories — `C20_forward` — is **partial**: these are its
inductive steps; the real `to_stream` is exercised by the harness with many streams and threads).
-/
namespace C20
open Async

theorem C20_msg_forward (st : St) (id tag s : Nat) (h : lookup st.senders id = some s) :
    (onEv st (.msg id tag)).streams = push st.streams s tag ∧ (onEv st (.msg id tag)).senders = st.senders :=
  msg_forward st id tag s h

theorem C20_isolation (st : St) (id tag s s' : Nat) (h : lookup st.senders id = some s) (hne : s' ≠ s) :
    (onEv st (.msg id tag)).streams[s']? = st.streams[s']? := isolation st id tag s s' h hne

theorem C20_closed_ends (st : St) (id s : Nat) (x : Stream) (h : lookup st.senders id = some s) (hx : st.streams[s]? = some x) :
    (onEv st (.closed id)).streams[s]? = some { x with ended := true } :=
  closed_ends st id s x h hx

theorem C20_unknown_ignored (st : St) (id tag : Nat) (h : lookup st.senders id = none) : onEv st (.msg id tag) = st :=
  unknown_ignored st id tag h

end C20
