import IpcModel.Inproc
import IpcModel.NoHang
import IpcModel.Ideal
/-!
# C09 — sending to a vanished receiver fails cleanly; one in transit still counts
-/
namespace C09

/-- **C09_no_hang** — model of the dedicated socket during a multi-packet send (who references its receiving end: the sender's own copy,
the copy in flight in the first packet, the copy installed in the receiver; capacity-bounded queue): for the repaired code, in
every state satisfying the reference invariant in which the channel's receiving end no longer exists, the sender's next
step is enabled — it fails or finishes, it never waits on a socket that only it keeps alive. -/
theorem C09_no_hang (st : NoHang.St) (hI : NoHang.Inv ⟨false⟩ st) (hgone : st.receiverExists = false) :
    ∃ st' o, NoHang.step ⟨false⟩ st .sendStep = some (st', o) :=
  NoHang.no_hang st hI hgone

/-- the reference invariant holds in every reachable state -/
theorem C09_inv_step (V : NoHang.Variant) (st st' : NoHang.St) (a : NoHang.Act) (o : NoHang.Out)
    (hI : NoHang.Inv V st) (h : NoHang.step V st a = some (st', o)) : NoHang.Inv V st' :=
  NoHang.inv_step V st st' a o hI h

/-- **C09_code_variant** — the source as it is now is the variant `C09_no_hang` is about: the sender's own copy of the dedicated
receive end is released right after the first fragment went out (regenerated from `OsIpcSender::send`). -/
theorem C09_code_variant : NoHang.codeVariant.keepOwnRef = false := by decide

/-- … hence no hang for the code variant -/
theorem C09_no_hang_code (st : NoHang.St) (hI : NoHang.Inv NoHang.codeVariant st) (hgone : st.receiverExists = false) :
    ∃ st' o, NoHang.step NoHang.codeVariant st .sendStep = some (st', o) := by
  have h : NoHang.codeVariant = ⟨false⟩ := by
    cases hv : NoHang.codeVariant with
    | mk k => have := C09_code_variant; rw [hv] at this; simp at this; rw [this]
  rw [h] at hI ⊢
  exact NoHang.no_hang st hI hgone

/-- sensitivity (the pre-fix code, D11): a reachable state in which nothing is enabled — the sender blocked forever -/
example : NoHang.Inv ⟨true⟩ NoHang.stuck ∧ NoHang.step ⟨true⟩ NoHang.stuck .sendStep = none := by
  constructor
  · simp [NoHang.Inv, NoHang.stuck]
  · decide

open Ideal

/-- **C09_error** — specification: a send on a channel whose receiving end exists nowhere returns an error and queues nothing. -/
theorem C09_error (st : St) (c tag : Nat) (hs : List Handle) (ch : Chan) (hc : st.chans[c]? = some ch) (hsnd : 0 < ch.senders)
    (hgone : (rxAlive st).contains c = false) : (step st (.send c tag hs)).2 = .sendError := by
  have : ¬ ch.senders = 0 := by omega
  have hg : ¬ c ∈ rxAlive st := by simpa using hgone
  simp [step, hc, this, hg]

/-- **C09_transit** — specification: while the receiving end exists (held, or merely in transit inside an undelivered message on a live
channel), a send succeeds and is queued behind what was already there. -/
theorem C09_transit (st : St) (c tag : Nat) (ch : Chan) (hc : st.chans[c]? = some ch) (hsnd : 0 < ch.senders)
    (halive : (rxAlive st).contains c = true) :
    (step st (.send c tag [])).2 = .ok ∧
    ((step st (.send c tag [])).1.chans[c]?).map (·.queue) = some (ch.queue ++ [⟨tag, []⟩]) := by
  have : ¬ ch.senders = 0 := by omega
  have hg : c ∈ rxAlive st := by simpa using halive
  simp [step, hc, this, hg, Ideal.modify, List.getElem?_modify, markInMsg]

/-- non-vacuity: the receiver of channel 1 travels inside a message on channel 0; a send to it succeeds and is delivered
after it has been unpacked -/
example : (Ideal.run [.newChan, .newChan, .send 0 1 [.rcv 1], .send 1 7 [], .recv 0, .recv 1]).2
    = [.ok, .ok, .ok, .ok, .msg 1 [.rcv 1], .msg 7 []] := by decide

/-- **C09_inproc_never_waits** — on the in-process transport a send is one operation on an unbounded queue (regenerated), so it cannot wait for
a receiver that has vanished; its only failure is the queue's "no receiver" (`BrokenPipeError`). -/
theorem C09_inproc_never_waits : Gen.inprocUnbounded = true ∧ Gen.inprocSendPassesThrough = true := by decide

end C09
