import IpcModel.Lemmas.RegRefine
import IpcModel.InprocSet
import IpcModel.InprocReg
import IpcModel.Inproc
import IpcModel.Lemmas.RefineRun
import IpcModel.GenIpc
import IpcModel.GenOwn
/-!
# C19 — all transports give the same answers, those of an ideal FIFO

Two executable readings of the same programs (create, clone, send handles inside messages to any depth, receive, drop):

* `Ideal` — the specification, which is also what the in-process transport does: dropping a receiver destroys its queue,
  the receivers inside the queued messages, their queues, and so on (explicit cascade `dropHandles`);
* `Unix` — what the OS transports do: dropping a receiver closes one descriptor, a send closes the descriptors of the
  embedded receivers afterwards; whether a socket still exists is the kernel's reachability from the descriptor table
  through queued packets.  Nothing is ever destroyed in user space.

`C19_refine`: for every valid program the two give the same result for every operation.  "Valid" = the program embeds
only receivers it holds, each once (`Unix.validOp`; what the type system enforces for `IpcReceiver`, which is neither
`Clone` nor usable after a move).  The harness runs the same seeded programs on the OS, memfd and in-process builds and
compares the OS builds with `Unix.run`, all builds with `Ideal.run`, and checks `Unix.valid` for each program.
-/
namespace C19
open Ideal (Op Res)

/-- **C19_refine** — descriptor-level transport ⊑ specification, for all programs. -/
theorem C19_refine (ops : List Op) (hv : Unix.valid ops = true) : (Unix.run ops).2 = (Ideal.run ops).2 :=
  Refine.refine_run ops hv

/-- one step: related states and a valid operation give the same result and related states -/
theorem C19_step (u : Unix.St) (i : Ideal.St) (hR : Refine.Rel u i) (op : Op) (hv : Unix.validOp u op = true) :
    (Unix.step u op).2 = (Ideal.step i op).2 ∧ Refine.Rel (Unix.step u op).1 (Ideal.step i op).1 :=
  Refine.sim_step u i hR op hv

/-- in related states exactly the same receiving ends exist, with equal queues — so a send fails in one iff in the other
and a receive sees the same backlog -/
theorem C19_same_world (u : Unix.St) (i : Ideal.St) (hR : Refine.Rel u i) (c : Nat) :
    ((Unix.alive u).contains c = (Ideal.rxAlive i).contains c) ∧ (Unix.senderOpen u c = Ideal.senderExists i c) :=
  ⟨Refine.alive_eq hR c, Refine.senderOpen_eq hR c⟩

/-- the fixed-point iteration used by both models computes reachability (no fuel artefact) -/
theorem C19_alive_is_reachability (i : Ideal.St) (c : Nat) :
    c ∈ Ideal.rxAlive i ↔ Reach.ReachG i.chans.length (Ideal.rootB i) (Ideal.edgeB i) c := Refine.mem_rxAlive i c

/-- receiver handles stay unique at descriptor level: held by the program or inside exactly one queued message -/
theorem C19_receivers_unique (ops : List Op) (hv : Unix.validFrom ⟨[]⟩ ops = true) :
    Refine.UInv (ops.foldl (fun s op => (Unix.step s op).1) ⟨[]⟩) :=
  (Refine.refine_states ops ⟨[]⟩ ⟨[]⟩ Refine.rel_init hv).inv

/-- **C19_shape** — what the two readings assume about handles, regenerated from the source: embedding a sender in a message clones it
and embedding a region clones it, embedding a receiver moves it out of the program's hands at serialisation time (so it is
gone whatever happens to the send — `Unix.unhold` / `Ideal.markInMsg`); a receiver owns its descriptor and closes it exactly
once unless consumed, sender clones share one descriptor closed by the last of them, an attachment never converted into
an endpoint closes its descriptor (so a discarded or undecoded message releases what it carried). -/
theorem C19_shape : Gen.shape_embedClonesSenderMovesReceiver = true ∧ Gen.shape_receiverOwnsOnce = true ∧
    Gen.shape_senderSharedDescriptor = true ∧ Gen.shape_opaqueOwnsUntilConverted = true := by decide

/-! non-vacuity: a valid program with a receiver travelling inside a message whose carrying receiver is then dropped
(the cascade destroys the inner channel; at descriptor level it merely becomes unreachable), and a cycle (a receiver sent
over its own channel) -/
def demo : List Op :=
  [.newChan, .newChan, .newChan, .send 1 7 [.snd 2], .send 0 1 [.rcv 1, .snd 2], .dropSender 2, .recv 2, .send 1 8 [],
   .dropReceiver 0, .send 1 9 [], .recv 2, .newChan, .send 3 5 [.rcv 3], .send 3 6 []]
example : Unix.valid demo = true := by decide
example : (Unix.run demo).2 = [.ok, .ok, .ok, .ok, .ok, .ok, .empty, .ok, .ok, .sendError, .disconnected, .ok, .ok, .sendError] := by decide
example : (Ideal.run demo).2 = (Unix.run demo).2 := by decide
/-- the states differ on what no longer exists (the specification emptied channel 1's queue, the kernel still holds the
unreachable packets), which is why the relation compares only what exists -/
example : ((Unix.run demo).1.chans.map (·.queue.length), (Ideal.run demo).1.chans.map (·.queue.length)) = ([1, 2, 0, 1], [0, 0, 0, 1]) := by decide

/-- **C19_inproc** — the third transport: the in-process one answers what its queue answers (`Inproc.spec`), for every receive flavour
and outcome, and its statement facts match the ideal channel's rules (unbounded queue, a moved receiver leaves nothing
behind, `send` passes data / channels / regions on as given) — all regenerated from the source. -/
theorem C19_inproc (c : Gen.XCall) (x : Inproc.XB) (h : Inproc.possible c x = true) :
    Inproc.codeAnswer c x = Inproc.spec x ∧
    (Gen.inprocUnbounded = true ∧ Gen.inprocConsumeTakes = true ∧ Gen.inprocSendPassesThrough = true ∧ Gen.inprocAddMoves = true) :=
  ⟨(Inproc.code_answers c x h).1, Inproc.shape⟩

/-- **C19_inproc_rendezvous** — one-shot servers on the in-process transport answer a connect as the OS transports do (`OneShot.step`'s rule:
success iff a server with that name is still listening): success iff the server is still waiting, an error otherwise,
never a panic (registry operations regenerated from the source; the two models are compared with the real builds by the
registry scripts of the `oneshotip` scenario). -/
theorem C19_inproc_rendezvous (ops : List InprocReg.Op) (n : Nat) :
    InprocReg.codeVariant = InprocReg.fixed ∧
    (InprocReg.step InprocReg.fixed (InprocReg.run InprocReg.fixed ops).1 (.connect n)).2
      = (if (InprocReg.run InprocReg.fixed ops).1.phase[n]? = some .live then .connected n else .err) ∧
    InprocReg.Res.panic ∉ (InprocReg.run InprocReg.fixed ops).2 :=
  ⟨InprocReg.code_variant.1, (InprocReg.connect_spec ops n).1, InprocReg.no_panic ops⟩

/-- **C19_inproc_set_ids** — receiver sets on the in-process transport: ids come from a counter that only grows (regenerated), so after any history
of additions and closures no two members of a set share an id — as on the OS transports (`C06_inv2_fresh`) — and a closed member
leaves both parallel vectors at the same index. -/
theorem C19_inproc_set_ids (ops : List InprocSet.Op) :
    (InprocSet.run Gen.inprocSetIdsFromCounter ops).ids.Nodup ∧ Gen.inprocSetParallelRemove = true := by
  have h := InprocSet.code_shape
  exact ⟨by rw [h.1]; exact InprocSet.ids_distinct ops, h.2⟩

/-- **C19_rendezvous_same_answers** — the OS rendezvous (`OneShot`: listening sockets bound to names) and the in-process registry (`InprocReg`, variant
regenerated from the source and equal to `fixed` by `C19_inproc_rendezvous`) driven by the same client program — any sequence of new /
connect / send / close / accept / drop server / receive / drop receiver in which every `new` succeeds, `accept` and `drop` acting
on the registry exactly when they complete — give every `connect`, to any name, after any history, the same answer: connected
on one iff connected on the other, an error on one iff an error on the other (simulation relation `RegRefine.Rel`). -/
theorem C19_rendezvous_same_answers (ops : List OneShot.Op) (hnew : ∀ op ∈ ops, ∀ k, op ≠ OneShot.Op.new (k + 1)) (n : Nat) :
    let p := RegRefine.runBoth (⟨[], [], 0⟩, ⟨[], [], false⟩) ops
    ((∃ c, (OneShot.step p.1 (.connect n)).2 = .conn c) ↔ (InprocReg.step InprocReg.fixed p.2 (.connect n)).2 = .connected n) ∧
    ((OneShot.step p.1 (.connect n)).2 = .err ↔ (InprocReg.step InprocReg.fixed p.2 (.connect n)).2 = .err) :=
  RegRefine.connect_same_answer ops hnew n

/-- non-vacuity: two servers; the first accepts a client, the second is dropped unused, a third stays: connects to 0, 1, 7 fail on both,
a connect to 2 succeeds on both -/
def demoBoth : OneShot.St × InprocReg.St :=
  RegRefine.runBoth (⟨[], [], 0⟩, ⟨[], [], false⟩) [.new 0, .new 0, .connect 0, .csend 0 5, .accept 0, .dropServer 1, .new 0]
example :
    ((OneShot.step demoBoth.1 (.connect 0)).2, (OneShot.step demoBoth.1 (.connect 1)).2, (OneShot.step demoBoth.1 (.connect 7)).2,
     (OneShot.step demoBoth.1 (.connect 2)).2)
    = (.err, .err, .err, .conn 1) := by decide
example :
    ((InprocReg.step InprocReg.fixed demoBoth.2 (.connect 0)).2, (InprocReg.step InprocReg.fixed demoBoth.2 (.connect 1)).2,
     (InprocReg.step InprocReg.fixed demoBoth.2 (.connect 7)).2, (InprocReg.step InprocReg.fixed demoBoth.2 (.connect 2)).2)
    = (.err, .err, .err, .connected 2) := by decide

end C19
