import IpcModel.Lemmas.SideProof
import IpcModel.TableScript
/-!
# C14 — a failed or nested send leaves no trace in later or enclosing messages

`ipcSend V osOk tx v tls eff` models `IpcSender::send` on a thread whose serialisation tables currently hold `tls`;
values may contain `nested` nodes (a `Serialize` impl that itself sends) and `fail` nodes (a `Serialize` impl that errs),
to any depth.  `osOk c` says whether the OS-level send on channel `c` succeeds.  Theorems are about the repaired code.
-/
namespace C14
open Side

/-- **C14_tables** — on success, on a serialisation failure at any point, on an OS failure, at every nesting depth:
the thread-local tables after `send` are the tables before it (nothing is retained by the library). -/
theorem C14_tables (osOk : Nat → Bool) (tx : Nat) (v : List Node) (tls : Tls) (eff : Eff) :
    (ipcSend ⟨false⟩ osOk tx v tls eff).2.1 = tls :=
  ipcSend_restores osOk tx v tls eff

/-- **C14_own** — a successful send hands the OS exactly the value's own attachments (those outside nested sends), in
traversal order, with bytes whose indices count from 0 — whatever the enclosing tables `tls` contain, and whatever
nested sends (successful or failing) happened while the value was serialised. -/
theorem C14_own (osOk : Nat → Bool) (tx : Nat) (v : List Node) (tls : Tls) (eff : Eff)
    (h : (ipcSend ⟨false⟩ osOk tx v tls eff).1 = true) :
    ∃ before, (ipcSend ⟨false⟩ osOk tx v tls eff).2.2.sent
      = before ++ [⟨tx, ownBytes v 0 0, ownChans v, ownShms v⟩] := by
  unfold ipcSend at h ⊢
  have hs := ser_spec osOk v ⟨[], []⟩ eff
  generalize ser ⟨false⟩ osOk v ⟨[], []⟩ eff = q at h hs ⊢
  obtain ⟨o, t, e⟩ := q
  cases o with
  | none => simp at h
  | some b =>
    have hs' := hs b t e rfl
    simp only at h ⊢
    split at h
    · rename_i hok
      simp only [hok, if_true]
      refine ⟨e.sent, ?_⟩
      simp at hs'
      simp [hs'.1, hs'.2.1, hs'.2.2]
    · simp at h

/-- **C14_self_contained** — every OS-level message produced by a send, inner or outer, is self-contained:
its bytes and attachments are those of one value serialised against empty tables. -/
theorem C14_self_contained (osOk : Nat → Bool) (tx : Nat) (v : List Node) (tls : Tls) :
    ∀ m ∈ (ipcSend ⟨false⟩ osOk tx v tls Eff.empty).2.2.sent, SelfContained m := by
  have h := serNode_sc osOk (.nested tx v) tls Eff.empty (by simp [Eff.empty])
  simpa [serNode] using h

/-- **C14_fail** — a failing send transmits nothing on its own channel: what was sent is what the nested sends sent. -/
theorem C14_fail (osOk : Nat → Bool) (tx : Nat) (v : List Node) (tls : Tls) (eff : Eff)
    (h : (ipcSend ⟨false⟩ osOk tx v tls eff).1 = false) :
    (ipcSend ⟨false⟩ osOk tx v tls eff).2.2.sent = (ser ⟨false⟩ osOk v ⟨[], []⟩ eff).2.2.sent := by
  unfold ipcSend at h ⊢
  generalize ser ⟨false⟩ osOk v ⟨[], []⟩ eff = q at h ⊢
  obtain ⟨o, t, e⟩ := q
  cases o with
  | none => simp
  | some b =>
    simp only at h ⊢
    split at h
    · simp at h
    · rename_i hok; simp [hok]

/-! ### the statement order of the real `send`, regenerated from `src/ipc.rs` on every run -/

/-- **C14_send_script** — for the order of table operations the translator reads from `IpcSender::send` now
(`Gen.sendScript`), whatever the value's `Serialize` impl pushes, whether it fails, whether the OS send fails, and
whatever the enclosing tables hold: the script is executable; the thread-local tables afterwards are the tables before;
the result is Ok iff both succeeded; the OS send is given exactly the pushes of this serialisation; and in every other
case those pushes sit in a local of `send`, dropped when it returns — nothing is retained by the library. -/
theorem C14_send_script {α β : Type} (o : TS.SerOutcome α β) (osOk : Bool) (tlsC : List α) (tlsR : List β) :
    ∃ st, TS.runSend o osOk Gen.sendScript (TS.SendSt.init tlsC tlsR) = some st ∧
      st.tlsC = tlsC ∧ st.tlsR = tlsR ∧ st.ret = some (o.ok && osOk) ∧
      st.sent = (if o.ok && osOk then some (o.pushC, o.pushR) else none) ∧
      st.mineC = some o.pushC ∧ st.mineR = some o.pushR := by
  cases hok : o.ok <;> cases osOk <;> simp [TS.runSend, TS.sendStep, Gen.sendScript, TS.SendSt.init, hok]

/-- **C14_script_agrees** — the recursive model `ipcSend` (nested and failing sends to any depth) has, at each level, exactly
the behaviour of the regenerated script with "what the value's serialisation did" instantiated by the model's `ser`:
same tables afterwards, same result. -/
theorem C14_script_agrees (osOk : Nat → Bool) (tx : Nat) (v : List Node) (tls : Tls) (eff : Eff) :
    ∃ st, TS.runSend ⟨(ser ⟨false⟩ osOk v ⟨[], []⟩ eff).2.1.chans, (ser ⟨false⟩ osOk v ⟨[], []⟩ eff).2.1.shms,
                      (ser ⟨false⟩ osOk v ⟨[], []⟩ eff).1.isSome⟩ (osOk tx) Gen.sendScript (TS.SendSt.init tls.chans tls.shms) = some st ∧
      (⟨st.tlsC, st.tlsR⟩ : Tls) = (ipcSend ⟨false⟩ osOk tx v tls eff).2.1 ∧
      st.ret = some (ipcSend ⟨false⟩ osOk tx v tls eff).1 := by
  obtain ⟨st, h1, h2, h3, h4, _⟩ := C14_send_script
    (⟨(ser ⟨false⟩ osOk v ⟨[], []⟩ eff).2.1.chans, (ser ⟨false⟩ osOk v ⟨[], []⟩ eff).2.1.shms,
      (ser ⟨false⟩ osOk v ⟨[], []⟩ eff).1.isSome⟩ : TS.SerOutcome Wire.Att Nat) (osOk tx) tls.chans tls.shms
  refine ⟨st, h1, ?_, ?_⟩
  · rw [C14_tables, h2, h3]
  · rw [h4]
    unfold ipcSend
    generalize ser ⟨false⟩ osOk v ⟨[], []⟩ eff = q
    obtain ⟨o, t, e⟩ := q
    cases o with
    | none => simp
    | some b => simp only [Option.isSome_some, Bool.true_and]; split <;> simp_all

/-- **C14_nested_receive** — a receive issued inside another value's deserialisation is self-contained: for the regenerated order
of `OpaqueIpcMessage::to`, the enclosing decode's tables (`tlsC`, `tlsR` when the inner `to` is called) are exactly
what they were when it returns, whichever attachments the inner decode took and whether it failed. -/
theorem C14_nested_receive {α β : Type} (o : TS.DeOutcome) (tlsC msgC : List (Option α)) (tlsR msgR : List (Option β)) :
    (TS.runTo o Gen.toScript ⟨tlsC, tlsR, msgC, msgR, none, none⟩).tlsC = tlsC ∧
    (TS.runTo o Gen.toScript ⟨tlsC, tlsR, msgC, msgR, none, none⟩).tlsR = tlsR ∧
    (TS.runTo o Gen.toScript ⟨tlsC, tlsR, msgC, msgR, none, none⟩).msgC = TS.takeAll msgC o.takeC := by
  simp [TS.runTo, TS.toStep, Gen.toScript]

/-- the order before the repair (`serialize_into(..)?` ahead of putting the tables back): a failing serialisation leaves
its pushes in the thread-local table and loses the enclosing send's -/
example : (TS.runSend (⟨[7], [], false⟩ : TS.SerOutcome Nat Nat) true
      [.saveChans, .saveRegions, .serializeProp, .restoreChans, .restoreRegions, .osSend] (TS.SendSt.init [1, 2] [])).map (·.tlsC)
    = some [7] := by decide

/-! ### sensitivity: the pre-fix code (D1), and non-vacuity -/

def allOk : Nat → Bool := fun _ => true
/-- outer value: sender 1, a nested send on channel 9 of [sender 2, fail], then receiver 3 -/
def vNestedFail : List Node := [.sender 1, .nested 9 [.sender 2, .fail], .receiver 3]

/-- legacy: the outer message carries the *inner* failed message's sender in position 0 (observed on the real pre-fix crate) -/
example : (ipcSend ⟨true⟩ allOk 0 vNestedFail ⟨[], []⟩ Eff.empty).2.2.sent
    = [⟨0, Wire.le 8 0 ++ Wire.le 8 1, [.snd 2, .rcv 3], []⟩] := by
  simp [ipcSend, ser, serNode, vNestedFail, allOk, Eff.empty]
/-- repaired: the outer message carries its own endpoints; the inner one's sender is released -/
example : ipcSend ⟨false⟩ allOk 0 vNestedFail ⟨[], []⟩ Eff.empty
    = (true, ⟨[], []⟩, ⟨[⟨0, Wire.le 8 0 ++ Wire.le 8 1, [.snd 1, .rcv 3], []⟩], [false], [.snd 2], []⟩) := by
  simp [ipcSend, ser, serNode, vNestedFail, allOk, Eff.empty]
/-- legacy: a failed send leaves the collected sender clone in the thread-local table -/
example : (ipcSend ⟨true⟩ allOk 0 [.sender 1, .fail] ⟨[], []⟩ Eff.empty).2.1 = ⟨[.snd 1], []⟩ := by
  simp [ipcSend, ser, serNode, vNestedFail, allOk, Eff.empty]

end C14
