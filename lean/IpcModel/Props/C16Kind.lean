import IpcModel.GenInproc
/-!
# C16 — an endpoint of one kind decoded as the other kind (sender ↔ receiver)

The wire format carries an attachment *index* only.  The OS transports cannot tell a sending from a receiving end (both are
sockets): the conversion always succeeds and hands out an endpoint on the attached descriptor.  The in-process transport does
know the kind (`OsIpcChannel::Sender / Receiver`); its `to_sender` / `to_receiver` **panic** when asked for the other one
(`Gen.inprocKindMismatchPanics`).  Until the repair of D18 decoding went through those, so a receiver decoded as a sender panicked the
receiving thread on that transport; now `ipc.rs` converts through `platform::attachment::{to_sender, to_receiver}`, which on the
in-process back-end answer `None` for the wrong kind (⇒ a decode error, the attachment released) — flag `Gen.decodeKindMismatchIsError`,
regenerated from `ipc.rs`, `platform/mod.rs` and the in-process back-end.
-/
namespace C16Kind

inductive Kind | sender | receiver
deriving Repr, DecidableEq

inductive Out | endpoint (k : Kind) | err | panic
deriving Repr, DecidableEq

/-- converting an attachment of kind `att` to the kind `want` the expected type asks for; `knowsKind`: the transport records
kinds; `panics`: what decoding does there on a mismatch -/
def convert (knowsKind panics : Bool) (want att : Kind) : Out :=
  if !knowsKind || want == att then .endpoint want
  else if panics then .panic else .err

/-- what decoding does on a kind-aware transport, as the source says now -/
def codePanics : Bool := !Gen.decodeKindMismatchIsError

/-- **C16_kind_total** — on every transport (with or without kind information), for every wanted and attached kind, decoding an endpoint never
panics: the wrong kind is an endpoint on the attached descriptor where the transport cannot tell, a decode error where it can. -/
theorem C16_kind_total (knowsKind : Bool) (want att : Kind) : convert knowsKind codePanics want att ≠ .panic := by
  have h : codePanics = false := by decide
  rw [h]; cases knowsKind <;> cases want <;> cases att <;> decide

/-- the general fact behind it (kept from the time the finding was open): no panic whenever the transport has no kind information or
answers a mismatch with an error -/
theorem C16_kind_partial (knowsKind panics : Bool) (h : knowsKind = false ∨ panics = false) (want att : Kind) :
    convert knowsKind panics want att ≠ .panic := by
  cases knowsKind <;> cases panics <;> cases want <;> cases att <;> first | decide | (exact absurd h (by decide))

/-- a matching kind is always handed out as asked, on every transport -/
theorem C16_kind_match (knowsKind panics : Bool) (k : Kind) : convert knowsKind panics k k = .endpoint k := by
  cases knowsKind <;> cases panics <;> cases k <;> decide

/-- the behaviour before the repair (D18): the in-process transport panicked -/
example : convert true true .sender .receiver = .panic := by decide
example : convert false true .sender .receiver = .endpoint .sender := by decide   -- OS: an endpoint on the attached descriptor
example : convert true codePanics .sender .receiver = .err := by decide           -- in-process now: a decode error

end C16Kind
