import IpcModel.GenInproc
/-!
# C16 — an endpoint of one kind decoded as the other kind (sender ↔ receiver)

The wire format carries an attachment *index* only.  The OS transports cannot tell a sending from a receiving end (both are
sockets): the conversion always succeeds and hands out an endpoint on the attached descriptor.  The in-process transport does
know the kind (`OsIpcChannel::Sender / Receiver`) and, asked for the other one, **panics** (`to_sender` / `to_receiver`,
`panic!("Opaque channel is not a sender!")`; flag `Gen.inprocKindMismatchPanics`, regenerated).  That contradicts C16 ("never
panics") on that transport: finding D18, open (DESIGN §12.5) — the statement is proved for the transports without kind
information and for a kind-aware transport that answers with an error; the witness for the current in-process code is below.
-/
namespace C16Kind

inductive Kind | sender | receiver
deriving Repr, DecidableEq

inductive Out | endpoint (k : Kind) | err | panic
deriving Repr, DecidableEq

/-- converting an attachment of kind `att` to the kind `want` the expected type asks for; `knowsKind`: the transport records
kinds; `panics`: what it does on a mismatch -/
def convert (knowsKind panics : Bool) (want att : Kind) : Out :=
  if !knowsKind || want == att then .endpoint want
  else if panics then .panic else .err

/-- **C16_kind_partial** — no panic on a kind mismatch: for every transport without kind information (Unix sockets, memfd build), and for a
kind-aware transport whose mismatch answer is an error.  (Full statement: `∀ knowsKind panics …`; false for `true, true`.) -/
theorem C16_kind_partial (knowsKind panics : Bool) (h : knowsKind = false ∨ panics = false) (want att : Kind) :
    convert knowsKind panics want att ≠ .panic := by
  cases knowsKind <;> cases panics <;> cases want <;> cases att <;> first | decide | (exact absurd h (by decide))

/-- a matching kind is always handed out as asked, on every transport -/
theorem C16_kind_match (knowsKind panics : Bool) (k : Kind) : convert knowsKind panics k k = .endpoint k := by
  cases knowsKind <;> cases panics <;> cases k <;> decide

/-- **witness for the open finding D18**: as long as the in-process source has the `panic!` arms (flag regenerated), a receiver decoded
as a sender panics there — replayed on the real in-process build by the `kindmix` scenario -/
theorem C16_kind_inproc_witness (h : Gen.inprocKindMismatchPanics = true) :
    convert true Gen.inprocKindMismatchPanics .sender .receiver = .panic := by
  rw [h]; decide

example : convert false true .sender .receiver = .endpoint .sender := by decide   -- OS: an endpoint on the attached descriptor
example : convert true false .sender .receiver = .err := by decide                -- what a kind-aware transport should answer

end C16Kind
