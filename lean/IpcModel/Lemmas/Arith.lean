import IpcModel.Gen
/-! Interface lemmas over the *generated* definitions (re-proved on every run for whatever the translator produced). -/
namespace Arith
open Gen

theorem testBit_7 (i : Nat) : Nat.testBit 7 i = decide (i < 3) := by
  have : (7 : Nat) = 2^3 - 1 := by decide
  rw [this, Nat.testBit_two_pow_sub_one]

theorem mask8 (x : Nat) (h : x < 2^64) : x &&& (2^64 - 8) = x / 8 * 8 := by
  apply Nat.eq_of_testBit_eq
  intro i
  have e : x / 8 * 8 = (x >>> 3) <<< 3 := by simp [Nat.shiftLeft_eq, Nat.shiftRight_eq_div_pow]
  have m : (2^64 - 8 : Nat) = 2^64 - (7 + 1) := by decide
  rw [Nat.testBit_and, e, Nat.testBit_shiftLeft, Nat.testBit_shiftRight, m,
      Nat.testBit_two_pow_sub_succ (by decide : (7:Nat) < 2^64), testBit_7]
  by_cases h3 : i < 3
  · simp [h3]; omega
  · have h3' : 3 ≤ i := by omega
    by_cases h64 : i < 64
    · simp [h3, h64, h3']
    · have : x.testBit i = false := Nat.testBit_lt_two_pow (Nat.lt_of_lt_of_le h (Nat.pow_le_pow_right (by decide) (by omega)))
      have e3 : 3 + (i - 3) = i := by omega
      simp [h64, this, e3]

theorem mask_align (x : Nat) (h : x < 2^64) : x &&& (2^64 - 1 - (8 - 1)) = x / 8 * 8 := by
  have : (2^64 - 1 - (8 - 1) : Nat) = 2^64 - 8 := by decide
  rw [this]; exact mask8 x h

theorem mask_first (x : Nat) (h : x < 2^64) : x &&& ((2^64 - 1 - 8) + 1) = x / 8 * 8 := by
  have : ((2^64 - 1 - 8) + 1 : Nat) = 2^64 - 8 := by decide
  rw [this]; exact mask8 x h

/-- `fragment_size` in closed form -/
theorem fs_eq (sb : Nat) : fragmentSize sb = sb - 32 := by
  unfold fragmentSize reservedSize; rfl

/-- `first_fragment_size` in closed form (for every 64-bit buffer size) -/
theorem ffs_eq (sb : Nat) (h : sb < 2^64) : firstFragmentSize sb = (sb - 32 - 8) / 8 * 8 := by
  unfold firstFragmentSize
  rw [fs_eq, mask_first _ (by omega)]

/-- no `usize` underflow in either function on every buffer size the code can see -/
theorem fs_safe (sb : Nat) (h : 1000 ≤ sb) : fragmentSize_safe sb ∧ firstFragmentSize_safe sb := by
  unfold fragmentSize_safe firstFragmentSize_safe
  rw [fs_eq]; unfold reservedSize; omega

/-- the facts about the two packet capacities that every other proof uses -/
theorem ffs_lt (sb : Nat) (h : 1000 ≤ sb) (h64 : sb < 2^64) :
    0 < firstFragmentSize sb ∧ firstFragmentSize sb + 8 ≤ fragmentSize sb ∧ fragmentSize sb < sb := by
  rw [ffs_eq sb h64, fs_eq]; omega

theorem ffs_mono (a b : Nat) (h : a ≤ b) (hb : b < 2^64) : firstFragmentSize a ≤ firstFragmentSize b := by
  rw [ffs_eq a (by omega), ffs_eq b hb]
  apply Nat.mul_le_mul_right
  apply Nat.div_le_div_right
  omega

theorem fs_mono (a b : Nat) (h : a ≤ b) : fragmentSize a ≤ fragmentSize b := by
  rw [fs_eq, fs_eq]; omega

theorem downsize_spec (sb n sb' : Nat) (h : downsize sb n = some sb') :
    2000 < n ∧ sb' < n ∧ sb' ≤ sb / 2 ∧ (n ≤ sb → 1000 ≤ sb') := by
  unfold downsize at h
  split at h
  · simp at h
    subst h
    split <;> omega
  · simp at h

theorem downsize_none (sb n : Nat) : downsize sb n = none ↔ n ≤ 2000 := by
  unfold downsize
  split <;> simp <;> omega

/-! ### control-message arithmetic -/

theorem cmsgAlign_eq (n : Nat) (h : n + 8 < 2^64) : cmsgAlign n = (n + 7) / 8 * 8 := by
  unfold cmsgAlign
  have e : n + 8 - 1 = n + 7 := by omega
  rw [e, mask_align (n + 7) (by omega)]

theorem cmsgLen_eq (n : Nat) : cmsgLen n = 16 + n := by
  unfold cmsgLen
  rw [cmsgAlign_eq 16 (by decide)]

theorem cmsgSpace_eq (n : Nat) (h : n + 8 < 2^64) : cmsgSpace n = (n + 7) / 8 * 8 + 16 := by
  unfold cmsgSpace
  rw [cmsgAlign_eq n h, cmsgAlign_eq 16 (by decide)]

/-- the writer's buffer (`CMSG_SPACE`) holds header + n descriptors -/
theorem cmsg_writer (n : Nat) (h : 4 * n + 8 < 2^64) : cmsgLen (4 * n) ≤ cmsgSpace (4 * n) := by
  rw [cmsgLen_eq, cmsgSpace_eq _ h]; omega

/-- the receiver's control buffer takes a control message of n descriptors iff n ≤ MAX_FDS_IN_CMSG -/
theorem cmsg_fits_iff (n : Nat) (h : n < 2^32) :
    cmsgLen (4 * n) ≤ cmsgSpace (4 * maxFdsInCmsg) ↔ n ≤ maxFdsInCmsg := by
  rw [cmsgLen_eq, cmsgSpace_eq _ (by unfold maxFdsInCmsg; decide)]
  unfold maxFdsInCmsg
  omega

/-- `channel_length` as computed in `recv` recovers the number of descriptors, without underflow -/
theorem channelLength_spec (n : Nat) (h : 4 * n + 8 < 2^64) :
    channelLength (cmsgLen (4 * n)) = n ∧ channelLength_safe (cmsgLen (4 * n)) := by
  unfold channelLength channelLength_safe
  rw [cmsgLen_eq, cmsgAlign_eq 16 (by decide)]; omega

end Arith
