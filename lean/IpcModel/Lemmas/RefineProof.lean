import IpcModel.Lemmas.RefineBasics
/-!
# `Unix ⊑ Ideal`: the descriptor-level reading and the specification give the same results

Simulation relation `Rel`: same channels, same handle counts and held flags, the same receiving ends exist, and the queues of
those that exist are equal; what no longer exists may differ (the kernel keeps unreachable packets, the specification has
destroyed them).  Receiver handles are unique (`UInv`): held by the program or inside exactly one queued message — this is
what makes the explicit destruction cascade of `Ideal` hit exactly what became unreachable.
-/
namespace Refine
open Ideal (Handle Msg Op Res)

def heldN (u : Unix.St) (x : Nat) : Nat := if Unix.rootB u x = true then 1 else 0

structure UInv (u : Unix.St) : Prop where
  uniq : ∀ x, trc u.chans x + heldN u x ≤ 1
  bound : ∀ x, u.chans.length ≤ x → trc u.chans x = 0

structure Rel (u : Unix.St) (i : Ideal.St) : Prop where
  len : u.chans.length = i.chans.length
  fields : ∀ (c : Nat) (uc : Unix.Chan) (ic : Ideal.Chan), u.chans[c]? = some uc → i.chans[c]? = some ic → uc.senders = ic.senders ∧ (uc.held = true ↔ ic.rx = .held)
  reachUI : ∀ c, RU u c → RI i c
  reachIU : ∀ c, RI i c → RU u c
  queues : ∀ (c : Nat) (uc : Unix.Chan) (ic : Ideal.Chan), RU u c → u.chans[c]? = some uc → i.chans[c]? = some ic → uc.queue = ic.queue
  inv : UInv u

/-! ### reading the Boolean graph functions -/

theorem rootU_iff (u : Unix.St) (c : Nat) : Unix.rootB u c = true ↔ ∃ uc, u.chans[c]? = some uc ∧ uc.held = true := by
  unfold Unix.rootB; cases u.chans[c]? <;> simp

theorem rootI_iff (i : Ideal.St) (c : Nat) : Ideal.rootB i c = true ↔ ∃ ic, i.chans[c]? = some ic ∧ ic.rx = .held := by
  unfold Ideal.rootB; cases i.chans[c]? <;> simp

theorem carriesU_iff (u : Unix.St) (d c : Nat) :
    Unix.carriesRcv u d c = true ↔ ∃ ud m, u.chans[d]? = some ud ∧ m ∈ ud.queue ∧ Handle.rcv c ∈ m.handles := by
  unfold Unix.carriesRcv; cases u.chans[d]? <;> simp [List.any_eq_true]

theorem carriesI_iff (i : Ideal.St) (d c : Nat) :
    Ideal.carriesRcv i d c = true ↔ ∃ id m, i.chans[d]? = some id ∧ m ∈ id.queue ∧ Handle.rcv c ∈ m.handles := by
  unfold Ideal.carriesRcv; cases i.chans[d]? <;> simp [List.any_eq_true]

theorem edgeI_iff (i : Ideal.St) (d c : Nat) :
    Ideal.edgeB i d c = true ↔ (∃ ic, i.chans[c]? = some ic ∧ ic.rx = .inMsg) ∧ Ideal.carriesRcv i d c = true := by
  unfold Ideal.edgeB; cases i.chans[c]? <;> simp

theorem lt_of_some {α} {l : List α} {c : Nat} {x : α} (h : l[c]? = some x) : c < l.length := by
  by_cases hl : c < l.length
  · exact hl
  · rw [List.getElem?_eq_none (Nat.le_of_not_lt hl)] at h; cases h

theorem some_of_lt {α} {l : List α} {c : Nat} (h : c < l.length) : ∃ x, l[c]? = some x := ⟨l[c], List.getElem?_eq_getElem h⟩

/-! ### consequences of uniqueness -/

theorem trc_pos_of_carries {u : Unix.St} {d x : Nat} (h : Unix.carriesRcv u d x = true) : 0 < trc u.chans x := by
  obtain ⟨ud, m, h1, h2, h3⟩ := (carriesU_iff u d x).mp h
  have := qrc_pos_of_mem h2 h3
  have := qrc_le_trc u.chans d ud x h1
  omega

theorem held_not_carried {u : Unix.St} (hI : UInv u) {d x : Nat} (hr : Unix.rootB u x = true) : ¬ Unix.carriesRcv u d x = true := by
  intro h
  have h1 := trc_pos_of_carries h
  have h2 := hI.uniq x
  simp [heldN, hr] at h2
  omega

theorem carried_unique {u : Unix.St} (hI : UInv u) {d e x : Nat} (h1 : Unix.carriesRcv u d x = true) (h2 : Unix.carriesRcv u e x = true) : d = e := by
  by_cases hde : d = e
  · exact hde
  · exfalso
    obtain ⟨ud, m, a1, a2, a3⟩ := (carriesU_iff u d x).mp h1
    obtain ⟨ue, m', b1, b2, b3⟩ := (carriesU_iff u e x).mp h2
    have p1 := qrc_pos_of_mem a2 a3
    have p2 := qrc_pos_of_mem b2 b3
    have := qrc_two_le_trc u.chans d e ud ue x a1 b1 hde
    have := hI.uniq x
    omega

theorem carried_lt {u : Unix.St} (hI : UInv u) {d x : Nat} (h : Unix.carriesRcv u d x = true) : x < u.chans.length := by
  by_cases hl : x < u.chans.length
  · exact hl
  · have := hI.bound x (Nat.le_of_not_lt hl)
    have := trc_pos_of_carries h
    omega

/-- what exists in the specification is held or in transit -/
theorem ri_not_dropped {i : Ideal.St} {c : Nat} (h : RI i c) (ic : Ideal.Chan) (hc : i.chans[c]? = some ic) : ic.rx ≠ .dropped := by
  cases h with
  | root _ _ hr =>
    obtain ⟨ic', h1, h2⟩ := (rootI_iff i c).mp hr
    rw [hc] at h1; cases h1; rw [h2]; intro h; cases h
  | edge d _ _ _ he =>
    obtain ⟨⟨ic', h1, h2⟩, _⟩ := (edgeI_iff i d c).mp he
    rw [hc] at h1; cases h1; rw [h2]; intro h; cases h

/-! ### building the relation for a new pair of states -/

theorem rel_of (u' : Unix.St) (i' : Ideal.St)
    (len : u'.chans.length = i'.chans.length)
    (fields : ∀ (c : Nat) (uc : Unix.Chan) (ic : Ideal.Chan), u'.chans[c]? = some uc → i'.chans[c]? = some ic → uc.senders = ic.senders ∧ (uc.held = true ↔ ic.rx = .held))
    (inv : UInv u')
    (Qh : ∀ (c : Nat) (uc : Unix.Chan) (ic : Ideal.Chan), RU u' c → u'.chans[c]? = some uc → i'.chans[c]? = some ic → uc.queue = ic.queue)
    (Dh : ∀ (c : Nat) (ic : Ideal.Chan), RU u' c → i'.chans[c]? = some ic → ic.rx ≠ .dropped) : Rel u' i' := by
  refine ⟨len, fields, ?_, ?_, Qh, inv⟩
  · intro c h
    induction h with
    | root c hl hr =>
      obtain ⟨uc, h1, h2⟩ := (rootU_iff u' c).mp hr
      obtain ⟨ic, h3⟩ := some_of_lt (len ▸ hl)
      exact .root c (len ▸ hl) ((rootI_iff i' c).mpr ⟨ic, h3, ((fields c uc ic h1 h3).2).mp h2⟩)
    | edge d c hl hd he ih =>
      have hc : RU u' c := .edge d c hl hd he
      obtain ⟨ic, h3⟩ := some_of_lt (len ▸ hl)
      have hnd := Dh c ic hc h3
      obtain ⟨ud, m, a1, a2, a3⟩ := (carriesU_iff u' d c).mp he
      obtain ⟨id, b1⟩ := some_of_lt (len ▸ Reach.reachG_lt hd)
      have hq := Qh d ud id hd a1 b1
      cases hrx : ic.rx with
      | held => exact .root c (len ▸ hl) ((rootI_iff i' c).mpr ⟨ic, h3, hrx⟩)
      | dropped => exact absurd hrx hnd
      | inMsg =>
        refine .edge d c (len ▸ hl) ih ((edgeI_iff i' d c).mpr ⟨⟨ic, h3, hrx⟩, (carriesI_iff i' d c).mpr ⟨id, m, b1, hq ▸ a2, a3⟩⟩)
  · intro c h
    induction h with
    | root c hl hr =>
      obtain ⟨ic, h1, h2⟩ := (rootI_iff i' c).mp hr
      obtain ⟨uc, h3⟩ := some_of_lt (len.symm ▸ hl)
      exact .root c (len.symm ▸ hl) ((rootU_iff u' c).mpr ⟨uc, h3, ((fields c uc ic h3 h1).2).mpr h2⟩)
    | edge d c hl hd he ih =>
      obtain ⟨_, hcar⟩ := (edgeI_iff i' d c).mp he
      obtain ⟨id, m, b1, b2, b3⟩ := (carriesI_iff i' d c).mp hcar
      obtain ⟨ud, a1⟩ := some_of_lt (len.symm ▸ Reach.reachG_lt hd)
      have hq := Qh d ud id ih a1 b1
      exact .edge d c (len.symm ▸ hl) ih ((carriesU_iff u' d c).mpr ⟨ud, m, a1, hq ▸ b2, b3⟩)

/-- nothing new comes to exist at descriptor level when roots and carried handles only come from what existed -/
theorem ru_shrink (u u' : Unix.St)
    (hroot : ∀ c, Unix.rootB u' c = true → RU u c)
    (hedge : ∀ d c, RU u d → Unix.carriesRcv u' d c = true → RU u c) : ∀ c, RU u' c → RU u c := by
  intro c h
  induction h with
  | root c _ hr => exact hroot c hr
  | edge d c _ _ he ih => exact hedge d c ih he

/-! ### closing held receivers vs destroying them -/

/-- Descriptor level: the descriptors of the held receivers named in `wl` are closed.  Specification: those receivers are
relabelled (`i1`) and then destroyed together with everything their queues carry (`i'`, characterised as by
`dropHandles_char`).  The relation is preserved: what the cascade destroys is exactly what nothing reaches any more. -/
theorem rel_kill (u u' : Unix.St) (i i1 i' : Ideal.St) (wl : List Handle) (hR : Rel u i)
    (hheld : ∀ x, Handle.rcv x ∈ wl → Unix.rootB u x = true)
    (hu' : ∀ d, u'.chans[d]? = (u.chans[d]?).map fun ch => if wl.contains (.rcv d) then { ch with held := false } else ch)
    (hi1 : ∀ d, ∃ lab : Ideal.RxLoc, lab ≠ .held ∧
      i1.chans[d]? = (i.chans[d]?).map fun ch => if wl.contains (.rcv d) then { ch with rx := lab } else ch)
    (hlu : u'.chans.length = u.chans.length) (hli : i'.chans.length = i.chans.length)
    (hchar : ∀ d, i'.chans[d]? = i1.chans[d]? ∨ (Src i1 wl d ∧ i'.chans[d]? = (i1.chans[d]?).map kill)) : Rel u' i' := by
  have hI := hR.inv
  have hmem : ∀ d, wl.contains (Handle.rcv d) = true ↔ Handle.rcv d ∈ wl := fun d => by simp
  -- queues are untouched at descriptor level
  have hcar : ∀ d x, Unix.carriesRcv u' d x = Unix.carriesRcv u d x := by
    intro d x
    unfold Unix.carriesRcv
    rw [hu' d]
    cases u.chans[d]? with
    | none => rfl
    | some ch => simp only [Option.map_some]; split <;> rfl
  have hroot' : ∀ x, Unix.rootB u' x = true → Unix.rootB u x = true ∧ ¬ Handle.rcv x ∈ wl := by
    intro x hx
    unfold Unix.rootB at hx ⊢
    rw [hu' x] at hx
    cases hux : u.chans[x]? with
    | none => rw [hux] at hx; simp at hx
    | some ch =>
      rw [hux] at hx
      by_cases hw : wl.contains (Handle.rcv x) = true
      · rw [Option.map_some, if_pos hw] at hx; simp at hx
      · rw [Option.map_some, if_neg hw] at hx
        exact ⟨hx, fun h => hw ((hmem x).mpr h)⟩
  have hchans : u'.chans = u.chans.mapIdx fun d ch => if wl.contains (.rcv d) then { ch with held := false } else ch :=
    List.ext_getElem? (fun d => by rw [hu' d]; simp [List.getElem?_mapIdx])
  have htrc : ∀ x, trc u'.chans x = trc u.chans x := by
    intro x; rw [hchans]; exact trc_mapIdx _ _ (fun d ch => by split <;> rfl) x
  have hheldN : ∀ x, heldN u' x ≤ heldN u x := by
    intro x
    unfold heldN
    by_cases h : Unix.rootB u' x = true
    · simp [h, (hroot' x h).1]
    · simp [h]
  have hI' : UInv u' := ⟨fun x => by have := hI.uniq x; have := hheldN x; rw [htrc]; omega,
    fun x hx => by rw [htrc]; exact hI.bound x (hlu ▸ hx)⟩
  -- nothing new exists
  have hshrink : ∀ c, RU u' c → RU u c := by
    apply ru_shrink
    · intro c hc
      have h := (hroot' c hc).1
      obtain ⟨uc, h1, _⟩ := (rootU_iff u c).mp h
      exact .root c (lt_of_some h1) h
    · intro d c hd hc
      rw [hcar] at hc
      exact .edge d c (carried_lt hI hc) hd hc
  -- descendants of the work list existed, and each is on the list or carried by another descendant
  have hA : ∀ x, Src i1 wl x → RU u x ∧ (Handle.rcv x ∈ wl ∨ ∃ e, Src i1 wl e ∧ Unix.carriesRcv u e x = true) := by
    intro x hx
    induction hx with
    | base x hx =>
      have h := hheld x hx
      obtain ⟨uc, h1, _⟩ := (rootU_iff u x).mp h
      exact ⟨.root x (lt_of_some h1) h, Or.inl hx⟩
    | step e x ch m hsrc h1 h2 h3 ih =>
      obtain ⟨lab, _, hl⟩ := hi1 e
      rw [h1] at hl
      cases hie : i.chans[e]? with
      | none => rw [hie] at hl; simp at hl
      | some ch0 =>
        rw [hie] at hl
        simp only [Option.map_some, Option.some.injEq] at hl
        have hq : ch.queue = ch0.queue := by rw [hl]; split <;> rfl
        obtain ⟨ue, hue⟩ := some_of_lt (Reach.reachG_lt ih.1)
        have := hR.queues e ue ch0 ih.1 hue hie
        have hc : Unix.carriesRcv u e x = true := (carriesU_iff u e x).mpr ⟨ue, m, hue, by rw [this, ← hq]; exact h2, h3⟩
        exact ⟨.edge e x (carried_lt hI hc) ih.1 hc, Or.inr ⟨e, hsrc, hc⟩⟩
  -- what still exists is not a descendant
  have hB : ∀ x, RU u' x → ¬ Src i1 wl x := by
    intro x hx
    induction hx with
    | root x _ hr =>
      intro hs
      obtain ⟨h1, h2⟩ := hroot' x hr
      rcases (hA x hs).2 with h | ⟨e, _, hc⟩
      · exact h2 h
      · exact held_not_carried hI h1 hc
    | edge d x _ _ he ih =>
      intro hs
      rw [hcar] at he
      rcases (hA x hs).2 with h | ⟨e, hse, hc⟩
      · exact held_not_carried hI (hheld x h) he
      · have := carried_unique hI hc he
        subst this
        exact ih hse
  have hkeep : ∀ x, RU u' x → i'.chans[x]? = i.chans[x]? := by
    intro x hx
    have hns := hB x hx
    rcases hchar x with h | ⟨h, _⟩
    · rw [h]
      obtain ⟨lab, _, hl⟩ := hi1 x
      rw [hl]
      have : ¬ wl.contains (Handle.rcv x) = true := fun hc => hns (Src.base x ((hmem x).mp hc))
      cases i.chans[x]? with
      | none => rfl
      | some ch => rw [Option.map_some, if_neg this]
    · exact absurd h hns
  apply rel_of u' i' (by rw [hlu, hli]; exact hR.len)
  · -- fields
    intro d uc' ic' h1 h2
    rw [hu' d] at h1
    cases hud : u.chans[d]? with
    | none => rw [hud] at h1; simp at h1
    | some uc =>
      obtain ⟨ic, hid⟩ := some_of_lt (hR.len ▸ lt_of_some hud)
      obtain ⟨hs, hh⟩ := hR.fields d uc ic hud hid
      rw [hud, Option.map_some] at h1
      obtain ⟨lab, hlab, hl⟩ := hi1 d
      rw [hid, Option.map_some] at hl
      by_cases hw : wl.contains (Handle.rcv d) = true
      · rw [if_pos hw] at h1 hl
        injection h1 with h1; subst h1
        rcases hchar d with h | ⟨_, h⟩
        · rw [h, hl] at h2; cases h2
          exact ⟨hs, by simp; exact hlab⟩
        · rw [h, hl] at h2; simp [kill] at h2; subst h2
          exact ⟨hs, by simp⟩
      · rw [if_neg hw] at h1 hl
        injection h1 with h1; subst h1
        rcases hchar d with h | ⟨hsrc, h⟩
        · rw [h, hl] at h2; cases h2
          exact ⟨hs, hh⟩
        · rw [h, hl] at h2; simp [kill] at h2; subst h2
          refine ⟨hs, ?_⟩
          have hnh : uc.held = false := by
            cases hheldd : uc.held with
            | false => rfl
            | true =>
              exfalso
              have hr : Unix.rootB u d = true := (rootU_iff u d).mpr ⟨uc, hud, hheldd⟩
              rcases (hA d hsrc).2 with hm | ⟨e, _, hc⟩
              · exact hw ((hmem d).mpr hm)
              · exact held_not_carried hI hr hc
          simp [hnh]
  · exact hI'
  · -- queues of what exists
    intro x uc' ic' hx h1 h2
    rw [hkeep x hx] at h2
    rw [hu' x] at h1
    cases hux : u.chans[x]? with
    | none => rw [hux] at h1; simp at h1
    | some uc =>
      rw [hux, Option.map_some] at h1
      have hq : uc'.queue = uc.queue := by cases h1; split <;> rfl
      rw [hq]
      exact hR.queues x uc ic' (hshrink x hx) hux h2
  · intro x ic' hx h2
    rw [hkeep x hx] at h2
    exact ri_not_dropped (hR.reachUI x (hshrink x hx)) ic' h2

/-! ### operations that transform every channel point-wise -/

theorem rel_pointwise (u u' : Unix.St) (i i' : Ideal.St) (hR : Rel u i)
    (fu : Nat → Unix.Chan → Unix.Chan) (fi : Nat → Ideal.Chan → Ideal.Chan)
    (hu' : ∀ d, u'.chans[d]? = (u.chans[d]?).map (fu d)) (hi' : ∀ d, i'.chans[d]? = (i.chans[d]?).map (fi d))
    (hlu : u'.chans.length = u.chans.length) (hli : i'.chans.length = i.chans.length)
    (hfields : ∀ (d : Nat) (uc : Unix.Chan) (ic : Ideal.Chan), u.chans[d]? = some uc → i.chans[d]? = some ic →
      uc.senders = ic.senders → (uc.held = true ↔ ic.rx = .held) →
      (fu d uc).senders = (fi d ic).senders ∧ ((fu d uc).held = true ↔ (fi d ic).rx = .held))
    (hinv : UInv u')
    (hshrink : ∀ c, RU u' c → RU u c)
    (hq : ∀ (d : Nat) (uc : Unix.Chan) (ic : Ideal.Chan), uc.queue = ic.queue → (fu d uc).queue = (fi d ic).queue)
    (hd : ∀ (d : Nat) (ic : Ideal.Chan), ic.rx ≠ .dropped → (fi d ic).rx ≠ .dropped) : Rel u' i' := by
  apply rel_of u' i' (by rw [hlu, hli]; exact hR.len)
  · intro d uc' ic' h1 h2
    rw [hu' d] at h1; rw [hi' d] at h2
    cases hud : u.chans[d]? with
    | none => rw [hud] at h1; simp at h1
    | some uc =>
      cases hid : i.chans[d]? with
      | none => rw [hid] at h2; simp at h2
      | some ic =>
        rw [hud, Option.map_some] at h1; rw [hid, Option.map_some] at h2
        injection h1 with h1; injection h2 with h2
        subst h1; subst h2
        obtain ⟨a, b⟩ := hR.fields d uc ic hud hid
        exact hfields d uc ic hud hid a b
  · exact hinv
  · intro x uc' ic' hx h1 h2
    rw [hu' x] at h1; rw [hi' x] at h2
    cases hud : u.chans[x]? with
    | none => rw [hud] at h1; simp at h1
    | some uc =>
      cases hid : i.chans[x]? with
      | none => rw [hid] at h2; simp at h2
      | some ic =>
        rw [hud, Option.map_some] at h1; rw [hid, Option.map_some] at h2
        injection h1 with h1; injection h2 with h2
        subst h1; subst h2
        exact hq x uc ic (hR.queues x uc ic (hshrink x hx) hud hid)
  · intro x ic' hx h2
    rw [hi' x] at h2
    cases hid : i.chans[x]? with
    | none => rw [hid] at h2; simp at h2
    | some ic =>
      rw [hid, Option.map_some] at h2
      injection h2 with h2; subst h2
      exact hd x ic (ri_not_dropped (hR.reachUI x (hshrink x hx)) ic hid)

theorem get_both {u : Unix.St} {i : Ideal.St} (hR : Rel u i) (c : Nat) :
    (u.chans[c]? = none ∧ i.chans[c]? = none) ∨ ∃ uc ic, u.chans[c]? = some uc ∧ i.chans[c]? = some ic := by
  by_cases hl : c < u.chans.length
  · obtain ⟨uc, h1⟩ := some_of_lt hl
    obtain ⟨ic, h2⟩ := some_of_lt (hR.len ▸ hl)
    exact Or.inr ⟨uc, ic, h1, h2⟩
  · left
    exact ⟨List.getElem?_eq_none (Nat.le_of_not_lt hl), List.getElem?_eq_none (hR.len ▸ Nat.le_of_not_lt hl)⟩

theorem alive_eq {u : Unix.St} {i : Ideal.St} (hR : Rel u i) (c : Nat) : (Unix.alive u).contains c = (Ideal.rxAlive i).contains c := by
  have h : c ∈ Unix.alive u ↔ c ∈ Ideal.rxAlive i := by
    rw [mem_alive, mem_rxAlive]; exact ⟨hR.reachUI c, hR.reachIU c⟩
  exact Bool.eq_iff_iff.mpr (by simpa using h)

theorem senderOpen_eq {u : Unix.St} {i : Ideal.St} (hR : Rel u i) (c : Nat) : Unix.senderOpen u c = Ideal.senderExists i c := by
  unfold Unix.senderOpen Ideal.senderExists
  congr 1
  · rcases get_both hR c with ⟨h1, h2⟩ | ⟨uc, ic, h1, h2⟩
    · rw [h1, h2]
    · rw [h1, h2]; simp only; rw [(hR.fields c uc ic h1 h2).1]
  · have h : ((Unix.alive u).any fun d => Unix.carriesSnd u d c) = true ↔
        ((Ideal.rxAlive i).any fun d => match i.chans[d]? with
          | some chd => chd.queue.any fun m => m.handles.contains (.snd c) | none => false) = true := by
      simp only [List.any_eq_true]
      constructor
      · rintro ⟨d, hd, hc⟩
        have hru := (mem_alive u d).mp hd
        refine ⟨d, (mem_rxAlive i d).mpr (hR.reachUI d hru), ?_⟩
        obtain ⟨ud, a1⟩ := some_of_lt (Reach.reachG_lt hru)
        obtain ⟨id, b1⟩ := some_of_lt (hR.len ▸ Reach.reachG_lt hru)
        have hq := hR.queues d ud id hru a1 b1
        unfold Unix.carriesSnd at hc
        rw [a1] at hc; rw [b1]; simp only at hc ⊢; rw [← hq]; exact hc
      · rintro ⟨d, hd, hc⟩
        have hri := (mem_rxAlive i d).mp hd
        have hru := hR.reachIU d hri
        refine ⟨d, (mem_alive u d).mpr hru, ?_⟩
        obtain ⟨ud, a1⟩ := some_of_lt (Reach.reachG_lt hru)
        obtain ⟨id, b1⟩ := some_of_lt (hR.len ▸ Reach.reachG_lt hru)
        have hq := hR.queues d ud id hru a1 b1
        unfold Unix.carriesSnd
        rw [b1] at hc; rw [a1]; simp only at hc ⊢; rw [hq]; exact hc
    exact Bool.eq_iff_iff.mpr h

end Refine
