import IpcModel.OneShot
/-! Proofs for the one-shot server model: clean-up on every path, first message / rest in order, distinct names. -/
namespace OneShot

def Qc (st : St) (c : Nat) : Option (List Nat) := (st.conns[c]?).map (·.queue)

theorem resetAll_queue (bl : List Nat) (cs : List Conn) (c : Nat) :
    ((bl.foldl (fun cs c => cs.modify c fun x => { x with reset := true }) cs)[c]?).map (·.queue) = (cs[c]?).map (·.queue) := by
  induction bl generalizing cs with
  | nil => rfl
  | cons b t ih =>
    simp only [List.foldl_cons]
    rw [ih]
    simp only [List.getElem?_modify]
    split
    · cases cs[c]? <;> simp
    · simp

theorem retire_Qc (st : St) (s c : Nat) : Qc (retire st s) c = Qc st c := by
  unfold retire Qc
  cases st.srvs[s]? with
  | none => rfl
  | some sv => exact resetAll_queue _ _ _

theorem retire_srv (st : St) (s : Nat) (sv : Srv) (h : st.srvs[s]? = some sv) :
    (retire st s).srvs[s]? = some { sv with fdOpen := false, fsEntry := false, listening := false, backlog := [] } := by
  have hlt : s < st.srvs.length := by
    by_cases hh : s < st.srvs.length
    · exact hh
    · rw [List.getElem?_eq_none (Nat.le_of_not_lt hh)] at h; cases h
  simp [retire, h, List.getElem?_set_self hlt]

theorem retire_other (st : St) (s s' : Nat) (h : s ≠ s') : (retire st s).srvs[s']? = st.srvs[s']? := by
  unfold retire
  cases st.srvs[s]? with
  | none => rfl
  | some sv => simp [List.getElem?_set_ne h]

theorem retire_nextName (st : St) (s : Nat) : (retire st s).nextName = st.nextName := by
  unfold retire; cases st.srvs[s]? <;> rfl

/-- a server is *gone*: descriptor closed, nothing left in the file system -/
def Gone (st : St) (s : Nat) : Prop :=
  ∃ sv, st.srvs[s]? = some sv ∧ sv.fdOpen = false ∧ sv.fsEntry = false ∧ sv.listening = false

/-- **clean-up after accept** — whenever `accept` returns (with the first message or with an error), the server is gone -/
theorem accept_clean (st : St) (s : Nat) (h : (step st (.accept s)).2 ≠ .blocks) (hv : (step st (.accept s)).2 ≠ .invalid) :
    Gone (step st (.accept s)).1 s := by
  simp only [step] at h hv ⊢
  cases hs : st.srvs[s]? with
  | none => simp [hs] at hv
  | some sv =>
    simp only [hs] at h hv ⊢
    by_cases hopen : (sv.fdOpen && sv.listening) = true
    · simp only [hopen, Bool.not_true, Bool.false_eq_true, if_false] at h hv ⊢
      cases hb : sv.backlog with
      | nil => simp [hb] at h
      | cons c rest =>
        simp only [hb] at h hv ⊢
        cases hc : st.conns[c]? with
        | none => simp [hc] at hv
        | some x =>
          simp only [hc] at h hv ⊢
          have hlt : s < st.srvs.length := by
            by_cases hh : s < st.srvs.length
            · exact hh
            · rw [List.getElem?_eq_none (Nat.le_of_not_lt hh)] at hs; cases hs
          cases hq : x.queue with
          | cons t q =>
            simp only
            exact ⟨_, retire_srv _ s { sv with backlog := rest } (by simp [List.getElem?_set_self hlt]), rfl, rfl, rfl⟩
          | nil =>
            simp only [hq] at h hv ⊢
            by_cases hco : x.clientOpen = true
            · simp [hco] at h
            · simp only [hco, Bool.false_eq_true, if_false]
              exact ⟨_, retire_srv _ s { sv with backlog := rest } (by simp [List.getElem?_set_self hlt]), rfl, rfl, rfl⟩
    · simp [hopen] at hv

/-- **clean-up after dropping an unused server** -/
theorem drop_clean (st : St) (s : Nat) (h : (step st (.dropServer s)).2 = .ok) : Gone (step st (.dropServer s)).1 s := by
  simp only [step] at h ⊢
  cases hs : st.srvs[s]? with
  | none => simp [hs] at h
  | some sv =>
    simp only [hs] at h ⊢
    by_cases ho : sv.fdOpen = true
    · simp only [ho, if_true]
      exact ⟨_, retire_srv st s sv hs, rfl, rfl, rfl⟩
    · simp [ho] at h

/-- **a failing `new` leaves nothing behind** — at whichever step it fails -/
theorem new_fail_clean (st : St) (k : Nat) (hk : k ≠ 0) :
    (step st (.new k)).2 = .err ∧ (step st (.new k)).1.srvs = st.srvs ∧ (step st (.new k)).1.conns = st.conns := by
  simp [step, hk]

/-- **first message, then the rest** — when a client is first in the backlog and has sent `t` first, `accept` returns
`t` together with a receiver on that very connection, whose queue is what the client sent after `t` -/
theorem accept_first (st : St) (s c t : Nat) (sv : Srv) (x : Conn) (rest : List Nat) (q : List Nat)
    (hs : st.srvs[s]? = some sv) (ho : sv.fdOpen = true) (hl : sv.listening = true) (hb : sv.backlog = c :: rest)
    (hc : st.conns[c]? = some x) (hq : x.queue = t :: q) :
    (step st (.accept s)).2 = .accepted c t ∧ Qc (step st (.accept s)).1 c = some q := by
  have hlt : c < st.conns.length := by
    by_cases hh : c < st.conns.length
    · exact hh
    · rw [List.getElem?_eq_none (Nat.le_of_not_lt hh)] at hc; cases hc
  simp only [step, hs, ho, hl, hb, hc, hq, Bool.and_self, Bool.not_true, Bool.false_eq_true, if_false, true_and]
  rw [retire_Qc]
  simp [Qc, List.getElem?_set_self hlt]

/-- what one operation does to the queue of connection `c` -/
inductive CEffect (st st' : St) (c : Nat) : Op → Res → Prop
  | appended (tag : Nat) (q : List Nat) : Qc st c = some q → Qc st' c = some (q ++ [tag]) → CEffect st st' c (.csend c tag) .ok
  | popped (t : Nat) (q : List Nat) (op : Op) (r : Res) : Qc st c = some (t :: q) → Qc st' c = some q →
      ((∃ s, op = .accept s ∧ r = .accepted c t) ∨ (op = .recv c ∧ r = .msg t)) → CEffect st st' c op r
  | kept (op : Op) (r : Res) : Qc st' c = Qc st c → (∀ tag, op = .csend c tag → r ≠ .ok) →
      (∀ s t, op = .accept s → r ≠ .accepted c t) → (∀ t, op = .recv c → r ≠ .msg t) → CEffect st st' c op r
  | dropped : CEffect st st' c (.dropRx c) .ok
  | absent (op : Op) (r : Res) : st.conns[c]? = none → CEffect st st' c op r

theorem set_Qc_other (st : St) (cs : List Conn) (c c' : Nat) (x : Conn) (h : c' ≠ c) :
    (((st.conns.set c' x)[c]?).map (·.queue)) = (st.conns[c]?).map (·.queue) := by
  simp [List.getElem?_set_ne h]

/-- **per-connection FIFO, one step** -/
theorem conn_step (st : St) (op : Op) (c : Nat) : CEffect st (step st op).1 c op (step st op).2 := by
  cases hc : st.conns[c]? with
  | none => exact .absent _ _ hc
  | some xc =>
  have hlt : c < st.conns.length := by
    by_cases hh : c < st.conns.length
    · exact hh
    · rw [List.getElem?_eq_none (Nat.le_of_not_lt hh)] at hc; cases hc
  cases op with
  | new k =>
    refine .kept _ _ ?_ (fun _ h => by cases h) (fun _ _ h => by cases h) (fun _ h => by cases h)
    simp only [step]; split <;> rfl
  | connect name =>
    refine .kept _ _ ?_ (fun _ h => by cases h) (fun _ _ h => by cases h) (fun _ h => by cases h)
    simp only [step]
    split
    · simp [Qc, List.getElem?_append_left hlt]
    · rfl
  | csend c' tag =>
    simp only [step]
    cases hc' : st.conns[c']? with
    | none => exact .kept _ _ rfl (fun _ _ h => by cases h) (fun _ _ h => by cases h) (fun _ h => by cases h)
    | some x =>
      simp only
      by_cases h1 : (!x.clientOpen) = true
      · simp only [h1, if_true]; exact .kept _ _ rfl (fun _ _ h => by cases h) (fun _ _ h => by cases h) (fun _ h => by cases h)
      · simp only [h1, Bool.false_eq_true, if_false]
        by_cases h2 : x.reset = true
        · simp only [h2, if_true]; exact .kept _ _ rfl (fun _ _ h => by cases h) (fun _ _ h => by cases h) (fun _ h => by cases h)
        · simp only [h2, Bool.false_eq_true, if_false]
          by_cases hcc : c' = c
          · subst hcc
            rw [hc] at hc'; cases hc'
            exact .appended tag xc.queue (by simp [Qc, hc]) (by simp [Qc, List.getElem?_set_self hlt])
          · refine .kept _ _ ?_ (fun t e => by cases e; exact absurd rfl hcc) (fun _ _ h => by cases h) (fun _ h => by cases h)
            simp [Qc, List.getElem?_set_ne hcc]
  | cclose c' =>
    refine .kept _ _ ?_ (fun _ h => by cases h) (fun _ _ h => by cases h) (fun _ h => by cases h)
    simp only [step]
    cases hc' : st.conns[c']? with
    | none => rfl
    | some x =>
      simp only [Qc]
      by_cases hcc : c' = c
      · subst hcc; rw [hc] at hc'; cases hc'; simp [List.getElem?_set_self hlt, hc]
      · simp [List.getElem?_set_ne hcc]
  | accept s =>
    simp only [step]
    cases hs : st.srvs[s]? with
    | none => exact .kept _ _ rfl (fun _ h => by cases h) (fun _ _ _ h => by cases h) (fun _ h => by cases h)
    | some sv =>
      simp only
      split
      · exact .kept _ _ rfl (fun _ h => by cases h) (fun _ _ _ h => by cases h) (fun _ h => by cases h)
      · cases hb : sv.backlog with
        | nil => exact .kept _ _ rfl (fun _ h => by cases h) (fun _ _ _ h => by cases h) (fun _ h => by cases h)
        | cons c' rest =>
          simp only
          cases hc' : st.conns[c']? with
          | none => exact .kept _ _ rfl (fun _ h => by cases h) (fun _ _ _ h => by cases h) (fun _ h => by cases h)
          | some x =>
            simp only
            cases hq : x.queue with
            | cons t q =>
              simp only
              by_cases hcc : c' = c
              · subst hcc
                rw [hc] at hc'; cases hc'
                refine .popped t q _ _ (by simp [Qc, hc, hq]) ?_ (Or.inl ⟨s, rfl, rfl⟩)
                rw [retire_Qc]; simp [Qc, List.getElem?_set_self hlt]
              · refine .kept _ _ ?_ (fun _ h => by cases h) (fun s' t' _ e => by cases e; exact absurd rfl hcc) (fun _ h => by cases h)
                rw [retire_Qc]; simp [Qc, List.getElem?_set_ne hcc]
            | nil =>
              simp only
              split
              · exact .kept _ _ rfl (fun _ h => by cases h) (fun _ _ _ h => by cases h) (fun _ h => by cases h)
              · refine .kept _ _ ?_ (fun _ h => by cases h) (fun _ _ _ h => by cases h) (fun _ h => by cases h)
                rw [retire_Qc]
                by_cases hcc : c' = c
                · subst hcc; rw [hc] at hc'; cases hc'; simp [Qc, List.getElem?_set_self hlt, hc, hq]
                · simp [Qc, List.getElem?_set_ne hcc]
  | dropServer s =>
    refine .kept _ _ ?_ (fun _ h => by cases h) (fun _ _ h => by cases h) (fun _ h => by cases h)
    simp only [step]
    cases st.srvs[s]? with
    | none => rfl
    | some sv => simp only; split
                 · exact retire_Qc _ _ _
                 · rfl
  | recv c' =>
    simp only [step]
    cases hc' : st.conns[c']? with
    | none => exact .kept _ _ rfl (fun _ h => by cases h) (fun _ _ h => by cases h) (fun _ _ h => by cases h)
    | some x =>
      simp only
      split
      · exact .kept _ _ rfl (fun _ h => by cases h) (fun _ _ h => by cases h) (fun _ _ h => by cases h)
      · cases hq : x.queue with
        | cons t q =>
          simp only
          by_cases hcc : c' = c
          · subst hcc
            rw [hc] at hc'; cases hc'
            exact .popped t q _ _ (by simp [Qc, hc, hq]) (by simp [Qc, List.getElem?_set_self hlt]) (Or.inr ⟨rfl, rfl⟩)
          · refine .kept _ _ ?_ (fun _ h => by cases h) (fun _ _ h => by cases h) (fun t' e => by cases e; exact absurd rfl hcc)
            simp [Qc, List.getElem?_set_ne hcc]
        | nil =>
          simp only
          split <;> exact .kept _ _ rfl (fun _ h => by cases h) (fun _ _ h => by cases h) (fun _ _ h => by cases h)
  | dropRx c' =>
    simp only [step]
    cases hc' : st.conns[c']? with
    | none => exact .kept _ _ rfl (fun _ h => by cases h) (fun _ _ h => by cases h) (fun _ h => by cases h)
    | some x =>
      simp only
      split
      · by_cases hcc : c' = c
        · subst hcc; exact .dropped
        · refine .kept _ _ ?_ (fun _ h => by cases h) (fun _ _ h => by cases h) (fun _ h => by cases h)
          simp [Qc, List.getElem?_set_ne hcc]
      · exact .kept _ _ rfl (fun _ h => by cases h) (fun _ _ h => by cases h) (fun _ h => by cases h)

/-! ### histories -/
def runFrom (st : St) : List Op → St × List (Op × Res)
  | [] => (st, [])
  | op :: ops => let r := step st op; let rest := runFrom r.1 ops; (rest.1, (op, r.2) :: rest.2)

def sentOn (c : Nat) (h : List (Op × Res)) : List Nat :=
  h.flatMap fun | (.csend c' tag, .ok) => if c' = c then [tag] else [] | _ => []
def recvdOn (c : Nat) (h : List (Op × Res)) : List Nat :=
  h.flatMap fun
    | (.accept _, .accepted c' t) => if c' = c then [t] else []
    | (.recv c', .msg t) => if c' = c then [t] else []
    | _ => []
def rxDropped (c : Nat) (ops : List Op) : Prop := Op.dropRx c ∈ ops

/-- **everything the client sent, in order** — for every history and every connection whose receiver the program keeps:
(first message returned by accept) ++ (messages received afterwards) ++ (still queued) = (everything the client sent),
whether the client connected and sent before or after `accept` was first attempted, and whether it has already gone. -/
theorem conn_fifo (ops : List Op) (st : St) (c : Nat) (q0 : List Nat) (hQ : Qc st c = some q0) (hnd : ¬ rxDropped c ops) :
    ∃ q', Qc (runFrom st ops).1 c = some q' ∧ recvdOn c (runFrom st ops).2 ++ q' = q0 ++ sentOn c (runFrom st ops).2 := by
  induction ops generalizing st q0 with
  | nil => exact ⟨q0, hQ, by simp [runFrom, recvdOn, sentOn]⟩
  | cons op ops ih =>
    have hnd' : ¬ rxDropped c ops := fun h => hnd (List.mem_cons_of_mem _ h)
    have hstep := conn_step st op c
    simp only [runFrom]
    generalize hs' : step st op = r at hstep
    obtain ⟨st', res⟩ := r
    simp only at hstep ⊢
    cases hstep with
    | appended tag q h1 h2 =>
      rw [hQ] at h1; cases h1
      obtain ⟨q', hq', he⟩ := ih st' (q0 ++ [tag]) h2 hnd'
      refine ⟨q', hq', ?_⟩
      simp only [recvdOn, sentOn, List.flatMap_cons, if_true] at he ⊢
      simp only [List.nil_append]
      rw [he]; simp
    | popped t q _ _ h1 h2 hor =>
      rw [hQ] at h1; cases h1
      obtain ⟨q', hq', he⟩ := ih st' q h2 hnd'
      refine ⟨q', hq', ?_⟩
      rcases hor with ⟨s, rfl, rfl⟩ | ⟨rfl, rfl⟩
      · simp only [recvdOn, sentOn, List.flatMap_cons, if_true] at he ⊢
        simp only [List.nil_append, List.cons_append, List.singleton_append]
        rw [he]
      · simp only [recvdOn, sentOn, List.flatMap_cons, if_true] at he ⊢
        simp only [List.nil_append, List.cons_append, List.singleton_append]
        rw [he]
    | kept _ _ h1 hns hna hnr =>
      obtain ⟨q', hq', he⟩ := ih st' q0 (by rw [h1]; exact hQ) hnd'
      refine ⟨q', hq', ?_⟩
      have e1 : (match (op, res) with | (.csend c' tag, .ok) => if c' = c then [tag] else [] | _ => ([] : List Nat)) = [] := by
        cases op <;> cases res <;> simp only
        rename_i c' tag
        split
        · rename_i hcd; subst hcd; exact absurd rfl (hns tag rfl)
        · rfl
      have e2 : (match (op, res) with
          | (.accept _, .accepted c' t) => if c' = c then [t] else []
          | (.recv c', .msg t) => if c' = c then [t] else []
          | _ => ([] : List Nat)) = [] := by
        cases op <;> cases res <;> simp only
        · rename_i s c' t
          split
          · rename_i hcd; subst hcd; exact absurd rfl (hna s t rfl)
          · rfl
        · rename_i c' t
          split
          · rename_i hcd; subst hcd; exact absurd rfl (hnr t rfl)
          · rfl
      simp only [recvdOn, sentOn, List.flatMap_cons] at he ⊢
      rw [e1, e2]; simpa using he
    | dropped => exact absurd List.mem_cons_self hnd
    | absent _ _ h1 => simp [Qc, h1] at hQ

/-! ### names -/
def NamesOk (st : St) : Prop := (st.srvs.map (·.name)).Nodup ∧ ∀ sv ∈ st.srvs, sv.name < st.nextName

theorem names_map_set (l : List Srv) (i : Nat) (sv sv' : Srv) (h : l[i]? = some sv) (hn : sv'.name = sv.name) :
    (l.set i sv').map (·.name) = l.map (·.name) := by
  apply List.ext_getElem?
  intro j
  simp only [List.getElem?_map, List.getElem?_set]
  by_cases hij : i = j
  · subst hij
    by_cases hl : i < l.length
    · have : l[i] = sv := by
        have := List.getElem?_eq_getElem hl
        rw [this] at h; exact Option.some.inj h
      simp [hl, hn, this]
    · simp [hl]
  · simp [hij]

theorem retire_names (st : St) (s : Nat) : (retire st s).srvs.map (·.name) = st.srvs.map (·.name) := by
  unfold retire
  cases hs : st.srvs[s]? with
  | none => rfl
  | some sv => exact names_map_set _ _ _ _ hs rfl

theorem names_step (st : St) (op : Op) (h : NamesOk st) : NamesOk (step st op).1 := by
  have key : ∀ st' : St, st'.srvs.map (·.name) = st.srvs.map (·.name) → st'.nextName = st.nextName → NamesOk st' := by
    intro st' hm hn
    refine ⟨by rw [hm]; exact h.1, ?_⟩
    intro sv hsv
    have : sv.name ∈ st'.srvs.map (·.name) := List.mem_map_of_mem hsv
    rw [hm] at this
    obtain ⟨sv0, h0, he⟩ := List.mem_map.mp this
    rw [hn, ← he]; exact h.2 sv0 h0
  cases op with
  | new k =>
    simp only [step]
    split
    · refine ⟨?_, ?_⟩
      · simp only [List.map_append, List.map_cons, List.map_nil]
        rw [List.nodup_append]
        refine ⟨h.1, by simp, ?_⟩
        intro a ha b hb
        simp at hb; subst hb
        obtain ⟨sv0, h0, he⟩ := List.mem_map.mp ha
        have := h.2 sv0 h0
        omega
      · intro sv hsv
        rcases List.mem_append.mp hsv with h1 | h1
        · have := h.2 sv h1; simp only; omega
        · simp at h1; subst h1; simp
    · refine ⟨h.1, fun sv hsv => ?_⟩
      have := h.2 sv hsv; simp only; omega
  | connect name =>
    simp only [step]
    split
    · apply key
      · simp only
        apply List.ext_getElem?
        intro j
        simp only [List.getElem?_map, List.getElem?_modify]
        split
        · cases st.srvs[j]? <;> simp
        · simp
      · rfl
    · exact h
  | csend c tag =>
    simp only [step]
    cases st.conns[c]? with
    | none => exact h
    | some x => simp only; split
                · exact h
                · split
                  · exact h
                  · exact key _ rfl rfl
  | cclose c =>
    simp only [step]
    cases st.conns[c]? with
    | none => exact h
    | some x => exact key _ rfl rfl
  | accept s =>
    simp only [step]
    cases hs : st.srvs[s]? with
    | none => exact h
    | some sv =>
      simp only
      split
      · exact h
      · cases sv.backlog with
        | nil => exact h
        | cons c rest =>
          simp only
          cases st.conns[c]? with
          | none => exact h
          | some x =>
            simp only
            cases x.queue with
            | cons t q =>
              simp only
              apply key
              · rw [retire_names]; exact names_map_set _ _ _ _ hs rfl
              · rw [retire_nextName]
            | nil =>
              simp only
              split
              · exact h
              · apply key
                · rw [retire_names]; exact names_map_set _ _ _ _ hs rfl
                · rw [retire_nextName]
  | dropServer s =>
    simp only [step]
    cases st.srvs[s]? with
    | none => exact h
    | some sv => simp only; split
                 · exact key _ (retire_names _ _) (retire_nextName _ _)
                 · exact h
  | recv c =>
    simp only [step]
    cases st.conns[c]? with
    | none => exact h
    | some x => simp only; split
                · exact h
                · cases x.queue with
                  | cons t q => exact key _ rfl rfl
                  | nil => simp only; split <;> exact h
  | dropRx c =>
    simp only [step]
    cases st.conns[c]? with
    | none => exact h
    | some x => simp only; split
                · exact key _ rfl rfl
                · exact h

theorem names_run (ops : List Op) : NamesOk (run ops).1 := by
  unfold run
  have : ∀ (acc : St × List Res), NamesOk acc.1 →
      NamesOk (ops.foldl (fun (acc : St × List Res) op => let r := step acc.1 op; (r.1, acc.2 ++ [r.2])) acc).1 := by
    induction ops with
    | nil => intro acc h; simpa using h
    | cons op ops ih => intro acc h; simp only [List.foldl_cons]; exact ih _ (names_step _ _ h)
  exact this _ ⟨by simp, by simp⟩

end OneShot
