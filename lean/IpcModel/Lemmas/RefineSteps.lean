import IpcModel.Lemmas.RefineProof
/-! The simulation, operation by operation. -/
namespace Refine
open Ideal (Handle Msg Op Res)

theorem get_snoc {α} (l : List α) (a : α) (d : Nat) :
    (l ++ [a])[d]? = if d < l.length then l[d]? else if d = l.length then some a else none := by
  by_cases h : d < l.length
  · simp [h, List.getElem?_append_left h]
  · by_cases h2 : d = l.length
    · subst h2; simp
    · simp only [h, h2, if_false]
      exact List.getElem?_eq_none (by simp; omega)

theorem rootB_false_of_none {u : Unix.St} {x : Nat} (h : u.chans[x]? = none) : Unix.rootB u x = false := by
  unfold Unix.rootB; rw [h]

/-! ### `newChan` -/
theorem sim_newChan (u : Unix.St) (i : Ideal.St) (hR : Rel u i) :
    Rel ⟨u.chans ++ [⟨[], 1, true⟩]⟩ ⟨i.chans ++ [⟨[], 1, .held⟩]⟩ := by
  have hI := hR.inv
  have hroot : ∀ x, x < u.chans.length → Unix.rootB ⟨u.chans ++ [⟨[], 1, true⟩]⟩ x = Unix.rootB u x := by
    intro x hx; unfold Unix.rootB; simp only [get_snoc, hx, if_true]
  have hcar : ∀ d x, Unix.carriesRcv ⟨u.chans ++ [⟨[], 1, true⟩]⟩ d x = true → d < u.chans.length ∧ Unix.carriesRcv u d x = true := by
    intro d x h
    unfold Unix.carriesRcv at h ⊢
    simp only [get_snoc] at h
    by_cases hd : d < u.chans.length
    · simp only [hd, if_true] at h; exact ⟨hd, h⟩
    · simp only [hd, if_false] at h
      by_cases hd2 : d = u.chans.length
      · simp [hd2] at h
      · simp [hd2] at h
  have hshrink : ∀ x, RU ⟨u.chans ++ [⟨[], 1, true⟩]⟩ x → x = u.chans.length ∨ RU u x := by
    intro x hx
    induction hx with
    | root x hl hr =>
      by_cases hx : x < u.chans.length
      · right; rw [hroot x hx] at hr; exact .root x hx hr
      · left; simp at hl; omega
    | edge d x hl _ he ih =>
      obtain ⟨hd, hc⟩ := hcar d x he
      rcases ih with ih | ih
      · omega
      · exact Or.inr (.edge d x (carried_lt hI hc) ih hc)
  apply rel_of
  · simp [hR.len]
  · intro d uc ic h1 h2
    simp only [get_snoc] at h1 h2
    by_cases hd : d < u.chans.length
    · simp only [hd, hR.len ▸ hd, if_true] at h1 h2
      exact hR.fields d uc ic h1 h2
    · have hd' : ¬ d < i.chans.length := hR.len ▸ hd
      simp only [hd, hd', if_false] at h1 h2
      by_cases hd2 : d = u.chans.length
      · have hd2' : d = i.chans.length := hR.len ▸ hd2
        rw [if_pos hd2] at h1; rw [if_pos hd2'] at h2
        injection h1 with h1; injection h2 with h2
        subst h1; subst h2
        simp
      · simp [hd2] at h1
  · constructor
    · intro x
      have hu := hI.uniq x
      simp only [trc_append]
      have h0 : trc [(⟨[], 1, true⟩ : Unix.Chan)] x = 0 := by simp [trc, qrc]
      rw [h0]
      by_cases hx : x < u.chans.length
      · have : heldN ⟨u.chans ++ [⟨[], 1, true⟩]⟩ x = heldN u x := by unfold heldN; rw [hroot x hx]
        rw [this]; omega
      · have hb := hI.bound x (Nat.le_of_not_lt hx)
        have : heldN ⟨u.chans ++ [⟨[], 1, true⟩]⟩ x ≤ 1 := by unfold heldN; split <;> omega
        omega
    · intro x hx
      simp only [trc_append]
      have h0 : trc [(⟨[], 1, true⟩ : Unix.Chan)] x = 0 := by simp [trc, qrc]
      simp at hx
      rw [h0, hI.bound x (by omega)]
  · intro x uc ic hx h1 h2
    simp only [get_snoc] at h1 h2
    rcases hshrink x hx with hx | hx
    · have hx' : x = i.chans.length := hR.len ▸ hx
      have a : ¬ x < u.chans.length := by omega
      have b : ¬ x < i.chans.length := by omega
      rw [if_neg a, if_pos hx] at h1; rw [if_neg b, if_pos hx'] at h2
      injection h1 with h1; injection h2 with h2
      subst h1; subst h2; rfl
    · have a := Reach.reachG_lt hx
      have b : x < i.chans.length := hR.len ▸ a
      simp only [a, b, if_true] at h1 h2
      exact hR.queues x uc ic hx h1 h2
  · intro x ic hx h2
    simp only [get_snoc] at h2
    rcases hshrink x hx with hx | hx
    · have hx' : x = i.chans.length := hR.len ▸ hx
      have b : ¬ x < i.chans.length := by omega
      rw [if_neg b, if_pos hx'] at h2
      injection h2 with h2
      subst h2; simp
    · have b : x < i.chans.length := hR.len ▸ Reach.reachG_lt hx
      simp only [b, if_true] at h2
      exact ri_not_dropped (hR.reachUI x hx) ic h2

/-! ### operations that change a handle count only (`cloneSender`, `dropSender`) -/
theorem sim_senders (u : Unix.St) (i : Ideal.St) (hR : Rel u i) (c : Nat) (k : Nat → Nat) :
    Rel (Unix.modify u c fun ch => { ch with senders := k ch.senders }) (Ideal.modify i c fun ch => { ch with senders := k ch.senders }) := by
  have hI := hR.inv
  have hroot : Unix.rootB (Unix.modify u c fun ch => { ch with senders := k ch.senders }) = Unix.rootB u := by
    funext x; unfold Unix.rootB; rw [U_modify_get]
    by_cases hcx : c = x
    · rw [if_pos hcx]; cases u.chans[x]? <;> rfl
    · rw [if_neg hcx]
  have hcar : Unix.carriesRcv (Unix.modify u c fun ch => { ch with senders := k ch.senders }) = Unix.carriesRcv u := by
    funext d x; unfold Unix.carriesRcv; rw [U_modify_get]
    by_cases hcx : c = d
    · rw [if_pos hcx]; cases u.chans[d]? <;> rfl
    · rw [if_neg hcx]
  have hru : ∀ x, RU (Unix.modify u c fun ch => { ch with senders := k ch.senders }) x → RU u x := by
    intro x hx
    have : RU (Unix.modify u c fun ch => { ch with senders := k ch.senders }) = RU u := by
      unfold RU; rw [U_modify_len, hroot, hcar]
    rw [this] at hx; exact hx
  apply rel_pointwise u _ i _ hR (fun d ch => if c = d then { ch with senders := k ch.senders } else ch)
    (fun d ch => if c = d then { ch with senders := k ch.senders } else ch)
  · intro d; rw [U_modify_get]
    by_cases hcd : c = d
    · simp only [hcd, if_true]
    · simp only [hcd, if_false]; cases u.chans[d]? <;> rfl
  · intro d; rw [I_modify_get]
    by_cases hcd : c = d
    · simp only [hcd, if_true]
    · simp only [hcd, if_false]; cases i.chans[d]? <;> rfl
  · exact U_modify_len _ _ _
  · exact I_modify_len _ _ _
  · intro d uc ic _ _ hs hh
    by_cases hcd : c = d
    · simp only [hcd, if_true]; exact ⟨by rw [hs], hh⟩
    · simp only [hcd, if_false]; exact ⟨hs, hh⟩
  · constructor
    · intro x
      have h1 := hI.uniq x
      have ht : trc (Unix.modify u c fun ch => { ch with senders := k ch.senders }).chans x = trc u.chans x := by
        exact trc_modify_keep u.chans c (fun ch => { ch with senders := k ch.senders }) (fun _ => rfl) x
      have hh : heldN (Unix.modify u c fun ch => { ch with senders := k ch.senders }) x = heldN u x := by
        unfold heldN; rw [hroot]
      rw [ht, hh]; exact h1
    · intro x hx
      rw [U_modify_len] at hx
      have ht : trc (Unix.modify u c fun ch => { ch with senders := k ch.senders }).chans x = trc u.chans x := by
        exact trc_modify_keep u.chans c (fun ch => { ch with senders := k ch.senders }) (fun _ => rfl) x
      rw [ht]; exact hI.bound x hx
  · exact hru
  · intro d uc ic hq
    by_cases hcd : c = d
    · simp only [hcd, if_true]; exact hq
    · simp only [hcd, if_false]; exact hq
  · intro d ic hnd
    by_cases hcd : c = d
    · simp only [hcd, if_true]; exact hnd
    · simp only [hcd, if_false]; exact hnd

/-! ### `send` -/
def sendFu (hs : List Handle) (c : Nat) (m : Msg) (d : Nat) (ch : Unix.Chan) : Unix.Chan :=
  if c = d then { queue := ch.queue ++ [m], senders := ch.senders, held := if hs.contains (.rcv d) then false else ch.held }
  else { queue := ch.queue, senders := ch.senders, held := if hs.contains (.rcv d) then false else ch.held }

def sendFi (hs : List Handle) (c : Nat) (m : Msg) (d : Nat) (ch : Ideal.Chan) : Ideal.Chan :=
  if c = d then { queue := ch.queue ++ [m], senders := ch.senders, rx := if hs.contains (.rcv d) then .inMsg else ch.rx }
  else { queue := ch.queue, senders := ch.senders, rx := if hs.contains (.rcv d) then .inMsg else ch.rx }

theorem valid_send {u : Unix.St} {hs : List Handle} {c tag : Nat} (hv : Unix.validOp u (.send c tag hs) = true) :
    ∀ d, Handle.rcv d ∈ hs → Unix.rootB u d = true ∧ hs.count (.rcv d) = 1 := by
  intro d hd
  have := List.all_eq_true.mp hv (.rcv d) hd
  simpa using this

theorem sim_send_ok (u : Unix.St) (i : Ideal.St) (hR : Rel u i) (c tag : Nat) (hs : List Handle) (uc : Unix.Chan)
    (huc : u.chans[c]? = some uc) (hv : Unix.validOp u (.send c tag hs) = true) :
    Rel (Unix.modify (Unix.unhold u hs) c fun ch => { ch with queue := ch.queue ++ [⟨tag, hs⟩] })
        (Ideal.modify (Ideal.markInMsg i hs) c fun ch => { ch with queue := ch.queue ++ [⟨tag, hs⟩] }) := by
  have hI := hR.inv
  have hval := valid_send hv
  have hu' : ∀ d, (Unix.modify (Unix.unhold u hs) c fun ch => { ch with queue := ch.queue ++ [⟨tag, hs⟩] }).chans[d]?
      = (u.chans[d]?).map (sendFu hs c ⟨tag, hs⟩ d) := by
    intro d
    rw [U_modify_get, unhold_get]
    by_cases hcd : c = d
    · rw [if_pos hcd]
      cases u.chans[d]? with
      | none => rfl
      | some ch => simp only [Option.map_some, sendFu, hcd, if_true]; split <;> rfl
    · rw [if_neg hcd]
      cases u.chans[d]? with
      | none => rfl
      | some ch => simp only [Option.map_some, sendFu, hcd, if_false]; split <;> rfl
  have hi' : ∀ d, (Ideal.modify (Ideal.markInMsg i hs) c fun ch => { ch with queue := ch.queue ++ [⟨tag, hs⟩] }).chans[d]?
      = (i.chans[d]?).map (sendFi hs c ⟨tag, hs⟩ d) := by
    intro d
    rw [I_modify_get, markInMsg_get]
    by_cases hcd : c = d
    · rw [if_pos hcd]
      cases i.chans[d]? with
      | none => rfl
      | some ch => simp only [Option.map_some, sendFi, hcd, if_true]; split <;> rfl
    · rw [if_neg hcd]
      cases i.chans[d]? with
      | none => rfl
      | some ch => simp only [Option.map_some, sendFi, hcd, if_false]; split <;> rfl
  have hlu : (Unix.modify (Unix.unhold u hs) c fun ch => { ch with queue := ch.queue ++ [⟨tag, hs⟩] }).chans.length = u.chans.length := by
    rw [U_modify_len, unhold_len]
  have hli : (Ideal.modify (Ideal.markInMsg i hs) c fun ch => { ch with queue := ch.queue ++ [⟨tag, hs⟩] }).chans.length = i.chans.length := by
    rw [I_modify_len, markInMsg_len]
  generalize hU' : (Unix.modify (Unix.unhold u hs) c fun ch => { ch with queue := ch.queue ++ [⟨tag, hs⟩] }) = u' at hu' hlu
  generalize hI'' : (Ideal.modify (Ideal.markInMsg i hs) c fun ch => { ch with queue := ch.queue ++ [⟨tag, hs⟩] }) = i' at hi' hli
  -- roots and carried handles after the send
  have hroot' : ∀ x, Unix.rootB u' x = true → Unix.rootB u x = true ∧ ¬ Handle.rcv x ∈ hs := by
    intro x hx
    unfold Unix.rootB at hx ⊢
    rw [hu' x] at hx
    cases hux : u.chans[x]? with
    | none => rw [hux] at hx; simp at hx
    | some ch =>
      rw [hux, Option.map_some] at hx
      simp only at hx ⊢
      by_cases hw : hs.contains (Handle.rcv x) = true
      · unfold sendFu at hx; split at hx <;> simp [hw] at hx
      · refine ⟨?_, fun h => hw (by simpa using h)⟩
        unfold sendFu at hx; split at hx <;> simpa [hw] using hx
  have hcar' : ∀ d x, Unix.carriesRcv u' d x = true → Unix.carriesRcv u d x = true ∨ (d = c ∧ Handle.rcv x ∈ hs) := by
    intro d x h
    obtain ⟨ud', m, h1, h2, h3⟩ := (carriesU_iff u' d x).mp h
    rw [hu' d] at h1
    cases hud : u.chans[d]? with
    | none => rw [hud] at h1; simp at h1
    | some ud =>
      rw [hud, Option.map_some] at h1
      injection h1 with h1; subst h1
      unfold sendFu at h2
      by_cases hcd : c = d
      · rw [if_pos hcd] at h2
        simp only [List.mem_append, List.mem_singleton] at h2
        rcases h2 with h2 | h2
        · exact Or.inl ((carriesU_iff u d x).mpr ⟨ud, m, hud, h2, h3⟩)
        · subst h2; exact Or.inr ⟨hcd.symm, h3⟩
      · rw [if_neg hcd] at h2
        exact Or.inl ((carriesU_iff u d x).mpr ⟨ud, m, hud, h2, h3⟩)
  have hshrink : ∀ x, RU u' x → RU u x := by
    apply ru_shrink
    · intro x hx
      have h := (hroot' x hx).1
      obtain ⟨ux, h1, _⟩ := (rootU_iff u x).mp h
      exact .root x (lt_of_some h1) h
    · intro d x hd hc
      rcases hcar' d x hc with h | ⟨_, h⟩
      · exact .edge d x (carried_lt hI h) hd h
      · have hr := (hval x h).1
        obtain ⟨ux, h1, _⟩ := (rootU_iff u x).mp hr
        exact .root x (lt_of_some h1) hr
  -- counting
  have htrc : ∀ x, trc u'.chans x = trc u.chans x + rc hs x := by
    intro x
    rw [← hU']
    have h1 : (Unix.unhold u hs).chans[c]? = some (if hs.contains (.rcv c) then { uc with held := false } else uc) := by
      rw [unhold_get, huc]; rfl
    have h2 := trc_modify (Unix.unhold u hs).chans c _ (fun ch => { ch with queue := ch.queue ++ [⟨tag, hs⟩] }) x h1
    have h3 : trc (Unix.unhold u hs).chans x = trc u.chans x := by
      unfold Unix.unhold; exact trc_mapIdx _ _ (fun d ch => by split <;> rfl) x
    simp only [qrc_append] at h2
    have h4 : qrc [(⟨tag, hs⟩ : Msg)] x = rc hs x := by simp [qrc]
    simp only [Unix.modify]
    omega
  apply rel_pointwise u u' i i' hR (sendFu hs c ⟨tag, hs⟩) (sendFi hs c ⟨tag, hs⟩) hu' hi' hlu hli
  · intro d ud id _ _ hsd hh
    unfold sendFu sendFi
    by_cases hw : hs.contains (Handle.rcv d) = true
    · split <;> simp [hw, hsd]
    · split <;> simp [hw, hsd, hh]
  · constructor
    · intro x
      have h1 := hI.uniq x
      rw [htrc]
      by_cases hx : Handle.rcv x ∈ hs
      · have ⟨hr, hcnt⟩ := hval x hx
        have : heldN u x = 1 := by simp [heldN, hr]
        have : heldN u' x = 0 := by
          unfold heldN
          by_cases h : Unix.rootB u' x = true
          · exact absurd hx (hroot' x h).2
          · simp [h]
        have : rc hs x = 1 := hcnt
        omega
      · have : rc hs x = 0 := by simpa [rc] using List.count_eq_zero.mpr hx
        have : heldN u' x ≤ heldN u x := by
          unfold heldN
          by_cases h : Unix.rootB u' x = true
          · simp [h, (hroot' x h).1]
          · simp [h]
        omega
    · intro x hx
      rw [htrc, hI.bound x (hlu ▸ hx)]
      by_cases hm : Handle.rcv x ∈ hs
      · have hr := (hval x hm).1
        obtain ⟨ux, h1, _⟩ := (rootU_iff u x).mp hr
        have := lt_of_some h1
        rw [hlu] at hx; omega
      · simpa [rc] using List.count_eq_zero.mpr hm
  · exact hshrink
  · intro d ud id hq
    unfold sendFu sendFi
    split <;> simp [hq]
  · intro d id hnd
    unfold sendFi
    split <;> (simp only; split <;> simp [hnd])

/-- `send` to a receiver that no longer exists: the embedded receivers are closed / destroyed -/
theorem sim_send_fail (u : Unix.St) (i : Ideal.St) (hR : Rel u i) (c tag : Nat) (hs : List Handle) (fuel : Nat)
    (hv : Unix.validOp u (.send c tag hs) = true) :
    Rel (Unix.unhold u hs) (Ideal.dropHandles fuel (Ideal.markInMsg i hs) hs) := by
  have hval := valid_send hv
  apply rel_kill u _ i (Ideal.markInMsg i hs) _ hs hR (fun x hx => (hval x hx).1)
  · intro d; exact unhold_get u hs d
  · intro d; exact ⟨.inMsg, (by intro h; cases h), markInMsg_get hs i d⟩
  · exact unhold_len u hs
  · rw [dropHandles_len, markInMsg_len]
  · intro d; exact dropHandles_char fuel _ hs d

theorem I_modify_modify (i : Ideal.St) (c : Nat) (f g : Ideal.Chan → Ideal.Chan) (h : ∀ ch, g (f ch) = g ch) :
    Ideal.modify (Ideal.modify i c f) c g = Ideal.modify i c g := by
  have : (Ideal.modify (Ideal.modify i c f) c g).chans = (Ideal.modify i c g).chans := by
    apply List.ext_getElem?; intro d
    rw [I_modify_get, I_modify_get, I_modify_get]
    by_cases hcd : c = d
    · simp only [hcd, if_true]; cases i.chans[d]? <;> simp [h]
    · simp only [hcd, if_false]
  cases hA : Ideal.modify (Ideal.modify i c f) c g
  cases hB : Ideal.modify i c g
  rw [hA, hB] at this
  simp only at this
  rw [this]

/-- `dropReceiver` -/
theorem sim_dropReceiver (u : Unix.St) (i : Ideal.St) (hR : Rel u i) (c : Nat) (uc : Unix.Chan) (ic : Ideal.Chan) (fuel : Nat)
    (huc : u.chans[c]? = some uc) (hic : i.chans[c]? = some ic) (hheld : uc.held = true) :
    Rel (Unix.modify u c fun ch => { ch with held := false })
        (Ideal.dropHandles fuel (Ideal.modify i c fun ch => { ch with rx := .dropped, queue := [] }) (ic.queue.flatMap (·.handles))) := by
  -- the specification's step is one round of `dropHandles` on the work list `[rcv c]`
  have hi1c : (Ideal.modify i c fun ch => { ch with rx := .dropped }).chans[c]? = some { ic with rx := .dropped } := by
    rw [I_modify_get, if_pos rfl, hic]; rfl
  have hunf : Ideal.dropHandles fuel (Ideal.modify i c fun ch => { ch with rx := .dropped, queue := [] }) (ic.queue.flatMap (·.handles))
      = Ideal.dropHandles (fuel + 1) (Ideal.modify i c fun ch => { ch with rx := .dropped }) [Handle.rcv c] := by
    simp only [Ideal.dropHandles, hi1c, List.append_nil]
    rw [I_modify_modify i c (fun ch => { ch with rx := .dropped }) (fun ch => { ch with rx := .dropped, queue := [] }) (fun ch => rfl)]
  rw [hunf]
  apply rel_kill u _ i (Ideal.modify i c fun ch => { ch with rx := .dropped }) _ [Handle.rcv c] hR
  · intro x hx
    simp at hx; subst hx
    exact (rootU_iff u x).mpr ⟨uc, huc, hheld⟩
  · intro d
    rw [U_modify_get]
    by_cases hcd : c = d
    · subst hcd; simp
    · have : ¬ ([Handle.rcv c].contains (Handle.rcv d)) = true := by simp; exact fun h => hcd h.symm
      rw [if_neg hcd]
      cases u.chans[d]? with
      | none => rfl
      | some ch => rw [Option.map_some, if_neg this]
  · intro d
    refine ⟨.dropped, (by intro h; cases h), ?_⟩
    rw [I_modify_get]
    by_cases hcd : c = d
    · subst hcd; simp
    · have : ¬ ([Handle.rcv c].contains (Handle.rcv d)) = true := by simp; exact fun h => hcd h.symm
      rw [if_neg hcd]
      cases i.chans[d]? with
      | none => rfl
      | some ch => rw [Option.map_some, if_neg this]
  · exact U_modify_len _ _ _
  · rw [dropHandles_len, I_modify_len]
  · intro d; exact dropHandles_char (fuel + 1) _ _ d

/-! ### `recv` of a queued message -/
def recvFu (mh : List Handle) (c : Nat) (q : List Msg) (d : Nat) (ch : Unix.Chan) : Unix.Chan :=
  { queue := if c = d then q else ch.queue, senders := ch.senders + mh.count (.snd d), held := ch.held || mh.contains (.rcv d) }

def recvFi (mh : List Handle) (c : Nat) (q : List Msg) (d : Nat) (ch : Ideal.Chan) : Ideal.Chan :=
  { queue := if c = d then q else ch.queue, senders := ch.senders + mh.count (.snd d), rx := if mh.contains (.rcv d) then .held else ch.rx }

theorem sim_recv_pop (u : Unix.St) (i : Ideal.St) (hR : Rel u i) (c : Nat) (uc : Unix.Chan) (m : Msg) (q : List Msg)
    (huc : u.chans[c]? = some uc) (hheld : uc.held = true) (hqc : uc.queue = m :: q) :
    Rel (Unix.install (Unix.modify u c fun ch => { ch with queue := q }) m.handles)
        (Ideal.unpack (Ideal.modify i c fun ch => { ch with queue := q }) m.handles) := by
  have hI := hR.inv
  have hu' : ∀ d, (Unix.install (Unix.modify u c fun ch => { ch with queue := q }) m.handles).chans[d]?
      = (u.chans[d]?).map (recvFu m.handles c q d) := by
    intro d
    rw [install_get, U_modify_get]
    by_cases hcd : c = d
    · rw [if_pos hcd]
      cases u.chans[d]? with
      | none => rfl
      | some ch => simp [recvFu, hcd]
    · rw [if_neg hcd]
      cases u.chans[d]? with
      | none => rfl
      | some ch => simp [recvFu, hcd]
  have hi' : ∀ d, (Ideal.unpack (Ideal.modify i c fun ch => { ch with queue := q }) m.handles).chans[d]?
      = (i.chans[d]?).map (recvFi m.handles c q d) := by
    intro d
    rw [unpack_get, I_modify_get]
    by_cases hcd : c = d
    · rw [if_pos hcd]
      cases i.chans[d]? with
      | none => rfl
      | some ch => simp [recvFi, hcd]
    · rw [if_neg hcd]
      cases i.chans[d]? with
      | none => rfl
      | some ch => simp [recvFi, hcd]
  have hlu : (Unix.install (Unix.modify u c fun ch => { ch with queue := q }) m.handles).chans.length = u.chans.length := by
    rw [install_len, U_modify_len]
  have hli : (Ideal.unpack (Ideal.modify i c fun ch => { ch with queue := q }) m.handles).chans.length = i.chans.length := by
    rw [unpack_len, I_modify_len]
  have htrc : ∀ x, trc (Unix.install (Unix.modify u c fun ch => { ch with queue := q }) m.handles).chans x + rc m.handles x = trc u.chans x := by
    intro x
    have h1 : trc (Unix.install (Unix.modify u c fun ch => { ch with queue := q }) m.handles).chans x
        = trc (Unix.modify u c fun ch => { ch with queue := q }).chans x := by
      unfold Unix.install
      exact trc_mapIdx _ (fun d ch => { ch with held := ch.held || m.handles.contains (.rcv d), senders := ch.senders + m.handles.count (.snd d) }) (fun d ch => rfl) x
    have h2 := trc_modify u.chans c uc (fun ch => { ch with queue := q }) x huc
    rw [hqc, qrc_cons] at h2
    rw [h1]; simp only [Unix.modify]; simp only at h2; omega
  generalize hU' : (Unix.install (Unix.modify u c fun ch => { ch with queue := q }) m.handles) = u' at hu' hlu htrc
  generalize hI'' : (Ideal.unpack (Ideal.modify i c fun ch => { ch with queue := q }) m.handles) = i' at hi' hli
  have hcroot : Unix.rootB u c = true := (rootU_iff u c).mpr ⟨uc, huc, hheld⟩
  have hcRU : RU u c := .root c (lt_of_some huc) hcroot
  have hcarm : ∀ x, Handle.rcv x ∈ m.handles → Unix.carriesRcv u c x = true :=
    fun x hx => (carriesU_iff u c x).mpr ⟨uc, m, huc, by rw [hqc]; exact List.mem_cons_self, hx⟩
  have hroot' : ∀ x, Unix.rootB u' x = true → Unix.rootB u x = true ∨ Handle.rcv x ∈ m.handles := by
    intro x hx
    unfold Unix.rootB at hx ⊢
    rw [hu' x] at hx
    cases hux : u.chans[x]? with
    | none => rw [hux] at hx; simp at hx
    | some ch =>
      rw [hux, Option.map_some] at hx
      simp only [recvFu, Bool.or_eq_true] at hx ⊢
      rcases hx with hx | hx
      · exact Or.inl hx
      · exact Or.inr (by simpa using hx)
  have hcar' : ∀ d x, Unix.carriesRcv u' d x = true → Unix.carriesRcv u d x = true := by
    intro d x h
    obtain ⟨ud', m', h1, h2, h3⟩ := (carriesU_iff u' d x).mp h
    rw [hu' d] at h1
    cases hud : u.chans[d]? with
    | none => rw [hud] at h1; simp at h1
    | some ud =>
      rw [hud, Option.map_some] at h1
      injection h1 with h1; subst h1
      simp only [recvFu] at h2
      by_cases hcd : c = d
      · rw [if_pos hcd] at h2
        subst hcd
        rw [huc] at hud; injection hud with hud; subst hud
        exact (carriesU_iff u c x).mpr ⟨uc, m', huc, by rw [hqc]; exact List.mem_cons_of_mem _ h2, h3⟩
      · rw [if_neg hcd] at h2
        exact (carriesU_iff u d x).mpr ⟨ud, m', hud, h2, h3⟩
  have hshrink : ∀ x, RU u' x → RU u x := by
    apply ru_shrink
    · intro x hx
      rcases hroot' x hx with h | h
      · obtain ⟨ux, h1, _⟩ := (rootU_iff u x).mp h
        exact .root x (lt_of_some h1) h
      · exact .edge c x (carried_lt hI (hcarm x h)) hcRU (hcarm x h)
    · intro d x hd hc
      have h := hcar' d x hc
      exact .edge d x (carried_lt hI h) hd h
  apply rel_pointwise u u' i i' hR (recvFu m.handles c q) (recvFi m.handles c q) hu' hi' hlu hli
  · intro d ud id _ _ hsd hh
    simp only [recvFu, recvFi, hsd, true_and]
    by_cases hw : Handle.rcv d ∈ m.handles
    · simp [hw]
    · simp [hw, hh]
  · constructor
    · intro x
      have h1 := hI.uniq x
      have h2 := htrc x
      by_cases hx : Handle.rcv x ∈ m.handles
      · have hpos := rc_pos_of_mem hx
        have hnr : ¬ Unix.rootB u x = true := fun hr => held_not_carried hI hr (hcarm x hx)
        have : heldN u' x ≤ 1 := by unfold heldN; split <;> omega
        omega
      · have : rc m.handles x = 0 := by simpa [rc] using List.count_eq_zero.mpr hx
        have : heldN u' x ≤ heldN u x := by
          unfold heldN
          by_cases h : Unix.rootB u' x = true
          · rcases hroot' x h with h' | h'
            · simp [h, h']
            · exact absurd h' hx
          · simp [h]
        omega
    · intro x hx
      have h2 := htrc x
      have := hI.bound x (hlu ▸ hx)
      omega
  · exact hshrink
  · intro d ud id hq
    simp only [recvFu, recvFi, hq]
  · intro d id hnd
    simp only [recvFi]
    split
    · intro h; cases h
    · exact hnd

end Refine
