import IpcModel.Shm
/-! Proofs for the shared-memory model: the ownership/contents invariant over all histories. -/
namespace Shm

/-- handle `h`, created from `src`, is intact in kernel state `k` -/
def HOk (k : K) (h : Handle) (src : List Nat) : Prop :=
  h.length = src.length ∧ h.fd < k.next ∧
  ∃ o, k.fds h.fd = some o ∧ k.objs o = some src ∧
    (match h.ptr with
     | none => src = []
     | some a => src ≠ [] ∧ a < k.next ∧ k.maps a = some (o, src.length))

def Fresh (k : K) : Prop :=
  (∀ x, k.next ≤ x → k.fds x = none ∧ k.maps x = none) ∧ (∀ o, k.nobj ≤ o → k.objs o = none)

def Inv (w : W) : Prop :=
  Fresh w.k ∧
  (∀ (i : Nat) (h : Handle) (src : List Nat), w.hs[i]? = some (some (h, src)) → HOk w.k h src) ∧
  (∀ (i j : Nat) (hi : Handle) (si : List Nat) (hj : Handle) (sj : List Nat), i ≠ j →
      w.hs[i]? = some (some (hi, si)) → w.hs[j]? = some (some (hj, sj)) →
      hi.fd ≠ hj.fd ∧ ∀ a, hi.ptr = some a → hj.ptr ≠ some a) ∧
  (∀ o src, (o, src) ∈ w.flight → w.k.objs o = some src)

/-- `k'` extends `k`: identifiers below the old counters keep their meaning -/
def Ext (k k' : K) : Prop :=
  k.next ≤ k'.next ∧ (∀ x, x < k.next → k'.fds x = k.fds x ∧ k'.maps x = k.maps x) ∧
  (∀ o c, k.objs o = some c → k'.objs o = some c)

theorem Ext.refl (k : K) : Ext k k := ⟨Nat.le_refl _, fun _ _ => ⟨rfl, rfl⟩, fun _ _ h => h⟩

theorem Ext.trans {a b c : K} (h1 : Ext a b) (h2 : Ext b c) : Ext a c := by
  refine ⟨Nat.le_trans h1.1 h2.1, ?_, ?_⟩
  · intro x hx
    have := h1.2.1 x hx
    have := h2.2.1 x (Nat.lt_of_lt_of_le hx h1.1)
    constructor <;> simp_all
  · intro o c hc; exact h2.2.2 o c (h1.2.2 o c hc)

theorem HOk.ext {k k' : K} {h : Handle} {src : List Nat} (hk : HOk k h src) (e : Ext k k') : HOk k' h src := by
  obtain ⟨hl, hfd, o, hf, ho, hp⟩ := hk
  refine ⟨hl, Nat.lt_of_lt_of_le hfd e.1, o, ?_, e.2.2 o src ho, ?_⟩
  · rw [(e.2.1 h.fd hfd).1]; exact hf
  · cases hptr : h.ptr with
    | none => simpa [hptr] using hp
    | some a =>
      simp only [hptr] at hp ⊢
      exact ⟨hp.1, Nat.lt_of_lt_of_le hp.2.1 e.1, by rw [(e.2.1 a hp.2.1).2]; exact hp.2.2⟩

@[simp] theorem upd_same {β} (f : Nat → Option β) (a : Nat) (v : Option β) : upd f a v a = v := by simp [upd]
theorem upd_other {β} (f : Nat → Option β) (a x : Nat) (v : Option β) (h : x ≠ a) : upd f a v x = f x := by simp [upd, h]

/-! #### fromBytes -/
theorem fromBytes_nil (k : K) : fromBytes k [] =
    ({ k with objs := upd k.objs k.nobj (some (List.replicate (Gen.shmObjectSize 0) 0)), nobj := k.nobj + 1,
              fds := upd k.fds k.next (some k.nobj), next := k.next + 1,
              calls := k.calls ++ [.create (Gen.shmObjectSize 0)] }, ⟨none, 0, k.next⟩) := by
  simp [fromBytes, create, mapFile]

theorem fromBytes_cons (k : K) (bs : List Nat) (h : bs ≠ []) : fromBytes k bs =
    ({ k with objs := upd (upd k.objs k.nobj (some (List.replicate (Gen.shmObjectSize bs.length) 0))) k.nobj
                        (some (bs ++ (List.replicate (Gen.shmObjectSize bs.length) 0).drop bs.length)),
              nobj := k.nobj + 1,
              fds := upd k.fds k.next (some k.nobj),
              maps := upd k.maps (k.next + 1) (some (k.nobj, bs.length)),
              next := k.next + 1 + 1,
              calls := k.calls ++ [.create (Gen.shmObjectSize bs.length)] ++ [.mmap bs.length] }, ⟨some (k.next + 1), bs.length, k.next⟩) := by
  have hl : bs.length ≠ 0 := by simpa using h
  simp [fromBytes, create, mapFile, hl, fill]

theorem fromBytes_spec (k : K) (bs : List Nat) (hf : Fresh k) (hsz : Gen.shmObjectSize bs.length = bs.length) :
    Ext k (fromBytes k bs).1 ∧ Fresh (fromBytes k bs).1 ∧ HOk (fromBytes k bs).1 (fromBytes k bs).2 bs ∧
    k.next ≤ (fromBytes k bs).2.fd ∧ (∀ a, (fromBytes k bs).2.ptr = some a → k.next ≤ a) := by
  have hno : ∀ o c, k.objs o = some c → o ≠ k.nobj := fun o c ho h => by
    rw [h, hf.2 k.nobj (Nat.le_refl _)] at ho; cases ho
  by_cases hz : bs = []
  · subst hz
    rw [fromBytes_nil]
    refine ⟨⟨by simp, ?_, ?_⟩, ⟨?_, ?_⟩, ⟨rfl, by simp, k.nobj, by simp, ?_, rfl⟩, Nat.le_refl _, fun a h => by cases h⟩
    · intro x hx; exact ⟨upd_other _ _ _ _ (Nat.ne_of_lt hx), rfl⟩
    · intro o c ho; simp [upd_other _ _ _ _ (hno o c ho), ho]
    · intro x hx; simp at hx
      exact ⟨by simp [upd_other _ _ _ _ (show x ≠ k.next by omega), (hf.1 x (by omega)).1], (hf.1 x (by omega)).2⟩
    · intro o ho; simp at ho
      simp [upd_other _ _ _ _ (show o ≠ k.nobj by omega), hf.2 o (by omega)]
    · simpa using hsz
  · rw [fromBytes_cons k bs hz]
    refine ⟨⟨by simp; omega, ?_, ?_⟩, ⟨?_, ?_⟩, ⟨rfl, by simp; omega, k.nobj, by simp, ?_, ?_⟩, Nat.le_refl _, fun a h => by simp at h; omega⟩
    · intro x hx; exact ⟨upd_other _ _ _ _ (Nat.ne_of_lt hx), upd_other _ _ _ _ (by omega)⟩
    · intro o c ho; simp [upd_other _ _ _ _ (hno o c ho), ho]
    · intro x hx; simp at hx
      exact ⟨by simp [upd_other _ _ _ _ (show x ≠ k.next by omega), (hf.1 x (by omega)).1],
             by simp [upd_other _ _ _ _ (show x ≠ k.next + 1 by omega), (hf.1 x (by omega)).2]⟩
    · intro o ho; simp at ho
      simp [upd_other _ _ _ _ (show o ≠ k.nobj by omega), hf.2 o (by omega)]
    · simp [hsz]
    · simp [hz]

/-! #### clone / recvCopy -/
theorem clone_zero (k : K) (h : Handle) (o : Nat) (ho : k.fds h.fd = some o) (hz : h.length = 0) : clone k h =
    some ({ k with fds := upd k.fds k.next (some o), next := k.next + 1, calls := k.calls ++ [.dup] }, ⟨none, h.length, k.next⟩) := by
  simp [clone, ho, mapFile, hz]

theorem clone_pos (k : K) (h : Handle) (o : Nat) (ho : k.fds h.fd = some o) (hz : h.length ≠ 0) : clone k h =
    some ({ k with fds := upd k.fds k.next (some o), maps := upd k.maps (k.next + 1) (some (o, h.length)), next := k.next + 1 + 1,
                   calls := k.calls ++ [.dup] ++ [.mmap h.length] }, ⟨some (k.next + 1), h.length, k.next⟩) := by
  simp [clone, ho, mapFile, hz]

theorem recvObj_zero (k : K) (o : Nat) (hc : k.objs o = some []) : recvObj k o =
    ({ k with fds := upd k.fds k.next (some o), next := k.next + 1, calls := k.calls ++ [.fstat] }, ⟨none, 0, k.next⟩) := by
  simp [recvObj, mapFile, hc]

theorem recvObj_pos (k : K) (o : Nat) (c : List Nat) (hc : k.objs o = some c) (hz : c ≠ []) :
    recvObj k o =
    ({ k with fds := upd k.fds k.next (some o), maps := upd k.maps (k.next + 1) (some (o, c.length)), next := k.next + 1 + 1,
              calls := k.calls ++ [.fstat, .mmap c.length] }, ⟨some (k.next + 1), c.length, k.next⟩) := by
  simp [recvObj, mapFile, hc, hz]

/-- a new handle on object `o` (contents `src`), made by `clone` of a handle of that object or by receiving a descriptor
of it, is intact, fresh, and leaves everything else alone -/
theorem copy_spec (k : K) (o : Nat) (src : List Nat) (hf : Fresh k) (hobj : k.objs o = some src)
    (h : Handle) (viaFstat : Bool) (hcl : viaFstat = false → k.fds h.fd = some o ∧ h.length = src.length) :
    ∃ k' h', (if viaFstat then some (recvObj k o) else clone k h) = some (k', h') ∧
      Ext k k' ∧ Fresh k' ∧ HOk k' h' src ∧ k.next ≤ h'.fd ∧ (∀ a, h'.ptr = some a → k.next ≤ a) := by
  by_cases hz : src = []
  · subst hz
    refine ⟨{ k with fds := upd k.fds k.next (some o), next := k.next + 1,
                     calls := k.calls ++ [if viaFstat then Call.fstat else Call.dup] }, ⟨none, 0, k.next⟩, ?_, ?_, ?_, ?_, ?_, ?_⟩
    · cases viaFstat
      · obtain ⟨hfo, hl⟩ := hcl rfl
        have hl0 : h.length = 0 := by simpa using hl
        simp [clone_zero k h o hfo hl0, hl0]
      · simp [recvObj_zero k o hobj]
    · exact ⟨by simp, fun x hx => ⟨upd_other _ _ _ _ (Nat.ne_of_lt hx), rfl⟩, fun _ _ hc => hc⟩
    · refine ⟨fun x hx => ?_, hf.2⟩
      simp at hx
      exact ⟨by simp [upd_other _ _ _ _ (show x ≠ k.next by omega), (hf.1 x (by omega)).1], (hf.1 x (by omega)).2⟩
    · exact ⟨rfl, by simp, o, by simp, hobj, rfl⟩
    · simp
    · intro a ha; cases ha
  · refine ⟨{ k with fds := upd k.fds k.next (some o), maps := upd k.maps (k.next + 1) (some (o, src.length)), next := k.next + 1 + 1,
                     calls := k.calls ++ (if viaFstat then [Call.fstat, Call.mmap src.length] else [Call.dup, Call.mmap src.length]) },
            ⟨some (k.next + 1), src.length, k.next⟩, ?_, ?_, ?_, ?_, ?_, ?_⟩
    · cases viaFstat
      · obtain ⟨hfo, hl⟩ := hcl rfl
        have hln : h.length ≠ 0 := by rw [hl]; simpa using hz
        simp [clone_pos k h o hfo hln, hl]
      · simp [recvObj_pos k o src hobj hz]
    · exact ⟨by simp; omega, fun x hx => ⟨upd_other _ _ _ _ (Nat.ne_of_lt hx), upd_other _ _ _ _ (by omega)⟩, fun _ _ hc => hc⟩
    · refine ⟨fun x hx => ?_, hf.2⟩
      simp at hx
      exact ⟨by simp [upd_other _ _ _ _ (show x ≠ k.next by omega), (hf.1 x (by omega)).1],
             by simp [upd_other _ _ _ _ (show x ≠ k.next + 1 by omega), (hf.1 x (by omega)).2]⟩
    · exact ⟨rfl, by simp; omega, o, by simp, hobj, by simp [hz]⟩
    · simp
    · intro a ha; simp at ha; omega

/-! #### drop -/
theorem dropH_fresh (k : K) (h : Handle) (hf : Fresh k) : Fresh (dropH k h) := by
  refine ⟨fun x hx => ?_, ?_⟩
  · cases hp : h.ptr with
    | none =>
      simp only [dropH, hp] at hx ⊢
      refine ⟨?_, (hf.1 x hx).2⟩
      by_cases hxe : x = h.fd
      · simp [hxe]
      · simp [upd_other _ _ _ _ hxe, (hf.1 x hx).1]
    | some a =>
      simp only [dropH, hp] at hx ⊢
      constructor
      · by_cases hxe : x = h.fd
        · simp [hxe]
        · simp [upd_other _ _ _ _ hxe, (hf.1 x hx).1]
      · by_cases hxe : x = a
        · simp [hxe]
        · simp [upd_other _ _ _ _ hxe, (hf.1 x hx).2]
  · cases hp : h.ptr <;> simpa [dropH, hp] using hf.2

theorem dropH_other (k : K) (h h' : Handle) (src' : List Nat) (hk : HOk k h' src')
    (hfd : h.fd ≠ h'.fd) (hptr : ∀ a, h.ptr = some a → h'.ptr ≠ some a) : HOk (dropH k h) h' src' := by
  obtain ⟨hl, hlt, o, hfo, hobj, hp⟩ := hk
  have hnext : (dropH k h).next = k.next := by cases hp' : h.ptr <;> simp [dropH, hp']
  have hobjs : (dropH k h).objs = k.objs := by cases hp' : h.ptr <;> simp [dropH, hp']
  have hfds : (dropH k h).fds h'.fd = k.fds h'.fd := by
    cases hp' : h.ptr <;> simp [dropH, hp', upd_other _ _ _ _ (Ne.symm hfd)]
  refine ⟨hl, by rw [hnext]; exact hlt, o, by rw [hfds]; exact hfo, by rw [hobjs]; exact hobj, ?_⟩
  cases hp2 : h'.ptr with
  | none => simpa [hp2] using hp
  | some a' =>
    simp only [hp2] at hp ⊢
    refine ⟨hp.1, by rw [hnext]; exact hp.2.1, ?_⟩
    cases hp' : h.ptr with
    | none => simpa [dropH, hp'] using hp.2.2
    | some a =>
      have hne : a' ≠ a := fun e => hptr a hp' (by rw [hp2, e])
      simp [dropH, hp', upd_other _ _ _ _ hne, hp.2.2]

theorem dropH_objs (k : K) (h : Handle) : (dropH k h).objs = k.objs := by
  cases hp' : h.ptr <;> simp [dropH, hp']

/-! #### reading -/
theorem deref_ok (k : K) (h : Handle) (src : List Nat) (hk : HOk k h src) : deref k h = .bytes src := by
  obtain ⟨hl, _, o, _, hobj, hp⟩ := hk
  cases hptr : h.ptr with
  | none => simp only [hptr] at hp; simp [deref, hptr, hp]
  | some a =>
    simp only [hptr] at hp
    simp [deref, hptr, hp.2.2, hobj, hl]

/-! #### the invariant over histories -/
theorem getElem?_append_some {α} (l : List α) (x : α) (i : Nat) (y : α) (h : (l ++ [x])[i]? = some y) :
    (i < l.length ∧ l[i]? = some y) ∨ (i = l.length ∧ y = x) := by
  by_cases hi : i < l.length
  · left; rw [List.getElem?_append_left hi] at h; exact ⟨hi, h⟩
  · right
    have hi' : l.length ≤ i := Nat.le_of_not_lt hi
    rw [List.getElem?_append_right hi'] at h
    have : i - l.length = 0 := by
      by_cases h0 : i - l.length = 0
      · exact h0
      · have : ([x] : List α)[i - l.length]? = none := by
          apply List.getElem?_eq_none; simp; omega
        rw [this] at h; cases h
    rw [this] at h
    simp at h
    exact ⟨by omega, h.symm⟩

/-- adding a fresh intact handle to a world whose kernel was extended preserves the invariant -/
theorem inv_push (w : W) (k' : K) (h' : Handle) (src : List Nat) (fl : List (Nat × List Nat)) (hi : Inv w) (e : Ext w.k k') (hf : Fresh k')
    (hk : HOk k' h' src) (hfd : w.k.next ≤ h'.fd) (hptr : ∀ a, h'.ptr = some a → w.k.next ≤ a)
    (hfl : ∀ x ∈ fl, x ∈ w.flight) : Inv ⟨k', w.hs ++ [some (h', src)], fl⟩ := by
  obtain ⟨_, hok, hdis, hflight⟩ := hi
  refine ⟨hf, ?_, ?_, ?_⟩
  · intro i h s hget
    rcases getElem?_append_some _ _ _ _ hget with ⟨_, hg⟩ | ⟨_, hy⟩
    · exact (hok i h s hg).ext e
    · cases hy; exact hk
  · intro i j hi' si hj sj hij hgi hgj
    rcases getElem?_append_some _ _ _ _ hgi with ⟨hil, hg1⟩ | ⟨hie, hy1⟩ <;>
    rcases getElem?_append_some _ _ _ _ hgj with ⟨hjl, hg2⟩ | ⟨hje, hy2⟩
    · exact hdis i j hi' si hj sj hij hg1 hg2
    · cases hy2
      have h1 := hok i hi' si hg1
      refine ⟨by have := h1.2.1; omega, fun a ha hb => ?_⟩
      obtain ⟨_, _, o, _, _, hp⟩ := h1
      simp only [ha] at hp
      have := hptr a hb; omega
    · cases hy1
      have h2 := hok j hj sj hg2
      refine ⟨by have := h2.2.1; omega, fun a ha hb => ?_⟩
      obtain ⟨_, _, o, _, _, hp⟩ := h2
      simp only [hb] at hp
      have := hptr a ha; omega
    · omega
  · intro o s hm
    exact e.2.2 o s (hflight o s (hfl _ hm))

theorem inv_step (w : W) (op : Op) (hsz : ∀ n, Gen.shmObjectSize n = n) (hi : Inv w) : Inv (step w op) := by
  cases op with
  | fromBytes bs =>
    have := fromBytes_spec w.k bs hi.1 (hsz _)
    simp only [step]
    exact inv_push w _ _ bs _ hi this.1 this.2.1 this.2.2.1 this.2.2.2.1 this.2.2.2.2 (fun _ h => h)
  | fromByte b n =>
    have := fromBytes_spec w.k (List.replicate n b) hi.1 (hsz _)
    simp only [step]
    exact inv_push w _ _ _ _ hi this.1 this.2.1 this.2.2.1 this.2.2.2.1 this.2.2.2.2 (fun _ h => h)
  | clone i =>
    simp only [step]
    cases hg : w.hs[i]? with
    | none => simpa using hi
    | some x =>
      cases x with
      | none => simpa using hi
      | some p =>
        obtain ⟨h, src⟩ := p
        obtain ⟨hl, _, o, hfo, hobj, _⟩ := hi.2.1 i h src hg
        obtain ⟨k', h', heq, e, hf, hk, hfd, hptr⟩ := copy_spec w.k o src hi.1 hobj h false (fun _ => ⟨hfo, hl⟩)
        simp only [Bool.false_eq_true, if_false] at heq
        simp only [heq]
        exact inv_push w k' h' src _ hi e hf hk hfd hptr (fun _ h => h)
  | recvCopy i =>
    simp only [step]
    cases hg : w.hs[i]? with
    | none => simpa using hi
    | some x =>
      cases x with
      | none => simpa using hi
      | some p =>
        obtain ⟨h, src⟩ := p
        obtain ⟨hl, _, o, hfo, hobj, _⟩ := hi.2.1 i h src hg
        obtain ⟨k', h', heq, e, hf, hk, hfd, hptr⟩ := copy_spec w.k o src hi.1 hobj h true (fun h => by cases h)
        simp only [if_true] at heq
        simp only [recvCopy, hfo, Option.map_some, heq]
        exact inv_push w k' h' src _ hi e hf hk hfd hptr (fun _ h => h)
  | drop i =>
    simp only [step]
    cases hg : w.hs[i]? with
    | none => simpa using hi
    | some x =>
      cases x with
      | none => simpa using hi
      | some p =>
        obtain ⟨h, src⟩ := p
        simp only
        obtain ⟨hf, hok, hdis, hflight⟩ := hi
        have hlt : i < w.hs.length := by
          by_cases hh : i < w.hs.length
          · exact hh
          · rw [List.getElem?_eq_none (Nat.le_of_not_lt hh)] at hg; cases hg
        refine ⟨dropH_fresh _ _ hf, ?_, ?_, ?_⟩
        · intro j h' s' hget
          by_cases hji : j = i
          · subst hji; simp [List.getElem?_set_self hlt] at hget
          · rw [List.getElem?_set_ne (Ne.symm hji)] at hget
            have d := hdis i j h src h' s' (Ne.symm hji) hg hget
            exact dropH_other _ _ _ _ (hok j h' s' hget) d.1 d.2
        · intro a b ha sa hb sb hab hga hgb
          by_cases hai : a = i
          · subst hai; simp [List.getElem?_set_self hlt] at hga
          · by_cases hbi : b = i
            · subst hbi; simp [List.getElem?_set_self hlt] at hgb
            · rw [List.getElem?_set_ne (Ne.symm hai)] at hga
              rw [List.getElem?_set_ne (Ne.symm hbi)] at hgb
              exact hdis a b ha sa hb sb hab hga hgb
        · intro o s hm; rw [dropH_objs]; exact hflight o s hm
  | flight i =>
    simp only [step]
    cases hg : w.hs[i]? with
    | none => simpa using hi
    | some x =>
      cases x with
      | none => simpa using hi
      | some p =>
        obtain ⟨h, src⟩ := p
        obtain ⟨_, _, o, hfo, hobj, _⟩ := hi.2.1 i h src hg
        simp only [hfo]
        refine ⟨hi.1, hi.2.1, hi.2.2.1, ?_⟩
        intro o' s' hm
        rcases List.mem_append.mp hm with h1 | h1
        · exact hi.2.2.2 o' s' h1
        · simp at h1; obtain ⟨rfl, rfl⟩ := h1; exact hobj
  | recvFlight =>
    simp only [step]
    cases hfl : w.flight with
    | nil => simpa [hfl] using hi
    | cons x rest =>
      obtain ⟨o, src⟩ := x
      have hobj := hi.2.2.2 o src (by rw [hfl]; exact List.mem_cons_self)
      obtain ⟨k', h', heq, e, hf, hk, hfd, hptr⟩ := copy_spec w.k o src hi.1 hobj ⟨none, 0, 0⟩ true (fun h => by cases h)
      simp only [if_true, Option.some.injEq] at heq
      simp only [heq]
      exact inv_push w k' h' src rest hi e hf hk hfd hptr (fun x hx => by rw [hfl]; exact List.mem_cons_of_mem _ hx)

theorem inv_init : Inv W.init := by
  refine ⟨⟨fun _ _ => ⟨rfl, rfl⟩, fun _ _ => rfl⟩, ?_, ?_, ?_⟩ <;> intro i <;> simp [W.init]

theorem inv_run (ops : List Op) (hsz : ∀ n, Gen.shmObjectSize n = n) : Inv (run ops) := by
  unfold run
  have : ∀ w, Inv w → Inv (ops.foldl step w) := by
    induction ops with
    | nil => intro w h; simpa using h
    | cons op ops ih => intro w h; simp only [List.foldl_cons]; exact ih _ (inv_step w op hsz h)
  exact this _ inv_init

/-! #### zero-length regions never reach mmap / munmap -/
def CallsOk (cs : List Call) : Prop := ∀ c ∈ cs, c ≠ Call.mmap 0 ∧ c ≠ Call.munmap 0

theorem CallsOk.append {a b : List Call} (ha : CallsOk a) (hb : CallsOk b) : CallsOk (a ++ b) := by
  intro c hc; rcases List.mem_append.mp hc with h | h
  · exact ha c h
  · exact hb c h

theorem mapFile_calls (k : K) (o : Nat) (l : Option Nat) (h : CallsOk k.calls) : CallsOk (mapFile k o l).1.calls := by
  cases l with
  | some len =>
    by_cases hz : len = 0
    · simp [mapFile, hz]; exact h
    · simp only [mapFile, hz, if_false]
      exact h.append (by intro c hc; simp at hc; subst hc; simp [hz])
  | none =>
    by_cases hz : ((k.objs o).getD []).length = 0
    · simp only [mapFile, hz, if_true]
      exact h.append (by intro c hc; simp at hc; subst hc; simp)
    · simp only [mapFile, hz, if_false]
      exact h.append (by intro c hc; simp at hc; rcases hc with hc | hc <;> subst hc <;> simp [hz])

theorem fromBytes_calls (k : K) (bs : List Nat) (h : CallsOk k.calls) : CallsOk (fromBytes k bs).1.calls := by
  have h1 : CallsOk (create k bs.length).1.calls := by
    simp only [create]; exact h.append (by intro c hc; simp at hc; subst hc; simp)
  have h2 := mapFile_calls (create k bs.length).1 (create k bs.length).2.2 (some bs.length) h1
  simp only [fromBytes]
  generalize hm : mapFile (create k bs.length).1 (create k bs.length).2.2 (some bs.length) = r at h2
  obtain ⟨k2, p, n⟩ := r
  cases p <;> simpa [fill] using h2

theorem clone_calls (k : K) (hd : Handle) (k' : K) (h' : Handle) (hc : clone k hd = some (k', h')) (h : CallsOk k.calls) :
    CallsOk k'.calls := by
  simp only [clone, Option.map_eq_some_iff] at hc
  obtain ⟨o, _, hr⟩ := hc
  have : k' = (mapFile { k with fds := upd k.fds k.next (some o), next := k.next + 1, calls := k.calls ++ [.dup] } o (some hd.length)).1 := by
    rw [← (Prod.mk.inj hr).1]
  rw [this]
  exact mapFile_calls _ o _ (h.append (by intro c hc; simp at hc; subst hc; simp))

theorem recvObj_calls (k : K) (o : Nat) (h : CallsOk k.calls) : CallsOk (recvObj k o).1.calls := by
  have := mapFile_calls { k with fds := upd k.fds k.next (some o), next := k.next + 1 } o none h
  simpa [recvObj] using this

theorem recvCopy_calls (k : K) (hd : Handle) (k' : K) (h' : Handle) (hc : recvCopy k hd = some (k', h')) (h : CallsOk k.calls) :
    CallsOk k'.calls := by
  simp only [recvCopy, Option.map_eq_some_iff] at hc
  obtain ⟨o, _, hr⟩ := hc
  have := recvObj_calls k o h
  rw [hr] at this; exact this

theorem calls_step (w : W) (op : Op) (hi : Inv w) (h : CallsOk w.k.calls) : CallsOk (step w op).k.calls := by
  cases op with
  | fromBytes bs => simpa [step] using fromBytes_calls w.k bs h
  | fromByte b n => simpa [step] using fromBytes_calls w.k _ h
  | clone i =>
    simp only [step]
    cases hg : w.hs[i]? with
    | none => simpa using h
    | some x =>
      cases x with
      | none => simpa using h
      | some p =>
        obtain ⟨hd, src⟩ := p
        simp only
        split
        · rename_i k' h' hc
          exact clone_calls _ _ _ _ hc h
        · exact h
  | recvCopy i =>
    simp only [step]
    cases hg : w.hs[i]? with
    | none => simpa using h
    | some x =>
      cases x with
      | none => simpa using h
      | some p =>
        obtain ⟨hd, src⟩ := p
        simp only
        split
        · rename_i k' h' hc
          exact recvCopy_calls _ _ _ _ hc h
        · exact h
  | drop i =>
    simp only [step]
    cases hg : w.hs[i]? with
    | none => simpa using h
    | some x =>
      cases x with
      | none => simpa using h
      | some p =>
        obtain ⟨hd, src⟩ := p
        simp only
        obtain ⟨hl, _, o, _, _, hp⟩ := hi.2.1 i hd src hg
        cases hptr : hd.ptr with
        | none =>
          simp only [dropH, hptr]
          exact h.append (by intro c hc; simp at hc; subst hc; simp)
        | some a =>
          simp only [hptr] at hp
          have hne : hd.length ≠ 0 := by rw [hl]; simpa using hp.1
          simp only [dropH, hptr]
          exact (h.append (by intro c hc; simp at hc; subst hc; simp [hne])).append (by intro c hc; simp at hc; subst hc; simp)
  | flight i =>
    simp only [step]
    repeat' split
    all_goals exact h
  | recvFlight =>
    simp only [step]
    split
    · exact recvObj_calls _ _ h
    · exact h

theorem calls_run (ops : List Op) (hsz : ∀ n, Gen.shmObjectSize n = n) : CallsOk (run ops).k.calls := by
  unfold run
  have : ∀ w, Inv w → CallsOk w.k.calls → Inv (ops.foldl step w) ∧ CallsOk (ops.foldl step w).k.calls := by
    induction ops with
    | nil => intro w h hc; exact ⟨by simpa using h, by simpa using hc⟩
    | cons op ops ih => intro w h hc; simp only [List.foldl_cons]; exact ih _ (inv_step w op hsz h) (calls_step w op h hc)
  exact (this _ inv_init (by intro c hc; simp [W.init] at hc)).2

end Shm
