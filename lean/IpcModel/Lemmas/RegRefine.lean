import IpcModel.OneShot
import IpcModel.InprocReg
import IpcModel.Lemmas.OneShotProof
/-!
# The in-process registry answers connects as the OS rendezvous does

`OneShot` is the model of the OS transport's rendezvous (listening sockets bound to names); `InprocReg` the model of the
in-process transport's registry.  Run the same client program on both (every `new` succeeds — the in-process `new` cannot
fail — and `accept` / `dropServer` act on the registry exactly when they complete in `OneShot`): after every prefix, a server
is *still waiting* in one model iff it is in the other, so every `connect` gets the same answer (connected / error).
-/
namespace RegRefine
open OneShot

def liveS (sv : Srv) : Bool := sv.listening && sv.fdOpen
def liveV (st : St) : List Bool := st.srvs.map liveS

/-- what a `OneShot` operation (with the result it had) means for the registry -/
def proj (op : Op) (res : Res) : Option InprocReg.Op :=
  match op with
  | .new _ => some .new
  | .connect n => some (.connect n)
  | .accept s => if res = .blocks ∨ res = .invalid then none else some (.accept s)
  | .dropServer s => if res = .ok then some (.dropServer s) else none
  | _ => none

/-- the relation: same number of servers; server `k` has name `k`; waiting in one model iff waiting in the other; registry healthy -/
structure Rel (a : St) (b : InprocReg.St) : Prop where
  len : b.phase.length = a.srvs.length
  next : a.nextName = a.srvs.length
  names : ∀ (k : Nat) (sv : Srv), a.srvs[k]? = some sv → sv.name = k
  live : ∀ k : Nat, (b.phase[k]? = some InprocReg.Phase.live) ↔ ((liveV a)[k]? = some true)
  inv : InprocReg.Inv b
  both : ∀ (k : Nat) (sv : Srv), a.srvs[k]? = some sv → sv.listening = sv.fdOpen

theorem liveV_retire (st : St) (s : Nat) (sv : Srv) (h : st.srvs[s]? = some sv) :
    liveV (retire st s) = (liveV st).set s false := by
  unfold retire liveV
  simp only [h]
  apply List.ext_getElem?
  intro j
  simp only [List.getElem?_map, List.getElem?_set, List.length_map]
  by_cases hsj : s = j
  · subst hsj
    have hlt : s < st.srvs.length := by
      rcases Nat.lt_or_ge s st.srvs.length with h1 | h1
      · exact h1
      · rw [List.getElem?_eq_none h1] at h; cases h
    simp [hlt, liveS]
  · simp [hsj]

theorem liveV_set_same (st : St) (s : Nat) (sv sv' : Srv) (h : st.srvs[s]? = some sv) (hl : liveS sv' = liveS sv) :
    (st.srvs.set s sv').map liveS = st.srvs.map liveS := by
  apply List.ext_getElem?
  intro j
  simp only [List.getElem?_map, List.getElem?_set]
  by_cases hsj : s = j
  · subst hsj
    by_cases hlt : s < st.srvs.length
    · have : st.srvs[s] = sv := by
        have := List.getElem?_eq_getElem hlt
        rw [this] at h; exact Option.some.inj h
      simp [hlt, hl, this]
    · simp [hlt]
  · simp [hsj]

/-- operations that only touch connections leave the servers alone -/
theorem srvs_conn_ops (st : St) (op : Op)
    (h : (∃ c t, op = .csend c t) ∨ (∃ c, op = .cclose c) ∨ (∃ c, op = .recv c) ∨ (∃ c, op = .dropRx c)) :
    (step st op).1.srvs = st.srvs ∧ (step st op).1.nextName = st.nextName := by
  rcases h with ⟨c, t, rfl⟩ | ⟨c, rfl⟩ | ⟨c, rfl⟩ | ⟨c, rfl⟩ <;> simp only [step] <;> (repeat' split) <;> exact ⟨rfl, rfl⟩

theorem rel_of_same_srvs {a a' : St} {b : InprocReg.St} (h : Rel a b) (hs : a'.srvs = a.srvs) (hn : a'.nextName = a.nextName) : Rel a' b :=
  ⟨by rw [hs]; exact h.len, by rw [hs, hn]; exact h.next, by rw [hs]; exact h.names, by unfold liveV; rw [hs]; exact h.live, h.inv,
   by rw [hs]; exact h.both⟩

theorem modify_backlog_map (l : List Srv) (s : Nat) (f : Srv → Srv) (g : Srv → α) (hf : ∀ sv, g (f sv) = g sv) :
    (l.modify s f).map g = l.map g := by
  apply List.ext_getElem?
  intro j
  simp only [List.getElem?_map, List.getElem?_modify]
  by_cases hsj : s = j
  · subst hsj; cases l[s]? <;> simp [hf]
  · simp [hsj]

theorem modify_get (l : List Srv) (s k : Nat) (f : Srv → Srv) (sv : Srv) (h : (l.modify s f)[k]? = some sv) :
    ∃ sv0, l[k]? = some sv0 ∧ (sv = sv0 ∨ sv = f sv0) := by
  rw [List.getElem?_modify] at h
  by_cases hsk : s = k
  · subst hsk
    cases hl : l[s]? with
    | none => simp [hl] at h
    | some sv0 => simp [hl] at h; exact ⟨sv0, rfl, Or.inr h.symm⟩
  · simp [hsk] at h; exact ⟨sv, h, Or.inl rfl⟩

/-- `connect` changes no server's name or liveness (it may lengthen one backlog) -/
theorem rel_connect {a : St} {b : InprocReg.St} (h : Rel a b) (n : Nat) : Rel (step a (.connect n)).1 b := by
  simp only [step]
  split
  · rename_i s hs
    refine ⟨by simpa using h.len, by simpa using h.next, ?_, ?_, h.inv, ?_⟩
    · intro k sv hk
      obtain ⟨sv0, h0, h1⟩ := modify_get _ _ _ _ _ hk
      rcases h1 with rfl | rfl
      · exact h.names k _ h0
      · exact h.names k sv0 h0
    · intro k
      have : liveV { a with conns := a.conns ++ [⟨[], true, false, false, false⟩],
                            srvs := a.srvs.modify s fun sv => { sv with backlog := sv.backlog ++ [a.conns.length] } } = liveV a := by
        unfold liveV; exact modify_backlog_map _ _ _ _ (fun sv => rfl)
      rw [this]; exact h.live k
    · intro k sv hk
      obtain ⟨sv0, h0, h1⟩ := modify_get _ _ _ _ _ hk
      rcases h1 with rfl | rfl
      · exact h.both k _ h0
      · exact h.both k sv0 h0
  · exact h

/-- a successful `new` on both sides -/
theorem rel_new {a : St} {b : InprocReg.St} (h : Rel a b) :
    Rel (step a (.new 0)).1 (InprocReg.step InprocReg.fixed b .new).1 := by
  have hp : b.poisoned = false := h.inv.1
  have hb : (InprocReg.step InprocReg.fixed b .new).1 = { b with phase := b.phase ++ [.live], reg := b.reg ++ [b.phase.length] } := by
    simp [InprocReg.step, hp]
  have ha : (step a (.new 0)).1 = { a with srvs := a.srvs ++ [⟨a.nextName, true, true, true, []⟩], nextName := a.nextName + 1 } := by
    simp [step]
  rw [ha, hb]
  refine ⟨by simp [h.len], by simp [h.next], ?_, ?_, ?_, ?_⟩
  · intro k sv hk
    by_cases hlt : k < a.srvs.length
    · rw [List.getElem?_append_left hlt] at hk; exact h.names k sv hk
    · by_cases heq : k = a.srvs.length
      · subst heq; simp at hk; subst hk; exact h.next
      · rw [List.getElem?_eq_none (by simp; omega)] at hk; cases hk
  · intro k
    unfold liveV
    simp only [List.map_append, List.map_cons, List.map_nil]
    have hl : (a.srvs.map liveS).length = b.phase.length := by simp [h.len]
    by_cases hlt : k < b.phase.length
    · rw [List.getElem?_append_left hlt, List.getElem?_append_left (by rw [hl]; exact hlt)]
      exact h.live k
    · by_cases heq : k = b.phase.length
      · subst heq
        rw [List.getElem?_append_right (Nat.le_refl _), List.getElem?_append_right (by rw [hl]; exact Nat.le_refl _)]
        simp [hl, liveS]
      · rw [List.getElem?_eq_none (by simp; omega), List.getElem?_eq_none (by simp [hl]; omega)]
        simp
  · have := InprocReg.inv_step b .new h.inv
    rw [hb] at this; exact this
  · intro k sv hk
    by_cases hlt : k < a.srvs.length
    · rw [List.getElem?_append_left hlt] at hk; exact h.both k sv hk
    · by_cases heq : k = a.srvs.length
      · subst heq; simp at hk; subst hk; rfl
      · rw [List.getElem?_eq_none (by simp; omega)] at hk; cases hk

theorem retire_len (st : St) (s : Nat) : (retire st s).srvs.length = st.srvs.length := by
  unfold retire; cases st.srvs[s]? <;> simp

/-- retiring server `s` (after `accept` completed, or when it is dropped unused) against un-registering it -/
theorem rel_retire {a a1 : St} {b : InprocReg.St} (h : Rel a b) (s : Nat) (sv sv1 : Srv) (hs : a.srvs[s]? = some sv)
    (hlive : liveS sv = true) (h1 : a1.srvs = a.srvs.set s sv1) (hn1 : a1.nextName = a.nextName)
    (hname : sv1.name = sv.name) (hl1 : sv1.listening = sv.listening) (hf1 : sv1.fdOpen = sv.fdOpen)
    (ph : InprocReg.Phase) (hph : ph ≠ .live) :
    Rel (retire a1 s) { b with phase := b.phase.set s ph, reg := b.reg.erase s } := by
  have hlt : s < a.srvs.length := by
    rcases Nat.lt_or_ge s a.srvs.length with h0 | h0
    · exact h0
    · rw [List.getElem?_eq_none h0] at hs; cases hs
  have hs1 : a1.srvs[s]? = some sv1 := by rw [h1]; simp [hlt]
  have hlv1 : liveV a1 = liveV a := by
    unfold liveV; rw [h1]
    exact liveV_set_same a s sv sv1 hs (by simp [liveS, hl1, hf1])
  obtain ⟨hp, hnd, hreg⟩ := h.inv
  have hbl : b.phase[s]? = some .live := (h.live s).mpr (by unfold liveV; simp [hs, hlive])
  refine ⟨?_, ?_, ?_, ?_, ?_, ?_⟩
  · simp only [List.length_set]; rw [retire_len, h1, List.length_set]; exact h.len
  · rw [retire_nextName, retire_len, hn1, h1, List.length_set]; exact h.next
  · intro k svk hk
    by_cases hks : s = k
    · subst hks
      rw [retire_srv a1 s sv1 hs1] at hk
      injection hk with hk; subst hk
      simp only; rw [hname]; exact h.names s sv hs
    · rw [retire_other a1 s k hks, h1, List.getElem?_set_ne hks] at hk
      exact h.names k svk hk
  · intro k
    rw [liveV_retire a1 s sv1 hs1, hlv1]
    by_cases hks : s = k
    · subst hks
      have hltb : s < b.phase.length := by rw [h.len]; exact hlt
      have hltl : s < (liveV a).length := by unfold liveV; simpa using hlt
      simp [List.getElem?_set_self hltb, List.getElem?_set_self hltl, hph]
    · simp only [List.getElem?_set_ne hks]; exact h.live k
  · refine ⟨hp, hnd.erase s, ?_⟩
    intro n
    simp only
    rw [hnd.mem_erase_iff, hreg n]
    by_cases hns : n = s
    · subst hns
      have hltb : n < b.phase.length := by rw [h.len]; exact hlt
      simp [List.getElem?_set_self hltb, hph]
    · simp [hns, List.getElem?_set_ne (Ne.symm hns)]
  · intro k svk hk
    by_cases hks : s = k
    · subst hks
      rw [retire_srv a1 s sv1 hs1] at hk
      injection hk with hk; subst hk; rfl
    · rw [retire_other a1 s k hks, h1, List.getElem?_set_ne hks] at hk
      exact h.both k svk hk

def regAfter (b : InprocReg.St) (op : Op) (res : Res) : InprocReg.St :=
  match proj op res with
  | some o => (InprocReg.step InprocReg.fixed b o).1
  | none => b

theorem reg_connect (b : InprocReg.St) (n : Nat) (hp : b.poisoned = false) :
    (InprocReg.step InprocReg.fixed b (.connect n)).1 = b := by
  simp only [InprocReg.step, hp, InprocReg.fixed]
  simp only [Bool.false_eq_true, if_false, if_true]
  split <;> rfl

theorem reg_accept (b : InprocReg.St) (s : Nat) (hp : b.poisoned = false) (hl : b.phase[s]? = some .live) :
    (InprocReg.step InprocReg.fixed b (.accept s)).1 = { b with phase := b.phase.set s .accepted, reg := b.reg.erase s } := by
  simp [InprocReg.step, hp, hl, InprocReg.fixed]

theorem reg_drop (b : InprocReg.St) (s : Nat) (hl : b.phase[s]? = some .live) :
    (InprocReg.step InprocReg.fixed b (.dropServer s)).1 = { b with phase := b.phase.set s .dropped, reg := b.reg.erase s } := by
  simp [InprocReg.step, hl, InprocReg.fixed]

theorem set_self (l : List Srv) (s : Nat) (sv : Srv) (h : l[s]? = some sv) : l = l.set s sv := by
  apply List.ext_getElem?
  intro j
  by_cases hsj : s = j
  · subst hsj
    have hlt : s < l.length := by
      rcases Nat.lt_or_ge s l.length with h0 | h0
      · exact h0
      · rw [List.getElem?_eq_none h0] at h; cases h
    rw [List.getElem?_set_self hlt]; exact h
  · rw [List.getElem?_set_ne hsj]

theorem live_of_rel {a : St} {b : InprocReg.St} (h : Rel a b) (s : Nat) (sv : Srv) (hs : a.srvs[s]? = some sv) (hl : liveS sv = true) :
    b.phase[s]? = some .live := (h.live s).mpr (by unfold liveV; simp [hs, hl])

/-- **one step of the simulation** -/
theorem rel_step {a : St} {b : InprocReg.St} (h : Rel a b) (op : Op) (hnew : ∀ k, op ≠ .new (k + 1)) :
    Rel (step a op).1 (regAfter b op (step a op).2) := by
  have hp : b.poisoned = false := h.inv.1
  cases op with
  | new k =>
    cases k with
    | zero => simpa [regAfter, proj] using rel_new h
    | succ k => exact absurd rfl (hnew k)
  | connect n =>
    simp only [regAfter, proj, reg_connect b n hp]
    exact rel_connect h n
  | csend c t => simp only [regAfter, proj]; exact rel_of_same_srvs h (srvs_conn_ops a _ (Or.inl ⟨c, t, rfl⟩)).1 (srvs_conn_ops a _ (Or.inl ⟨c, t, rfl⟩)).2
  | cclose c => simp only [regAfter, proj]; exact rel_of_same_srvs h (srvs_conn_ops a _ (Or.inr (Or.inl ⟨c, rfl⟩))).1 (srvs_conn_ops a _ (Or.inr (Or.inl ⟨c, rfl⟩))).2
  | recv c => simp only [regAfter, proj]; exact rel_of_same_srvs h (srvs_conn_ops a _ (Or.inr (Or.inr (Or.inl ⟨c, rfl⟩)))).1 (srvs_conn_ops a _ (Or.inr (Or.inr (Or.inl ⟨c, rfl⟩)))).2
  | dropRx c => simp only [regAfter, proj]; exact rel_of_same_srvs h (srvs_conn_ops a _ (Or.inr (Or.inr (Or.inr ⟨c, rfl⟩)))).1 (srvs_conn_ops a _ (Or.inr (Or.inr (Or.inr ⟨c, rfl⟩)))).2
  | dropServer s =>
    simp only [step]
    cases hs : a.srvs[s]? with
    | none => simpa [regAfter, proj] using h
    | some sv =>
      simp only
      by_cases hf : sv.fdOpen = true
      · simp only [hf, if_true, regAfter, proj]
        have hl : liveS sv = true := by simp [liveS, h.both s sv hs, hf]
        rw [reg_drop b s (live_of_rel h s sv hs hl)]
        exact rel_retire h s sv sv hs hl (set_self _ _ _ hs) rfl rfl rfl rfl .dropped (by decide)
      · simp only [hf, Bool.false_eq_true, if_false, regAfter, proj]
        simpa using h
  | accept s =>
    simp only [step]
    cases hs : a.srvs[s]? with
    | none => simpa [regAfter, proj] using h
    | some sv =>
      simp only
      by_cases hl : (sv.fdOpen && sv.listening) = true
      · have hlive : liveS sv = true := by simpa [liveS, Bool.and_comm] using hl
        have hbl := live_of_rel h s sv hs hlive
        simp only [hl, Bool.not_true, Bool.false_eq_true, if_false]
        cases hb : sv.backlog with
        | nil => simpa [regAfter, proj] using h
        | cons c rest =>
          simp only
          cases hc : a.conns[c]? with
          | none => simpa [regAfter, proj] using h
          | some x =>
            simp only
            cases hq : x.queue with
            | cons t q =>
              have hr : regAfter b (.accept s) (.accepted c t) = (InprocReg.step InprocReg.fixed b (.accept s)).1 := by
                simp [regAfter, proj]
              rw [hr, reg_accept b s hp hbl]
              refine rel_retire h s sv { sv with backlog := rest } hs hlive ?_ ?_ rfl rfl rfl .accepted (by decide) <;> rfl
            | nil =>
              simp only
              by_cases hco : x.clientOpen = true
              · simp only [hco, if_true]
                simpa [regAfter, proj] using h
              · simp only [hco, Bool.false_eq_true, if_false]
                have hr : regAfter b (.accept s) .err = (InprocReg.step InprocReg.fixed b (.accept s)).1 := by
                  simp [regAfter, proj]
                rw [hr, reg_accept b s hp hbl]
                refine rel_retire h s sv { sv with backlog := rest } hs hlive ?_ ?_ rfl rfl rfl .accepted (by decide) <;> rfl
      · have : (!(sv.fdOpen && sv.listening)) = true := by
          cases h1 : sv.fdOpen <;> cases h2 : sv.listening <;> simp_all
        simp only [this, if_true]
        simpa [regAfter, proj] using h

/-- both models driven by one client program -/
def runBoth : St × InprocReg.St → List Op → St × InprocReg.St
  | p, [] => p
  | (a, b), op :: ops => runBoth ((step a op).1, regAfter b op (step a op).2) ops

theorem rel_init : Rel ⟨[], [], 0⟩ ⟨[], [], false⟩ :=
  ⟨rfl, rfl, by intro k sv hk; simp at hk, by intro k; simp [liveV], InprocReg.inv_init, by intro k sv hk; simp at hk⟩

theorem rel_run (ops : List Op) (hnew : ∀ op ∈ ops, ∀ k, op ≠ .new (k + 1)) {a : St} {b : InprocReg.St} (h : Rel a b) :
    Rel (runBoth (a, b) ops).1 (runBoth (a, b) ops).2 := by
  induction ops generalizing a b with
  | nil => exact h
  | cons op ops ih =>
    simp only [runBoth]
    exact ih (fun o ho => hnew o (List.mem_cons_of_mem _ ho)) (rel_step h op (hnew op List.mem_cons_self))

/-- in related states a `connect` to any name gets the same answer from the OS rendezvous and from the in-process registry -/
theorem connect_agree {a : St} {b : InprocReg.St} (h : Rel a b) (n : Nat) :
    ((∃ c, (step a (.connect n)).2 = .conn c) ↔ (InprocReg.step InprocReg.fixed b (.connect n)).2 = .connected n) ∧
    ((step a (.connect n)).2 = .err ↔ (InprocReg.step InprocReg.fixed b (.connect n)).2 = .err) := by
  obtain ⟨hp, _, hreg⟩ := h.inv
  -- the registry side
  have hb : (InprocReg.step InprocReg.fixed b (.connect n)).2 = if b.phase[n]? = some .live then .connected n else .err := by
    by_cases hl : b.phase[n]? = some .live
    · have hm : n ∈ b.reg := (hreg n).mpr hl
      simp [InprocReg.step, hp, hm, hl]
    · have hm : ¬ n ∈ b.reg := fun hm => hl ((hreg n).mp hm)
      simp [InprocReg.step, hp, hm, hl, InprocReg.fixed]
  -- the rendezvous side
  have ha : (∃ s, a.srvs.findIdx? (fun sv => sv.name == n && sv.listening && sv.fdOpen) = some s) ↔ (liveV a)[n]? = some true := by
    constructor
    · rintro ⟨s, hs⟩
      have h1 := List.findIdx?_eq_some_iff_getElem.mp hs
      obtain ⟨hlt, hps, _⟩ := h1
      have hget : a.srvs[s]? = some a.srvs[s] := List.getElem?_eq_getElem hlt
      have hname := h.names s _ hget
      simp only [Bool.and_eq_true, beq_iff_eq] at hps
      have : s = n := by rw [← hname]; exact hps.1.1
      subst this
      unfold liveV
      simp [hget, liveS, hps.1.2, hps.2]
    · intro hl
      unfold liveV at hl
      simp only [List.getElem?_map] at hl
      cases hs : a.srvs[n]? with
      | none => simp [hs] at hl
      | some sv =>
        simp only [hs, Option.map_some, Option.some.injEq] at hl
        have hname := h.names n sv hs
        have hmem : sv ∈ a.srvs := List.mem_of_getElem? hs
        have hany : a.srvs.any (fun sv => sv.name == n && sv.listening && sv.fdOpen) = true := by
          rw [List.any_eq_true]
          refine ⟨sv, hmem, ?_⟩
          simp only [liveS, Bool.and_eq_true] at hl
          simp [hname, hl.1, hl.2]
        have := List.findIdx?_isSome (p := fun (sv : Srv) => sv.name == n && sv.listening && sv.fdOpen) (xs := a.srvs)
        rw [hany] at this
        exact Option.isSome_iff_exists.mp this
  have hres : ((∃ c, (step a (.connect n)).2 = .conn c) ↔ (liveV a)[n]? = some true) ∧
      ((step a (.connect n)).2 = .err ↔ ¬ (liveV a)[n]? = some true) := by
    rw [← ha]
    simp only [step]
    cases hf : a.srvs.findIdx? (fun sv => sv.name == n && sv.listening && sv.fdOpen) with
    | none => simp
    | some s => simp
  rw [hb]
  constructor
  · rw [hres.1, ← h.live n]
    by_cases hl : b.phase[n]? = some .live <;> simp [hl]
  · rw [hres.2, ← h.live n]
    by_cases hl : b.phase[n]? = some .live <;> simp [hl]

/-- **the two rendezvous agree on every connect, after every history**: run any client program (every `new` succeeding) on both
models; a `connect` to any name then succeeds on the OS rendezvous iff it succeeds on the in-process registry, and fails on one
iff it fails on the other. -/
theorem connect_same_answer (ops : List Op) (hnew : ∀ op ∈ ops, ∀ k, op ≠ .new (k + 1)) (n : Nat) :
    let p := runBoth (⟨[], [], 0⟩, ⟨[], [], false⟩) ops
    ((∃ c, (step p.1 (.connect n)).2 = .conn c) ↔ (InprocReg.step InprocReg.fixed p.2 (.connect n)).2 = .connected n) ∧
    ((step p.1 (.connect n)).2 = .err ↔ (InprocReg.step InprocReg.fixed p.2 (.connect n)).2 = .err) :=
  connect_agree (rel_run ops hnew rel_init) n

end RegRefine
