import IpcModel.Wire
/-! Round trip and totality of the wire decoder (helper lemmas; property theorems in `Props/`). -/
namespace Wire

theorem unle_le (k n : Nat) (h : n < 256 ^ k) : unle (le k n) = n := by
  induction k generalizing n with
  | zero => simp [le, unle]; omega
  | succ k ih =>
    simp only [le, unle]
    have : n / 256 < 256 ^ k := by
      rw [Nat.pow_succ] at h; omega
    rw [ih _ this]; omega

theorem le_length (k n : Nat) : (le k n).length = k := by
  induction k generalizing n with
  | zero => rfl
  | succ k ih => simp [le, ih]

theorem take_le (k n : Nat) (r : Bytes) :
    (le k n ++ r).take k = le k n ∧ (le k n ++ r).drop k = r ∧ k ≤ (le k n ++ r).length := by
  have h := le_length k n
  refine ⟨?_, ?_, ?_⟩
  · rw [List.take_append_of_le_length (by omega)]; rw [List.take_of_length_le (by omega)]
  · rw [List.drop_append_of_le_length (by omega)]; rw [List.drop_of_length_le (by omega)]; simp
  · simp; omega

theorem get_mid {α} (pre : List α) (x : α) (post : List α) : (pre ++ x :: post)[pre.length]? = some x := by
  simp

theorem set_mid {α} (pre : List α) (x y : α) (post : List α) :
    (pre ++ x :: post).set pre.length y = pre ++ y :: post := by
  simp [List.set_append]

/-- the slots left by a successful decode of `v`: exactly `v`'s own slots are emptied -/
def usedC (v : Value) : List (Option Att) := (chans v).map fun _ => none
def usedS (v : Value) : List (Option Nat) := (shms v).map fun _ => none
def usedCL (vs : List Value) : List (Option Att) := (chansList vs).map fun _ => none
def usedSL (vs : List Value) : List (Option Nat) := (shmsList vs).map fun _ => none

mutual
theorem dec_enc : ∀ (v : Value) (s : Schema), HasType v s →
    ∀ (preC postC : List (Option Att)) (preS postS : List (Option Nat)) (r : Bytes) (f : Nat), vsize v < f →
      preC.length + (chans v).length < 256 ^ 8 → preS.length + (shms v).length < USIZE_MAX →
      dec ⟨false⟩ f s (enc v preC.length preS.length ++ r)
          ⟨preC ++ ((chans v).map some ++ postC), preS ++ ((shms v).map some ++ postS)⟩
        = .ok v r ⟨preC ++ (usedC v ++ postC), preS ++ (usedS v ++ postS)⟩
  | .int w n, _, .int hn, preC, postC, preS, postS, r, f+1, _, _, _ => by
      have := take_le w n r
      simp [enc, dec, this.1, this.2.1, unle_le w n hn, le_length, chans, shms, usedC, usedS]
  | .bool true, _, .bool, preC, postC, preS, postS, r, f+1, _, _, _ => by
      simp [enc, dec, chans, shms, usedC, usedS]
  | .bool false, _, .bool, preC, postC, preS, postS, r, f+1, _, _, _ => by
      simp [enc, dec, chans, shms, usedC, usedS]
  | .str bs, _, .str hv hl, preC, postC, preS, postS, r, f+1, _, _, _ => by
      have h8 := take_le 8 bs.length (bs ++ r)
      simp [enc, dec, List.append_assoc, h8.1, h8.2.1, unle_le 8 _ hl, le_length, hv, chans, shms, usedC, usedS]
  | .opt none, _, .none, preC, postC, preS, postS, r, f+1, _, _, _ => by
      simp [enc, dec, chans, shms, usedC, usedS]
  | .opt (some v), _, .some hv, preC, postC, preS, postS, r, f+1, hf, hc, hs => by
      have := dec_enc v _ hv preC postC preS postS r f (by simp [vsize] at hf; omega)
        (by simpa [chans] using hc) (by simpa [shms] using hs)
      simp [enc, dec, chans, shms, usedC, usedS] at this ⊢
      simp [this]
  | .seq vs, _, .seq hvs hl, preC, postC, preS, postS, r, f+1, hf, hc, hs => by
      have h8 := take_le 8 vs.length (encList vs preC.length preS.length ++ r)
      have := decN_enc vs _ hvs preC postC preS postS r f (by simp [vsize] at hf; omega)
        (by simpa [chans] using hc) (by simpa [shms] using hs)
      simp [enc, dec, List.append_assoc, h8.1, h8.2.1, unle_le 8 _ hl, le_length, chans, shms, usedC, usedS, usedCL, usedSL] at this ⊢
      simp [this]
  | .tup vs, _, .tup hvs, preC, postC, preS, postS, r, f+1, hf, hc, hs => by
      have := decT_enc vs _ hvs preC postC preS postS r f (by simp [vsize] at hf; omega)
        (by simpa [chans] using hc) (by simpa [shms] using hs)
      simp [enc, dec, chans, shms, usedC, usedS, usedCL, usedSL] at this ⊢
      simp [this]
  | .var k v, _, .var (s := s) hk hk4 hv, preC, postC, preS, postS, r, f+1, hf, hc, hs => by
      have h4 := take_le 4 k (enc v preC.length preS.length ++ r)
      have := dec_enc v s hv preC postC preS postS r f (by simp [vsize] at hf; omega)
        (by simpa [chans] using hc) (by simpa [shms] using hs)
      simp [enc, dec, List.append_assoc, h4.1, h4.2.1, unle_le 4 _ hk4, le_length, hk, chans, shms, usedC, usedS] at this ⊢
      simp [this]
  | .sender a, _, .sender, preC, postC, preS, postS, r, f+1, _, hc, _ => by
      have h8 := take_le 8 preC.length r
      have hl : preC.length < 256 ^ 8 := by simp [chans] at hc; omega
      simp [enc, dec, h8.1, h8.2.1, unle_le 8 _ hl, le_length, chans, shms, usedC, usedS, takeChan, get_mid, set_mid]
  | .receiver a, _, .receiver, preC, postC, preS, postS, r, f+1, _, hc, _ => by
      have h8 := take_le 8 preC.length r
      have hl : preC.length < 256 ^ 8 := by simp [chans] at hc; omega
      simp [enc, dec, h8.1, h8.2.1, unle_le 8 _ hl, le_length, chans, shms, usedC, usedS, takeChan, get_mid, set_mid]
  | .shm x, _, .shm, preC, postC, preS, postS, r, f+1, _, _, hs => by
      have h8 := take_le 8 preS.length r
      have hl : preS.length < 256 ^ 8 := by simp [shms, USIZE_MAX] at hs; omega
      have hne : ¬ preS.length = USIZE_MAX := by simp [shms] at hs; omega
      simp [enc, dec, h8.1, h8.2.1, unle_le 8 _ hl, le_length, chans, shms, usedC, usedS, takeShm, hne, get_mid, set_mid]
  | .eshm, _, .eshm, preC, postC, preS, postS, r, f+1, _, _, _ => by
      have h8 := take_le 8 USIZE_MAX r
      have hl : USIZE_MAX < 256 ^ 8 := by decide
      simp [enc, dec, h8.1, h8.2.1, unle_le 8 _ hl, le_length, chans, shms, usedC, usedS, takeShm]
theorem decN_enc : ∀ (vs : List Value) (s : Schema), AllType vs s →
    ∀ (preC postC : List (Option Att)) (preS postS : List (Option Nat)) (r : Bytes) (f : Nat), vsizeL vs < f →
      preC.length + (chansList vs).length < 256 ^ 8 → preS.length + (shmsList vs).length < USIZE_MAX →
      dec.decN ⟨false⟩ f s vs.length (encList vs preC.length preS.length ++ r)
          ⟨preC ++ ((chansList vs).map some ++ postC), preS ++ ((shmsList vs).map some ++ postS)⟩
        = .ok vs r ⟨preC ++ (usedCL vs ++ postC), preS ++ (usedSL vs ++ postS)⟩
  | [], _, _, preC, postC, preS, postS, r, f+1, _, _, _ => by
      simp [encList, dec.decN, chansList, shmsList, usedCL, usedSL]
  | v :: vs, s, .cons hv hvs, preC, postC, preS, postS, r, f+1, hf, hc, hs => by
      simp only [chansList, shmsList, List.length_append] at hc hs
      have h1 := dec_enc v s hv preC ((chansList vs).map some ++ postC) preS ((shmsList vs).map some ++ postS)
        (encList vs (preC.length + (chans v).length) (preS.length + (shms v).length) ++ r) f
        (by simp [vsizeL] at hf; omega) (by omega) (by omega)
      have h2 := decN_enc vs s hvs (preC ++ usedC v) postC (preS ++ usedS v) postS r f
        (by simp [vsizeL] at hf; omega) (by simp [usedC]; omega) (by simp [usedS]; omega)
      simp only [List.length_append, usedC, usedS, List.length_map] at h2
      simp only [encList, dec.decN, chansList, shmsList, List.map_append, List.append_assoc, List.length_cons,
        usedCL, usedSL, usedC, usedS] at h1 h2 ⊢
      rw [h1]; simp only; rw [h2]
theorem decT_enc : ∀ (vs : List Value) (ss : List Schema), TupType vs ss →
    ∀ (preC postC : List (Option Att)) (preS postS : List (Option Nat)) (r : Bytes) (f : Nat), vsizeL vs < f →
      preC.length + (chansList vs).length < 256 ^ 8 → preS.length + (shmsList vs).length < USIZE_MAX →
      dec.decT ⟨false⟩ f ss (encList vs preC.length preS.length ++ r)
          ⟨preC ++ ((chansList vs).map some ++ postC), preS ++ ((shmsList vs).map some ++ postS)⟩
        = .ok vs r ⟨preC ++ (usedCL vs ++ postC), preS ++ (usedSL vs ++ postS)⟩
  | [], _, .nil, preC, postC, preS, postS, r, f+1, _, _, _ => by
      simp [encList, dec.decT, chansList, shmsList, usedCL, usedSL]
  | v :: vs, _, .cons (s := s) (ss := ss) hv hvs, preC, postC, preS, postS, r, f+1, hf, hc, hs => by
      simp only [chansList, shmsList, List.length_append] at hc hs
      have h1 := dec_enc v s hv preC ((chansList vs).map some ++ postC) preS ((shmsList vs).map some ++ postS)
        (encList vs (preC.length + (chans v).length) (preS.length + (shms v).length) ++ r) f
        (by simp [vsizeL] at hf; omega) (by omega) (by omega)
      have h2 := decT_enc vs ss hvs (preC ++ usedC v) postC (preS ++ usedS v) postS r f
        (by simp [vsizeL] at hf; omega) (by simp [usedC]; omega) (by simp [usedS]; omega)
      simp only [List.length_append, usedC, usedS, List.length_map] at h2
      simp only [encList, dec.decT, chansList, shmsList, List.map_append, List.append_assoc,
        usedCL, usedSL, usedC, usedS] at h1 h2 ⊢
      rw [h1]; simp only; rw [h2]
end

/-! ### totality of the repaired decoder -/


theorem takeChan_ne_panic (mk : Att → Value) (w : Nat) (r : Bytes) (sl : Slots) : takeChan ⟨false⟩ mk w r sl ≠ .panic := by
  unfold takeChan; split <;> simp
theorem takeShm_ne_panic (w : Nat) (r : Bytes) (sl : Slots) : takeShm ⟨false⟩ w r sl ≠ .panic := by
  unfold takeShm; split <;> (try split) <;> simp

theorem dec_ne_panic_all (f : Nat) :
    (∀ s bs sl, dec ⟨false⟩ f s bs sl ≠ .panic) ∧
    (∀ s n bs sl, dec.decN ⟨false⟩ f s n bs sl ≠ .panic) ∧
    (∀ ss bs sl, dec.decT ⟨false⟩ f ss bs sl ≠ .panic) := by
  induction f with
  | zero => simp [dec, dec.decN, dec.decT]
  | succ f ih =>
    obtain ⟨ih1, ih2, ih3⟩ := ih
    refine ⟨?_, ?_, ?_⟩
    · intro s bs sl
      unfold dec
      split <;> try simp
      all_goals (try (injection ‹_ + 1 = Nat.succ _› with hh; subst hh))
      all_goals (repeat' split)
      all_goals (first
        | (simp; done)
        | (exfalso; first | exact ih1 _ _ _ ‹_› | exact ih2 _ _ _ _ ‹_› | exact ih3 _ _ _ ‹_›)
        | exact takeChan_ne_panic _ _ _ _
        | exact takeShm_ne_panic _ _ _)
    · intro s n bs sl
      unfold dec.decN
      split <;> try simp
      all_goals (try (injection ‹_ + 1 = Nat.succ _› with hh; subst hh))
      all_goals (repeat' split)
      all_goals (first
        | (simp; done)
        | (exfalso; first | exact ih1 _ _ _ ‹_› | exact ih2 _ _ _ _ ‹_› | exact ih3 _ _ _ ‹_›))
    · intro s bs sl
      unfold dec.decT
      split <;> try simp
      all_goals (try (injection ‹_ + 1 = Nat.succ _› with hh; subst hh))
      all_goals (repeat' split)
      all_goals (first
        | (simp; done)
        | (exfalso; first | exact ih1 _ _ _ ‹_› | exact ih2 _ _ _ _ ‹_› | exact ih3 _ _ _ ‹_›))

/-! ### soundness: endpoints come from distinct slots of this message -/


def liveC (sl : Slots) : List Att := sl.chans.filterMap id
def liveS (sl : Slots) : List Nat := sl.shms.filterMap id

mutual
def hasBogus : Value → Bool
  | .opt (some v) => hasBogus v
  | .seq vs => hasBogusL vs
  | .tup vs => hasBogusL vs
  | .var _ v => hasBogus v
  | .bogus => true
  | _ => false
def hasBogusL : List Value → Bool
  | [] => false
  | v :: vs => hasBogus v || hasBogusL vs
end

theorem filterMap_set_none {α} (l : List (Option α)) (i : Nat) (a : α) (h : l[i]? = some (some a)) :
    (l.filterMap id).Perm (a :: (l.set i none).filterMap id) := by
  induction l generalizing i with
  | nil => simp at h
  | cons x l ih =>
    cases i with
    | zero =>
      simp at h; subst h; simp
    | succ i =>
      simp at h
      have := ih i h
      cases x with
      | none => simpa using this
      | some b =>
        simp only [List.set_cons_succ, List.filterMap_cons, id]
        exact (List.Perm.cons b this).trans (List.Perm.swap a b _)

def Sound (sl : Slots) (v : Value) (sl' : Slots) : Prop :=
  (liveC sl).Perm (chans v ++ liveC sl') ∧ (liveS sl).Perm (shms v ++ liveS sl') ∧ hasBogus v = false
def SoundL (sl : Slots) (vs : List Value) (sl' : Slots) : Prop :=
  (liveC sl).Perm (chansList vs ++ liveC sl') ∧ (liveS sl).Perm (shmsList vs ++ liveS sl') ∧ hasBogusL vs = false

theorem Sound.leaf (sl : Slots) (v : Value) (hc : chans v = []) (hs : shms v = []) (hb : hasBogus v = false) : Sound sl v sl := by
  simp [Sound, hc, hs, hb]

theorem SoundL.cons {sl sl1 sl2 : Slots} {v : Value} {vs : List Value} (h1 : Sound sl v sl1) (h2 : SoundL sl1 vs sl2) :
    SoundL sl (v :: vs) sl2 := by
  refine ⟨?_, ?_, ?_⟩
  · simp only [chansList, List.append_assoc]
    exact h1.1.trans (List.Perm.append_left _ h2.1)
  · simp only [shmsList, List.append_assoc]
    exact h1.2.1.trans (List.Perm.append_left _ h2.2.1)
  · simp [hasBogusL, h1.2.2, h2.2.2]

theorem takeChan_sound (mk : Att → Value) (hmk : ∀ a, chans (mk a) = [a] ∧ shms (mk a) = [] ∧ hasBogus (mk a) = false)
    (w : Nat) (r : Bytes) (sl : Slots) (v : Value) (r' : Bytes) (sl' : Slots)
    (h : takeChan ⟨false⟩ mk w r sl = .ok v r' sl') : Sound sl v sl' := by
  unfold takeChan at h
  split at h
  · simp at h
  · simp at h
  · rename_i a ha
    simp at h
    obtain ⟨rfl, _, rfl⟩ := h
    refine ⟨?_, ?_, (hmk a).2.2⟩
    · rw [(hmk a).1]; exact filterMap_set_none _ _ _ ha
    · rw [(hmk a).2.1]; simp [liveS]

theorem takeShm_sound (w : Nat) (r : Bytes) (sl : Slots) (v : Value) (r' : Bytes) (sl' : Slots)
    (h : takeShm ⟨false⟩ w r sl = .ok v r' sl') : Sound sl v sl' := by
  unfold takeShm at h
  split at h
  · simp at h; obtain ⟨rfl, _, rfl⟩ := h; exact Sound.leaf _ _ (by simp [chans]) (by simp [shms]) (by simp [hasBogus])
  · split at h
    · simp at h
    · simp at h
    · rename_i x hx
      simp at h
      obtain ⟨rfl, _, rfl⟩ := h
      refine ⟨?_, ?_, by simp [hasBogus]⟩
      · simp [chans, liveC]
      · simp only [shms]; exact filterMap_set_none _ _ _ hx

theorem dec_sound_all (f : Nat) :
    (∀ s bs sl v r sl', dec ⟨false⟩ f s bs sl = .ok v r sl' → Sound sl v sl') ∧
    (∀ s n bs sl vs r sl', dec.decN ⟨false⟩ f s n bs sl = .ok vs r sl' → SoundL sl vs sl') ∧
    (∀ ss bs sl vs r sl', dec.decT ⟨false⟩ f ss bs sl = .ok vs r sl' → SoundL sl vs sl') := by
  induction f with
  | zero => simp [dec, dec.decN, dec.decT]
  | succ f ih =>
    obtain ⟨ih1, ih2, ih3⟩ := ih
    refine ⟨?_, ?_, ?_⟩
    · intro s bs sl v r sl' h
      unfold dec at h
      split at h
      all_goals (try (injection ‹_ + 1 = Nat.succ _› with hh; subst hh))
      all_goals (try dsimp only at h)
      all_goals (repeat' (split at h))
      all_goals (try (simp at h; done))
      all_goals (first
        | (exact takeChan_sound _ (by intro a; simp [chans, shms, hasBogus]) _ _ _ _ _ _ h)
        | (exact takeShm_sound _ _ _ _ _ _ h)
        | skip)
      all_goals (try (simp only [DRes.ok.injEq] at h; obtain ⟨rfl, _, rfl⟩ := h))
      all_goals (first
        | (exact Sound.leaf _ _ (by simp [chans]) (by simp [shms]) (by simp [hasBogus]))
        | (have := ih1 _ _ _ _ _ _ ‹dec _ _ _ _ _ = _›; simpa [Sound, chans, shms, hasBogus] using this)
        | (have := ih2 _ _ _ _ _ _ _ ‹dec.decN _ _ _ _ _ _ = _›; simpa [Sound, SoundL, chans, shms, hasBogus] using this)
        | (have := ih3 _ _ _ _ _ _ ‹dec.decT _ _ _ _ _ = _›; simpa [Sound, SoundL, chans, shms, hasBogus] using this))
    · intro s n bs sl vs r sl' h
      unfold dec.decN at h
      split at h
      all_goals (try (injection ‹_ + 1 = Nat.succ _› with hh; subst hh))
      all_goals (repeat' (split at h))
      all_goals (try (simp at h; done))
      all_goals (try (simp only [DRes.ok.injEq] at h; obtain ⟨rfl, _, rfl⟩ := h))
      all_goals (first
        | (simp [SoundL, chansList, shmsList, hasBogusL]; done)
        | (exact SoundL.cons (ih1 _ _ _ _ _ _ ‹dec _ _ _ _ _ = _›) (ih2 _ _ _ _ _ _ _ ‹dec.decN _ _ _ _ _ _ = _›)))
    · intro ss bs sl vs r sl' h
      unfold dec.decT at h
      split at h
      all_goals (try (injection ‹_ + 1 = Nat.succ _› with hh; subst hh))
      all_goals (repeat' (split at h))
      all_goals (try (simp at h; done))
      all_goals (try (simp only [DRes.ok.injEq] at h; obtain ⟨rfl, _, rfl⟩ := h))
      all_goals (first
        | (simp [SoundL, chansList, shmsList, hasBogusL]; done)
        | (exact SoundL.cons (ih1 _ _ _ _ _ _ ‹dec _ _ _ _ _ = _›) (ih3 _ _ _ _ _ _ ‹dec.decT _ _ _ _ _ = _›)))

end Wire
