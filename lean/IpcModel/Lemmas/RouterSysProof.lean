import IpcModel.RouterSys
/-! Invariant of the closed router system (repaired code), "shutdown returns only when stopped", and absence of stuck states. -/
namespace RSys

structure Inv (st : St) : Prop where
  ackStopped : st.ackReleased = true → st.rpc = .stopped ∧ st.handlers = []
  stoppedAck : st.rpc = .stopped → st.ackReleased = true
  ackFlag : st.ackReleased = true → st.flag = true
  /-- no lost wake-up: whatever is queued for the router will be looked at -/
  noLost : st.msgq ≠ [] → st.rpc = .stopped ∨ st.rpc = .wakeRecv ∨ st.rpc = .draining ∨ 0 < st.wakeq
  /-- the flag is set from the moment a wake-up is sent until the router, having taken it, clears it -/
  pendingSeen : st.wakePending = true → 0 < st.wakeq ∨ st.rpc = .wakeRecv
  mutexThread : ∀ i, st.mutex = some (i + 1) ↔ (st.threads i).ph = .holding
  mutexRouter : st.mutex = some 0 ↔ ∃ r n, st.rpc = .cbHolding r n
  flagMsg : st.flag = true → RMsg.shutdown ∈ st.msgq ∨ st.rpc = .stopped
  msgFlag : RMsg.shutdown ∈ st.msgq → st.flag = true
  waitFlag : ∀ i, (st.threads i).ph = .waiting → st.flag = true
  busyTodo : ∀ i, (st.threads i).ph ≠ .ready → (st.threads i).todo ≠ []

theorem inv_init (threads : List (List Call)) (routes : List Nat) (traffic : List (Nat × Nat)) : Inv (init threads routes traffic) := by
  refine ⟨by simp [init], by simp [init], by simp [init], by simp [init], by simp [init], ?_, ?_, by simp [init], by simp [init], ?_, ?_⟩
  · intro i; simp [init]
  · simp [init]
  · intro i; simp [init]
  · intro i; simp [init]

/-- what `wake` guarantees: only the wake-up bookkeeping changes, and afterwards a wake-up is on its way or being served -/
theorem wake_facts (st : St) :
    (wake st).flag = st.flag ∧ (wake st).ackReleased = st.ackReleased ∧ (wake st).rpc = st.rpc ∧ (wake st).handlers = st.handlers ∧
    (wake st).threads = st.threads ∧ (wake st).mutex = st.mutex ∧ (wake st).msgq = st.msgq ∧ st.wakeq ≤ (wake st).wakeq ∧
    (wake st).wakePending = true ∧
    ((st.wakePending = true → 0 < st.wakeq ∨ st.rpc = .wakeRecv) → 0 < (wake st).wakeq ∨ (wake st).rpc = .wakeRecv) := by
  unfold wake
  by_cases h : st.wakePending = true
  · simp [h]
  · simp [h]

theorem addRouteBody_facts (st : St) (r : Nat) (hp : st.wakePending = true → 0 < st.wakeq ∨ st.rpc = .wakeRecv) :
    (addRouteBody st r).flag = st.flag ∧ (addRouteBody st r).ackReleased = st.ackReleased ∧ (addRouteBody st r).rpc = st.rpc ∧
    (addRouteBody st r).handlers = st.handlers ∧ (addRouteBody st r).threads = st.threads ∧ (addRouteBody st r).mutex = st.mutex ∧
    (RMsg.shutdown ∈ (addRouteBody st r).msgq ↔ RMsg.shutdown ∈ st.msgq) ∧
    (((addRouteBody st r).msgq ≠ [] → st.msgq ≠ [] ∨ 0 < (addRouteBody st r).wakeq ∨ (addRouteBody st r).rpc = .wakeRecv)) ∧
    st.wakeq ≤ (addRouteBody st r).wakeq ∧
    ((addRouteBody st r).wakePending = true → 0 < (addRouteBody st r).wakeq ∨ (addRouteBody st r).rpc = .wakeRecv) := by
  unfold addRouteBody
  by_cases hf : st.flag = true
  · rw [if_pos hf]
    exact ⟨rfl, rfl, rfl, rfl, rfl, rfl, Iff.rfl, fun h => Or.inl h, Nat.le_refl _, hp⟩
  · rw [if_neg hf]
    obtain ⟨w1, w2, w3, w4, w5, w6, w7, w8, w9, w10⟩ := wake_facts { st with msgq := st.msgq ++ [.addRoute r] }
    refine ⟨w1, w2, w3, w4, w5, w6, ?_, ?_, w8, ?_⟩
    · rw [w7]; simp
    · intro _; right; exact w10 hp
    · intro _; exact w10 hp

@[simp] theorem thread_self (st : St) (i : Nat) (t : Thread) : (setThread st i t).threads i = t := by simp [setThread]
theorem thread_other (st : St) (i j : Nat) (t : Thread) (h : j ≠ i) : (setThread st i t).threads j = st.threads j := by simp [setThread, h]

/-- updating thread `i` to `t'` and the mutex to `mx'`, everything else as in `core` (which agrees with `st` on the thread table) -/
theorem inv_thread_update (st core : St) (i : Nat) (t' : Thread) (mx' : Option Nat)
    (hcore : core.threads = st.threads)
    (h1 : core.ackReleased = true → core.rpc = .stopped ∧ core.handlers = [])
    (h2 : core.rpc = .stopped → core.ackReleased = true)
    (h3 : core.ackReleased = true → core.flag = true)
    (h4 : core.msgq ≠ [] → core.rpc = .stopped ∨ core.rpc = .wakeRecv ∨ core.rpc = .draining ∨ 0 < core.wakeq)
    (h4' : core.wakePending = true → 0 < core.wakeq ∨ core.rpc = .wakeRecv)
    (h5 : ∀ j, j ≠ i → (mx' = some (j + 1) ↔ (st.threads j).ph = .holding))
    (h5' : mx' = some (i + 1) ↔ t'.ph = .holding)
    (h6 : mx' = some 0 ↔ ∃ r n, core.rpc = .cbHolding r n)
    (h7 : core.flag = true → RMsg.shutdown ∈ core.msgq ∨ core.rpc = .stopped)
    (h8 : RMsg.shutdown ∈ core.msgq → core.flag = true)
    (h9 : ∀ j, j ≠ i → (st.threads j).ph = .waiting → core.flag = true)
    (h9' : t'.ph = .waiting → core.flag = true)
    (h10 : ∀ j, j ≠ i → (st.threads j).ph ≠ .ready → (st.threads j).todo ≠ [])
    (h10' : t'.ph ≠ .ready → t'.todo ≠ []) :
    Inv (setThread { core with mutex := mx' } i t') := by
  refine ⟨h1, h2, h3, h4, h4', ?_, h6, h7, h8, ?_, ?_⟩
  · intro j
    by_cases hji : j = i
    · subst hji; simp only [setThread, if_true]; exact h5'
    · simp only [setThread, hji, if_false]; rw [hcore]; exact h5 j hji
  · intro j
    by_cases hji : j = i
    · subst hji; simp only [setThread, if_true]; exact h9'
    · simp only [setThread, hji, if_false]; rw [hcore]; exact h9 j hji
  · intro j
    by_cases hji : j = i
    · subst hji; simp only [setThread, if_true]; exact h10'
    · simp only [setThread, hji, if_false]; rw [hcore]; exact h10 j hji

theorem inv_step (st st' : St) (a : Act) (hi : Inv st) (h : step fixed st a = some st') : Inv st' := by
  cases a with
  | thread i =>
    simp only [step] at h
    cases hph : (st.threads i).ph <;> cases htd : (st.threads i).todo <;> simp only [hph, htd] at h
    all_goals first | (simp at h; done) | skip
    · -- ready, c :: rest: acquire the mutex
      rename_i c rest
      split at h
      · rename_i hm
        simp only [Option.some.injEq] at h; subst h
        apply inv_thread_update st st i _ (some (i + 1)) rfl hi.ackStopped hi.stoppedAck hi.ackFlag hi.noLost hi.pendingSeen
        · intro j hji
          constructor
          · intro e; simp at e; omega
          · intro e; have := (hi.mutexThread j).mpr e; rw [hm] at this; cases this
        · simp
        · constructor
          · intro e; simp at e
          · intro e; have := hi.mutexRouter.mpr e; rw [hm] at this; cases this
        · exact hi.flagMsg
        · exact hi.msgFlag
        · exact fun j _ => hi.waitFlag j
        · simp
        · exact fun j _ => hi.busyTodo j
        · simp [htd]
      · simp at h
    · -- holding, c :: rest
      rename_i c rest
      have hmi : st.mutex = some (i + 1) := (hi.mutexThread i).mpr hph
      have hothers : ∀ j, j ≠ i → ((none : Option Nat) = some (j + 1) ↔ (st.threads j).ph = .holding) := by
        intro j hji
        constructor
        · intro e; cases e
        · intro e
          have := (hi.mutexThread j).mpr e
          rw [hmi] at this; simp at this; exact absurd this.symm hji
      have hnr : ((none : Option Nat) = some 0 ↔ ∃ r n, st.rpc = .cbHolding r n) := by
        constructor
        · intro e; cases e
        · intro e; have := hi.mutexRouter.mpr e; rw [hmi] at this; cases this
      cases c with
      | addRoute r =>
        simp only [Option.some.injEq] at h; subst h
        obtain ⟨f1, f2, f3, f4, f5, f6, f7, f8, f9, f10⟩ := addRouteBody_facts st r hi.pendingSeen
        apply inv_thread_update st (addRouteBody st r) i _ none f5
        · rw [f2, f3, f4]; exact hi.ackStopped
        · rw [f2, f3]; exact hi.stoppedAck
        · rw [f1, f2]; exact hi.ackFlag
        · intro hne
          rcases f8 hne with p | p | p
          · rcases hi.noLost p with q | q | q | q
            · exact Or.inl (by rw [f3]; exact q)
            · exact Or.inr (Or.inl (by rw [f3]; exact q))
            · exact Or.inr (Or.inr (Or.inl (by rw [f3]; exact q)))
            · exact Or.inr (Or.inr (Or.inr (by omega)))
          · exact Or.inr (Or.inr (Or.inr p))
          · exact Or.inr (Or.inl p)
        · exact f10
        · exact hothers
        · simp
        · rw [f3]; exact hnr
        · rw [f1, f3]; intro hf; rcases hi.flagMsg hf with p | p
          · exact Or.inl (f7.mpr p)
          · exact Or.inr p
        · rw [f1]; intro hm; exact hi.msgFlag (f7.mp hm)
        · rw [f1]; exact fun j _ => hi.waitFlag j
        · simp
        · exact fun j _ => hi.busyTodo j
        · simp
      | shutdown =>
        simp only [fixed, Bool.false_eq_true, if_false, Option.some.injEq] at h
        by_cases hf : st.flag = true
        · rw [if_pos hf] at h; subst h
          apply inv_thread_update st st i _ none rfl hi.ackStopped hi.stoppedAck hi.ackFlag hi.noLost hi.pendingSeen hothers (by simp) hnr
            hi.flagMsg hi.msgFlag (fun j _ => hi.waitFlag j) (fun _ => hf) (fun j _ => hi.busyTodo j) (by simp)
        · rw [if_neg hf] at h; subst h
          have hnack : st.ackReleased = false := by
            cases hc : st.ackReleased with
            | false => rfl
            | true => exact absurd (hi.ackFlag hc) hf
          have hns : st.rpc ≠ .stopped := fun e => by have := hi.stoppedAck e; rw [hnack] at this; cases this
          obtain ⟨w1, w2, w3, w4, w5, w6, w7, w8, w9, w10⟩ := wake_facts { st with flag := true, msgq := st.msgq ++ [.shutdown] }
          apply inv_thread_update st (wake { st with flag := true, msgq := st.msgq ++ [.shutdown] }) i _ none w5
          · intro hc; rw [w2] at hc; simp only at hc; rw [hnack] at hc; cases hc
          · intro e; rw [w3] at e; exact absurd e hns
          · intro _; rw [w1]
          · intro _
            rcases w10 hi.pendingSeen with p | p
            · exact Or.inr (Or.inr (Or.inr p))
            · exact Or.inr (Or.inl p)
          · intro _; exact w10 hi.pendingSeen
          · exact hothers
          · simp
          · rw [w3]; exact hnr
          · intro _; left; rw [w7]; simp
          · intro _; rw [w1]
          · intro j _ _; rw [w1]
          · intro _; rw [w1]
          · exact fun j _ => hi.busyTodo j
          · simp
    · -- waiting, c :: rest: the acknowledgement has been released
      rename_i c rest
      split at h
      · rename_i hack
        simp only [fixed, Bool.false_eq_true, if_false, Option.some.injEq] at h; subst h
        apply inv_thread_update st st i _ st.mutex rfl hi.ackStopped hi.stoppedAck hi.ackFlag hi.noLost hi.pendingSeen
        · exact fun j _ => hi.mutexThread j
        · constructor
          · intro e; have := (hi.mutexThread i).mp e; rw [hph] at this; cases this
          · intro e; cases e
        · exact hi.mutexRouter
        · exact hi.flagMsg
        · exact hi.msgFlag
        · exact fun j _ => hi.waitFlag j
        · simp
        · exact fun j _ => hi.busyTodo j
        · simp
      · simp at h
  | router =>
    simp only [step] at h
    have hnack_of : st.rpc ≠ .stopped → st.ackReleased = false := by
      intro hns
      cases hc : st.ackReleased with
      | false => rfl
      | true => exact absurd (hi.ackStopped hc).1 hns
    cases hr : st.rpc with
    | select =>
      simp only [hr] at h
      split at h
      · simp at h
      · rename_i hw
        simp only [Option.some.injEq] at h; subst h
        have hnack := hnack_of (by rw [hr]; exact fun e => by cases e)
        refine ⟨(by intro hc; simp only at hc; rw [hnack] at hc; cases hc), (by intro e; cases e), hi.ackFlag, (fun _ => Or.inr (Or.inl rfl)),
                (fun _ => Or.inr rfl), hi.mutexThread, ?_, ?_, hi.msgFlag, hi.waitFlag, hi.busyTodo⟩
        · constructor
          · intro e; have := hi.mutexRouter.mp e; rw [hr] at this; obtain ⟨_, _, e⟩ := this; cases e
          · intro ⟨_, _, e⟩; cases e
        · intro hf; rcases hi.flagMsg hf with p | p
          · exact Or.inl p
          · rw [hr] at p; cases p
    | wakeRecv =>
      simp only [hr, Option.some.injEq] at h; subst h
      have hnack := hnack_of (by rw [hr]; exact fun e => by cases e)
      refine ⟨(by intro hc; simp only at hc; rw [hnack] at hc; cases hc), (by intro e; cases e), hi.ackFlag, (fun _ => Or.inr (Or.inr (Or.inl rfl))),
              (by intro e; cases e), hi.mutexThread, ?_, ?_, hi.msgFlag, hi.waitFlag, hi.busyTodo⟩
      · constructor
        · intro e; have := hi.mutexRouter.mp e; rw [hr] at this; obtain ⟨_, _, e⟩ := this; cases e
        · intro ⟨_, _, e⟩; cases e
      · intro hf; rcases hi.flagMsg hf with p | p
        · exact Or.inl p
        · rw [hr] at p; cases p
    | draining =>
      simp only [hr] at h
      have hnack := hnack_of (by rw [hr]; exact fun e => by cases e)
      have hnm0 : st.mutex ≠ some 0 := fun e => by have := hi.mutexRouter.mp e; rw [hr] at this; obtain ⟨_, _, e⟩ := this; cases e
      have hps : st.wakePending = true → 0 < st.wakeq := by
        intro hp; rcases hi.pendingSeen hp with p | p
        · exact p
        · rw [hr] at p; cases p
      cases hq : st.msgq with
      | nil =>
        simp only [hq, Option.some.injEq] at h; subst h
        refine ⟨(by intro hc; simp only at hc; rw [hnack] at hc; cases hc), (by intro e; cases e), hi.ackFlag, (by intro hne; exact absurd rfl hne),
                (fun hp => Or.inl (hps hp)), hi.mutexThread, ?_, ?_, (by intro hm; cases hm), hi.waitFlag, hi.busyTodo⟩
        · constructor
          · intro e; exact absurd e hnm0
          · intro ⟨_, _, e⟩; cases e
        · intro hf; rcases hi.flagMsg hf with p | p
          · rw [hq] at p; cases p
          · rw [hr] at p; cases p
      | cons m q =>
        cases m with
        | addRoute r =>
          simp only [hq, Option.some.injEq] at h; subst h
          refine ⟨(by intro hc; simp only at hc; rw [hnack] at hc; cases hc), (by intro e; cases e), hi.ackFlag,
                  (fun _ => Or.inr (Or.inr (Or.inl rfl))), (fun hp => Or.inl (hps hp)), hi.mutexThread, ?_, ?_, ?_, hi.waitFlag, hi.busyTodo⟩
          · constructor
            · intro e; exact absurd e hnm0
            · intro ⟨_, _, e⟩; cases e
          · intro hf; rcases hi.flagMsg hf with p | p
            · rw [hq] at p; simp at p; exact Or.inl p
            · rw [hr] at p; cases p
          · intro hm; exact hi.msgFlag (by rw [hq]; exact List.mem_cons_of_mem _ hm)
        | shutdown =>
          simp only [hq, Option.some.injEq] at h; subst h
          have hflag : st.flag = true := hi.msgFlag (by rw [hq]; exact List.mem_cons_self)
          refine ⟨fun _ => ⟨rfl, rfl⟩, fun _ => rfl, fun _ => hflag, fun _ => Or.inl rfl, (fun hp => Or.inl (hps hp)), hi.mutexThread, ?_,
                  fun _ => Or.inr rfl, ?_, hi.waitFlag, hi.busyTodo⟩
          · constructor
            · intro e; exact absurd e hnm0
            · intro ⟨_, _, e⟩; cases e
          · intro _; exact hflag
    | callback r n =>
      have hnack := hnack_of (by rw [hr]; exact fun e => by cases e)
      have hnm0 : st.mutex ≠ some 0 := fun e => by have := hi.mutexRouter.mp e; rw [hr] at this; obtain ⟨_, _, e⟩ := this; cases e
      have hnl : st.msgq ≠ [] → 0 < st.wakeq := by
        intro hne; rcases hi.noLost hne with p | p | p | p
        · rw [hr] at p; cases p
        · rw [hr] at p; cases p
        · rw [hr] at p; cases p
        · exact p
      have hps : st.wakePending = true → 0 < st.wakeq := by
        intro hp; rcases hi.pendingSeen hp with p | p
        · exact p
        · rw [hr] at p; cases p
      cases n with
      | zero =>
        simp only [hr, Option.some.injEq] at h; subst h
        refine ⟨(by intro hc; simp only at hc; rw [hnack] at hc; cases hc), (by intro e; cases e), hi.ackFlag,
                (fun hne => Or.inr (Or.inr (Or.inr (hnl hne)))), (fun hp => Or.inl (hps hp)), hi.mutexThread, ?_, ?_, hi.msgFlag, hi.waitFlag, hi.busyTodo⟩
        · constructor
          · intro e; exact absurd e hnm0
          · intro ⟨_, _, e⟩; cases e
        · intro hf; rcases hi.flagMsg hf with p | p
          · exact Or.inl p
          · rw [hr] at p; cases p
      | succ n =>
        simp only [hr] at h
        split at h
        · rename_i hm
          simp only [Option.some.injEq] at h; subst h
          refine ⟨(by intro hc; simp only at hc; rw [hnack] at hc; cases hc), (by intro e; cases e), hi.ackFlag,
                  (fun hne => Or.inr (Or.inr (Or.inr (hnl hne)))), (fun hp => Or.inl (hps hp)), ?_, ?_, ?_, hi.msgFlag, hi.waitFlag, hi.busyTodo⟩
          · intro j
            constructor
            · intro e; cases e
            · intro e; have := (hi.mutexThread j).mpr e; rw [hm] at this; cases this
          · exact ⟨fun _ => ⟨r, n, rfl⟩, fun _ => rfl⟩
          · intro hf; rcases hi.flagMsg hf with p | p
            · exact Or.inl p
            · rw [hr] at p; cases p
        · simp at h
    | cbHolding r n =>
      simp only [hr, Option.some.injEq] at h; subst h
      obtain ⟨f1, f2, f3, f4, f5, f6, f7, f8, f9, f10⟩ := addRouteBody_facts st st.nextRoute hi.pendingSeen
      have hm0 : st.mutex = some 0 := hi.mutexRouter.mpr ⟨r, n, hr⟩
      have hnack := hnack_of (by rw [hr]; exact fun e => by cases e)
      have hnl : st.msgq ≠ [] → 0 < st.wakeq := by
        intro hne; rcases hi.noLost hne with p | p | p | p
        · rw [hr] at p; cases p
        · rw [hr] at p; cases p
        · rw [hr] at p; cases p
        · exact p
      refine ⟨(by intro hc; simp only at hc; rw [f2, hnack] at hc; cases hc), (by intro e; cases e), (by simp only; rw [f1, f2]; exact hi.ackFlag),
              ?_, ?_, ?_, ?_, ?_, ?_, ?_, ?_⟩
      · intro hne
        simp only at hne ⊢
        rcases f8 hne with p | p | p
        · exact Or.inr (Or.inr (Or.inr (by have := hnl p; omega)))
        · exact Or.inr (Or.inr (Or.inr p))
        · rw [f3, hr] at p; cases p
      · intro hp
        simp only at hp ⊢
        rcases f10 hp with p | p
        · exact Or.inl p
        · rw [f3, hr] at p; cases p
      · intro j
        simp only; rw [f5]
        constructor
        · intro e; cases e
        · intro e; have := (hi.mutexThread j).mpr e; rw [hm0] at this; cases this
      · constructor
        · intro e; cases e
        · intro ⟨_, _, e⟩; cases e
      · simp only; rw [f1]; intro hf; rcases hi.flagMsg hf with p | p
        · exact Or.inl (f7.mpr p)
        · rw [hr] at p; cases p
      · simp only; rw [f1]; intro hm; exact hi.msgFlag (f7.mp hm)
      · simp only; rw [f1, f5]; exact hi.waitFlag
      · simp only; rw [f5]; exact hi.busyTodo
    | stopped => simp [hr] at h
  | deliver k =>
    simp only [step] at h
    cases hr : st.rpc <;> simp only [hr] at h <;> try (simp at h; done)
    cases ht : st.traffic[k]? with
    | none => simp [ht] at h
    | some p =>
      obtain ⟨r, n⟩ := p
      simp only [ht] at h
      split at h
      · simp only [Option.some.injEq] at h; subst h
        have hnack : st.ackReleased = false := by
          cases hc : st.ackReleased with
          | false => rfl
          | true => have := (hi.ackStopped hc).1; rw [hr] at this; cases this
        have hnm0 : st.mutex ≠ some 0 := fun e => by have := hi.mutexRouter.mp e; rw [hr] at this; obtain ⟨_, _, e⟩ := this; cases e
        have hnl : st.msgq ≠ [] → 0 < st.wakeq := by
          intro hne; rcases hi.noLost hne with p | p | p | p
          · rw [hr] at p; cases p
          · rw [hr] at p; cases p
          · rw [hr] at p; cases p
          · exact p
        have hps : st.wakePending = true → 0 < st.wakeq := by
          intro hp; rcases hi.pendingSeen hp with p | p
          · exact p
          · rw [hr] at p; cases p
        refine ⟨(by intro hc; simp only at hc; rw [hnack] at hc; cases hc), (by intro e; cases e), hi.ackFlag,
                (fun hne => Or.inr (Or.inr (Or.inr (hnl hne)))), (fun hp => Or.inl (hps hp)), hi.mutexThread, ?_, ?_, hi.msgFlag, hi.waitFlag, hi.busyTodo⟩
        · constructor
          · intro e; exact absurd e hnm0
          · intro ⟨_, _, e⟩; cases e
        · intro hf; rcases hi.flagMsg hf with p | p
          · exact Or.inl p
          · rw [hr] at p; cases p
      · simp at h

theorem inv_run (st st' : St) (as : List Act) (hi : Inv st) (h : run fixed st as = some st') : Inv st' := by
  induction as generalizing st with
  | nil => simp [run] at h; subst h; exact hi
  | cons a as ih =>
    simp only [run] at h
    split at h
    · rename_i st1 h1; exact ih st1 (inv_step st st1 a hi h1) h
    · simp at h

/-- **shutdown returns only when stopped** — the step by which any `shutdown()` call (first or late, from any thread)
returns is enabled only in states where the router thread has stopped and holds no callback. -/
theorem shutdown_returns_stopped (st st' : St) (i : Nat) (hi : Inv st) (hw : (st.threads i).ph = .waiting)
    (h : step fixed st (.thread i) = some st') : st.rpc = .stopped ∧ st.handlers = [] ∧ st'.rpc = .stopped ∧ st'.handlers = [] := by
  simp only [step, hw] at h
  cases htd : (st.threads i).todo with
  | nil => simp [htd] at h
  | cons c rest =>
    simp only [htd] at h
    split at h
    · rename_i hack
      simp only [Option.some.injEq] at h; subst h
      have := hi.ackStopped hack
      exact ⟨this.1, this.2, this.1, this.2⟩
    · simp at h

/-- **stopped is for good** — once the router has stopped no callback is ever invoked again and none is registered -/
theorem stopped_forever (V : Variant) (st st' : St) (a : Act) (hs : st.rpc = .stopped) (hh : st.handlers = [])
    (h : step V st a = some st') : st'.rpc = .stopped ∧ st'.handlers = [] ∧ st'.invokedLog = st.invokedLog := by
  cases a with
  | thread i =>
    simp only [step] at h
    cases hph : (st.threads i).ph <;> cases htd : (st.threads i).todo <;> simp only [hph, htd] at h
    all_goals first | (simp at h; done) | skip
    · split at h
      · simp only [Option.some.injEq] at h; subst h; exact ⟨hs, hh, rfl⟩
      · simp at h
    · rename_i c rest
      cases c with
      | addRoute r =>
        simp only [Option.some.injEq] at h; subst h
        simp only [setThread, addRouteBody]
        split
        · exact ⟨hs, hh, rfl⟩
        · simp only [wake]; split <;> exact ⟨hs, hh, rfl⟩
      | shutdown =>
        simp only [Option.some.injEq] at h; subst h
        simp only [setThread]
        split
        · exact ⟨hs, hh, rfl⟩
        · simp only [wake]; split <;> exact ⟨hs, hh, rfl⟩
    · split at h
      · simp only [Option.some.injEq] at h; subst h; exact ⟨hs, hh, rfl⟩
      · simp at h
  | router => simp [step, hs] at h
  | deliver k => simp [step, hs] at h

/-- **no stuck state** — in every reachable state of the repaired system in which some proxy call has not completed, some
thread can take a step: callers of `shutdown` (first or late), callers of `add_route` on client threads and callbacks
re-entering `add_route` on the router thread never wait for each other in a cycle. -/
theorem no_stuck (st : St) (hi : Inv st) (hnf : ¬ Finished st) : ∃ a st', step fixed st a = some st' := by
  have hex : ∃ i, (st.threads i).todo ≠ [] := Classical.byContradiction fun hne =>
    hnf (fun i => Classical.byContradiction fun hi' => hne ⟨i, hi'⟩)
  obtain ⟨i, hti⟩ := hex
  -- the router can move whenever a shutdown request is queued
  have router_moves : st.flag = true → st.ackReleased = false → (∃ st', step fixed st .router = some st') ∨
      (∃ j, (st.threads j).ph = .holding) := by
    intro hf hna
    have hns : st.rpc ≠ .stopped := fun e => by have := hi.stoppedAck e; rw [hna] at this; cases this
    have hin : RMsg.shutdown ∈ st.msgq := by
      rcases hi.flagMsg hf with p | p
      · exact p
      · exact absurd p hns
    have hne : st.msgq ≠ [] := fun e => by rw [e] at hin; cases hin
    cases hr : st.rpc with
    | stopped => exact absurd hr hns
    | select =>
      left
      have hw : st.wakeq ≠ 0 := by
        rcases hi.noLost hne with p | p | p | p
        · exact absurd p hns
        · rw [hr] at p; cases p
        · rw [hr] at p; cases p
        · omega
      exact Option.isSome_iff_exists.mp (by simp [step, hr, hw])
    | wakeRecv => left; exact Option.isSome_iff_exists.mp (by simp [step, hr])
    | draining =>
      left
      cases hq : st.msgq with
      | nil => exact absurd hq hne
      | cons m q => cases m <;> exact Option.isSome_iff_exists.mp (by simp [step, hr, hq])
    | callback r n =>
      cases n with
      | zero => left; exact Option.isSome_iff_exists.mp (by simp [step, hr])
      | succ n =>
        cases hm : st.mutex with
        | none => left; exact Option.isSome_iff_exists.mp (by simp [step, hr, hm])
        | some o =>
          right
          cases o with
          | zero => have := hi.mutexRouter.mp hm; rw [hr] at this; obtain ⟨_, _, e⟩ := this; cases e
          | succ j => exact ⟨j, (hi.mutexThread j).mp hm⟩
    | cbHolding r n => left; exact Option.isSome_iff_exists.mp (by simp [step, hr])
  -- a thread inside its critical section can always move
  have holder_moves : ∀ j, (st.threads j).ph = .holding → ∃ st', step fixed st (.thread j) = some st' := by
    intro j hj
    have hne := hi.busyTodo j (by rw [hj]; exact fun e => by cases e)
    cases htd : (st.threads j).todo with
    | nil => exact absurd htd hne
    | cons c rest => cases c <;> exact Option.isSome_iff_exists.mp (by simp [step, hj, htd])
  cases hph : (st.threads i).ph with
  | holding => obtain ⟨st', h⟩ := holder_moves i hph; exact ⟨_, st', h⟩
  | ready =>
    cases htd : (st.threads i).todo with
    | nil => exact absurd htd hti
    | cons c rest =>
      cases hm : st.mutex with
      | none => exact ⟨.thread i, Option.isSome_iff_exists.mp (by simp [step, hph, htd, hm])⟩
      | some o =>
        cases o with
        | zero =>
          obtain ⟨r, n, hr⟩ := hi.mutexRouter.mp hm
          exact ⟨.router, Option.isSome_iff_exists.mp (by simp [step, hr])⟩
        | succ j => obtain ⟨st', h⟩ := holder_moves j ((hi.mutexThread j).mp hm); exact ⟨_, st', h⟩
  | waiting =>
    cases htd : (st.threads i).todo with
    | nil => exact absurd htd hti
    | cons c rest =>
      cases hack : st.ackReleased with
      | true => exact ⟨.thread i, Option.isSome_iff_exists.mp (by simp [step, hph, htd, hack])⟩
      | false =>
        rcases router_moves (hi.waitFlag i hph) hack with ⟨st', h⟩ | ⟨j, hj⟩
        · exact ⟨_, st', h⟩
        · obtain ⟨st', h⟩ := holder_moves j hj; exact ⟨_, st', h⟩

/-! ### the wake-up channel never holds more than one message -/
structure WInv (st : St) : Prop where
  atMostOne : st.wakeq ≤ 1
  queuedPending : 0 < st.wakeq → st.wakePending = true
  recvPending : st.rpc = .wakeRecv → st.wakePending = true ∧ st.wakeq = 0

theorem winv_init (threads : List (List Call)) (routes : List Nat) (traffic : List (Nat × Nat)) : WInv (init threads routes traffic) :=
  ⟨by simp [init], by simp [init], by simp [init]⟩

theorem winv_wake (st : St) (h : WInv st) : WInv (wake st) := by
  unfold wake
  by_cases hp : st.wakePending = true
  · simp only [hp, if_true]; exact h
  · have hp' : st.wakePending = false := by simpa using hp
    have hz : st.wakeq = 0 := by
      cases hq : st.wakeq with
      | zero => rfl
      | succ n => have := h.queuedPending (by omega); rw [hp'] at this; cases this
    simp only [hp', Bool.false_eq_true, if_false]
    refine ⟨by simp [hz], fun _ => rfl, ?_⟩
    intro hr; have := (h.recvPending hr).1; rw [hp'] at this; cases this

theorem winv_addRouteBody (st : St) (r : Nat) (h : WInv st) : WInv (addRouteBody st r) := by
  unfold addRouteBody
  split
  · exact ⟨h.atMostOne, h.queuedPending, h.recvPending⟩
  · exact winv_wake _ ⟨h.atMostOne, h.queuedPending, h.recvPending⟩

theorem winv_step (V : Variant) (st st' : St) (a : Act) (hw : WInv st) (h : step V st a = some st') : WInv st' := by
  cases a with
  | thread i =>
    simp only [step] at h
    cases hph : (st.threads i).ph <;> cases htd : (st.threads i).todo <;> simp only [hph, htd] at h
    all_goals first | (simp at h; done) | skip
    · split at h
      · simp only [Option.some.injEq] at h; subst h; exact ⟨hw.atMostOne, hw.queuedPending, hw.recvPending⟩
      · simp at h
    · rename_i c rest
      cases c with
      | addRoute r =>
        simp only [Option.some.injEq] at h; subst h
        have := winv_addRouteBody st r hw
        exact ⟨this.atMostOne, this.queuedPending, this.recvPending⟩
      | shutdown =>
        simp only [Option.some.injEq] at h; subst h
        by_cases hf : st.flag = true
        · simp only [hf, if_true, setThread]; exact ⟨hw.atMostOne, hw.queuedPending, hw.recvPending⟩
        · have hf' : st.flag = false := by simpa using hf
          simp only [hf', Bool.false_eq_true, if_false, setThread]
          have := winv_wake { st with flag := true, msgq := st.msgq ++ [.shutdown] } ⟨hw.atMostOne, hw.queuedPending, hw.recvPending⟩
          exact ⟨this.atMostOne, this.queuedPending, this.recvPending⟩
    · split at h
      · simp only [Option.some.injEq] at h; subst h; exact ⟨hw.atMostOne, hw.queuedPending, hw.recvPending⟩
      · simp at h
  | router =>
    simp only [step] at h
    cases hr : st.rpc with
    | select =>
      simp only [hr] at h
      split at h
      · simp at h
      · rename_i hq
        simp only [Option.some.injEq] at h; subst h
        have h1 := hw.atMostOne
        refine ⟨by simp only; omega, fun hp => by simp only at hp; omega, fun _ => ⟨hw.queuedPending (by omega), by simp only; omega⟩⟩
    | wakeRecv =>
      simp only [hr, Option.some.injEq] at h; subst h
      have := (hw.recvPending hr).2
      exact ⟨hw.atMostOne, fun hp => by simp only at hp; omega, fun e => by cases e⟩
    | draining =>
      simp only [hr] at h
      cases hq : st.msgq with
      | nil => simp only [hq, Option.some.injEq] at h; subst h; exact ⟨hw.atMostOne, hw.queuedPending, fun e => by cases e⟩
      | cons m q =>
        cases m <;> (simp only [hq, Option.some.injEq] at h; subst h)
        · exact ⟨hw.atMostOne, hw.queuedPending, fun e => by cases e⟩
        · exact ⟨hw.atMostOne, hw.queuedPending, fun e => by cases e⟩
    | callback r n =>
      cases n with
      | zero => simp only [hr, Option.some.injEq] at h; subst h; exact ⟨hw.atMostOne, hw.queuedPending, fun e => by cases e⟩
      | succ n =>
        simp only [hr] at h
        split at h
        · simp only [Option.some.injEq] at h; subst h; exact ⟨hw.atMostOne, hw.queuedPending, fun e => by cases e⟩
        · simp at h
    | cbHolding r n =>
      simp only [hr, Option.some.injEq] at h; subst h
      have := winv_addRouteBody st st.nextRoute hw
      exact ⟨this.atMostOne, this.queuedPending, fun e => by cases e⟩
    | stopped => simp [hr] at h
  | deliver k =>
    simp only [step] at h
    cases hr : st.rpc <;> simp only [hr] at h <;> try (simp at h; done)
    cases ht : st.traffic[k]? with
    | none => simp [ht] at h
    | some p =>
      obtain ⟨r, n⟩ := p
      simp only [ht] at h
      split at h
      · simp only [Option.some.injEq] at h; subst h; exact ⟨hw.atMostOne, hw.queuedPending, fun e => by cases e⟩
      · simp at h

theorem winv_run (V : Variant) (st st' : St) (as : List Act) (hw : WInv st) (h : run V st as = some st') : WInv st' := by
  induction as generalizing st with
  | nil => simp [run] at h; subst h; exact hw
  | cons a as ih =>
    simp only [run] at h
    split at h
    · rename_i st1 h1; exact ih st1 (winv_step V st st1 a hw h1) h
    · simp at h

end RSys
