import IpcModel.SideTable
/-! Proofs about the serialisation side tables (repaired `send`). -/
namespace Side
open Wire (Att Bytes le USIZE_MAX)

/-- **tables restored**: whatever happens (success, serialisation failure at any point, OS failure, nested sends inside),
`IpcSender::send` leaves the thread-local tables exactly as it found them -/
theorem ipcSend_restores (osOk : Nat → Bool) (tx : Nat) (v : List Node) (tls : Tls) (eff : Eff) :
    (ipcSend ⟨false⟩ osOk tx v tls eff).2.1 = tls := by
  unfold ipcSend
  split
  · simp
  · split <;> simp

theorem serNode_spec (osOk : Nat → Bool) (n : Node) (tls : Tls) (eff : Eff) (b : Bytes) (tls' : Tls) (eff' : Eff)
    (h : serNode ⟨false⟩ osOk n tls eff = (some b, tls', eff')) :
    tls'.chans = tls.chans ++ ownChans [n] ∧ tls'.shms = tls.shms ++ ownShms [n] ∧
    b = ownBytes [n] tls.chans.length tls.shms.length := by
  cases n with
  | data x => simp [serNode] at h; obtain ⟨rfl, rfl, _⟩ := h; simp [ownChans, ownShms, ownBytes]
  | sender c => simp [serNode] at h; obtain ⟨rfl, rfl, _⟩ := h; simp [ownChans, ownShms, ownBytes]
  | receiver c => simp [serNode] at h; obtain ⟨rfl, rfl, _⟩ := h; simp [ownChans, ownShms, ownBytes]
  | shm r => simp [serNode] at h; obtain ⟨rfl, rfl, _⟩ := h; simp [ownChans, ownShms, ownBytes]
  | emptyShm => simp [serNode] at h; obtain ⟨rfl, rfl, _⟩ := h; simp [ownChans, ownShms, ownBytes]
  | fail => simp [serNode] at h
  | nested tx v =>
    have hr := ipcSend_restores osOk tx v tls eff
    simp only [serNode] at h
    generalize hq : ipcSend ⟨false⟩ osOk tx v tls eff = q at h hr
    obtain ⟨r, t, e⟩ := q
    simp at h hr
    obtain ⟨rfl, rfl, _⟩ := h
    subst hr
    simp [ownChans, ownShms, ownBytes]

theorem ownChans_cons (n : Node) (r : List Node) : ownChans (n :: r) = ownChans [n] ++ ownChans r := by
  cases n <;> simp [ownChans]
theorem ownShms_cons (n : Node) (r : List Node) : ownShms (n :: r) = ownShms [n] ++ ownShms r := by
  cases n <;> simp [ownShms]
theorem ownBytes_cons (n : Node) (r : List Node) (nC nS : Nat) :
    ownBytes (n :: r) nC nS = ownBytes [n] nC nS ++ ownBytes r (nC + (ownChans [n]).length) (nS + (ownShms [n]).length) := by
  cases n <;> simp [ownBytes, ownChans, ownShms]

/-- serialising a value appends exactly its own attachments to the tables, and writes exactly its own bytes with
indices counted from the tables' current lengths — nested sends inside it leave no trace in the enclosing message -/
theorem ser_spec (osOk : Nat → Bool) : ∀ (v : List Node) (tls : Tls) (eff : Eff) (b : Bytes) (tls' : Tls) (eff' : Eff),
    ser ⟨false⟩ osOk v tls eff = (some b, tls', eff') →
    tls'.chans = tls.chans ++ ownChans v ∧ tls'.shms = tls.shms ++ ownShms v ∧
    b = ownBytes v tls.chans.length tls.shms.length
  | [], tls, eff, b, tls', eff', h => by
    simp [ser] at h; obtain ⟨rfl, rfl, _⟩ := h; simp [ownChans, ownShms, ownBytes]
  | n :: rest, tls, eff, b, tls', eff', h => by
    simp only [ser] at h
    generalize h1 : serNode ⟨false⟩ osOk n tls eff = q1 at h
    obtain ⟨o1, t1, e1⟩ := q1
    cases o1 with
    | none => simp at h
    | some b1 =>
      simp only at h
      generalize h2 : ser ⟨false⟩ osOk rest t1 e1 = q2 at h
      obtain ⟨o2, t2, e2⟩ := q2
      cases o2 with
      | none => simp at h
      | some b2 =>
        simp at h
        obtain ⟨rfl, rfl, rfl⟩ := h
        have s1 := serNode_spec osOk n tls eff b1 t1 e1 h1
        have s2 := ser_spec osOk rest t1 e1 b2 t2 e2 h2
        rw [ownChans_cons, ownShms_cons, ownBytes_cons]
        refine ⟨?_, ?_, ?_⟩
        · rw [s2.1, s1.1]; simp
        · rw [s2.2.1, s1.2.1]; simp
        · rw [s2.2.2, s1.2.2, s1.1, s1.2.1]; simp

/-- a message is *self-contained*: its bytes and attachments are those of one value serialised against empty tables -/
def SelfContained (m : OsMsg) : Prop :=
  ∃ v : List Node, m.bytes = ownBytes v 0 0 ∧ m.chans = ownChans v ∧ m.shms = ownShms v

mutual
theorem ser_sc (osOk : Nat → Bool) : ∀ (v : List Node) (tls : Tls) (eff : Eff),
    (∀ m ∈ eff.sent, SelfContained m) → ∀ m ∈ (ser ⟨false⟩ osOk v tls eff).2.2.sent, SelfContained m
  | [], tls, eff, h => by simpa [ser] using h
  | n :: rest, tls, eff, h => by
    simp only [ser]
    have h1 := serNode_sc osOk n tls eff h
    generalize serNode ⟨false⟩ osOk n tls eff = q1 at h1 ⊢
    obtain ⟨o1, t1, e1⟩ := q1
    cases o1 with
    | none => simpa using h1
    | some b1 =>
      simp only
      have h2 := ser_sc osOk rest t1 e1 h1
      generalize ser ⟨false⟩ osOk rest t1 e1 = q2 at h2 ⊢
      obtain ⟨o2, t2, e2⟩ := q2
      cases o2 <;> simpa using h2
theorem serNode_sc (osOk : Nat → Bool) : ∀ (n : Node) (tls : Tls) (eff : Eff),
    (∀ m ∈ eff.sent, SelfContained m) → ∀ m ∈ (serNode ⟨false⟩ osOk n tls eff).2.2.sent, SelfContained m
  | .data _, tls, eff, h => by simpa [serNode] using h
  | .sender _, tls, eff, h => by simpa [serNode] using h
  | .receiver _, tls, eff, h => by simpa [serNode] using h
  | .shm _, tls, eff, h => by simpa [serNode] using h
  | .emptyShm, tls, eff, h => by simpa [serNode] using h
  | .fail, tls, eff, h => by simpa [serNode] using h
  | .nested tx v, tls, eff, h => by
    simp only [serNode, ipcSend]
    have h1 := ser_sc osOk v ⟨[], []⟩ eff h
    have hs := ser_spec osOk v ⟨[], []⟩ eff
    generalize ser ⟨false⟩ osOk v ⟨[], []⟩ eff = q1 at h1 hs ⊢
    obtain ⟨o1, t1, e1⟩ := q1
    cases o1 with
    | none => simpa using h1
    | some b1 =>
      have hs' := hs b1 t1 e1 rfl
      simp only
      split
      · intro m hm
        simp at hm
        rcases hm with hm | rfl
        · exact h1 m hm
        · exact ⟨v, by simpa using hs'.2.2, by simpa using hs'.1, by simpa using hs'.2.1⟩
      · simpa using h1
end

end Side
