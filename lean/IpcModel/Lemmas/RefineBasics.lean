import IpcModel.Unix
import IpcModel.Lemmas.ReachProof
import IpcModel.Lemmas.IdealProof
/-! Basics for the refinement `Unix ⊑ Ideal`: inductive reading of the two reachability sets, point-wise descriptions of
the fold-defined helpers, what `dropHandles` touches, and the count of receiver handles in queues. -/
namespace Refine
open Ideal (Handle Msg Op Res)

/-- receiving ends that exist, specification -/
abbrev RI (i : Ideal.St) : Nat → Prop := Reach.ReachG i.chans.length (Ideal.rootB i) (Ideal.edgeB i)
/-- receiving sockets that exist, descriptor level -/
abbrev RU (u : Unix.St) : Nat → Prop := Reach.ReachG u.chans.length (Unix.rootB u) (Unix.carriesRcv u)

theorem mem_rxAlive (i : Ideal.St) (c : Nat) : c ∈ Ideal.rxAlive i ↔ RI i c := Reach.reachG_iff c
theorem mem_alive (u : Unix.St) (c : Nat) : c ∈ Unix.alive u ↔ RU u c := Reach.reachG_iff c

/-! ### point-wise descriptions -/

theorem I_modify_get (st : Ideal.St) (c d : Nat) (f : Ideal.Chan → Ideal.Chan) :
    (Ideal.modify st c f).chans[d]? = if c = d then (st.chans[d]?).map f else st.chans[d]? := Ideal.modify_get st c d f

theorem U_modify_get (st : Unix.St) (c d : Nat) (f : Unix.Chan → Unix.Chan) :
    (Unix.modify st c f).chans[d]? = if c = d then (st.chans[d]?).map f else st.chans[d]? := by
  simp only [Unix.modify, List.getElem?_modify]
  split <;> simp_all

theorem U_modify_len (st : Unix.St) (c : Nat) (f : Unix.Chan → Unix.Chan) : (Unix.modify st c f).chans.length = st.chans.length := by
  simp [Unix.modify]
theorem I_modify_len (st : Ideal.St) (c : Nat) (f : Ideal.Chan → Ideal.Chan) : (Ideal.modify st c f).chans.length = st.chans.length := by
  simp [Ideal.modify]

theorem unhold_get (st : Unix.St) (hs : List Handle) (d : Nat) :
    (Unix.unhold st hs).chans[d]? = (st.chans[d]?).map fun ch => if hs.contains (.rcv d) then { ch with held := false } else ch := by
  simp [Unix.unhold, List.getElem?_mapIdx]

theorem install_get (st : Unix.St) (hs : List Handle) (d : Nat) :
    (Unix.install st hs).chans[d]? = (st.chans[d]?).map fun ch =>
      { ch with held := ch.held || hs.contains (.rcv d), senders := ch.senders + hs.count (.snd d) } := by
  simp [Unix.install, List.getElem?_mapIdx]

theorem unhold_len (st : Unix.St) (hs : List Handle) : (Unix.unhold st hs).chans.length = st.chans.length := by simp [Unix.unhold]
theorem install_len (st : Unix.St) (hs : List Handle) : (Unix.install st hs).chans.length = st.chans.length := by simp [Unix.install]

/-- `markInMsg`, channel by channel -/
theorem markInMsg_get (hs : List Handle) (st : Ideal.St) (d : Nat) :
    (Ideal.markInMsg st hs).chans[d]? = (st.chans[d]?).map fun ch => if hs.contains (.rcv d) then { ch with rx := .inMsg } else ch := by
  unfold Ideal.markInMsg
  induction hs generalizing st with
  | nil => simp
  | cons h t ih =>
    simp only [List.foldl_cons]
    rw [ih]
    cases h with
    | snd e => cases st.chans[d]? <;> simp
    | shm e => cases st.chans[d]? <;> simp
    | rcv e =>
      simp only [I_modify_get]
      by_cases hed : e = d
      · subst hed
        cases st.chans[e]? with
        | none => simp
        | some ch => by_cases ht : t.contains (Handle.rcv e) = true <;> simp [ht]
      · have : (Handle.rcv d == Handle.rcv e) = false := by simp; exact fun h => hed h.symm
        simp only [hed, if_false, List.contains_cons, this, Bool.false_or]

theorem markInMsg_len (hs : List Handle) (st : Ideal.St) : (Ideal.markInMsg st hs).chans.length = st.chans.length := by
  unfold Ideal.markInMsg
  induction hs generalizing st with
  | nil => rfl
  | cons h t ih =>
    simp only [List.foldl_cons]; rw [ih]
    cases h <;> simp [I_modify_len]

/-- `unpack`, channel by channel -/
theorem unpack_get (hs : List Handle) (st : Ideal.St) (d : Nat) :
    (Ideal.unpack st hs).chans[d]? = (st.chans[d]?).map fun ch =>
      { ch with rx := if hs.contains (.rcv d) then .held else ch.rx, senders := ch.senders + hs.count (.snd d) } := by
  unfold Ideal.unpack
  induction hs generalizing st with
  | nil => simp only [List.foldl_nil]; cases st.chans[d]? <;> simp
  | cons h t ih =>
    simp only [List.foldl_cons]
    rw [ih]
    cases h with
    | shm e => cases st.chans[d]? <;> simp
    | snd e =>
      simp only [I_modify_get]
      by_cases hed : e = d
      · subst hed
        cases st.chans[e]? with
        | none => simp
        | some ch => simp [List.count_cons]; omega
      · have : (Handle.snd e == Handle.snd d) = false := by simp; exact hed
        cases st.chans[d]? with
        | none => simp [hed]
        | some ch => simp [hed, List.count_cons, this]
    | rcv e =>
      simp only [I_modify_get]
      by_cases hed : e = d
      · subst hed
        cases st.chans[e]? with
        | none => simp
        | some ch => by_cases ht : t.contains (Handle.rcv e) = true <;> simp [ht, List.count_cons]
      · have : (Handle.rcv d == Handle.rcv e) = false := by simp; exact fun h => hed h.symm
        have hde : ¬ d = e := fun h => hed h.symm
        cases st.chans[d]? with
        | none => simp [hed]
        | some ch => simp [hed, hde, List.count_cons]

theorem unpack_len (hs : List Handle) (st : Ideal.St) : (Ideal.unpack st hs).chans.length = st.chans.length := by
  unfold Ideal.unpack
  induction hs generalizing st with
  | nil => rfl
  | cons h t ih =>
    simp only [List.foldl_cons]; rw [ih]
    cases h <;> simp [I_modify_len]

/-! ### what `dropHandles` touches -/

def kill (ch : Ideal.Chan) : Ideal.Chan := { ch with rx := .dropped, queue := [] }

/-- channels whose receiver handle is on the work list, or inside a message queued on such a channel, and so on -/
inductive Src (i : Ideal.St) (wl : List Handle) : Nat → Prop
  | base (x : Nat) : Handle.rcv x ∈ wl → Src i wl x
  | step (e x : Nat) (ch : Ideal.Chan) (m : Msg) : Src i wl e → i.chans[e]? = some ch → m ∈ ch.queue → Handle.rcv x ∈ m.handles → Src i wl x

theorem Src.mono {i : Ideal.St} {wl wl' : List Handle} (h : ∀ x, x ∈ wl → x ∈ wl') {d : Nat} (hs : Src i wl d) : Src i wl' d := by
  induction hs with
  | base x hx => exact .base x (h _ hx)
  | step e x ch m _ h1 h2 h3 ih => exact .step e x ch m ih h1 h2 h3

theorem dropHandles_len (fuel : Nat) (i : Ideal.St) (wl : List Handle) : (Ideal.dropHandles fuel i wl).chans.length = i.chans.length := by
  induction fuel generalizing i wl with
  | zero => simp [Ideal.dropHandles]
  | succ n ih =>
    cases wl with
    | nil => simp [Ideal.dropHandles]
    | cons h rest =>
      cases h with
      | snd e => simpa [Ideal.dropHandles] using ih i rest
      | shm e => simpa [Ideal.dropHandles] using ih i rest
      | rcv e =>
        simp only [Ideal.dropHandles]
        cases he : i.chans[e]? with
        | none => simpa using ih i rest
        | some ch => simp only; rw [ih]; exact I_modify_len _ _ _

/-- every channel is left as it was, or it descends from the work list and has been destroyed -/
theorem dropHandles_char (fuel : Nat) (i : Ideal.St) (wl : List Handle) (d : Nat) :
    (Ideal.dropHandles fuel i wl).chans[d]? = i.chans[d]? ∨
    (Src i wl d ∧ (Ideal.dropHandles fuel i wl).chans[d]? = (i.chans[d]?).map kill) := by
  induction fuel generalizing i wl with
  | zero => left; simp [Ideal.dropHandles]
  | succ n ih =>
    cases wl with
    | nil => left; simp [Ideal.dropHandles]
    | cons h rest =>
      have hm : ∀ x, x ∈ rest → x ∈ h :: rest := fun x hx => List.mem_cons_of_mem _ hx
      cases h with
      | snd e =>
        simp only [Ideal.dropHandles]
        rcases ih i rest with h1 | ⟨h1, h2⟩
        · exact Or.inl h1
        · exact Or.inr ⟨h1.mono hm, h2⟩
      | shm e =>
        simp only [Ideal.dropHandles]
        rcases ih i rest with h1 | ⟨h1, h2⟩
        · exact Or.inl h1
        · exact Or.inr ⟨h1.mono hm, h2⟩
      | rcv e =>
        simp only [Ideal.dropHandles]
        cases he : i.chans[e]? with
        | none =>
          simp only
          rcases ih i rest with h1 | ⟨h1, h2⟩
          · exact Or.inl h1
          · exact Or.inr ⟨h1.mono hm, h2⟩
        | some ch =>
          simp only
          -- the state after destroying `e`, and the new work list
          have hi1 : ∀ x, (Ideal.modify i e fun ch => { ch with rx := .dropped, queue := [] }).chans[x]? = if e = x then (i.chans[x]?).map kill else i.chans[x]? := by
            intro x; rw [I_modify_get]; rfl
          have transfer : ∀ x, Src (Ideal.modify i e fun ch => { ch with rx := .dropped, queue := [] }) (ch.queue.flatMap (·.handles) ++ rest) x →
              Src i (Handle.rcv e :: rest) x := by
            intro x hx
            induction hx with
            | base y hy =>
              rcases List.mem_append.mp hy with hy | hy
              · obtain ⟨m, hm1, hm2⟩ := List.mem_flatMap.mp hy
                exact .step e y ch m (.base e List.mem_cons_self) he hm1 hm2
              · exact .base y (List.mem_cons_of_mem _ hy)
            | step e' y ch' m _ h1 h2 h3 ih' =>
              rw [hi1] at h1
              by_cases hee : e = e'
              · subst hee
                simp only [if_true, he, Option.map_some] at h1
                cases h1
                simp [kill] at h2
              · simp only [hee, if_false] at h1
                exact .step e' y ch' m ih' h1 h2 h3
          rcases ih (Ideal.modify i e fun ch => { ch with rx := .dropped, queue := [] }) (ch.queue.flatMap (·.handles) ++ rest) with h1 | ⟨h1, h2⟩
          · rw [h1, hi1]
            by_cases hed : e = d
            · subst hed
              right
              exact ⟨.base e List.mem_cons_self, by simp⟩
            · left; simp [hed]
          · right
            refine ⟨transfer d h1, ?_⟩
            rw [h2, hi1]
            by_cases hed : e = d
            · subst hed
              cases i.chans[e]? <;> simp [kill]
            · simp [hed]

/-! ### counting receiver handles in queues (descriptor level) -/

def rc (hs : List Handle) (x : Nat) : Nat := hs.count (.rcv x)
def qrc (q : List Msg) (x : Nat) : Nat := (q.map fun m => rc m.handles x).sum
def trc (chs : List Unix.Chan) (x : Nat) : Nat := (chs.map fun ch => qrc ch.queue x).sum

theorem qrc_append (q r : List Msg) (x : Nat) : qrc (q ++ r) x = qrc q x + qrc r x := by simp [qrc]
theorem qrc_cons (m : Msg) (q : List Msg) (x : Nat) : qrc (m :: q) x = rc m.handles x + qrc q x := by simp [qrc]

theorem trc_append (a b : List Unix.Chan) (x : Nat) : trc (a ++ b) x = trc a x + trc b x := by simp [trc]

/-- replacing the queue of one channel -/
theorem trc_modify (chs : List Unix.Chan) (c : Nat) (ch : Unix.Chan) (f : Unix.Chan → Unix.Chan) (x : Nat) (h : chs[c]? = some ch) :
    trc (chs.modify c f) x + qrc ch.queue x = trc chs x + qrc (f ch).queue x := by
  induction chs generalizing c with
  | nil => simp at h
  | cons a t ih =>
    cases c with
    | zero =>
      simp at h; subst h
      simp [trc]; omega
    | succ c =>
      simp at h
      have := ih c h
      simp [trc] at this ⊢
      omega

/-- changing one channel without touching its queue -/
theorem trc_modify_keep (chs : List Unix.Chan) (c : Nat) (f : Unix.Chan → Unix.Chan) (hf : ∀ ch, (f ch).queue = ch.queue) (x : Nat) :
    trc (chs.modify c f) x = trc chs x := by
  induction chs generalizing c with
  | nil => simp [trc]
  | cons a t ih =>
    cases c with
    | zero => simp [trc, hf]
    | succ c =>
      have := ih c
      simp [trc] at this ⊢
      omega

/-- a map over the channels that leaves every queue alone -/
theorem trc_mapIdx (chs : List Unix.Chan) (f : Nat → Unix.Chan → Unix.Chan) (hf : ∀ i ch, (f i ch).queue = ch.queue) (x : Nat) :
    trc (chs.mapIdx f) x = trc chs x := by
  induction chs generalizing f with
  | nil => simp [trc]
  | cons a t ih =>
    simp only [List.mapIdx_cons, trc, List.map_cons, List.sum_cons, hf]
    have := ih (fun i => f (i + 1)) (fun i ch => hf _ ch)
    simp only [trc] at this
    rw [this]

theorem qrc_le_trc (chs : List Unix.Chan) (c : Nat) (ch : Unix.Chan) (x : Nat) (h : chs[c]? = some ch) : qrc ch.queue x ≤ trc chs x := by
  induction chs generalizing c with
  | nil => simp at h
  | cons a t ih =>
    cases c with
    | zero => simp at h; subst h; simp [trc]
    | succ c =>
      simp at h
      have := ih c h
      simp [trc] at this ⊢; omega

/-- two different channels -/
theorem qrc_two_le_trc (chs : List Unix.Chan) (c d : Nat) (ch chd : Unix.Chan) (x : Nat) (hc : chs[c]? = some ch) (hd : chs[d]? = some chd)
    (hne : c ≠ d) : qrc ch.queue x + qrc chd.queue x ≤ trc chs x := by
  have h1 := trc_modify chs c ch (fun ch => { ch with queue := [] }) x hc
  have h2 : (chs.modify c fun ch => { ch with queue := [] })[d]? = some chd := by
    rw [List.getElem?_modify]; simp [hne, hd]
  have h3 := qrc_le_trc _ d chd x h2
  simp [qrc] at h1 h3 ⊢
  omega

theorem rc_pos_of_mem {hs : List Handle} {x : Nat} (h : Handle.rcv x ∈ hs) : 0 < rc hs x := by
  simpa [rc] using List.count_pos_iff.mpr h

theorem qrc_pos_of_mem {q : List Msg} {m : Msg} {x : Nat} (hm : m ∈ q) (h : Handle.rcv x ∈ m.handles) : 0 < qrc q x := by
  induction q with
  | nil => simp at hm
  | cons a t ih =>
    rw [qrc_cons]
    rcases List.mem_cons.mp hm with rfl | hm
    · have := rc_pos_of_mem h; omega
    · have := ih hm; omega

theorem mem_of_qrc_pos {q : List Msg} {x : Nat} (h : 0 < qrc q x) : ∃ m, m ∈ q ∧ Handle.rcv x ∈ m.handles := by
  induction q with
  | nil => simp [qrc] at h
  | cons a t ih =>
    rw [qrc_cons] at h
    by_cases ha : 0 < rc a.handles x
    · exact ⟨a, List.mem_cons_self, by simpa [rc] using List.count_pos_iff.mp ha⟩
    · obtain ⟨m, hm, hx⟩ := ih (by omega)
      exact ⟨m, List.mem_cons_of_mem _ hm, hx⟩

end Refine
