import IpcModel.Lemmas.RefineSteps
/-! One step and whole programs: `Unix` and `Ideal` give the same results. -/
namespace Refine
open Ideal (Handle Msg Op Res)

theorem rel_init : Rel ⟨[]⟩ ⟨[]⟩ := by
  refine ⟨(by first | trivial | rfl), ?_, ?_, ?_, ?_, ⟨?_, ?_⟩⟩
  · intro c uc ic h; simp at h
  · intro c h; exact absurd (Reach.reachG_lt h) (by simp)
  · intro c h; exact absurd (Reach.reachG_lt h) (by simp)
  · intro c uc ic _ h; simp at h
  · intro x; simp [trc, heldN, Unix.rootB]
  · intro x _; simp [trc]

/-- **one step** — related states, a valid operation: the same result, and related states again -/
theorem sim_step (u : Unix.St) (i : Ideal.St) (hR : Rel u i) (op : Op) (hv : Unix.validOp u op = true) :
    (Unix.step u op).2 = (Ideal.step i op).2 ∧ Rel (Unix.step u op).1 (Ideal.step i op).1 := by
  cases op with
  | newChan => exact ⟨(by first | trivial | rfl), sim_newChan u i hR⟩
  | cloneSender c =>
    rcases get_both hR c with ⟨h1, h2⟩ | ⟨uc, ic, h1, h2⟩
    · simp only [Unix.step, Ideal.step, h1, h2]; exact ⟨(by first | trivial | rfl), hR⟩
    · have hs := (hR.fields c uc ic h1 h2).1
      simp only [Unix.step, Ideal.step, h1, h2, hs]
      by_cases hz : ic.senders = 0
      · simp only [hz, if_true]; exact ⟨(by first | trivial | rfl), hR⟩
      · simp only [hz, if_false]; exact ⟨(by first | trivial | rfl), sim_senders u i hR c (· + 1)⟩
  | dropSender c =>
    rcases get_both hR c with ⟨h1, h2⟩ | ⟨uc, ic, h1, h2⟩
    · simp only [Unix.step, Ideal.step, h1, h2]; exact ⟨(by first | trivial | rfl), hR⟩
    · have hs := (hR.fields c uc ic h1 h2).1
      simp only [Unix.step, Ideal.step, h1, h2, hs]
      by_cases hz : ic.senders = 0
      · simp only [hz, if_true]; exact ⟨(by first | trivial | rfl), hR⟩
      · simp only [hz, if_false]; exact ⟨(by first | trivial | rfl), sim_senders u i hR c (· - 1)⟩
  | send c tag hs =>
    rcases get_both hR c with ⟨h1, h2⟩ | ⟨uc, ic, h1, h2⟩
    · simp only [Unix.step, Ideal.step, h1, h2]; exact ⟨(by first | trivial | rfl), hR⟩
    · have hsd := (hR.fields c uc ic h1 h2).1
      simp only [Unix.step, Ideal.step, h1, h2, hsd, alive_eq hR c]
      by_cases hz : ic.senders = 0
      · simp only [hz, if_true]; exact ⟨(by first | trivial | rfl), hR⟩
      · simp only [hz, if_false]
        by_cases ha : (Ideal.rxAlive i).contains c = true
        · simp only [ha, if_true]; exact ⟨(by first | trivial | rfl), sim_send_ok u i hR c tag hs uc h1 hv⟩
        · simp only [ha]; exact ⟨(by first | trivial | rfl), sim_send_fail u i hR c tag hs _ hv⟩
  | recv c =>
    rcases get_both hR c with ⟨h1, h2⟩ | ⟨uc, ic, h1, h2⟩
    · simp only [Unix.step, Ideal.step, h1, h2]; exact ⟨(by first | trivial | rfl), hR⟩
    · have hh := (hR.fields c uc ic h1 h2).2
      simp only [Unix.step, Ideal.step, h1, h2]
      by_cases hheld : uc.held = true
      · have hrx : ic.rx = .held := hh.mp hheld
        have hru : RU u c := .root c (lt_of_some h1) ((rootU_iff u c).mpr ⟨uc, h1, hheld⟩)
        have hq := hR.queues c uc ic hru h1 h2
        simp only [hheld, hrx, ne_eq, not_true_eq_false, if_false, Bool.true_eq_false]
        rw [← hq]
        cases hqc : uc.queue with
        | nil =>
          simp only [senderOpen_eq hR c]
          split <;> exact ⟨(by first | trivial | rfl), hR⟩
        | cons m q => exact ⟨(by first | trivial | rfl), sim_recv_pop u i hR c uc m q h1 hheld hqc⟩
      · have hrx : ¬ ic.rx = .held := fun h => hheld (hh.mpr h)
        have hf : uc.held = false := by simpa using hheld
        simp only [hf, hrx, ne_eq, not_false_eq_true, if_true]
        exact ⟨(by first | trivial | rfl), hR⟩
  | dropReceiver c =>
    rcases get_both hR c with ⟨h1, h2⟩ | ⟨uc, ic, h1, h2⟩
    · simp only [Unix.step, Ideal.step, h1, h2]; exact ⟨(by first | trivial | rfl), hR⟩
    · have hh := (hR.fields c uc ic h1 h2).2
      simp only [Unix.step, Ideal.step, h1, h2]
      by_cases hheld : uc.held = true
      · have hrx : ic.rx = .held := hh.mp hheld
        simp only [hheld, hrx, ne_eq, not_true_eq_false, if_false, Bool.true_eq_false]
        exact ⟨(by first | trivial | rfl), sim_dropReceiver u i hR c uc ic _ h1 h2 hheld⟩
      · have hrx : ¬ ic.rx = .held := fun h => hheld (hh.mpr h)
        have hf : uc.held = false := by simpa using hheld
        simp only [hf, hrx, ne_eq, not_false_eq_true, if_true]
        exact ⟨(by first | trivial | rfl), hR⟩

/-- results of a program from a given state (the recursive reading of `Unix.runFrom`) -/
def resultsU : Unix.St → List Op → List Res
  | _, [] => []
  | u, op :: ops => (Unix.step u op).2 :: resultsU (Unix.step u op).1 ops

def resultsI : Ideal.St → List Op → List Res
  | _, [] => []
  | i, op :: ops => (Ideal.step i op).2 :: resultsI (Ideal.step i op).1 ops

theorem runFromU_eq (ops : List Op) (u : Unix.St) (acc : List Res) :
    (ops.foldl (fun (a : Unix.St × List Res) op => let r := Unix.step a.1 op; (r.1, a.2 ++ [r.2])) (u, acc)).2 = acc ++ resultsU u ops := by
  induction ops generalizing u acc with
  | nil => simp [resultsU]
  | cons op ops ih => simp only [List.foldl_cons, resultsU]; rw [ih]; simp

theorem runI_eq (ops : List Op) (i : Ideal.St) (acc : List Res) :
    (ops.foldl (fun (a : Ideal.St × List Res) op => let r := Ideal.step a.1 op; (r.1, a.2 ++ [r.2])) (i, acc)).2 = acc ++ resultsI i ops := by
  induction ops generalizing i acc with
  | nil => simp [resultsI]
  | cons op ops ih => simp only [List.foldl_cons, resultsI]; rw [ih]; simp

theorem sim_results (ops : List Op) (u : Unix.St) (i : Ideal.St) (hR : Rel u i) (hv : Unix.validFrom u ops = true) :
    resultsU u ops = resultsI i ops := by
  induction ops generalizing u i with
  | nil => rfl
  | cons op ops ih =>
    simp only [Unix.validFrom, Bool.and_eq_true] at hv
    obtain ⟨h1, h2⟩ := sim_step u i hR op hv.1
    simp only [resultsU, resultsI, h1]
    rw [ih _ _ h2 hv.2]

/-- **`Unix ⊑ Ideal`** — every valid program (it embeds only receivers it holds, each once) gets the same result for every
operation from the descriptor-level reading and from the specification, whatever it sends inside what, drops or leaves
queued, and however the handles travel. -/
theorem refine_run (ops : List Op) (hv : Unix.valid ops = true) : (Unix.run ops).2 = (Ideal.run ops).2 := by
  unfold Unix.run Unix.runFrom Ideal.run
  rw [runFromU_eq, runI_eq]
  simp only [List.nil_append]
  exact sim_results ops _ _ rel_init hv

/-- the states stay related along the way (so the theorems about `Ideal` states transfer to what exists at descriptor level) -/
theorem refine_states (ops : List Op) (u : Unix.St) (i : Ideal.St) (hR : Rel u i) (hv : Unix.validFrom u ops = true) :
    Rel (ops.foldl (fun s op => (Unix.step s op).1) u) (ops.foldl (fun s op => (Ideal.step s op).1) i) := by
  induction ops generalizing u i with
  | nil => exact hR
  | cons op ops ih =>
    simp only [Unix.validFrom, Bool.and_eq_true] at hv
    exact ih _ _ (sim_step u i hR op hv.1).2 hv.2

end Refine
