import IpcModel.Ideal
/-! Per-channel FIFO of the specification `Ideal`, whatever happens to the channel's receiver handle in between
(moved inside messages any number of times, unpacked, moved again). -/
namespace Ideal

/-- the queue of channel `d` -/
def Q (st : St) (d : Nat) : Option (List Msg) := (st.chans[d]?).map (·.queue)

theorem modify_get (st : St) (c d : Nat) (f : Chan → Chan) :
    (modify st c f).chans[d]? = if c = d then (st.chans[d]?).map f else st.chans[d]? := by
  simp only [modify, List.getElem?_modify]
  split <;> simp_all

theorem Q_modify_other (st : St) (c d : Nat) (f : Chan → Chan) (h : c ≠ d) : Q (modify st c f) d = Q st d := by
  simp [Q, modify_get, h]

theorem Q_modify_keep (st : St) (c d : Nat) (f : Chan → Chan) (hf : ∀ ch, (f ch).queue = ch.queue) : Q (modify st c f) d = Q st d := by
  simp only [Q, modify_get]
  split
  · cases st.chans[d]? <;> simp [hf]
  · rfl

/-- marking embedded receivers as in transit does not touch any queue -/
theorem Q_markInMsg (hs : List Handle) (st : St) (d : Nat) : Q (markInMsg st hs) d = Q st d := by
  unfold markInMsg
  induction hs generalizing st with
  | nil => rfl
  | cons h t ih =>
    simp only [List.foldl_cons]
    rw [ih]
    cases h <;> first | rfl | exact Q_modify_keep _ _ _ _ (fun _ => rfl)

/-- handing the handles of a received message to the program does not touch any queue -/
theorem Q_unpack (hs : List Handle) (st : St) (d : Nat) : Q (unpack st hs) d = Q st d := by
  unfold unpack
  induction hs generalizing st with
  | nil => rfl
  | cons h t ih =>
    simp only [List.foldl_cons]
    rw [ih]
    cases h <;> first | rfl | exact Q_modify_keep _ _ _ _ (fun _ => rfl)

/-- destroying handles: every channel is either left exactly as it was or has had its receiver destroyed (queue gone with it) -/
def KeptOrDestroyed (st st' : St) (d : Nat) : Prop :=
  st'.chans[d]? = st.chans[d]? ∨ (∃ ch', st'.chans[d]? = some ch' ∧ ch'.rx = .dropped ∧ ch'.queue = [])

theorem KeptOrDestroyed.trans {a b c : St} {d : Nat} (h1 : KeptOrDestroyed a b d) (h2 : KeptOrDestroyed b c d) : KeptOrDestroyed a c d := by
  rcases h2 with h2 | h2
  · rcases h1 with h1 | h1
    · exact Or.inl (h2.trans h1)
    · right; rw [h2]; exact h1
  · exact Or.inr h2

theorem dropHandles_kod (fuel : Nat) (st : St) (hs : List Handle) (d : Nat) : KeptOrDestroyed st (dropHandles fuel st hs) d := by
  induction fuel generalizing st hs with
  | zero => simp [dropHandles, KeptOrDestroyed]
  | succ n ih =>
    cases hs with
    | nil => simp [dropHandles, KeptOrDestroyed]
    | cons h rest =>
      cases h with
      | snd e => simpa [dropHandles] using ih st rest
      | shm e => simpa [dropHandles] using ih st rest
      | rcv e =>
        simp only [dropHandles]
        cases he : st.chans[e]? with
        | none => simpa using ih st rest
        | some ch =>
          simp only
          refine KeptOrDestroyed.trans ?_ (ih _ _)
          by_cases hed : e = d
          · subst hed
            right
            exact ⟨{ ch with rx := .dropped, queue := [] }, by simp [modify_get, he], rfl, rfl⟩
          · left; simp [modify_get, hed]

/-- what one operation does to the queue of channel `d` -/
inductive QEffect (st st' : St) (d : Nat) : Op → Res → Prop
  | appended (tag : Nat) (hs : List Handle) (q : List Msg) : Q st d = some q → Q st' d = some (q ++ [⟨tag, hs⟩]) →
      QEffect st st' d (.send d tag hs) .ok
  | popped (m : Msg) (q : List Msg) : Q st d = some (m :: q) → Q st' d = some q → QEffect st st' d (.recv d) (.msg m.tag m.handles)
  | kept (op : Op) (r : Res) : Q st' d = Q st d → (∀ tag hs, op = .send d tag hs → r ≠ .ok) → (∀ t h, op = .recv d → r ≠ .msg t h) →
      QEffect st st' d op r
  | destroyed (op : Op) (r : Res) (ch' : Chan) : st'.chans[d]? = some ch' → ch'.rx = .dropped → ch'.queue = [] →
      (∀ tag hs, op = .send d tag hs → r ≠ .ok) → (∀ t h, op = .recv d → r ≠ .msg t h) → QEffect st st' d op r
  | created (op : Op) (r : Res) : st.chans[d]? = none → QEffect st st' d op r

theorem kod_Q {st st' : St} {d : Nat} (h : KeptOrDestroyed st st' d) :
    Q st' d = Q st d ∨ (∃ ch', st'.chans[d]? = some ch' ∧ ch'.rx = .dropped ∧ ch'.queue = []) := by
  rcases h with h | h
  · left; simp [Q, h]
  · exact Or.inr h

/-- **per-channel FIFO, one step** — whatever the operation, the queue of an existing channel `d` changes only by a
successful `send` on `d` (append at the tail), a successful receive on `d` (remove the head) or the destruction of `d`'s
receiver; sending, carrying, unpacking and re-sending the receiver handle of `d` leave it untouched. -/
theorem fifo_step (st : St) (op : Op) (d : Nat) : QEffect st (step st op).1 d op (step st op).2 := by
  cases hd : st.chans[d]? with
  | none => exact .created _ _ hd
  | some chd =>
  cases op with
  | newChan =>
    refine .kept _ _ ?_ (fun _ _ h => by cases h) (fun _ _ h => by cases h)
    have : d < st.chans.length := by
      by_cases h : d < st.chans.length
      · exact h
      · rw [List.getElem?_eq_none (Nat.le_of_not_lt h)] at hd; cases hd
    simp [step, Q, List.getElem?_append_left this]
  | cloneSender c =>
    refine .kept _ _ ?_ (fun _ _ h => by cases h) (fun _ _ h => by cases h)
    simp only [step]
    cases st.chans[c]? with
    | none => rfl
    | some ch => simp only; split
                 · rfl
                 · exact Q_modify_keep _ _ _ _ (fun _ => rfl)
  | dropSender c =>
    refine .kept _ _ ?_ (fun _ _ h => by cases h) (fun _ _ h => by cases h)
    simp only [step]
    cases st.chans[c]? with
    | none => rfl
    | some ch => simp only; split
                 · rfl
                 · exact Q_modify_keep _ _ _ _ (fun _ => rfl)
  | send c tag hs =>
    simp only [step]
    cases hc : st.chans[c]? with
    | none => exact .kept _ _ rfl (fun _ _ _ h => by cases h) (fun _ _ h => by cases h)
    | some ch =>
      simp only
      by_cases hz : ch.senders = 0
      · simp only [hz, if_true]; exact .kept _ _ rfl (fun _ _ _ h => by cases h) (fun _ _ h => by cases h)
      · simp only [hz, if_false]
        by_cases ha : (rxAlive st).contains c = true
        · simp only [ha, if_true]
          by_cases hcd : c = d
          · subst hcd
            have hq : Q st c = some chd.queue := by simp [Q, hd]
            refine .appended tag hs chd.queue hq ?_
            have h1 := Q_markInMsg hs st c
            simp only [Q, modify_get, if_true, Option.map_map] at h1 ⊢
            rw [hd] at h1
            cases hx : (markInMsg st hs).chans[c]? with
            | none => rw [hx] at h1; simp at h1
            | some x => rw [hx] at h1; simp at h1 ⊢; rw [h1]
          · refine .kept _ _ ?_ (fun t h e => by cases e; exact absurd rfl hcd) (fun _ _ h => by cases h)
            rw [Q_modify_other _ _ _ _ hcd]; exact Q_markInMsg hs st d
        · have ha' : (rxAlive st).contains c = false := by simpa using ha
          simp only [ha', Bool.false_eq_true, if_false]
          have hk := kod_Q (dropHandles_kod (handlesCount (markInMsg st hs) + hs.length + 1) (markInMsg st hs) hs d)
          rcases hk with hk | ⟨ch', h1, h2, h3⟩
          · exact .kept _ _ (by rw [hk]; exact Q_markInMsg hs st d) (fun _ _ _ h => by cases h) (fun _ _ h => by cases h)
          · exact .destroyed _ _ ch' h1 h2 h3 (fun _ _ _ h => by cases h) (fun _ _ h => by cases h)
  | recv c =>
    simp only [step]
    cases hc : st.chans[c]? with
    | none => exact .kept _ _ rfl (fun _ _ h => by cases h) (fun _ _ _ h => by cases h)
    | some ch =>
      simp only
      by_cases hr : ch.rx ≠ .held
      · rw [if_pos hr]; exact .kept _ _ rfl (fun _ _ h => by cases h) (fun _ _ _ h => by cases h)
      · rw [if_neg hr]
        cases hq : ch.queue with
        | nil =>
          simp only
          split <;> exact .kept _ _ rfl (fun _ _ h => by cases h) (fun _ _ _ h => by cases h)
        | cons m q =>
          simp only
          by_cases hcd : c = d
          · subst hcd
            rw [hd] at hc; cases hc
            refine .popped m q (by simp [Q, hd, hq]) ?_
            rw [Q_unpack]; simp [Q, modify_get, hd]
          · refine .kept _ _ ?_ (fun _ _ h => by cases h) (fun t h e => by cases e; exact absurd rfl hcd)
            rw [Q_unpack]; exact Q_modify_other _ _ _ _ hcd
  | dropReceiver c =>
    simp only [step]
    cases hc : st.chans[c]? with
    | none => exact .kept _ _ rfl (fun _ _ h => by cases h) (fun _ _ h => by cases h)
    | some ch =>
      simp only
      by_cases hr : ch.rx ≠ .held
      · rw [if_pos hr]; exact .kept _ _ rfl (fun _ _ h => by cases h) (fun _ _ h => by cases h)
      · rw [if_neg hr]
        have hk := dropHandles_kod (handlesCount st + 1) (modify st c fun ch => { ch with rx := .dropped, queue := [] }) (ch.queue.flatMap (·.handles)) d
        by_cases hcd : c = d
        · subst hcd
          rcases hk with hk | ⟨ch', h1, h2, h3⟩
          · exact .destroyed _ _ { chd with rx := .dropped, queue := [] } (by rw [hk]; simp [modify_get, hd]) rfl rfl
              (fun _ _ h => by cases h) (fun _ _ h => by cases h)
          · exact .destroyed _ _ ch' h1 h2 h3 (fun _ _ h => by cases h) (fun _ _ h => by cases h)
        · rcases kod_Q hk with hk | ⟨ch', h1, h2, h3⟩
          · exact .kept _ _ (by rw [hk]; exact Q_modify_other _ _ _ _ hcd) (fun _ _ h => by cases h) (fun _ _ h => by cases h)
          · exact .destroyed _ _ ch' h1 h2 h3 (fun _ _ h => by cases h) (fun _ _ h => by cases h)

/-! ### histories -/
def runFrom (st : St) : List Op → St × List (Op × Res)
  | [] => (st, [])
  | op :: ops => let r := step st op; let rest := runFrom r.1 ops; (rest.1, (op, r.2) :: rest.2)

/-- messages successfully sent on channel `d` / received from it, in program order -/
def contribS (d : Nat) : Op × Res → List Msg
  | (.send c tag hs, .ok) => if c = d then [⟨tag, hs⟩] else []
  | _ => []
def contribR (d : Nat) : Op × Res → List Msg
  | (.recv c, .msg t hs) => if c = d then [⟨t, hs⟩] else []
  | _ => []
def sentOn (d : Nat) (h : List (Op × Res)) : List Msg := h.flatMap (contribS d)
def recvdOn (d : Nat) (h : List (Op × Res)) : List Msg := h.flatMap (contribR d)

/-- at some point of the history the receiver of `d` was destroyed (dropped by the program, or the message carrying it
was destroyed undelivered) -/
def DestroyedAlong (st : St) (d : Nat) : List Op → Prop
  | [] => False
  | op :: ops => (∃ ch', (step st op).1.chans[d]? = some ch' ∧ ch'.rx = .dropped ∧ ch'.queue = []) ∨ DestroyedAlong (step st op).1 d ops

/-- **per-channel FIFO over whole histories** — for every program: unless the receiver of `d` is destroyed along the way,
what has been received from `d` followed by what is still queued on it is exactly what was queued at the start followed
by what was successfully sent on it, in order — however often the receiver handle of `d` travelled inside other messages. -/
theorem fifo_run (ops : List Op) (st : St) (d : Nat) (q0 : List Msg) (hQ : Q st d = some q0) :
    DestroyedAlong st d ops ∨
    ∃ q', Q (runFrom st ops).1 d = some q' ∧ recvdOn d (runFrom st ops).2 ++ q' = q0 ++ sentOn d (runFrom st ops).2 := by
  induction ops generalizing st q0 with
  | nil => right; exact ⟨q0, hQ, by simp [runFrom, recvdOn, sentOn]⟩
  | cons op ops ih =>
    have hstep := fifo_step st op d
    simp only [runFrom, DestroyedAlong]
    generalize hs' : step st op = r at hstep
    obtain ⟨st', res⟩ := r
    simp only at hstep ⊢
    cases hstep with
    | appended tag hs q h1 h2 =>
      rw [hQ] at h1; cases h1
      rcases ih st' (q0 ++ [⟨tag, hs⟩]) h2 with h | ⟨q', hq', he⟩
      · exact Or.inl (Or.inr h)
      · right; refine ⟨q', hq', ?_⟩
        simp only [recvdOn, sentOn, List.flatMap_cons, contribS, contribR, if_true] at he ⊢
        simp only [List.nil_append]
        rw [he]; simp
    | popped m q h1 h2 =>
      rw [hQ] at h1; cases h1
      rcases ih st' q h2 with h | ⟨q', hq', he⟩
      · exact Or.inl (Or.inr h)
      · right; refine ⟨q', hq', ?_⟩
        simp only [recvdOn, sentOn, List.flatMap_cons, contribS, contribR, if_true] at he ⊢
        simp only [List.nil_append, List.cons_append, List.singleton_append]
        rw [he]
    | kept _ _ h1 hns hnr =>
      rcases ih st' q0 (by rw [h1]; exact hQ) with h | ⟨q', hq', he⟩
      · exact Or.inl (Or.inr h)
      · right; refine ⟨q', hq', ?_⟩
        have e1 : contribS d (op, res) = [] := by
          cases op <;> cases res <;> simp only [contribS]
          rename_i c tag hs
          split
          · rename_i hcd; subst hcd; exact absurd rfl (hns tag hs rfl)
          · rfl
        have e2 : contribR d (op, res) = [] := by
          cases op <;> cases res <;> simp only [contribR]
          rename_i c t hs
          split
          · rename_i hcd; subst hcd; exact absurd rfl (hnr t hs rfl)
          · rfl
        simp only [recvdOn, sentOn, List.flatMap_cons, e1, e2, List.nil_append] at he ⊢
        exact he
    | destroyed _ _ ch' h1 h2 h3 _ _ => exact Or.inl (Or.inl ⟨ch', h1, h2, h3⟩)
    | created _ _ h1 => simp [Q, h1] at hQ

/-- `run` (the driver's left fold) and `runFrom` agree -/
theorem run_eq_runFrom (ops : List Op) : (run ops).1 = (runFrom ⟨[]⟩ ops).1 ∧ (run ops).2 = (runFrom ⟨[]⟩ ops).2.map (·.2) := by
  have gen : ∀ (ops : List Op) (st : St) (acc : List Res),
      ops.foldl (fun (a : St × List Res) op => let r := step a.1 op; (r.1, a.2 ++ [r.2])) (st, acc)
        = ((runFrom st ops).1, acc ++ (runFrom st ops).2.map (·.2)) := by
    intro ops
    induction ops with
    | nil => intro st acc; simp [runFrom]
    | cons op ops ih => intro st acc; simp only [List.foldl_cons, runFrom, List.map_cons]; rw [ih]; simp
  have := gen ops ⟨[]⟩ []
  simp only [run]
  rw [this]; simp

end Ideal
