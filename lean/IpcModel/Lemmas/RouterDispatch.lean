import IpcModel.Lemmas.RouterProof
/-! End-to-end dispatch theorem for the router thread: over any event stream, the effects concerning one route are exactly
the invocations for its id's messages, in order, then one drop at its closure. -/
namespace Router

def isRoute (r : Nat) : Eff → Bool
  | .invoke r' _ => r' == r
  | .dropH r' => r' == r
  | _ => false
def routeLog (r : Nat) (log : List Eff) : List Eff := log.filter (isRoute r)

def msgqRoutes (q : List RMsg) : List Nat := q.filterMap fun | .addRoute r => some r | .shutdown _ => none

structure RInv (st : St) : Prop where
  running : st.stopped = false
  fresh : ∀ p ∈ st.handlers, p.1 < st.nextId
  routesNodup : (st.handlers.map (·.2) ++ msgqRoutes st.msgq).Nodup
  noShutdown : ∀ m ∈ st.msgq, ∀ c, m ≠ .shutdown c

def proj (id : Nat) : List Ev → List Nat × Bool
  | [] => ([], false)
  | .msg i t :: r => if i = id then ((t :: (proj id r).1), (proj id r).2) else proj id r
  | .closed i :: r => if i = id then ([], true) else proj id r
  | _ :: r => proj id r

theorem lookup_mem {h : List (Nat × Nat)} {id r : Nat} (hl : lookup h id = some r) : (id, r) ∈ h := by
  unfold lookup at hl
  cases hf : h.find? (fun x => decide (x.1 = id)) with
  | none => simp [hf] at hl
  | some x =>
    simp [hf] at hl
    have hm := List.mem_of_find?_eq_some hf
    have hp := List.find?_some hf
    simp at hp
    obtain ⟨a, b⟩ := x
    simp at hp hl
    subst hp; subst hl; exact hm

theorem lookup_append_left' {h g : List (Nat × Nat)} {id r : Nat} (hl : lookup h id = some r) : lookup (h ++ g) id = some r := by
  unfold lookup at hl ⊢
  cases hf : h.find? (fun x => decide (x.1 = id)) with
  | none => simp [hf] at hl
  | some x => simp [List.find?_append, hf] at hl ⊢; exact hl

theorem vals_inj {l : List (Nat × Nat)} (hn : (l.map (·.2)).Nodup) {i j s : Nat} (h1 : (i, s) ∈ l) (h2 : (j, s) ∈ l) : i = j := by
  rw [List.nodup_iff_pairwise_ne] at hn
  induction l with
  | nil => cases h1
  | cons a t ih =>
    simp only [List.map_cons, List.pairwise_cons] at hn
    rcases List.mem_cons.mp h1 with e1 | e1 <;> rcases List.mem_cons.mp h2 with e2 | e2
    · have := e1.trans e2.symm; cases this; rfl
    · subst e1; exact absurd rfl (hn.1 s (List.mem_map.mpr ⟨(j, s), e2, rfl⟩))
    · subst e2; exact absurd rfl (hn.1 s (List.mem_map.mpr ⟨(i, s), e1, rfl⟩))
    · exact ih hn.2 e1 e2

theorem routeLog_append (r : Nat) (a b : List Eff) : routeLog r (a ++ b) = routeLog r a ++ routeLog r b := by
  simp [routeLog]

/-- the route is no longer (and not yet again) known to the router: nothing can concern it -/
def Gone (st : St) (r : Nat) : Prop := r ∉ st.handlers.map (·.2) ∧ r ∉ msgqRoutes st.msgq

/-- serving a queue without a shutdown request: nothing logged, router keeps running, the queue is empty afterwards and
the registered routes are the old ones followed by the queued ones -/
theorem drainQ_values (q : List RMsg) (st : St) (hns : ∀ m ∈ q, ∀ c, m ≠ .shutdown c) :
    (drainQ st q).log = st.log ∧ (drainQ st q).handlers.map (·.2) = st.handlers.map (·.2) ++ msgqRoutes q ∧ (drainQ st q).msgq = [] ∧
    (drainQ st q).stopped = st.stopped := by
  induction q generalizing st with
  | nil => simp [drainQ, msgqRoutes]
  | cons m q ih =>
    cases m with
    | shutdown c => exact absurd rfl (hns _ List.mem_cons_self c)
    | addRoute r =>
      simp only [drainQ]
      obtain ⟨h1, h2, h3, h4⟩ := ih { st with handlers := st.handlers ++ [(st.nextId, r)], nextId := st.nextId + 1 }
        (fun m hm => hns m (List.mem_cons_of_mem _ hm))
      exact ⟨h1, by rw [h2]; simp [msgqRoutes], h3, h4⟩

theorem step_gone {st : St} {r : Nat} (hg : Gone st r) (hns : ∀ m ∈ st.msgq, ∀ c, m ≠ .shutdown c) (e : Ev) (he : e ≠ .wakeClosed) :
    Gone (step fixed st e) r ∧ routeLog r (step fixed st e).log = routeLog r st.log ∧
    (∀ m ∈ (step fixed st e).msgq, ∀ c, m ≠ .shutdown c) := by
  by_cases hs : st.stopped = true
  · rw [step_stopped fixed st e hs]; exact ⟨hg, rfl, hns⟩
  · have hs' : st.stopped = false := by simpa using hs
    have key : ∀ i r', lookup st.handlers i = some r' → r' ≠ r := fun i r' h e =>
      hg.1 (List.mem_map.mpr ⟨(i, r'), lookup_mem h, e⟩)
    cases e with
    | wakeClosed => exact absurd rfl he
    | wake =>
      rw [step_wake_fixed st hs']
      obtain ⟨d1, d2, d3, _⟩ := drainQ_values st.msgq st hns
      refine ⟨⟨?_, ?_⟩, ?_, ?_⟩
      · rw [d2]
        intro hm
        rcases List.mem_append.mp hm with h1 | h1
        · exact hg.1 h1
        · exact hg.2 h1
      · rw [d3]; simp [msgqRoutes]
      · rw [d1]
      · rw [d3]; intro m hm; cases hm
    | msg i t =>
      cases hl : lookup st.handlers i with
      | none =>
        have hst : step fixed st (.msg i t) = { st with log := st.log ++ [.panic] } := by unfold step; simp [hs', hl]
        rw [hst]; exact ⟨hg, by simp [routeLog_append, routeLog, isRoute], hns⟩
      | some r' =>
        have hst : step fixed st (.msg i t) = { st with log := st.log ++ [.invoke r' t] } := by unfold step; simp [hs', hl]
        rw [hst]; exact ⟨hg, by simp [routeLog_append, routeLog, isRoute, key i r' hl], hns⟩
    | closed i =>
      cases hl : lookup st.handlers i with
      | none =>
        have hst : step fixed st (.closed i) = { st with log := st.log ++ [.panic] } := by unfold step; simp [hs', hl]
        rw [hst]; exact ⟨hg, by simp [routeLog_append, routeLog, isRoute], hns⟩
      | some r' =>
        have hst : step fixed st (.closed i) = { st with handlers := st.handlers.filter (·.1 ≠ i), log := st.log ++ [.dropH r'] } := by
          unfold step; simp [hs', hl]
        rw [hst]
        refine ⟨⟨fun hm => ?_, hg.2⟩, by simp [routeLog_append, routeLog, isRoute, key i r' hl], hns⟩
        obtain ⟨x, hx, hxe⟩ := List.mem_map.mp hm
        exact hg.1 (List.mem_map.mpr ⟨x, (List.mem_filter.mp hx).1, hxe⟩)
    | badFwd i =>
      cases hl : lookup st.handlers i with
      | none =>
        have hst : step fixed st (.badFwd i) = { st with log := st.log ++ [.panic] } := by unfold step; simp [hs', hl]
        rw [hst]; exact ⟨hg, by simp [routeLog_append, routeLog, isRoute], hns⟩
      | some r' =>
        have hst : step fixed st (.badFwd i) = st := by unfold step; simp [hs', hl, fixed]
        rw [hst]; exact ⟨hg, rfl, hns⟩

theorem run_gone (es : List Ev) {st : St} {r : Nat} (hg : Gone st r) (hns : ∀ m ∈ st.msgq, ∀ c, m ≠ .shutdown c) (hnc : Ev.wakeClosed ∉ es) :
    routeLog r (run fixed st es).log = routeLog r st.log := by
  induction es generalizing st with
  | nil => rfl
  | cons e t ih =>
    simp only [run, List.foldl_cons]
    have h1 := step_gone hg hns e (fun h => hnc (h ▸ List.mem_cons_self))
    have := ih h1.1 h1.2.2 (fun h => hnc (List.mem_cons_of_mem _ h))
    simp only [run] at this
    rw [this, h1.2.1]

/-- **end-to-end dispatch** — for every event stream without a stop: the effects that concern route `r` (registered under
`id`) are exactly `invoke r t` for the messages reported for `id`, in order, once each, followed by one `dropH r` iff `id`'s
closure was reported; events of other members, registrations of other routes and wake-ups contribute nothing. -/
theorem dispatch_run (es : List Ev) {st : St} (hi : RInv st) {id r : Nat} (hl : lookup st.handlers id = some r) (hnc : Ev.wakeClosed ∉ es) :
    routeLog r (run fixed st es).log
      = routeLog r st.log ++ (proj id es).1.map (Eff.invoke r) ++ (if (proj id es).2 then [Eff.dropH r] else []) := by
  induction es generalizing st with
  | nil => simp [run, proj]
  | cons e t ih =>
    have hnc' : Ev.wakeClosed ∉ t := fun h => hnc (List.mem_cons_of_mem _ h)
    have hmem := lookup_mem hl
    have hvn : (st.handlers.map (·.2)).Nodup := (List.nodup_append.mp hi.routesNodup).1
    have other : ∀ i r', lookup st.handlers i = some r' → i ≠ id → r' ≠ r := by
      intro i r' h hne e
      exact hne (vals_inj hvn (lookup_mem (e ▸ h)) hmem)
    simp only [run, List.foldl_cons]
    cases e with
    | wakeClosed => exact absurd List.mem_cons_self hnc
    | wake =>
      simp only [proj]
      rw [step_wake_fixed st hi.running]
      have hd := drainQ_values st.msgq st hi.noShutdown
      have hl2 := drainQ_lookup st.msgq st hi.fresh hi.noShutdown
      have hi' : RInv (drainQ st st.msgq) := by
        refine ⟨by rw [hd.2.2.2]; exact hi.running, hl2.2.2.2.1, ?_, by rw [hd.2.2.1]; simp⟩
        rw [hd.2.1, hd.2.2.1]; simpa [msgqRoutes] using hi.routesNodup
      have hidlt : id < st.nextId := hi.fresh _ hmem
      have := ih hi' (by rw [hl2.2.2.2.2.2.1 id hidlt]; exact hl) hnc'
      simp only [run] at this
      rw [this, hd.1]; rfl
    | msg i tg =>
      by_cases hid : i = id
      · subst hid
        have hst : step fixed st (.msg i tg) = { st with log := st.log ++ [.invoke r tg] } := by unfold step; simp [hi.running, hl]
        have hi' : RInv (step fixed st (.msg i tg)) := by rw [hst]; exact ⟨hi.running, hi.fresh, hi.routesNodup, hi.noShutdown⟩
        have := ih hi' (by rw [hst]; exact hl) hnc'
        simp only [run] at this
        rw [this, hst]
        simp [proj, routeLog_append, routeLog, isRoute]
      · cases hli : lookup st.handlers i with
        | none =>
          have hst : step fixed st (.msg i tg) = { st with log := st.log ++ [.panic] } := by unfold step; simp [hi.running, hli]
          have hi' : RInv (step fixed st (.msg i tg)) := by rw [hst]; exact ⟨hi.running, hi.fresh, hi.routesNodup, hi.noShutdown⟩
          have := ih hi' (by rw [hst]; exact hl) hnc'
          simp only [run] at this
          rw [this, hst]; simp [proj, hid, routeLog_append, routeLog, isRoute]
        | some r' =>
          have hst : step fixed st (.msg i tg) = { st with log := st.log ++ [.invoke r' tg] } := by unfold step; simp [hi.running, hli]
          have hi' : RInv (step fixed st (.msg i tg)) := by rw [hst]; exact ⟨hi.running, hi.fresh, hi.routesNodup, hi.noShutdown⟩
          have := ih hi' (by rw [hst]; exact hl) hnc'
          simp only [run] at this
          rw [this, hst]; simp [proj, hid, routeLog_append, routeLog, isRoute, other i r' hli hid]
    | closed i =>
      by_cases hid : i = id
      · subst hid
        have hst : step fixed st (.closed i) = { st with handlers := st.handlers.filter (·.1 ≠ i), log := st.log ++ [.dropH r] } := by
          unfold step; simp [hi.running, hl]
        have hg : Gone (step fixed st (.closed i)) r := by
          rw [hst]
          refine ⟨fun hm => ?_, fun hm => ?_⟩
          · obtain ⟨x, hx, he⟩ := List.mem_map.mp hm
            have hx' := List.mem_filter.mp hx
            obtain ⟨j, s'⟩ := x
            simp at he hx'
            subst he
            exact hx'.2 (vals_inj hvn hx'.1 hmem)
          · have := (List.nodup_append.mp hi.routesNodup).2.2 r (List.mem_map.mpr ⟨(i, r), hmem, rfl⟩) r hm
            exact this rfl
        have := run_gone t hg (by rw [hst]; exact hi.noShutdown) hnc'
        simp only [run] at this
        rw [this, hst]
        simp [proj, routeLog_append, routeLog, isRoute]
      · cases hli : lookup st.handlers i with
        | none =>
          have hst : step fixed st (.closed i) = { st with log := st.log ++ [.panic] } := by unfold step; simp [hi.running, hli]
          have hi' : RInv (step fixed st (.closed i)) := by rw [hst]; exact ⟨hi.running, hi.fresh, hi.routesNodup, hi.noShutdown⟩
          have := ih hi' (by rw [hst]; exact hl) hnc'
          simp only [run] at this
          rw [this, hst]; simp [proj, hid, routeLog_append, routeLog, isRoute]
        | some r' =>
          have hst : step fixed st (.closed i) = { st with handlers := st.handlers.filter (·.1 ≠ i), log := st.log ++ [.dropH r'] } := by
            unfold step; simp [hi.running, hli]
          have hi' : RInv (step fixed st (.closed i)) := by
            rw [hst]
            refine ⟨hi.running, fun p hp => hi.fresh p (List.mem_filter.mp hp).1, ?_, hi.noShutdown⟩
            exact hi.routesNodup.sublist (List.Sublist.append (List.Sublist.map _ List.filter_sublist) (List.Sublist.refl _))
          have hl' : lookup (step fixed st (.closed i)).handlers id = some r := by
            rw [hst]; simp only; rw [lookup_filter_ne _ _ _ (Ne.symm hid)]; exact hl
          have := ih hi' hl' hnc'
          simp only [run] at this
          rw [this, hst]; simp [proj, hid, routeLog_append, routeLog, isRoute, other i r' hli hid]
    | badFwd i =>
      -- an undecodable message on a forwarding route: dropped, whichever route it is on
      cases hli : lookup st.handlers i with
      | none =>
        have hst : step fixed st (.badFwd i) = { st with log := st.log ++ [.panic] } := by unfold step; simp [hi.running, hli]
        have hi' : RInv (step fixed st (.badFwd i)) := by rw [hst]; exact ⟨hi.running, hi.fresh, hi.routesNodup, hi.noShutdown⟩
        have := ih hi' (by rw [hst]; exact hl) hnc'
        simp only [run] at this
        rw [this, hst]; simp [proj, routeLog, isRoute] <;> (by_cases hb : (proj id t).snd = true <;> simp [hb])
      | some r' =>
        have hst : step fixed st (.badFwd i) = st := by unfold step; simp [hi.running, hli, fixed]
        rw [hst]
        have := ih hi hl hnc'
        simp only [run] at this
        rw [this]; simp [proj] <;> (by_cases hb : (proj id t).snd = true <;> simp [hb])

end Router
