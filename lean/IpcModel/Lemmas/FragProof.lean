import IpcModel.Frag
import IpcModel.Lemmas.Arith
/-! Proofs about the transmission loop and the reassembly loop (helper lemmas; property theorems live in `Props/`). -/
namespace Frag
open Gen Arith

theorem endPos_ok (len pos sb : Nat) (hlt : pos < len) (hsb : 1000 ≤ sb) (h64 : sb < 2^64)
    (h0 : pos = 0 → firstFragmentSize sb < len) :
    pos < endPos len pos sb ∧ endPos len pos sb ≤ len ∧ sentSize pos (endPos len pos sb) ≤ sb
    ∧ (pos = 0 → endPos len pos sb = firstFragmentSize sb)
    ∧ (pos ≠ 0 → endPos len pos sb - pos ≤ fragmentSize sb) := by
  have hb := ffs_lt sb hsb h64
  unfold endPos sentSize endFirst endFollow
  split
  · rename_i hp; have := h0 hp; omega
  · omega

/-- what the receiver's follow-up loop answers once the sender is done (or dead): the message iff it is complete -/
def expected (d : List α) (r : Res) (eof : Bool) : RRes α :=
  match r with
  | .ok => .ok d
  | _ => if eof then .closed else .block

theorem take_append_slice (d : List α) (a b : Nat) (h : a ≤ b) :
    d.take a ++ (d.take b).drop a = d.take b := by
  have : d.take a = (d.take b).take a := by
    rw [List.take_take]; congr 1; omega
  rw [this, List.take_append_drop]

theorem recvFollow_step (sys : Nat) (d : List α) (pos endp : Nat) (q : List (List α)) (eof : Bool)
    (h1 : pos < endp) (h2 : endp ≤ d.length) (h3 : endp - pos ≤ fragmentSize sys) :
    recvFollow sys d.length (d.take pos) ((d.take endp).drop pos :: q) eof
      = recvFollow sys d.length (d.take endp) q eof := by
  have hl : (d.take pos).length = pos := by simp; omega
  have hp : ((d.take endp).drop pos).length = endp - pos := by simp; omega
  rw [recvFollow]
  simp only [hl, hp]
  have : pos < d.length := by omega
  simp only [this, if_true]
  unfold recvEnd
  have hw : min (pos + fragmentSize sys) d.length - pos ≠ 0 := by omega
  have hw2 : ¬ (min (pos + fragmentSize sys) d.length - pos < endp - pos) := by omega
  have h0 : ¬ (endp - pos = 0) := by omega
  simp only [h0, hw, false_or, if_false, hw2]
  rw [take_append_slice d pos endp (by omega)]

theorem recvFollow_nil_lt (sys total : Nat) (buf : List α) (eof : Bool) (h : buf.length < total) :
    recvFollow sys total buf [] eof = if eof then .closed else .block := by
  simp [recvFollow, h]

theorem recvFollow_nil_done (sys total : Nat) (buf : List α) (eof : Bool) (h : ¬ buf.length < total) :
    recvFollow sys total buf [] eof = .ok buf := by
  simp [recvFollow, h]

/-- **The loop invariant of `send`'s fragment loop, for every fault stream.** -/
theorem fragLoop_spec (sys : Nat) (d : List α) (pos sb : Nat) (faults : List Fault)
    (hsys : sys < 2^64) (hsb : 1000 ≤ sb) (hle : sb ≤ sys)
    (h0 : pos = 0 → firstFragmentSize sb < d.length) (hpl : pos ≤ d.length) :
    (fragLoop d.length pos sb faults).1 ≠ .panic ∧
    (0 < pos → followPkts d (fragLoop d.length pos sb faults).2 = followPkts d (fragLoop d.length pos sb faults).2 ∧
       firstPkt d (fragLoop d.length pos sb faults).2 = none ∧
       ∀ eof, recvFollow sys d.length (d.take pos) (followPkts d (fragLoop d.length pos sb faults).2) eof
          = expected d (fragLoop d.length pos sb faults).1 eof) ∧
    (pos = 0 →
       (firstPkt d (fragLoop d.length pos sb faults).2 = none ∧
          followPkts d (fragLoop d.length pos sb faults).2 = [] ∧ (fragLoop d.length pos sb faults).1 = .err)
       ∨ ∃ e, 0 < e ∧ e < d.length ∧ e ≤ firstFragmentSize sys ∧
          firstPkt d (fragLoop d.length pos sb faults).2 = some ⟨d.length, d.take e, true⟩ ∧
          ∀ eof, recvFollow sys d.length (d.take e) (followPkts d (fragLoop d.length pos sb faults).2) eof
            = expected d (fragLoop d.length pos sb faults).1 eof) := by
  generalize hlen : d.length = len at *
  fun_induction fragLoop len pos sb faults with
  | case1 pos sb faults hlt endp f rest att hprog hf r ih =>
    have he := endPos_ok len pos sb hlt hsb (by omega) h0
    have ih' := ih hsb hle (by intro h; omega) hprog.2
    have hf' : f = Fault.none := hf
    refine ⟨ih'.1, ?_, ?_⟩
    · intro hpos
      have hne : pos ≠ 0 := by omega
      have ih2 := (ih'.2.1 (by omega))
      have hatt : att = Att.follow pos endp .none := by simp [att, mkAtt, hne, hf']
      refine ⟨rfl, ?_, ?_⟩
      · simp only [hatt, firstPkt]; exact ih2.2.1
      · intro eof
        simp only [hatt, followPkts]
        have hstep := recvFollow_step sys d pos endp (followPkts d r.2) eof hprog.1 (by omega)
          (by have := he.2.2.2.2 hne; have := fs_mono sb sys hle; omega)
        rw [hlen] at hstep
        rw [hstep]; exact ih2.2.2 eof
    · intro hpos
      right
      have ih2 := (ih'.2.1 (by omega))
      have hatt : att = Att.first 0 endp len .none := by simp [att, mkAtt, hpos, hf']
      have hend : endp = firstFragmentSize sb := he.2.2.2.1 hpos
      refine ⟨endp, by omega, by have := h0 hpos; omega, ?_, ?_, ?_⟩
      · rw [hend]; exact ffs_mono sb sys hle hsys
      · simp [hatt, firstPkt]
      · intro eof
        simp only [hatt, followPkts]; exact ih2.2.2 eof
  | case2 pos sb faults hlt endp f rest att hprog hf sb' hd hsb' r ih =>
    have he := endPos_ok len pos sb hlt hsb (by omega) h0
    have hs := downsize_spec _ _ _ hd
    have hsb1 : 1000 ≤ sb' := hs.2.2.2 he.2.2.1
    have hf' : f = Fault.enobufs := hf
    have ih' := ih hsb1 (by omega) (by
      intro hp
      have : endp = firstFragmentSize sb := he.2.2.2.1 hp
      have hb' := ffs_lt sb' hsb1 (by omega)
      have h1 := hs.2.1
      unfold sentSize at h1
      rw [fs_eq] at hb'
      omega) hpl
    have hnf : ∀ x, firstPkt d (att :: x) = firstPkt d x := by
      intro x; simp only [att, mkAtt, hf']; split <;> simp [firstPkt]
    have hnp : ∀ x, followPkts d (att :: x) = followPkts d x := by
      intro x; simp only [att, mkAtt, hf']; split <;> simp [followPkts]
    refine ⟨ih'.1, ?_, ?_⟩
    · intro hpos
      have ih2 := ih'.2.1 hpos
      refine ⟨rfl, ?_, ?_⟩
      · rw [hnf]; exact ih2.2.1
      · intro eof; rw [hnp]; exact ih2.2.2 eof
    · intro hpos
      have ih2 := ih'.2.2 hpos
      rcases ih2 with ⟨a, b, c⟩ | ⟨e, h1, h2, h3, h4, h5⟩
      · left; exact ⟨by rw [hnf]; exact a, by rw [hnp]; exact b, c⟩
      · right; exact ⟨e, h1, h2, h3, by rw [hnf]; exact h4, by intro eof; rw [hnp]; exact h5 eof⟩
  | case3 pos sb faults hlt endp f rest hprog hf sb' hd hnsb =>
    exfalso
    have he := endPos_ok len pos sb hlt hsb (by omega) h0
    have hs := downsize_spec _ _ _ hd
    unfold sentSize at hs he
    omega
  | case4 pos sb faults hlt endp f att hprog hf hd =>
    have hf' : f = Fault.enobufs := hf
    have hnf : firstPkt d [att] = none := by
      simp only [att, mkAtt, hf']; split <;> simp [firstPkt]
    have hnp : followPkts d [att] = [] := by
      simp only [att, mkAtt, hf']; split <;> simp [followPkts]
    refine ⟨by simp, ?_, ?_⟩
    · intro hpos
      refine ⟨rfl, hnf, ?_⟩
      intro eof
      rw [hnp, recvFollow_nil_lt _ _ _ _ (by simp; omega)]; simp [expected]
    · intro hpos; left; exact ⟨hnf, hnp, rfl⟩
  | case5 pos sb faults hlt endp f att hprog hf =>
    have hf' : f = Fault.fatal := hf
    have hnf : firstPkt d [att] = none := by
      simp only [att, mkAtt, hf']; split <;> simp [firstPkt]
    have hnp : followPkts d [att] = [] := by
      simp only [att, mkAtt, hf']; split <;> simp [followPkts]
    refine ⟨by simp, ?_, ?_⟩
    · intro hpos
      refine ⟨rfl, hnf, ?_⟩
      intro eof
      rw [hnp, recvFollow_nil_lt _ _ _ _ (by simp; omega)]; simp [expected]
    · intro hpos; left; exact ⟨hnf, hnp, rfl⟩
  | case6 pos sb faults hlt endp f rest hnprog =>
    exfalso
    have he := endPos_ok len pos sb hlt hsb (by omega) h0
    exact hnprog ⟨he.1, he.2.1⟩
  | case7 pos sb faults hnlt =>
    refine ⟨by simp, ?_, ?_⟩
    · intro hpos
      refine ⟨rfl, by simp [firstPkt], ?_⟩
      intro eof
      have hpe : pos = len := by omega
      simp only [followPkts]
      rw [recvFollow_nil_done _ _ _ _ (by simp; omega)]
      simp [expected, hpe, ← hlen]
    · intro hpos
      exfalso
      have := h0 hpos
      omega

end Frag

namespace Frag
open Gen Arith

/-- without faults the loop cannot return an error -/
theorem fragLoop_nofault (len pos sb : Nat) (faults : List Fault) (hf : ∀ f ∈ faults, f = Fault.none) :
    (fragLoop len pos sb faults).1 ≠ .err := by
  fun_induction fragLoop len pos sb faults with
  | case1 pos sb faults hlt endp f rest att hprog hf' r ih =>
    apply ih
    intro x hx
    apply hf
    cases faults with
    | nil => simp [rest, nextFault] at hx
    | cons a t => simp [rest, nextFault] at hx; simp [hx]
  | case2 pos sb faults hlt endp f rest att hprog hf' sb' hd hsb' r ih =>
    exfalso
    cases faults with
    | nil => simp [f, nextFault] at hf'
    | cons a t => simp [f, nextFault] at hf'; have := hf a (by simp); simp [this] at hf'
  | case3 => simp
  | case4 pos sb faults hlt endp f att hprog hf' hd =>
    exfalso
    cases faults with
    | nil => simp [f, nextFault] at hf'
    | cons a t => simp [f, nextFault] at hf'; have := hf a (by simp); simp [this] at hf'
  | case5 pos sb faults hlt endp f att hprog hf' =>
    exfalso
    cases faults with
    | nil => simp [f, nextFault] at hf'
    | cons a t => simp [f, nextFault] at hf'; have := hf a (by simp); simp [this] at hf'
  | case6 => simp
  | case7 => simp

/-- number of delivered packets that carry the descriptors (single packet or first fragment) -/
def fdCarriers : List Att → Nat
  | [] => 0
  | .single _ .none :: r => 1 + fdCarriers r
  | .first _ _ _ .none :: r => 1 + fdCarriers r
  | _ :: r => fdCarriers r

theorem fragLoop_fdCarriers (len pos sb : Nat) (faults : List Fault) :
    (0 < pos → fdCarriers (fragLoop len pos sb faults).2 = 0) ∧
    (pos = 0 → fdCarriers (fragLoop len pos sb faults).2 ≤ 1 ∧
       ((fragLoop len pos sb faults).1 = .ok → 0 < len → fdCarriers (fragLoop len pos sb faults).2 = 1)) := by
  fun_induction fragLoop len pos sb faults with
  | case1 pos sb faults hlt endp f rest att hprog hf' r ih =>
    have hf : f = Fault.none := hf'
    constructor
    · intro hp
      have : att = Att.follow pos endp .none := by simp [att, mkAtt, hf]; omega
      simp only [this, fdCarriers]; exact ih.1 (by omega)
    · intro hp
      have : att = Att.first 0 endp len .none := by simp [att, mkAtt, hf, hp]
      simp only [this, fdCarriers]
      have h0 : fdCarriers (fragLoop len endp sb rest).2 = 0 := ih.1 (Nat.lt_of_le_of_lt (Nat.zero_le _) hprog.1)
      have hr : r = fragLoop len endp sb rest := rfl
      rw [hr, h0]; simp
  | case2 pos sb faults hlt endp f rest att hprog hf' sb' hd hsb' r ih =>
    have hf : f = Fault.enobufs := hf'
    have hz : ∀ x, fdCarriers (att :: x) = fdCarriers x := by
      intro x; simp only [att, mkAtt, hf]; split <;> simp [fdCarriers]
    simp only [hz]; exact ih
  | case3 pos sb faults hlt endp f att hprog hf' sb' hd hnsb =>
    have hf : f = Fault.enobufs := hf'
    have hz : fdCarriers [att] = 0 := by
      simp only [att, mkAtt, hf]; split <;> simp [fdCarriers]
    simp [hz]
  | case4 pos sb faults hlt endp f att hprog hf' hd =>
    have hf : f = Fault.enobufs := hf'
    have hz : fdCarriers [att] = 0 := by
      simp only [att, mkAtt, hf]; split <;> simp [fdCarriers]
    simp [hz]
  | case5 pos sb faults hlt endp f att hprog hf' =>
    have hf : f = Fault.fatal := hf'
    have hz : fdCarriers [att] = 0 := by
      simp only [att, mkAtt, hf]; split <;> simp [fdCarriers]
    simp [hz]
  | case6 pos sb faults hlt endp f att hnprog =>
    constructor
    · intro hp
      have hne : pos ≠ 0 := by omega
      simp only [att, mkAtt, hne, if_false]
      cases f <;> simp [fdCarriers]
    · intro hp
      simp only [att, mkAtt, hp, if_true]
      cases f <;> simp [fdCarriers]
  | case7 pos sb faults hnlt =>
    simp [fdCarriers]; omega

/-- every attempt either consumes a fault or advances by at least one byte -/
theorem fragLoop_attempts (len pos sb : Nat) (faults : List Fault) :
    (fragLoop len pos sb faults).2.length ≤ faults.length + (len - pos) + 1 := by
  fun_induction fragLoop len pos sb faults with
  | case1 pos sb faults hlt endp f rest att hprog hf' r ih =>
    have : rest.length ≤ faults.length := by
      cases faults <;> simp [rest, nextFault]
    have ih' : (fragLoop len endp sb rest).2.length ≤ rest.length + (len - endp) + 1 := ih
    have h1 : pos < endp := hprog.1
    have h2 : endp ≤ len := hprog.2
    show (fragLoop len endp sb rest).2.length + 1 ≤ _
    omega
  | case2 pos sb faults hlt endp f rest att hprog hf' sb' hd hsb' r ih =>
    have hf : f = Fault.enobufs := hf'
    have : rest.length + 1 = faults.length := by
      cases faults with
      | nil => simp [f, nextFault] at hf
      | cons a t => simp [rest, nextFault]
    have ih' : (fragLoop len pos sb' rest).2.length ≤ rest.length + (len - pos) + 1 := ih
    show (fragLoop len pos sb' rest).2.length + 1 ≤ _
    omega
  | case3 => simp
  | case4 => simp
  | case5 => simp
  | case6 => simp
  | case7 => simp

end Frag

namespace Frag
theorem recvFollow_shape (sys total : Nat) (buf : List α) (q : List (List α)) (eof : Bool) :
    (recvFollow sys total buf q eof).shape = recvFollowN sys total buf.length (q.map List.length) eof := by
  induction q generalizing buf with
  | nil => simp only [recvFollow, recvFollowN, List.map]; split <;> (try split) <;> simp [RRes.shape]
  | cons p q ih =>
    simp only [recvFollow, recvFollowN, List.map]
    split
    · split
      · simp [RRes.shape]
      · split
        · simp [RRes.shape]
        · rw [ih]; simp
    · simp [RRes.shape]

/-- the size-level receiver run by the driver is the shape of the data-level receiver of the theorems -/
theorem recvMsg_shape (sys : Nat) (p : FirstPkt α) (ded : List (List α)) (eof : Bool) :
    (recvMsg sys p ded eof).shape = recvMsgN sys p.total p.payload.length p.hasDed (ded.map List.length) eof := by
  unfold recvMsg recvMsgN
  split
  · simp [RRes.shape]
  · split
    · simp [RRes.shape]
    · split
      · simp [RRes.shape]
      · split
        · simp [RRes.shape]
        · exact recvFollow_shape _ _ _ _ _
end Frag

namespace Frag
open Gen Arith

/-- size of the packet an attempt hands to the kernel (header included for packets on the channel socket) -/
def attBytes : Att → Nat
  | .single len _ => 8 + len
  | .sock => 0
  | .first lo hi _ _ => 8 + (hi - lo)
  | .follow lo hi _ => hi - lo

/-- an attempt's slice is inside the data and non-empty -/
def attInRange (len : Nat) : Att → Prop
  | .single l _ => l = len
  | .sock => True
  | .first lo hi total _ => lo = 0 ∧ lo < hi ∧ hi ≤ len ∧ total = len
  | .follow lo hi _ => 0 < lo ∧ lo < hi ∧ hi ≤ len

/-- every slice the loop takes is in range and non-empty, and every packet fits the kernel's limit `fragment_size(sys)` -/
theorem fragLoop_bounds (sys len pos sb : Nat) (faults : List Fault)
    (hsys : sys < 2^64) (hsb : 1000 ≤ sb) (hle : sb ≤ sys)
    (h0 : pos = 0 → firstFragmentSize sb < len) (hpl : pos ≤ len) :
    ∀ a ∈ (fragLoop len pos sb faults).2, attInRange len a ∧ attBytes a ≤ fragmentSize sys := by
  fun_induction fragLoop len pos sb faults with
  | case1 pos sb faults hlt endp f rest att hprog hf r ih =>
    have he := endPos_ok len pos sb hlt hsb (by omega) h0
    have hb := ffs_lt sb hsb (by omega)
    have hm := fs_mono sb sys hle
    have ih' := ih hsb hle (by intro h; omega) hprog.2
    intro a ha
    simp only [List.mem_cons] at ha
    rcases ha with rfl | ha
    · simp only [att, mkAtt]
      split
      · rename_i hp
        have := he.2.2.2.1 hp
        simp only [attInRange, attBytes]; refine ⟨⟨trivial, ?_, hprog.2, trivial⟩, ?_⟩ <;> omega
      · rename_i hp
        have := he.2.2.2.2 hp
        simp only [attInRange, attBytes]; refine ⟨⟨?_, hprog.1, hprog.2⟩, ?_⟩ <;> omega
    · exact ih' a ha
  | case2 pos sb faults hlt endp f rest att hprog hf sb' hd hsb' r ih =>
    have he := endPos_ok len pos sb hlt hsb (by omega) h0
    have hb := ffs_lt sb hsb (by omega)
    have hm := fs_mono sb sys hle
    have hs := downsize_spec _ _ _ hd
    have hsb1 : 1000 ≤ sb' := hs.2.2.2 he.2.2.1
    have ih' := ih hsb1 (by omega) (by
      intro hp
      have : endp = firstFragmentSize sb := he.2.2.2.1 hp
      have hb' := ffs_lt sb' hsb1 (by omega)
      have h1 := hs.2.1
      unfold sentSize at h1
      rw [fs_eq] at hb'
      omega) hpl
    intro a ha
    simp only [List.mem_cons] at ha
    rcases ha with rfl | ha
    · simp only [att, mkAtt]
      split
      · rename_i hp
        have := he.2.2.2.1 hp
        simp only [attInRange, attBytes]; refine ⟨⟨trivial, ?_, hprog.2, trivial⟩, ?_⟩ <;> omega
      · rename_i hp
        have := he.2.2.2.2 hp
        simp only [attInRange, attBytes]; refine ⟨⟨?_, hprog.1, hprog.2⟩, ?_⟩ <;> omega
    · exact ih' a ha
  | case3 pos sb faults hlt endp f att hprog hf sb' hd hnsb =>
    exfalso
    have he := endPos_ok len pos sb hlt hsb (by omega) h0
    have hs := downsize_spec _ _ _ hd
    unfold sentSize at hs he
    omega
  | case4 pos sb faults hlt endp f att hprog hf hd =>
    have he := endPos_ok len pos sb hlt hsb (by omega) h0
    have hb := ffs_lt sb hsb (by omega)
    have hm := fs_mono sb sys hle
    intro a ha
    simp only [List.mem_singleton] at ha
    subst ha
    simp only [att, mkAtt]
    split
    · rename_i hp
      have := he.2.2.2.1 hp
      simp only [attInRange, attBytes]; refine ⟨⟨trivial, ?_, hprog.2, trivial⟩, ?_⟩ <;> omega
    · rename_i hp
      have := he.2.2.2.2 hp
      simp only [attInRange, attBytes]; refine ⟨⟨?_, hprog.1, hprog.2⟩, ?_⟩ <;> omega
  | case5 pos sb faults hlt endp f att hprog hf =>
    have he := endPos_ok len pos sb hlt hsb (by omega) h0
    have hb := ffs_lt sb hsb (by omega)
    have hm := fs_mono sb sys hle
    intro a ha
    simp only [List.mem_singleton] at ha
    subst ha
    simp only [att, mkAtt]
    split
    · rename_i hp
      have := he.2.2.2.1 hp
      simp only [attInRange, attBytes]; refine ⟨⟨trivial, ?_, hprog.2, trivial⟩, ?_⟩ <;> omega
    · rename_i hp
      have := he.2.2.2.2 hp
      simp only [attInRange, attBytes]; refine ⟨⟨?_, hprog.1, hprog.2⟩, ?_⟩ <;> omega
  | case6 pos sb faults hlt endp f att hnprog =>
    exfalso
    have he := endPos_ok len pos sb hlt hsb (by omega) h0
    exact hnprog ⟨he.1, he.2.1⟩
  | case7 => simp

theorem sendLoop_bounds (sys len : Nat) (faults : List Fault) (h : 1000 ≤ sys) (h64 : sys < 2^64) :
    ∀ a ∈ (sendLoop sys len faults).2, attInRange len a ∧ attBytes a ≤ fragmentSize sys := by
  have hb := ffs_lt sys h h64
  unfold sendLoop
  split
  · rename_i hs
    have hs' : len ≤ firstFragmentSize sys := by simpa [singleTest] using hs
    split
    · intro a ha; simp at ha; subst ha; simp [attInRange, attBytes]; omega
    · intro a ha; simp at ha; subst ha; simp [attInRange, attBytes]; omega
    · rename_i rest _
      split
      · rename_i sb' hd
        have hsp := downsize_spec _ _ _ hd
        have h1000 : 1000 ≤ sb' := hsp.2.2.2 (by omega)
        have := fragLoop_bounds sys len 0 sb' rest h64 h1000 (by omega)
          (by intro _; have := ffs_lt sb' h1000 (by omega); rw [fs_eq] at this; omega) (by omega)
        intro a ha
        simp only [List.mem_cons] at ha
        rcases ha with rfl | rfl | ha
        · simp [attInRange, attBytes]; omega
        · simp [attInRange, attBytes]
        · exact this a ha
      · intro a ha; simp at ha; subst ha; simp [attInRange, attBytes]; omega
  · rename_i hs
    have hs' : firstFragmentSize sys < len := by simpa [singleTest] using hs
    have := fragLoop_bounds sys len 0 sys faults h64 h (by omega) (by intro _; exact hs') (by omega)
    intro a ha
    simp only [List.mem_cons] at ha
    rcases ha with rfl | ha
    · simp [attInRange, attBytes]
    · exact this a ha

theorem sendLoop_nofault (sys len : Nat) : (sendLoop sys len []).1 ≠ .err := by
  unfold sendLoop
  split
  · simp [nextFault]
  · have := fragLoop_nofault len 0 sys [] (by simp)
    simpa using this

end Frag
