import IpcModel.Lemmas.ShmProof
/-! Several regions in one message: `k` descriptors put in flight by one `sendmsg`, then received one after the other
(`from_fd` per non-socket descriptor, in descriptor order).  The new handles appear in the order of the regions in the
message and each stems from its own region. -/
namespace Shm

def flightOf (p : Nat × List Nat) : Op := .flight p.1

theorem flights_spec (ps : List (Nat × List Nat)) (w : W) (hi : Inv w)
    (hlive : ∀ p ∈ ps, ∃ h, w.hs[p.1]? = some (some (h, p.2))) :
    ∃ fl : List (Nat × List Nat), fl.map Prod.snd = ps.map Prod.snd ∧
      (ps.map flightOf).foldl step w = ⟨w.k, w.hs, w.flight ++ fl⟩ := by
  induction ps generalizing w with
  | nil => exact ⟨[], rfl, by simp⟩
  | cons p ps ih =>
    obtain ⟨h, hh⟩ := hlive p (List.mem_cons_self ..)
    obtain ⟨_, _, o, ho, _, _⟩ := hi.2.1 p.1 h p.2 hh
    have hstep : step w (flightOf p) = ⟨w.k, w.hs, w.flight ++ [(o, p.2)]⟩ := by
      simp only [flightOf, step, hh, ho]
    have hi1 : Inv (step w (flightOf p)) := by
      rw [hstep]
      refine ⟨hi.1, hi.2.1, hi.2.2.1, ?_⟩
      intro o' src' hm
      rcases List.mem_append.mp hm with hm | hm
      · exact hi.2.2.2 o' src' hm
      · simp only [List.mem_singleton, Prod.mk.injEq] at hm
        obtain ⟨rfl, rfl⟩ := hm
        obtain ⟨_, _, o2, ho2, hobj, _⟩ := hi.2.1 p.1 h p.2 hh
        rw [ho] at ho2; cases ho2; exact hobj
    have hlive1 : ∀ q ∈ ps, ∃ h, (step w (flightOf p)).hs[q.1]? = some (some (h, q.2)) := by
      intro q hq; rw [hstep]; exact hlive q (List.mem_cons_of_mem _ hq)
    obtain ⟨fl, hfl, hrun⟩ := ih (step w (flightOf p)) hi1 hlive1
    refine ⟨(o, p.2) :: fl, by simp [hfl], ?_⟩
    simp only [List.map_cons, List.foldl_cons]
    rw [hrun, hstep]
    simp

theorem recvs_spec (fl : List (Nat × List Nat)) (w : W) (hfl : w.flight = fl) :
    ∃ nw : List (Handle × List Nat), nw.map Prod.snd = fl.map Prod.snd ∧
      ((List.replicate fl.length Op.recvFlight).foldl step w).hs = w.hs ++ nw.map some ∧
      ((List.replicate fl.length Op.recvFlight).foldl step w).flight = [] := by
  induction fl generalizing w with
  | nil => exact ⟨[], rfl, by simp, by simpa using hfl⟩
  | cons x rest ih =>
    obtain ⟨o, src⟩ := x
    have hstep : step w .recvFlight = ⟨(recvObj w.k o).1, w.hs ++ [some ((recvObj w.k o).2, src)], rest⟩ := by
      simp only [step, hfl]
    obtain ⟨nw, hnw, hhs, hflt⟩ := ih (step w .recvFlight) (by rw [hstep])
    refine ⟨((recvObj w.k o).2, src) :: nw, by simp [hnw], ?_, ?_⟩
    · simp only [List.length_cons, List.replicate_succ, List.foldl_cons]
      rw [hhs, hstep]; simp
    · simp only [List.length_cons, List.replicate_succ, List.foldl_cons]
      exact hflt

theorem drops_keep (ds : List Nat) (w : W) :
    ((ds.map Op.drop).foldl step w).flight = w.flight ∧ ((ds.map Op.drop).foldl step w).hs.length = w.hs.length := by
  induction ds generalizing w with
  | nil => exact ⟨rfl, rfl⟩
  | cons d ds ih =>
    have h1 : (step w (.drop d)).flight = w.flight ∧ (step w (.drop d)).hs.length = w.hs.length := by
      simp only [step]
      cases hg : w.hs[d]? with
      | none => exact ⟨rfl, rfl⟩
      | some x =>
        cases x with
        | none => exact ⟨rfl, rfl⟩
        | some p => simp
    obtain ⟨a, b⟩ := ih (step w (.drop d))
    simp only [List.map_cons, List.foldl_cons]
    exact ⟨a.trans h1.1, b.trans h1.2⟩

def cloneOf (p : Nat × List Nat) : Op := .clone p.1

theorem clones_spec (ps : List (Nat × List Nat)) (w : W) (hi : Inv w) (hsz : ∀ n, Gen.shmObjectSize n = n)
    (hlive : ∀ p ∈ ps, ∃ h, w.hs[p.1]? = some (some (h, p.2))) :
    ∃ nw : List (Handle × List Nat), nw.map Prod.snd = ps.map Prod.snd ∧
      ((ps.map cloneOf).foldl step w).hs = w.hs ++ nw.map some ∧
      ((ps.map cloneOf).foldl step w).flight = w.flight := by
  induction ps generalizing w with
  | nil => exact ⟨[], rfl, by simp, rfl⟩
  | cons p ps ih =>
    obtain ⟨h, hh⟩ := hlive p (List.mem_cons_self ..)
    obtain ⟨_, _, o, ho, _, _⟩ := hi.2.1 p.1 h p.2 hh
    have hc : ∃ k' h', clone w.k h = some (k', h') := by
      simp only [clone, ho, Option.map_some]; exact ⟨_, _, rfl⟩
    obtain ⟨k', h', hc⟩ := hc
    have hstep : step w (cloneOf p) = ⟨k', w.hs ++ [some (h', p.2)], w.flight⟩ := by
      simp only [cloneOf, step, hh, hc]
    have hi1 : Inv (step w (cloneOf p)) := inv_step w _ hsz hi
    have hlive1 : ∀ q ∈ ps, ∃ h, (step w (cloneOf p)).hs[q.1]? = some (some (h, q.2)) := by
      intro q hq
      obtain ⟨hq', hqq⟩ := hlive q (List.mem_cons_of_mem _ hq)
      refine ⟨hq', ?_⟩
      rw [hstep]
      have hlt : q.1 < w.hs.length := (List.getElem?_eq_some_iff.mp hqq).1
      simp only [List.getElem?_append_left hlt]; exact hqq
    obtain ⟨nw, hnw, hhs, hfl⟩ := ih (step w (cloneOf p)) hi1 hlive1
    refine ⟨(h', p.2) :: nw, by simp [hnw], ?_, ?_⟩
    · simp only [List.map_cons, List.foldl_cons]
      rw [hhs, hstep]; simp
    · simp only [List.map_cons, List.foldl_cons]
      rw [hfl, hstep]

end Shm
