import IpcModel.Router
/-! Proofs about the repaired router thread (`Router.fixed`). -/
namespace Router

theorem step_wake_fixed (st : St) (hs : st.stopped = false) : step fixed st .wake = drainQ st st.msgq := by
  unfold step; simp [hs, fixed]

theorem drainQ_noPanic (q : List RMsg) (st : St) (hn : noPanic st) : noPanic (drainQ st q) := by
  induction q generalizing st with
  | nil => simpa [drainQ, noPanic] using hn
  | cons m q ih =>
    cases m with
    | addRoute r => simp only [drainQ]; exact ih _ (by simpa [noPanic] using hn)
    | shutdown c => simp [drainQ, noPanic, dropAll] at hn ⊢; exact hn

/-- registering queued routes keeps every registered id below `nextId`, and never changes the route of an existing id -/
theorem drainQ_lookup (q : List RMsg) (st : St) (hfresh : ∀ p, p ∈ st.handlers → p.1 < st.nextId) (hns : ∀ m ∈ q, ∀ c, m ≠ .shutdown c) :
    (drainQ st q).log = st.log ∧ (drainQ st q).stopped = st.stopped ∧ (drainQ st q).msgq = [] ∧
    (∀ p, p ∈ (drainQ st q).handlers → p.1 < (drainQ st q).nextId) ∧ st.nextId ≤ (drainQ st q).nextId ∧
    (∀ id, id < st.nextId → lookup (drainQ st q).handlers id = lookup st.handlers id) ∧
    ((drainQ st q).handlers.map (·.2) = st.handlers.map (·.2) ++ q.filterMap (fun | .addRoute r => some r | .shutdown _ => none)) := by
  induction q generalizing st with
  | nil => exact ⟨rfl, rfl, rfl, hfresh, Nat.le_refl _, fun _ _ => rfl, by simp [drainQ]⟩
  | cons m q ih =>
    cases m with
    | shutdown c => exact absurd rfl (hns _ List.mem_cons_self c)
    | addRoute r =>
      simp only [drainQ]
      have hf' : ∀ p, p ∈ st.handlers ++ [(st.nextId, r)] → p.1 < st.nextId + 1 := by
        intro p hp
        rcases List.mem_append.mp hp with h1 | h1
        · have := hfresh p h1; omega
        · simp at h1; subst h1; simp
      obtain ⟨h1, h2, h3, h4, h5, h6, h7⟩ := ih { st with handlers := st.handlers ++ [(st.nextId, r)], nextId := st.nextId + 1 } hf'
        (fun m hm => hns m (List.mem_cons_of_mem _ hm))
      refine ⟨h1, h2, h3, h4, by simp only at h5; omega, ?_, by simp only at h7; rw [h7]; simp⟩
      intro id hid
      rw [h6 id (by simp only; omega)]
      simp only [lookup]
      rw [List.find?_append]
      cases hf : st.handlers.find? (fun x => decide (x.1 = id)) with
      | some p => simp
      | none =>
        have : ¬ st.nextId = id := by omega
        simp [this]

theorem step_noPanic (st : St) (e : Ev) (hn : noPanic st) (hok : st.stopped = true ∨ okEv st e) :
    noPanic (step fixed st e) := by
  unfold step
  split
  · exact hn
  · rename_i hs
    have hok' : okEv st e := by
      rcases hok with h | h
      · exact absurd h hs
      · exact h
    cases e with
    | wake =>
      have hs' : st.stopped = false := by simpa using hs
      have := drainQ_noPanic st.msgq st hn
      simpa [fixed] using this
    | wakeClosed => simp [noPanic, dropAll, fixed] at hn ⊢; exact hn
    | msg id tag =>
      simp only [okEv] at hok'
      cases hl : lookup st.handlers id with
      | none => simp [hl] at hok'
      | some r => simp [noPanic, hl] at hn ⊢; exact hn
    | closed id =>
      simp only [okEv] at hok'
      cases hl : lookup st.handlers id with
      | none => simp [hl] at hok'
      | some r => simp [noPanic, hl] at hn ⊢; exact hn
    | badFwd id =>
      simp only [okEv] at hok'
      cases hl : lookup st.handlers id with
      | none => simp [hl] at hok'
      | some r => simpa [noPanic, hl, fixed] using hn

theorem run_noPanic (st : St) (es : List Ev) (hn : noPanic st) (hok : okRun fixed st es) : noPanic (run fixed st es) := by
  induction es generalizing st with
  | nil => simpa [run] using hn
  | cons e es ih =>
    simp only [run, List.foldl_cons]
    exact ih (step fixed st e) (step_noPanic st e hn hok.1) hok.2

theorem step_stopped (V : Variant) (st : St) (e : Ev) (h : st.stopped = true) : step V st e = st := by
  unfold step; simp [h]
theorem run_stopped (V : Variant) (st : St) (es : List Ev) (h : st.stopped = true) : run V st es = st := by
  induction es with
  | nil => rfl
  | cons e es ih => simp only [run, List.foldl_cons, step_stopped V st e h]; exact ih

theorem shutdown_stops (st : St) (c : Nat) (q : List RMsg) (es : List Ev)
    (hs : st.stopped = false) (hq : st.msgq = .shutdown c :: q) :
    (run fixed st (.wake :: es)).handlers = [] ∧ (run fixed st (.wake :: es)).stopped = true ∧
    (run fixed st (.wake :: es)).log = st.log ++ st.handlers.map (fun p => Eff.dropH p.2) ++ [.ack c, .stop] := by
  have h1 : step fixed st .wake = { (dropAll { st with msgq := q }) with log := (dropAll { st with msgq := q }).log ++ [.ack c, .stop], stopped := true } := by
    rw [step_wake_fixed st hs, hq]; simp [drainQ]
  have : run fixed st (.wake :: es) = step fixed st .wake := by
    simp only [run, List.foldl_cons]
    exact run_stopped _ _ es (by rw [h1])
  rw [this, h1]
  simp [dropAll]

theorem wakeClosed_stops (st : St) (es : List Ev) (hs : st.stopped = false) :
    (run fixed st (.wakeClosed :: es)).handlers = [] ∧ (run fixed st (.wakeClosed :: es)).stopped = true ∧
    (run fixed st (.wakeClosed :: es)).log = st.log ++ st.handlers.map (fun p => Eff.dropH p.2) ++ [.stop] := by
  have h1 : step fixed st .wakeClosed = { (dropAll st) with log := (dropAll st).log ++ [.stop], stopped := true } := by
    unfold step; simp [hs, fixed]
  have : run fixed st (.wakeClosed :: es) = step fixed st .wakeClosed := by
    simp only [run, List.foldl_cons]
    exact run_stopped _ _ es (by rw [h1])
  rw [this, h1]
  simp [dropAll]

/-! ### dispatch -/

def routeOf (st : St) (id : Nat) : Option Nat := lookup st.handlers id

theorem step_msg (st : St) (id tag r : Nat) (hs : st.stopped = false) (hr : routeOf st id = some r) :
    (step fixed st (.msg id tag)).log = st.log ++ [.invoke r tag] ∧ (step fixed st (.msg id tag)).handlers = st.handlers := by
  unfold step; simp only [routeOf] at hr; simp [hs, hr]

theorem find_filter_ne (h : List (Nat × Nat)) (id id' : Nat) (hne : id' ≠ id) :
    (h.filter (fun x => decide (x.1 ≠ id))).find? (fun x => decide (x.1 = id')) = h.find? (fun x => decide (x.1 = id')) := by
  induction h with
  | nil => rfl
  | cons p t ih =>
    by_cases hp : p.1 = id
    · have hp' : ¬ p.1 = id' := by rw [hp]; exact fun e => hne e.symm
      rw [List.filter_cons_of_neg (by simp [hp]), List.find?_cons_of_neg (by simp [hp']), ih]
    · rw [List.filter_cons_of_pos (by simp [hp])]
      by_cases hp' : p.1 = id'
      · rw [List.find?_cons_of_pos (by simp [hp']), List.find?_cons_of_pos (by simp [hp'])]
      · rw [List.find?_cons_of_neg (by simp [hp']), List.find?_cons_of_neg (by simp [hp']), ih]

theorem find_filter_self (h : List (Nat × Nat)) (id : Nat) :
    (h.filter (fun x => decide (x.1 ≠ id))).find? (fun x => decide (x.1 = id)) = none := by
  rw [List.find?_eq_none]
  intro p hp
  have := (List.mem_filter.mp hp).2
  simpa using this

theorem lookup_filter_ne (h : List (Nat × Nat)) (id id' : Nat) (hne : id' ≠ id) :
    lookup (h.filter (·.1 ≠ id)) id' = lookup h id' := by
  simp only [lookup]; rw [find_filter_ne h id id' hne]

theorem lookup_filter_self (h : List (Nat × Nat)) (id : Nat) : lookup (h.filter (·.1 ≠ id)) id = none := by
  simp only [lookup]; rw [find_filter_self h id]; rfl

theorem step_closed (st : St) (id r : Nat) (hs : st.stopped = false) (hr : routeOf st id = some r) :
    (step fixed st (.closed id)).log = st.log ++ [.dropH r] ∧
    routeOf (step fixed st (.closed id)) id = none ∧
    ∀ id', id' ≠ id → routeOf (step fixed st (.closed id)) id' = routeOf st id' := by
  unfold step; simp only [routeOf] at hr
  simp only [hs, hr, Bool.false_eq_true, if_false]
  refine ⟨by simp, ?_, ?_⟩
  · simp only [routeOf]; exact lookup_filter_self _ _
  · intro id' hne; simp only [routeOf]; exact lookup_filter_ne _ _ _ hne

theorem step_add_preserves (st : St) (r : Nat) (q : List RMsg) (hs : st.stopped = false) (hq : st.msgq = .addRoute r :: q)
    (hns : ∀ m ∈ q, ∀ c, m ≠ .shutdown c)
    (hfresh : ∀ p, p ∈ st.handlers → p.1 < st.nextId) (id : Nat) (hid : id < st.nextId) :
    routeOf (step fixed st .wake) id = routeOf st id ∧ routeOf (step fixed st .wake) st.nextId = some r := by
  rw [step_wake_fixed st hs, hq]
  simp only [drainQ, routeOf]
  have hf' : ∀ p, p ∈ st.handlers ++ [(st.nextId, r)] → p.1 < st.nextId + 1 := by
    intro p hp
    rcases List.mem_append.mp hp with h1 | h1
    · have := hfresh p h1; omega
    · simp at h1; subst h1; simp
  have h := (drainQ_lookup q { st with handlers := st.handlers ++ [(st.nextId, r)], nextId := st.nextId + 1 } hf' hns).2.2.2.2.2.1
  constructor
  · rw [h id (by simp only; omega)]
    simp only [lookup]
    rw [List.find?_append]
    cases hf : st.handlers.find? (fun x => decide (x.1 = id)) with
    | some p => simp
    | none =>
      have : ¬ st.nextId = id := by omega
      simp [this]
  · rw [h st.nextId (by simp only; omega)]
    simp only [lookup]
    rw [List.find?_append]
    have : st.handlers.find? (fun x => decide (x.1 = st.nextId)) = none := by
      rw [List.find?_eq_none]
      intro p hp; have := hfresh p hp; simp; omega
    simp [this]

/-- ids stay fresh along any run: every registered id is below `nextId` -/
def Fresh (st : St) : Prop := ∀ p, p ∈ st.handlers → p.1 < st.nextId

theorem drainQ_fresh (q : List RMsg) (st : St) (h : Fresh st) : Fresh (drainQ st q) := by
  induction q generalizing st with
  | nil => simpa [drainQ, Fresh] using h
  | cons m q ih =>
    cases m with
    | addRoute r =>
      simp only [drainQ]
      apply ih
      intro p hp
      simp at hp
      rcases hp with hp | rfl
      · have := h p hp; simp; omega
      · simp
    | shutdown c => simp [drainQ, Fresh, dropAll]

theorem step_fresh (V : Variant) (st : St) (e : Ev) (h : Fresh st) : Fresh (step V st e) := by
  unfold step
  split
  · exact h
  · cases e with
    | wake =>
      simp only
      split
      · exact drainQ_fresh st.msgq st h
      · cases hq : st.msgq with
        | nil => simpa [Fresh] using h
        | cons m q =>
          cases m with
          | addRoute r =>
            intro p hp
            simp at hp
            rcases hp with hp | rfl
            · have := h p hp; simp; omega
            · simp
          | shutdown c =>
            simp only
            split
            · simpa [Fresh] using h
            · split <;> simp [Fresh, dropAll]
    | wakeClosed =>
      simp only
      split
      · simpa [Fresh] using h
      · simp [Fresh, dropAll]
    | msg id tag =>
      simp only
      split <;> simpa [Fresh] using h
    | closed id =>
      simp only
      split
      · intro p hp
        simp at hp
        exact h p hp.1
      · simpa [Fresh] using h
    | badFwd id =>
      simp only
      split
      · split <;> simpa [Fresh] using h
      · simpa [Fresh] using h

end Router
