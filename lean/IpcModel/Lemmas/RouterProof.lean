import IpcModel.Router
/-! Proofs about the repaired router thread (`Router.fixed`). -/
namespace Router

theorem step_noPanic (st : St) (e : Ev) (hn : noPanic st) (hok : st.stopped = true ∨ okEv st e) :
    noPanic (step fixed st e) := by
  unfold step
  split
  · exact hn
  · rename_i hs
    have hok' : okEv st e := by
      rcases hok with h | h
      · exact absurd h hs
      · exact h
    cases e with
    | wake =>
      simp only [okEv] at hok'
      cases hq : st.msgq with
      | nil => exact absurd hq hok'
      | cons m q =>
        cases m with
        | addRoute r => simpa [noPanic] using hn
        | shutdown c => simp [noPanic, dropAll, fixed] at hn ⊢; exact hn
    | wakeClosed => simp [noPanic, dropAll, fixed] at hn ⊢; exact hn
    | msg id tag =>
      simp only [okEv] at hok'
      cases hl : lookup st.handlers id with
      | none => simp [hl] at hok'
      | some r => simp [noPanic, hl] at hn ⊢; exact hn
    | closed id =>
      simp only [okEv] at hok'
      cases hl : lookup st.handlers id with
      | none => simp [hl] at hok'
      | some r => simp [noPanic, hl] at hn ⊢; exact hn

theorem run_noPanic (st : St) (es : List Ev) (hn : noPanic st) (hok : okRun fixed st es) : noPanic (run fixed st es) := by
  induction es generalizing st with
  | nil => simpa [run] using hn
  | cons e es ih =>
    simp only [run, List.foldl_cons]
    exact ih (step fixed st e) (step_noPanic st e hn hok.1) hok.2

theorem step_stopped (V : Variant) (st : St) (e : Ev) (h : st.stopped = true) : step V st e = st := by
  unfold step; simp [h]
theorem run_stopped (V : Variant) (st : St) (es : List Ev) (h : st.stopped = true) : run V st es = st := by
  induction es with
  | nil => rfl
  | cons e es ih => simp only [run, List.foldl_cons, step_stopped V st e h]; exact ih

theorem shutdown_stops (st : St) (c : Nat) (q : List RMsg) (es : List Ev)
    (hs : st.stopped = false) (hq : st.msgq = .shutdown c :: q) :
    (run fixed st (.wake :: es)).handlers = [] ∧ (run fixed st (.wake :: es)).stopped = true ∧
    (run fixed st (.wake :: es)).log = st.log ++ st.handlers.map (fun p => Eff.dropH p.2) ++ [.ack c, .stop] := by
  have h1 : step fixed st .wake = { (dropAll { st with msgq := q }) with log := (dropAll { st with msgq := q }).log ++ [.ack c, .stop], stopped := true } := by
    unfold step; simp [hs, hq, fixed]
  have : run fixed st (.wake :: es) = step fixed st .wake := by
    simp only [run, List.foldl_cons]
    exact run_stopped _ _ es (by rw [h1])
  rw [this, h1]
  simp [dropAll]

theorem wakeClosed_stops (st : St) (es : List Ev) (hs : st.stopped = false) :
    (run fixed st (.wakeClosed :: es)).handlers = [] ∧ (run fixed st (.wakeClosed :: es)).stopped = true ∧
    (run fixed st (.wakeClosed :: es)).log = st.log ++ st.handlers.map (fun p => Eff.dropH p.2) ++ [.stop] := by
  have h1 : step fixed st .wakeClosed = { (dropAll st) with log := (dropAll st).log ++ [.stop], stopped := true } := by
    unfold step; simp [hs, fixed]
  have : run fixed st (.wakeClosed :: es) = step fixed st .wakeClosed := by
    simp only [run, List.foldl_cons]
    exact run_stopped _ _ es (by rw [h1])
  rw [this, h1]
  simp [dropAll]

/-! ### dispatch -/

def routeOf (st : St) (id : Nat) : Option Nat := lookup st.handlers id

theorem step_msg (st : St) (id tag r : Nat) (hs : st.stopped = false) (hr : routeOf st id = some r) :
    (step fixed st (.msg id tag)).log = st.log ++ [.invoke r tag] ∧ (step fixed st (.msg id tag)).handlers = st.handlers := by
  unfold step; simp only [routeOf] at hr; simp [hs, hr]

theorem find_filter_ne (h : List (Nat × Nat)) (id id' : Nat) (hne : id' ≠ id) :
    (h.filter (fun x => decide (x.1 ≠ id))).find? (fun x => decide (x.1 = id')) = h.find? (fun x => decide (x.1 = id')) := by
  induction h with
  | nil => rfl
  | cons p t ih =>
    by_cases hp : p.1 = id
    · have hp' : ¬ p.1 = id' := by rw [hp]; exact fun e => hne e.symm
      rw [List.filter_cons_of_neg (by simp [hp]), List.find?_cons_of_neg (by simp [hp']), ih]
    · rw [List.filter_cons_of_pos (by simp [hp])]
      by_cases hp' : p.1 = id'
      · rw [List.find?_cons_of_pos (by simp [hp']), List.find?_cons_of_pos (by simp [hp'])]
      · rw [List.find?_cons_of_neg (by simp [hp']), List.find?_cons_of_neg (by simp [hp']), ih]

theorem find_filter_self (h : List (Nat × Nat)) (id : Nat) :
    (h.filter (fun x => decide (x.1 ≠ id))).find? (fun x => decide (x.1 = id)) = none := by
  rw [List.find?_eq_none]
  intro p hp
  have := (List.mem_filter.mp hp).2
  simpa using this

theorem lookup_filter_ne (h : List (Nat × Nat)) (id id' : Nat) (hne : id' ≠ id) :
    lookup (h.filter (·.1 ≠ id)) id' = lookup h id' := by
  simp only [lookup]; rw [find_filter_ne h id id' hne]

theorem lookup_filter_self (h : List (Nat × Nat)) (id : Nat) : lookup (h.filter (·.1 ≠ id)) id = none := by
  simp only [lookup]; rw [find_filter_self h id]; rfl

theorem step_closed (st : St) (id r : Nat) (hs : st.stopped = false) (hr : routeOf st id = some r) :
    (step fixed st (.closed id)).log = st.log ++ [.dropH r] ∧
    routeOf (step fixed st (.closed id)) id = none ∧
    ∀ id', id' ≠ id → routeOf (step fixed st (.closed id)) id' = routeOf st id' := by
  unfold step; simp only [routeOf] at hr
  simp only [hs, hr, Bool.false_eq_true, if_false]
  refine ⟨by simp, ?_, ?_⟩
  · simp only [routeOf]; exact lookup_filter_self _ _
  · intro id' hne; simp only [routeOf]; exact lookup_filter_ne _ _ _ hne

theorem step_add_preserves (st : St) (r : Nat) (q : List RMsg) (hs : st.stopped = false) (hq : st.msgq = .addRoute r :: q)
    (hfresh : ∀ p, p ∈ st.handlers → p.1 < st.nextId) (id : Nat) (hid : id < st.nextId) :
    routeOf (step fixed st .wake) id = routeOf st id ∧ routeOf (step fixed st .wake) st.nextId = some r := by
  unfold step
  simp only [hs, hq, Bool.false_eq_true, if_false, routeOf, lookup]
  constructor
  · rw [List.find?_append]
    cases hf : st.handlers.find? (fun x => decide (x.1 = id)) with
    | some p => simp
    | none =>
      have : ¬ st.nextId = id := by omega
      simp [this]
  · rw [List.find?_append]
    have : st.handlers.find? (fun x => decide (x.1 = st.nextId)) = none := by
      rw [List.find?_eq_none]
      intro p hp; have := hfresh p hp; simp; omega
    simp [this]

/-- ids stay fresh along any run: every registered id is below `nextId` -/
def Fresh (st : St) : Prop := ∀ p, p ∈ st.handlers → p.1 < st.nextId

theorem step_fresh (V : Variant) (st : St) (e : Ev) (h : Fresh st) : Fresh (step V st e) := by
  unfold step
  split
  · exact h
  · cases e with
    | wake =>
      cases hq : st.msgq with
      | nil => simpa [Fresh] using h
      | cons m q =>
        cases m with
        | addRoute r =>
          intro p hp
          simp at hp
          rcases hp with hp | rfl
          · have := h p hp; simp; omega
          · simp
        | shutdown c =>
          simp only
          split
          · simpa [Fresh] using h
          · split <;> simp [Fresh, dropAll]
    | wakeClosed =>
      simp only
      split
      · simpa [Fresh] using h
      · simp [Fresh, dropAll]
    | msg id tag =>
      simp only
      split <;> simpa [Fresh] using h
    | closed id =>
      simp only
      split
      · intro p hp
        simp at hp
        exact h p hp.1
      · simpa [Fresh] using h

end Router
