import IpcModel.RecvSetP
/-! Per-member exactly-once / in-order / closed-last for the receiver-set model, over all interleavings. -/
namespace RSetP

def toksOf : Pc → List Nat | .idle => [] | .batch t _ => t
def outOf : Pc → List Ev | .idle => [] | .batch _ o => o
/-- everything `select` has reported or is about to return -/
def allRep (st : St) : List Ev := st.reported ++ outOf st.pc

/-- events of the member with id `i`: `some t` a message, `none` the closure -/
def evsOf (i : Nat) (l : List Ev) : List (Option Nat) :=
  l.filterMap fun
    | .msg j t => if j = i then some (some t) else none
    | .closed j => if j = i then some none else none

theorem evsOf_append (i : Nat) (a b : List Ev) : evsOf i (a ++ b) = evsOf i a ++ evsOf i b := by simp [evsOf]

def reg (st : St) (k : Nat) : Prop := ∃ m, st.members[k]? = some m ∧ m.registered = true

/-- structural invariant of the ready list and of the batch being drained -/
structure Inv2 (st : St) : Prop where
  readyNodup : st.ready.Nodup
  toksNodup : (toksOf st.pc).Nodup
  readyReg : ∀ k ∈ st.ready, reg st k
  toksReg : ∀ k ∈ toksOf st.pc, reg st k
  closedDone : ∀ (k : Nat) (m : Member), st.members[k]? = some m → m.closedReported = true → m.registered = false ∧ m.q = [] ∧ m.senders = 0

theorem wake_ready (st : St) (k : Nat) : (wake st k).ready = st.ready ∨
    ((wake st k).ready = st.ready ++ [k] ∧ k ∉ st.ready ∧ reg st k) := by
  unfold wake
  cases hm : st.members[k]? with
  | none => left; rfl
  | some m =>
    by_cases hr : m.registered = true
    · by_cases hc : k ∈ st.ready
      · left; simp [hr, hc]
      · right; simp [hr, hc]; exact ⟨m, hm, hr⟩
    · left; simp [hr]

theorem reg_setM_other (st : St) (k j : Nat) (m' : Member) (hjk : j ≠ k) : reg (setM st k m') j ↔ reg st j := by
  simp [reg, setM, List.getElem?_set_ne (Ne.symm hjk)]

theorem reg_wake (st : St) (k j : Nat) : reg (wake st k) j ↔ reg st j := by
  simp [reg, (wake_members st k).1]

/-- replacing member `k` by a member that is still registered if `k` is anywhere in ready/toks -/
theorem reg_setM_keep (st : St) (k j : Nat) (m m' : Member) (hm : st.members[k]? = some m) (hr : m.registered = true → m'.registered = true)
    (h : reg st j) : reg (setM st k m') j := by
  by_cases hjk : j = k
  · subst hjk
    obtain ⟨m0, h0, hr0⟩ := h
    rw [hm] at h0; cases h0
    have hlt : j < st.members.length := (List.getElem?_eq_some_iff.mp hm).1
    exact ⟨m', by simp [setM, List.getElem?_set_self hlt], hr hr0⟩
  · exact (reg_setM_other st k j m' hjk).mpr h

theorem inv2_setM (st : St) (k : Nat) (m m' : Member) (hI : Inv2 st) (hm : st.members[k]? = some m)
    (hr : m.registered = true → m'.registered = true)
    (hc : m'.closedReported = true → m'.registered = false ∧ m'.q = [] ∧ m'.senders = 0) : Inv2 (setM st k m') := by
  have hlt : k < st.members.length := (List.getElem?_eq_some_iff.mp hm).1
  refine ⟨hI.readyNodup, hI.toksNodup, fun j hj => reg_setM_keep st k j m m' hm hr (hI.readyReg j hj),
          fun j hj => reg_setM_keep st k j m m' hm hr (hI.toksReg j hj), ?_⟩
  intro j mj hj hcl
  by_cases hjk : j = k
  · subst hjk
    simp only [setM, List.getElem?_set_self hlt] at hj
    cases hj; exact hc hcl
  · simp only [setM, List.getElem?_set_ne (Ne.symm hjk)] at hj
    exact hI.closedDone j mj hj hcl

theorem inv2_wake (st : St) (k : Nat) (hI : Inv2 st) : Inv2 (wake st k) := by
  have hmem := wake_members st k
  refine ⟨?_, by rw [hmem.2]; exact hI.toksNodup, ?_, fun j hj => (reg_wake st k j).mpr (hI.toksReg j (by rw [hmem.2] at hj; exact hj)),
          fun j mj hj hcl => hI.closedDone j mj (by rw [hmem.1] at hj; exact hj) hcl⟩
  · rcases wake_ready st k with h | ⟨h, hn, _⟩
    · rw [h]; exact hI.readyNodup
    · rw [h]; exact List.nodup_append.mpr ⟨hI.readyNodup, by simp, by intro a ha b hb; simp at hb; subst hb; exact fun e => hn (e ▸ ha)⟩
  · intro j hj
    rw [reg_wake]
    rcases wake_ready st k with h | ⟨h, _, hrg⟩
    · rw [h] at hj; exact hI.readyReg j hj
    · rw [h] at hj
      rcases List.mem_append.mp hj with h1 | h1
      · exact hI.readyReg j h1
      · simp at h1; subst h1; exact hrg

theorem inv2_step (st st' : St) (a : Act) (hI : Inv2 st) (h : step st a = some st') : Inv2 st' := by
  cases a with
  | send k tag =>
    simp only [step] at h
    cases hm : st.members[k]? with
    | none => simp [hm] at h
    | some m =>
      simp only [hm] at h
      split at h
      · simp at h
      · rename_i hc
        simp only [Option.some.injEq] at h; subst h
        simp only [Bool.or_eq_true, beq_iff_eq, not_or, Bool.not_eq_true] at hc
        exact inv2_wake _ _ (inv2_setM st k m _ hI hm (fun h => h) (fun hcl => by simp [hc.2] at hcl))
  | dropSender k =>
    simp only [step] at h
    cases hm : st.members[k]? with
    | none => simp [hm] at h
    | some m =>
      simp only [hm] at h
      split at h
      · simp at h
      · simp only [Option.some.injEq] at h; subst h
        have hb := inv2_setM st k m { m with senders := m.senders - 1 } hI hm (fun h => h) (fun hcl => by
          have := hI.closedDone k m hm hcl
          exact ⟨this.1, this.2.1, by simp [this.2.2]⟩)
        split
        · exact inv2_wake _ _ hb
        · exact hb
  | add k =>
    simp only [step] at h
    cases hm : st.members[k]? with
    | none => simp [hm] at h
    | some m =>
      simp only [hm] at h
      split at h
      · simp at h
      · rename_i hc
        simp only [Option.some.injEq] at h; subst h
        simp only [Bool.or_eq_true, not_or, Bool.not_eq_true] at hc
        have hb := inv2_setM st k m { m with registered := true } hI hm (fun _ => rfl) (fun hcl => by simp [hc.2] at hcl)
        split
        · exact inv2_wake _ _ hb
        · exact hb
  | poll =>
    simp only [step] at h
    cases hpc : st.pc with
    | batch t o => simp [hpc] at h
    | idle =>
      simp only [hpc] at h
      split at h
      · simp at h
      · simp only [Option.some.injEq] at h; subst h
        refine ⟨hI.readyNodup.sublist (List.drop_sublist _ _), hI.readyNodup.sublist (List.take_sublist _ _),
                fun j hj => hI.readyReg j (List.mem_of_mem_drop hj), fun j hj => hI.readyReg j (List.mem_of_mem_take hj), hI.closedDone⟩
  | drain =>
    simp only [step] at h
    cases hpc : st.pc with
    | idle => simp [hpc] at h
    | batch toks out =>
      simp only [hpc] at h
      cases toks with
      | nil =>
        simp only [Option.some.injEq] at h; subst h
        exact ⟨hI.readyNodup, by simp [toksOf], hI.readyReg, by simp [toksOf], hI.closedDone⟩
      | cons k rest =>
        simp only at h
        have htn : (k :: rest).Nodup := by have := hI.toksNodup; rw [hpc] at this; exact this
        have htr : ∀ j ∈ k :: rest, reg st j := by have := hI.toksReg; rw [hpc] at this; exact this
        cases hm : st.members[k]? with
        | none => simp [hm] at h
        | some m =>
          simp only [hm] at h
          have hlt : k < st.members.length := (List.getElem?_eq_some_iff.mp hm).1
          cases hq : m.q with
          | cons tag q' =>
            simp only [hq, Option.some.injEq] at h; subst h
            have hkreg : m.registered = true := by
              obtain ⟨m0, h0, hr0⟩ := htr k List.mem_cons_self
              rw [hm] at h0; cases h0; exact hr0
            have hncl : m.closedReported = false := by
              cases hcl : m.closedReported with
              | false => rfl
              | true => have := (hI.closedDone k m hm hcl).1; rw [hkreg] at this; cases this
            have hb := inv2_setM st k m { m with q := q' } hI hm (fun h => h) (fun hcl => by simp [hncl] at hcl)
            exact ⟨hb.readyNodup, by simpa [toksOf] using htn, hb.readyReg,
                   fun j hj => reg_setM_keep st k j m _ hm (fun h => h) (htr j (by simpa [toksOf] using hj)), hb.closedDone⟩
          | nil =>
            simp only [hq] at h
            by_cases hs : m.senders = 0
            · simp only [hs, if_true, Option.some.injEq] at h; subst h
              have hnk : k ∉ rest := (List.nodup_cons.mp htn).1
              refine ⟨?_, by simpa [toksOf] using (List.nodup_cons.mp htn).2, ?_, ?_, ?_⟩
              · exact hI.readyNodup.sublist List.filter_sublist
              · intro j hj
                have hj' := List.mem_filter.mp hj
                have hjk : j ≠ k := by simpa using hj'.2
                exact (reg_setM_other st k j _ hjk).mpr (hI.readyReg j hj'.1)
              · intro j hj
                have hj' : j ∈ rest := by simpa [toksOf] using hj
                have hjk : j ≠ k := fun e => hnk (e ▸ hj')
                exact (reg_setM_other st k j _ hjk).mpr (htr j (List.mem_cons_of_mem _ hj'))
              · intro j mj hj hcl
                by_cases hjk : j = k
                · subst hjk
                  simp only [setM, List.getElem?_set_self hlt] at hj
                  cases hj; exact ⟨rfl, by simp [hq], by simp [hs]⟩
                · simp only [setM, List.getElem?_set_ne (Ne.symm hjk)] at hj
                  exact hI.closedDone j mj hj hcl
            · simp only [hs, if_false, Option.some.injEq] at h; subst h
              exact ⟨hI.readyNodup, by simpa [toksOf] using (List.nodup_cons.mp htn).2, hI.readyReg,
                     fun j hj => htr j (List.mem_cons_of_mem _ (by simpa [toksOf] using hj)), hI.closedDone⟩

/-! ### per-member accounting -/
def OthersDiffer (st : St) (k i : Nat) : Prop := ∀ (j : Nat) (mj : Member), st.members[j]? = some mj → j ≠ k → mj.id ≠ i

/-- what has been reported for member `k` (id `i`): the messages `del`, in order, then the closure iff it was reported -/
def Acct (st : St) (k i : Nat) (del : List Nat) (m : Member) : Prop :=
  st.members[k]? = some m ∧ m.id = i ∧
    evsOf i (allRep st) = del.map some ++ (if m.closedReported then [none] else [])

def sentBy (k : Nat) : Act → List Nat
  | .send k' tag => if k' = k then [tag] else []
  | _ => []

theorem allRep_wake (st : St) (k : Nat) : allRep (wake st k) = allRep st := by
  unfold wake; split <;> (try split) <;> rfl

theorem allRep_setM (st : St) (k : Nat) (m : Member) : allRep (setM st k m) = allRep st := rfl

theorem members_wake (st : St) (k : Nat) : (wake st k).members = st.members := (wake_members st k).1

theorem od_setM (st : St) (k i k' : Nat) (m m' : Member) (hm : st.members[k']? = some m) (hid : m'.id = m.id)
    (h : OthersDiffer st k i) : OthersDiffer (setM st k' m') k i := by
  intro j mj hj hjk
  by_cases hjk' : j = k'
  · subst hjk'
    have hlt : j < st.members.length := (List.getElem?_eq_some_iff.mp hm).1
    simp only [setM, List.getElem?_set_self hlt] at hj
    cases hj; rw [hid]; exact h j m hm hjk
  · simp only [setM, List.getElem?_set_ne (Ne.symm hjk')] at hj
    exact h j mj hj hjk

theorem od_wake (st : St) (k i k' : Nat) (h : OthersDiffer st k i) : OthersDiffer (wake st k') k i := by
  intro j mj hj hjk; rw [members_wake] at hj; exact h j mj hj hjk

/-- updating member `k'` (keeping id and the closed flag) and possibly waking it: the account of `k` carries over with
the new queue -/
theorem acct_update (st : St) (k i k' : Nat) (del : List Nat) (m mk mk' : Member) (wk : Bool)
    (ha : Acct st k i del m) (hk' : st.members[k']? = some mk) (hid : mk'.id = mk.id) (hcl : mk'.closedReported = mk.closedReported) :
    let st' := if wk then wake (setM st k' mk') k' else setM st k' mk'
    Acct st' k i del (if k' = k then mk' else m) := by
  intro st'
  have hlt : k' < st.members.length := (List.getElem?_eq_some_iff.mp hk').1
  have hrep : allRep st' = allRep st := by cases wk <;> simp [st', allRep_wake, allRep_setM]
  have hmem : st'.members = (setM st k' mk').members := by cases wk <;> simp [st', members_wake]
  obtain ⟨h1, h2, h3⟩ := ha
  by_cases hkk : k' = k
  · subst hkk
    rw [hk'] at h1; cases h1
    simp only [if_true]
    refine ⟨by rw [hmem]; simp [setM, List.getElem?_set_self hlt], by rw [hid]; exact h2, ?_⟩
    rw [hrep, hcl]; exact h3
  · simp only [hkk, if_false]
    refine ⟨by rw [hmem]; simp [setM, List.getElem?_set_ne hkk]; exact h1, h2, ?_⟩
    rw [hrep]; exact h3

/-- **one step of accounting** — any action by any thread -/
theorem acct_step (st st' : St) (a : Act) (k i : Nat) (del : List Nat) (m : Member)
    (hI : Inv2 st) (hod : OthersDiffer st k i) (ha : Acct st k i del m) (h : step st a = some st') :
    ∃ del' m', Acct st' k i del' m' ∧ OthersDiffer st' k i ∧ del' ++ m'.q = del ++ m.q ++ sentBy k a ∧
      (m'.closedReported = true → m.closedReported = true ∨ (m.q = [] ∧ m.senders = 0)) := by
  cases a with
  | send k' tag =>
    simp only [step] at h
    cases hm : st.members[k']? with
    | none => simp [hm] at h
    | some mk =>
      simp only [hm] at h
      split at h
      · simp at h
      · simp only [Option.some.injEq] at h; subst h
        have := acct_update st k i k' del m mk { mk with q := mk.q ++ [tag] } true ha hm rfl rfl
        simp only [if_true] at this
        refine ⟨del, _, this, od_wake _ _ _ _ (od_setM st k i k' mk _ hm rfl hod), ?_, ?_⟩
        · by_cases hkk : k' = k
          · subst hkk; rw [ha.1] at hm; cases hm; simp [sentBy]
          · simp [sentBy, hkk]
        · by_cases hkk : k' = k
          · subst hkk; rw [ha.1] at hm; cases hm; simp only [if_true]; exact fun h => Or.inl h
          · simp only [hkk, if_false]; exact fun h => Or.inl h
  | dropSender k' =>
    simp only [step] at h
    cases hm : st.members[k']? with
    | none => simp [hm] at h
    | some mk =>
      simp only [hm] at h
      split at h
      · simp at h
      · simp only [Option.some.injEq] at h; subst h
        have := acct_update st k i k' del m mk { mk with senders := mk.senders - 1 } (decide (mk.senders = 1)) ha hm rfl rfl
        have hst : (if mk.senders = 1 then wake (setM st k' { mk with senders := mk.senders - 1 }) k' else setM st k' { mk with senders := mk.senders - 1 })
            = (if decide (mk.senders = 1) = true then wake (setM st k' { mk with senders := mk.senders - 1 }) k' else setM st k' { mk with senders := mk.senders - 1 }) := by
          simp
        rw [hst]
        refine ⟨del, _, this, ?_, ?_, ?_⟩
        · split
          · exact od_wake _ _ _ _ (od_setM st k i k' mk _ hm rfl hod)
          · exact od_setM st k i k' mk _ hm rfl hod
        · by_cases hkk : k' = k
          · subst hkk; rw [ha.1] at hm; cases hm; simp [sentBy]
          · simp [sentBy, hkk]
        · by_cases hkk : k' = k
          · subst hkk; rw [ha.1] at hm; cases hm; simp only [if_true]; exact fun h => Or.inl h
          · simp only [hkk, if_false]; exact fun h => Or.inl h
  | add k' =>
    simp only [step] at h
    cases hm : st.members[k']? with
    | none => simp [hm] at h
    | some mk =>
      simp only [hm] at h
      split at h
      · simp at h
      · simp only [Option.some.injEq] at h; subst h
        have := acct_update st k i k' del m mk { mk with registered := true } (mk.q ≠ [] || mk.senders = 0) ha hm rfl rfl
        refine ⟨del, _, this, ?_, ?_, ?_⟩
        · split
          · exact od_wake _ _ _ _ (od_setM st k i k' mk _ hm rfl hod)
          · exact od_setM st k i k' mk _ hm rfl hod
        · by_cases hkk : k' = k
          · subst hkk; rw [ha.1] at hm; cases hm; simp [sentBy]
          · simp [sentBy, hkk]
        · by_cases hkk : k' = k
          · subst hkk; rw [ha.1] at hm; cases hm; simp only [if_true]; exact fun h => Or.inl h
          · simp only [hkk, if_false]; exact fun h => Or.inl h
  | poll =>
    simp only [step] at h
    cases hpc : st.pc with
    | batch t o => simp [hpc] at h
    | idle =>
      simp only [hpc] at h
      split at h
      · simp at h
      · simp only [Option.some.injEq] at h; subst h
        refine ⟨del, m, ⟨ha.1, ha.2.1, ?_⟩, hod, by simp [sentBy], fun h => Or.inl h⟩
        have := ha.2.2
        simpa [allRep, outOf, hpc] using this
  | drain =>
    simp only [step] at h
    cases hpc : st.pc with
    | idle => simp [hpc] at h
    | batch toks out =>
      simp only [hpc] at h
      cases toks with
      | nil =>
        simp only [Option.some.injEq] at h; subst h
        refine ⟨del, m, ⟨ha.1, ha.2.1, ?_⟩, hod, by simp [sentBy], fun h => Or.inl h⟩
        have := ha.2.2
        simpa [allRep, outOf, hpc] using this
      | cons k' rest =>
        simp only at h
        have htr : ∀ j ∈ k' :: rest, reg st j := by have := hI.toksReg; rw [hpc] at this; exact this
        cases hm : st.members[k']? with
        | none => simp [hm] at h
        | some mk =>
          simp only [hm] at h
          have hlt : k' < st.members.length := (List.getElem?_eq_some_iff.mp hm).1
          have hkreg : mk.registered = true := by
            obtain ⟨m0, h0, hr0⟩ := htr k' List.mem_cons_self
            rw [hm] at h0; cases h0; exact hr0
          have hncl : mk.closedReported = false := by
            cases hcl : mk.closedReported with
            | false => rfl
            | true => have := (hI.closedDone k' mk hm hcl).1; rw [hkreg] at this; cases this
          have hrep0 : allRep st = st.reported ++ out := by simp [allRep, outOf, hpc]
          cases hq : mk.q with
          | cons tag q' =>
            simp only [hq, Option.some.injEq] at h; subst h
            by_cases hkk : k' = k
            · subst hkk
              obtain ⟨h1, h2, h3⟩ := ha
              have hmm : mk = m := by rw [hm] at h1; exact Option.some.inj h1
              subst hmm
              refine ⟨del ++ [tag], { mk with q := q' }, ⟨by simp [setM, List.getElem?_set_self hlt], h2, ?_⟩,
                      od_setM st k' i k' mk _ hm rfl hod, by simp [sentBy, hq], fun h => Or.inl h⟩
              simp only [allRep, outOf, setM]
              rw [← List.append_assoc, ← hrep0, evsOf_append, h3, hncl]
              simp [evsOf, h2]
            · obtain ⟨h1, h2, h3⟩ := ha
              refine ⟨del, m, ⟨by simp [setM, List.getElem?_set_ne hkk]; exact h1, h2, ?_⟩,
                      od_setM st k i k' mk _ hm rfl hod, by simp [sentBy], fun h => Or.inl h⟩
              simp only [allRep, outOf, setM]
              rw [← List.append_assoc, ← hrep0, evsOf_append, h3]
              have hne : mk.id ≠ i := hod k' mk hm hkk
              simp [evsOf, hne]
          | nil =>
            simp only [hq] at h
            by_cases hs : mk.senders = 0
            · simp only [hs, if_true, Option.some.injEq] at h; subst h
              by_cases hkk : k' = k
              · subst hkk
                obtain ⟨h1, h2, h3⟩ := ha
                have hmm : mk = m := by rw [hm] at h1; exact Option.some.inj h1
                subst hmm
                refine ⟨del, { mk with registered := false, closedReported := true, q := [], senders := 0 },
                        ⟨by simp [setM, List.getElem?_set_self hlt], h2, ?_⟩, od_setM st k' i k' mk _ hm rfl hod,
                        by simp [sentBy, hq], fun _ => Or.inr ⟨hq, hs⟩⟩
                simp only [allRep, outOf, setM]
                rw [← List.append_assoc, ← hrep0, evsOf_append, h3, hncl]
                simp [evsOf, h2]
              · obtain ⟨h1, h2, h3⟩ := ha
                refine ⟨del, m, ⟨by simp [setM, List.getElem?_set_ne hkk]; exact h1, h2, ?_⟩,
                        od_setM st k i k' mk _ hm rfl hod, by simp [sentBy], fun h => Or.inl h⟩
                simp only [allRep, outOf, setM]
                rw [← List.append_assoc, ← hrep0, evsOf_append, h3]
                have hne : mk.id ≠ i := hod k' mk hm hkk
                simp [evsOf, hne]
            · simp only [hs, if_false, Option.some.injEq] at h; subst h
              refine ⟨del, m, ⟨ha.1, ha.2.1, ?_⟩, hod, by simp [sentBy], fun h => Or.inl h⟩
              have := ha.2.2
              simpa [allRep, outOf, hpc] using this

def sentTo (k : Nat) (as : List Act) : List Nat := as.flatMap (sentBy k)

theorem inv2_run (st st' : St) (as : List Act) (hI : Inv2 st) (h : run st as = some st') : Inv2 st' := by
  induction as generalizing st with
  | nil => simp [run] at h; subst h; exact hI
  | cons a as ih =>
    simp only [run] at h
    split at h
    · rename_i st1 h1; exact ih st1 (inv2_step st st1 a hI h1) h
    · simp at h

/-- **exactly once, in order, closed last** — over every interleaving of sends, sender drops, registrations, polls and
drain steps: what `select` has reported for member `k` is a list of its messages followed by its closure iff that was
reported; reported messages ++ still queued = previously reported ++ previously queued ++ everything sent meanwhile,
in order. -/
theorem acct_run (as : List Act) (st st' : St) (k i : Nat) (del : List Nat) (m : Member)
    (hI : Inv2 st) (hod : OthersDiffer st k i) (ha : Acct st k i del m) (h : run st as = some st') :
    ∃ del' m', Acct st' k i del' m' ∧ OthersDiffer st' k i ∧ del' ++ m'.q = del ++ m.q ++ sentTo k as := by
  induction as generalizing st del m with
  | nil => simp [run] at h; subst h; exact ⟨del, m, ha, hod, by simp [sentTo]⟩
  | cons a as ih =>
    simp only [run] at h
    split at h
    · rename_i st1 h1
      obtain ⟨d1, m1, ha1, hod1, he1, _⟩ := acct_step st st1 a k i del m hI hod ha h1
      obtain ⟨d2, m2, ha2, hod2, he2⟩ := ih st1 d1 m1 (inv2_step st st1 a hI h1) hod1 ha1 h
      refine ⟨d2, m2, ha2, hod2, ?_⟩
      rw [he2, he1]; simp [sentTo]
    · simp at h

end RSetP
