import IpcModel.Bounds
import IpcModel.Lemmas.Arith
import IpcModel.Lemmas.FragProof
/-! Proofs for the ghost-buffer model of `recv`. -/
namespace Bounds
open Gen

theorem recvEnd_eq (sys wp total : Nat) : recvEnd sys wp total = min (wp + fragmentSize sys) total := rfl
theorem recvSetLenAfter_eq (wp r ep : Nat) : recvSetLenAfter wp r ep = wp + r := rfl
theorem recvFirstLen_eq (n : Nat) : recvFirstLen n = n - 8 := rfl

def Good (total : Nat) (o : Out) : Prop :=
  (∀ v, o ≠ .viol v) ∧ (∀ b', o = .ok b' → b'.len = total ∧ b'.written = total ∧ b'.len ≤ b'.cap)

theorem good_closed (t : Nat) : Good t .closed := ⟨fun _ h => (by cases h), fun _ h => (by cases h)⟩
theorem good_block (t : Nat) : Good t .block := ⟨fun _ h => (by cases h), fun _ h => (by cases h)⟩
theorem good_ok (t : Nat) (b : Buf) (h : b.len = t ∧ b.written = t ∧ b.len ≤ b.cap) : Good t (.ok b) :=
  ⟨fun _ h => (by cases h), fun b' hb => (by cases hb; exact h)⟩

/-- loop invariant: `len = written ≤ total ≤ cap` -/
theorem follow_spec (sys total : Nat) (b : Buf) (pkts : List Nat) (eof : Bool)
    (hlw : b.len = b.written) (hlt : b.len ≤ total) (htc : total ≤ b.cap) :
    Good total (follow sys total b pkts eof) := by
  induction pkts generalizing b with
  | nil =>
    simp only [follow, followWith]
    by_cases hl : b.len < total
    · simp only [hl, if_true]; cases eof <;> simp [good_closed, good_block]
    · simp only [hl, if_false]; exact good_ok _ _ ⟨by omega, by omega, by omega⟩
  | cons p q ih =>
    simp only [follow, followWith]
    by_cases hl : b.len < total
    · simp only [hl, if_true, recvEnd_eq, recvSetLenAfter_eq]
      have h1 : ¬ b.cap < min (b.len + fragmentSize sys) total := by omega
      have h2 : ¬ min (b.len + fragmentSize sys) total < b.len := by omega
      have h3 : ¬ b.cap < b.len + (min (b.len + fragmentSize sys) total - b.len) := by omega
      simp only [h1, h2, h3, if_false]
      by_cases hz : p = 0 ∨ min (b.len + fragmentSize sys) total - b.len = 0
      · simp only [hz, if_true]; exact good_closed _
      · simp only [hz, if_false]
        have h4 : ¬ b.len + min p (min (b.len + fragmentSize sys) total - b.len) < b.len + min p (min (b.len + fragmentSize sys) total - b.len) := by omega
        have h5 : ¬ b.cap < b.len + min p (min (b.len + fragmentSize sys) total - b.len) := by omega
        simp only [h4, h5, if_false]
        exact ih _ rfl (by simp only; omega) (by simpa using htc)
    · simp only [hl, if_false]
      exact good_ok _ _ ⟨by omega, by omega, by omega⟩

/-- **no violation, nothing unwritten returned** — for every buffer size, every first-packet size the kernel can return
(`8 ≤ n ≤ 8 + M`, the first guaranteed by the protocol: the channel socket carries only first packets, each with its
8-byte header), every announced total not smaller than the first payload, and **every** sequence of follow-up packet sizes -/
theorem recv_spec (sys n total : Nat) (pkts : List Nat) (eof : Bool)
    (hn8 : 8 ≤ n) (hnm : n ≤ 8 + recvFirstBuf sys) (htot : n - 8 ≤ total) :
    Good total (recv sys n total pkts eof) := by
  simp only [recv, recvFirstLen_eq]
  have h1 : ¬ n < 8 := by omega
  have h2 : ¬ 8 + recvFirstBuf sys < n := by omega
  have h3 : ¬ recvFirstBuf sys < n - 8 := by omega
  simp only [h1, h2, h3, if_false]
  by_cases he : total = n - 8
  · simp only [he, if_true]; exact good_ok _ _ ⟨rfl, rfl, by simp only; omega⟩
  · have h4 : ¬ total < n - 8 := by omega
    simp only [he, h4, if_false]
    exact follow_spec sys total _ pkts eof rfl (by simp only; omega) (by simp only; omega)

end Bounds

namespace Frag
open Gen Arith

/-- a first-class packet (the single-packet attempt or a first fragment) carries at most `first_fragment_size(sys)` payload
bytes — what the receiver's first buffer offers -/
def attFirstOk (sys : Nat) : Att → Prop
  | .single l _ => l ≤ firstFragmentSize sys
  | .first lo hi _ _ => hi - lo ≤ firstFragmentSize sys
  | _ => True

theorem fragLoop_firstFits (sys len pos sb : Nat) (faults : List Fault)
    (hsys : sys < 2^64) (hsb : 1000 ≤ sb) (hle : sb ≤ sys)
    (h0 : pos = 0 → firstFragmentSize sb < len) (hpl : pos ≤ len) :
    ∀ a ∈ (fragLoop len pos sb faults).2, attFirstOk sys a := by
  have key : ∀ (pos sb endp : Nat) (f : Fault), 1000 ≤ sb → sb ≤ sys → (pos = 0 → endp = firstFragmentSize sb) →
      attFirstOk sys (mkAtt len pos endp f) := by
    intro pos sb endp f hsb hle he
    simp only [mkAtt]
    split
    · rename_i hp
      have := he hp
      have hm := ffs_mono sb sys hle hsys
      simp only [attFirstOk]; omega
    · simp [attFirstOk]
  fun_induction fragLoop len pos sb faults with
  | case1 pos sb faults hlt endp f rest att hprog hf r ih =>
    have he := endPos_ok len pos sb hlt hsb (by omega) h0
    have ih' := ih hsb hle (by intro h; omega) hprog.2
    intro a ha
    simp only [List.mem_cons] at ha
    rcases ha with rfl | ha
    · exact key pos sb _ _ hsb hle he.2.2.2.1
    · exact ih' a ha
  | case2 pos sb faults hlt endp f rest att hprog hf sb' hd hsb' r ih =>
    have he := endPos_ok len pos sb hlt hsb (by omega) h0
    have hs := downsize_spec _ _ _ hd
    have hsb1 : 1000 ≤ sb' := hs.2.2.2 he.2.2.1
    have ih' := ih hsb1 (by omega) (by
      intro hp
      have : endp = firstFragmentSize sb := he.2.2.2.1 hp
      have hb' := ffs_lt sb' hsb1 (by omega)
      have h1 := hs.2.1
      unfold sentSize at h1
      rw [fs_eq] at hb'
      omega) hpl
    intro a ha
    simp only [List.mem_cons] at ha
    rcases ha with rfl | ha
    · exact key pos sb _ _ hsb hle he.2.2.2.1
    · exact ih' a ha
  | case3 pos sb faults hlt endp f att hprog hf sb' hd hnsb =>
    have he := endPos_ok len pos sb hlt hsb (by omega) h0
    intro a ha
    simp only [List.mem_singleton] at ha
    subst ha
    exact key pos sb _ _ hsb hle he.2.2.2.1
  | case4 pos sb faults hlt endp f att hprog hf hd =>
    have he := endPos_ok len pos sb hlt hsb (by omega) h0
    intro a ha
    simp only [List.mem_singleton] at ha
    subst ha
    exact key pos sb _ _ hsb hle he.2.2.2.1
  | case5 pos sb faults hlt endp f att hprog hf =>
    have he := endPos_ok len pos sb hlt hsb (by omega) h0
    intro a ha
    simp only [List.mem_singleton] at ha
    subst ha
    exact key pos sb _ _ hsb hle he.2.2.2.1
  | case6 pos sb faults hlt endp f att hnprog =>
    have he := endPos_ok len pos sb hlt hsb (by omega) h0
    intro a ha
    simp only [List.mem_singleton] at ha
    subst ha
    exact key pos sb _ _ hsb hle he.2.2.2.1
  | case7 => simp

theorem sendLoop_firstFits (sys len : Nat) (faults : List Fault) (h : 1000 ≤ sys) (h64 : sys < 2^64) :
    ∀ a ∈ (sendLoop sys len faults).2, attFirstOk sys a := by
  have hb := ffs_lt sys h h64
  unfold sendLoop
  split
  · rename_i hs
    have hs' : len ≤ firstFragmentSize sys := by simpa [singleTest] using hs
    split
    · intro a ha; simp at ha; subst ha; simpa [attFirstOk] using hs'
    · intro a ha; simp at ha; subst ha; simpa [attFirstOk] using hs'
    · rename_i rest _
      split
      · rename_i sb' hd
        have hsp := downsize_spec _ _ _ hd
        have h1000 : 1000 ≤ sb' := hsp.2.2.2 (by omega)
        have := fragLoop_firstFits sys len 0 sb' rest h64 h1000 (by omega)
          (by intro _; have := ffs_lt sb' h1000 (by omega); rw [fs_eq] at this; omega) (by omega)
        intro a ha
        simp only [List.mem_cons] at ha
        rcases ha with rfl | rfl | ha
        · simpa [attFirstOk] using hs'
        · simp [attFirstOk]
        · exact this a ha
      · intro a ha; simp at ha; subst ha; simpa [attFirstOk] using hs'
  · rename_i hs
    have hs' : firstFragmentSize sys < len := by simpa [singleTest] using hs
    have := fragLoop_firstFits sys len 0 sys faults h64 h (by omega) (by intro _; exact hs') (by omega)
    intro a ha
    simp only [List.mem_cons] at ha
    rcases ha with rfl | ha
    · simp [attFirstOk]
    · exact this a ha

end Frag
