import IpcModel.Reach
/-! `Reach.reachG` computes exactly the inductively reachable nodes: the iteration is monotone, bounded by `n`, so it is
stationary after at most `n` rounds. -/
namespace Reach

variable {n : Nat} {root : Nat → Bool} {edge : Nat → Nat → Bool}

theorem mem_stepG {r : List Nat} {c : Nat} :
    c ∈ stepG n root edge r ↔ c < n ∧ (root c = true ∨ ∃ d, d ∈ r ∧ edge d c = true) := by
  simp [stepG, List.mem_filter, List.mem_range, List.any_eq_true]

/-- filtering one list by a weaker predicate gives at least as many elements, and the same list when as many -/
theorem filter_mono_length {α} (l : List α) (p q : α → Bool) (h : ∀ x, x ∈ l → p x = true → q x = true) :
    (l.filter p).length ≤ (l.filter q).length ∧ ((l.filter p).length = (l.filter q).length → l.filter p = l.filter q) := by
  induction l with
  | nil => simp
  | cons a t ih =>
    have iht := ih (fun x hx => h x (List.mem_cons_of_mem _ hx))
    have ha := h a (List.mem_cons_self)
    by_cases hp : p a = true
    · have hq := ha hp
      simp only [List.filter_cons, hp, hq, if_true, List.length_cons]
      refine ⟨by omega, fun he => ?_⟩
      rw [iht.2 (by omega)]
    · by_cases hq : q a = true
      · have hp' : p a = false := by simpa using hp
        simp only [List.filter_cons, hp', hq, if_true, List.length_cons, Bool.false_eq_true, if_false]
        refine ⟨by omega, fun he => ?_⟩
        omega
      · have hp' : p a = false := by simpa using hp
        have hq' : q a = false := by simpa using hq
        simp only [List.filter_cons, hp', hq', Bool.false_eq_true, if_false]
        exact iht

theorem stepG_length_le (r : List Nat) : (stepG n root edge r).length ≤ n := by
  have := List.length_filter_le (fun c => root c || r.any fun d => edge d c) (List.range n)
  simpa [stepG] using this

theorem stepG_mono {r s : List Nat} (h : ∀ x, x ∈ r → x ∈ s) :
    (stepG n root edge r).length ≤ (stepG n root edge s).length ∧
    ((stepG n root edge r).length = (stepG n root edge s).length → stepG n root edge r = stepG n root edge s) ∧
    (∀ x, x ∈ stepG n root edge r → x ∈ stepG n root edge s) := by
  have hpq : ∀ x, x ∈ List.range n → (root x || r.any fun d => edge d x) = true → (root x || s.any fun d => edge d x) = true := by
    intro x _ hx
    simp only [Bool.or_eq_true, List.any_eq_true] at hx ⊢
    rcases hx with hx | ⟨d, hd, he⟩
    · exact Or.inl hx
    · exact Or.inr ⟨d, h d hd, he⟩
  have := filter_mono_length (List.range n) _ _ hpq
  refine ⟨this.1, this.2, ?_⟩
  intro x hx
  rw [mem_stepG] at hx ⊢
  rcases hx with ⟨hl, hx | ⟨d, hd, he⟩⟩
  · exact ⟨hl, Or.inl hx⟩
  · exact ⟨hl, Or.inr ⟨d, h d hd, he⟩⟩

/-- the k-th iterate from nothing -/
def it (n : Nat) (root : Nat → Bool) (edge : Nat → Nat → Bool) : Nat → List Nat
  | 0 => []
  | k+1 => stepG n root edge (it n root edge k)

theorem iterG_eq (k : Nat) (r : List Nat) (j : Nat) (h : r = it n root edge j) : iterG n root edge k r = it n root edge (j + k) := by
  induction k generalizing r j with
  | zero => simpa [iterG] using h
  | succ k ih =>
    simp only [iterG]
    rw [ih (stepG n root edge r) (j + 1) (by rw [h]; rfl)]
    congr 1; omega

theorem reachG_eq_it : reachG n root edge = it n root edge (n + 1) := by
  unfold reachG
  rw [iterG_eq (n + 1) [] 0 rfl]; congr 1; omega

theorem it_mono (k : Nat) : ∀ x, x ∈ it n root edge k → x ∈ it n root edge (k + 1) := by
  induction k with
  | zero => intro x hx; simp [it] at hx
  | succ k ih => intro x hx; exact (stepG_mono ih).2.2 x hx

theorem it_length_le (k : Nat) : (it n root edge k).length ≤ n := by
  cases k with
  | zero => simp [it]
  | succ k => exact stepG_length_le _

theorem it_stable {j : Nat} (h : it n root edge j = it n root edge (j + 1)) (m : Nat) : it n root edge (j + m) = it n root edge j := by
  induction m with
  | zero => rfl
  | succ m ih =>
    show stepG n root edge (it n root edge (j + m)) = _
    rw [ih]; exact h.symm

/-- either the iteration became stationary before round `k`, or the k-th iterate already has `k` elements -/
theorem it_progress (k : Nat) : (∃ j, j < k ∧ it n root edge j = it n root edge (j + 1)) ∨ k ≤ (it n root edge k).length := by
  induction k with
  | zero => right; simp [it]
  | succ k ih =>
    rcases ih with ⟨j, hj, he⟩ | hl
    · exact Or.inl ⟨j, by omega, he⟩
    · by_cases he : it n root edge k = it n root edge (k + 1)
      · exact Or.inl ⟨k, by omega, he⟩
      · right
        cases k with
        | zero =>
          -- it 0 = [] ≠ it 1, so it 1 is not empty
          cases h1 : it n root edge 1 with
          | nil => exact absurd (by rw [h1]; rfl) he
          | cons a t => simp
        | succ k =>
          have hm := stepG_mono (n := n) (root := root) (edge := edge) (it_mono (n := n) (root := root) (edge := edge) k)
          have hne : (it n root edge (k + 1)).length ≠ (it n root edge (k + 2)).length := fun hh => he (hm.2.1 hh)
          have hle : (it n root edge (k + 1)).length ≤ (it n root edge (k + 2)).length := hm.1
          show k + 1 + 1 ≤ (it n root edge (k + 2)).length
          omega

theorem reachG_fixed : stepG n root edge (reachG n root edge) = reachG n root edge := by
  rw [reachG_eq_it]
  rcases it_progress (n := n) (root := root) (edge := edge) (n + 1) with ⟨j, hj, he⟩ | hl
  · have h1 := it_stable he (n + 1 - j)
    have h2 := it_stable he (n + 2 - j)
    have e1 : j + (n + 1 - j) = n + 1 := by omega
    have e2 : j + (n + 2 - j) = n + 2 := by omega
    rw [e1] at h1; rw [e2] at h2
    show it n root edge (n + 2) = _
    rw [h1, h2]
  · have := it_length_le (n := n) (root := root) (edge := edge) (n + 1)
    omega

theorem it_sound (k : Nat) : ∀ c, c ∈ it n root edge k → ReachG n root edge c := by
  induction k with
  | zero => intro c hc; simp [it] at hc
  | succ k ih =>
    intro c hc
    rcases mem_stepG.mp hc with ⟨hl, hr | ⟨d, hd, he⟩⟩
    · exact .root c hl hr
    · exact .edge d c hl (ih d hd) he

/-- **the iteration computes reachability** -/
theorem reachG_iff (c : Nat) : c ∈ reachG n root edge ↔ ReachG n root edge c := by
  constructor
  · intro h; rw [reachG_eq_it] at h; exact it_sound _ c h
  · intro h
    induction h with
    | root c hl hr => rw [← reachG_fixed]; exact mem_stepG.mpr ⟨hl, Or.inl hr⟩
    | edge d c hl _ he ih => rw [← reachG_fixed]; exact mem_stepG.mpr ⟨hl, Or.inr ⟨d, ih, he⟩⟩

theorem reachG_lt {c : Nat} (h : ReachG n root edge c) : c < n := by cases h <;> assumption

end Reach
