import IpcModel.Async
/-! End-to-end forwarding theorem for the async routing thread: for any sequence of select batches and route offers, the
stream registered for a receiver-set id receives exactly that id's messages, in order, once, and ends exactly at its closure;
nothing else ever touches it. -/
namespace Async

/-- well-formedness of the routing state -/
structure Inv (st : St) : Prop where
  keysLt : ∀ x ∈ st.senders, x.1 < st.nextId
  valsNodup : (st.senders.map (·.2)).Nodup
  valsLt : ∀ x ∈ st.senders, x.2 < st.streams.length
  pendNodup : st.pending.Nodup
  pendLt : ∀ p ∈ st.pending, p < st.streams.length
  pendFresh : ∀ p ∈ st.pending, p ∉ st.senders.map (·.2)

/-- what the id's own events amount to: tags up to the first closure, and whether a closure occurred -/
def proj (id : Nat) : List Ev → List Nat × Bool
  | [] => ([], false)
  | .msg i t :: r => if i = id then ((t :: (proj id r).1), (proj id r).2) else proj id r
  | .closed i :: r => if i = id then ([], true) else proj id r

theorem lookup_some_mem {h : List (Nat × Nat)} {id s : Nat} (hl : lookup h id = some s) : (id, s) ∈ h := by
  unfold lookup at hl
  cases hf : h.find? (fun x => decide (x.1 = id)) with
  | none => simp [hf] at hl
  | some x =>
    simp [hf] at hl
    have hm := List.mem_of_find?_eq_some hf
    have hp := List.find?_some hf
    simp at hp
    obtain ⟨a, b⟩ := x
    simp at hp hl
    subst hp; subst hl; exact hm

theorem lookup_none_of_lt {h : List (Nat × Nat)} {id n : Nat} (hk : ∀ x ∈ h, x.1 < n) (hid : n ≤ id) : lookup h id = none := by
  unfold lookup
  cases hf : h.find? (fun x => decide (x.1 = id)) with
  | none => rfl
  | some x =>
    have hm := List.mem_of_find?_eq_some hf
    have hp := List.find?_some hf
    simp at hp
    have := hk x hm
    omega

theorem lookup_append_left {h g : List (Nat × Nat)} {id s : Nat} (hl : lookup h id = some s) : lookup (h ++ g) id = some s := by
  unfold lookup at hl ⊢
  cases hf : h.find? (fun x => decide (x.1 = id)) with
  | none => simp [hf] at hl
  | some x => simp [List.find?_append, hf] at hl ⊢; exact hl

theorem lookup_append_none {h g : List (Nat × Nat)} {id : Nat} (hl : lookup h id = none) : lookup (h ++ g) id = lookup g id := by
  unfold lookup at hl ⊢
  cases hf : h.find? (fun x => decide (x.1 = id)) with
  | none => simp [List.find?_append, hf]
  | some x => simp [hf] at hl

theorem find_filter {α} (p q : α → Bool) (l : List α) (h : ∀ x, q x = true → p x = true) : (l.filter p).find? q = l.find? q := by
  induction l with
  | nil => rfl
  | cons a t ih =>
    cases hp : p a <;> cases hq : q a
    · simp [List.filter_cons, List.find?_cons, hp, hq, ih]
    · have := h a hq; rw [hp] at this; cases this
    · simp [List.filter_cons, List.find?_cons, hp, hq, ih]
    · simp [List.filter_cons, List.find?_cons, hp, hq]

theorem lookup_filter_ne {h : List (Nat × Nat)} {id i : Nat} (hne : i ≠ id) :
    lookup (h.filter fun x => decide (x.1 ≠ i)) id = lookup h id := by
  unfold lookup
  rw [find_filter]
  intro x hx
  simp at hx ⊢
  rw [hx]; exact fun e => hne e.symm

theorem lookup_filter_self {h : List (Nat × Nat)} {id : Nat} : lookup (h.filter fun x => decide (x.1 ≠ id)) id = none := by
  unfold lookup
  cases hf : (h.filter fun x => decide (x.1 ≠ id)).find? (fun x => decide (x.1 = id)) with
  | none => rfl
  | some x =>
    have hm := List.mem_of_find?_eq_some hf
    have hp := List.find?_some hf
    simp at hm hp
    exact absurd hp hm.2

/-- two ids registered to the same stream are the same id -/
theorem inj_of_inv {st : St} (hi : Inv st) {i j s : Nat} (h1 : lookup st.senders i = some s) (h2 : lookup st.senders j = some s) : i = j := by
  have m1 := lookup_some_mem h1
  have m2 := lookup_some_mem h2
  have := hi.valsNodup
  by_cases hij : i = j
  · exact hij
  · exfalso
    -- two different pairs with the same second component contradict Nodup of the value list
    have hne : (i, s) ≠ (j, s) := fun h => hij (by cases h; rfl)
    rw [List.nodup_iff_pairwise_ne] at this
    have key : ∀ (l : List (Nat × Nat)), (l.map (·.2)).Pairwise (· ≠ ·) → (i, s) ∈ l → (j, s) ∈ l → False := by
      intro l hl
      induction l with
      | nil => intro h; cases h
      | cons a t ih =>
        intro ha hb
        simp only [List.map_cons, List.pairwise_cons] at hl
        rcases List.mem_cons.mp ha with e1 | e1 <;> rcases List.mem_cons.mp hb with e2 | e2
        · exact hne (e1.trans e2.symm)
        · subst e1; exact hl.1 s (List.mem_map.mpr ⟨(j, s), e2, rfl⟩) rfl
        · subst e2; exact hl.1 s (List.mem_map.mpr ⟨(i, s), e1, rfl⟩) rfl
        · exact ih hl.2 e1 e2
    exact key _ this m1 m2

theorem modify_get_other {α} (l : List α) (f : α → α) (i j : Nat) (h : i ≠ j) : (l.modify i f)[j]? = l[j]? := by
  simp [List.getElem?_modify, h]

/-- an event leaves the invariant intact -/
theorem inv_onEv {st : St} (hi : Inv st) (e : Ev) : Inv (onEv st e) := by
  cases e with
  | msg id tag =>
    simp only [onEv]
    cases hl : lookup st.senders id with
    | none => simpa using hi
    | some s =>
      simp only
      exact ⟨hi.keysLt, hi.valsNodup, by simpa [push] using hi.valsLt, hi.pendNodup, by simpa [push] using hi.pendLt, hi.pendFresh⟩
  | closed id =>
    simp only [onEv]
    cases hl : lookup st.senders id with
    | none => simpa using hi
    | some s =>
      simp only
      refine ⟨fun x hx => hi.keysLt x ((List.mem_filter.mp hx).1), ?_, ?_, hi.pendNodup, by simpa [finish] using hi.pendLt, ?_⟩
      · exact (hi.valsNodup).sublist (List.Sublist.map _ (List.filter_sublist))
      · intro x hx; simpa [finish] using hi.valsLt x ((List.mem_filter.mp hx).1)
      · intro p hp hm
        obtain ⟨x, hx, he⟩ := List.mem_map.mp hm
        exact hi.pendFresh p hp (List.mem_map.mpr ⟨x, (List.mem_filter.mp hx).1, he⟩)

/-- the stream's own view: buffer, ended flag -/
def bufOf (st : St) (s : Nat) : Option (List Nat × Bool) := (st.streams[s]?).map fun x => (x.buf, x.ended)

/-- while registered: events of other ids do nothing to this stream or its registration -/
theorem onEv_other_live {st : St} (hi : Inv st) {id s : Nat} (hl : lookup st.senders id = some s) (e : Ev)
    (hne : match e with | .msg i _ => i ≠ id | .closed i => i ≠ id) :
    lookup (onEv st e).senders id = some s ∧ bufOf (onEv st e) s = bufOf st s := by
  cases e with
  | msg i tag =>
    simp only at hne
    simp only [onEv]
    cases hli : lookup st.senders i with
    | none => exact ⟨hl, rfl⟩
    | some s' =>
      have hss : s' ≠ s := fun h => hne (inj_of_inv hi (h ▸ hli) hl)
      exact ⟨hl, by simp [bufOf, push, modify_get_other _ _ _ _ hss]⟩
  | closed i =>
    simp only at hne
    simp only [onEv]
    cases hli : lookup st.senders i with
    | none => exact ⟨hl, rfl⟩
    | some s' =>
      have hss : s' ≠ s := fun h => hne (inj_of_inv hi (h ▸ hli) hl)
      exact ⟨by simp only; rw [lookup_filter_ne hne]; exact hl, by simp [bufOf, finish, modify_get_other _ _ _ _ hss]⟩

/-- once orphaned (closure processed): no event reaches this stream and no id maps to it any more -/
def Orphan (st : St) (s : Nat) : Prop := s ∉ st.senders.map (·.2) ∧ s ∉ st.pending

theorem onEv_orphan {st : St} {s : Nat} (ho : Orphan st s) (e : Ev) : Orphan (onEv st e) s ∧ bufOf (onEv st e) s = bufOf st s := by
  have key : ∀ i s', lookup st.senders i = some s' → s' ≠ s := by
    intro i s' h he
    exact ho.1 (List.mem_map.mpr ⟨(i, s'), lookup_some_mem h, he⟩)
  cases e with
  | msg i tag =>
    simp only [onEv]
    cases hli : lookup st.senders i with
    | none => exact ⟨ho, rfl⟩
    | some s' => exact ⟨ho, by simp [bufOf, push, modify_get_other _ _ _ _ (key i s' hli)]⟩
  | closed i =>
    simp only [onEv]
    cases hli : lookup st.senders i with
    | none => exact ⟨ho, rfl⟩
    | some s' =>
      refine ⟨⟨fun hm => ?_, ho.2⟩, by simp [bufOf, finish, modify_get_other _ _ _ _ (key i s' hli)]⟩
      obtain ⟨x, hx, he⟩ := List.mem_map.mp hm
      exact ho.1 (List.mem_map.mpr ⟨x, (List.mem_filter.mp hx).1, he⟩)

theorem mem_inj {l : List (Nat × Nat)} (hn : (l.map (·.2)).Nodup) {i j s : Nat} (h1 : (i, s) ∈ l) (h2 : (j, s) ∈ l) : i = j := by
  rw [List.nodup_iff_pairwise_ne] at hn
  induction l with
  | nil => cases h1
  | cons a t ih =>
    simp only [List.map_cons, List.pairwise_cons] at hn
    rcases List.mem_cons.mp h1 with e1 | e1 <;> rcases List.mem_cons.mp h2 with e2 | e2
    · have := e1.trans e2.symm; cases this; rfl
    · subst e1; exact absurd rfl (hn.1 s (List.mem_map.mpr ⟨(j, s), e2, rfl⟩))
    · subst e2; exact absurd rfl (hn.1 s (List.mem_map.mpr ⟨(i, s), e1, rfl⟩))
    · exact ih hn.2 e1 e2

theorem events_orphan (evs : List Ev) {st : St} {s : Nat} (ho : Orphan st s) :
    Orphan (evs.foldl onEv st) s ∧ bufOf (evs.foldl onEv st) s = bufOf st s := by
  induction evs generalizing st with
  | nil => exact ⟨ho, rfl⟩
  | cons e r ih =>
    simp only [List.foldl_cons]
    have h1 := onEv_orphan ho e
    have h2 := ih h1.1
    exact ⟨h2.1, h2.2.trans h1.2⟩

theorem inv_events (evs : List Ev) {st : St} (hi : Inv st) : Inv (evs.foldl onEv st) := by
  induction evs generalizing st with
  | nil => exact hi
  | cons e r ih => simp only [List.foldl_cons]; exact ih (inv_onEv hi e)

/-- processing a list of events: the stream of a registered id gets exactly `proj id evs` -/
theorem events_forward (evs : List Ev) {st : St} (hi : Inv st) {id s : Nat} (b : List Nat) (hl : lookup st.senders id = some s)
    (hb : bufOf st s = some (b, false)) :
    bufOf (evs.foldl onEv st) s = some (b ++ (proj id evs).1, (proj id evs).2) ∧
    ((proj id evs).2 = false → lookup (evs.foldl onEv st).senders id = some s) ∧
    ((proj id evs).2 = true → Orphan (evs.foldl onEv st) s) := by
  induction evs generalizing st b with
  | nil => exact ⟨by simpa [proj] using hb, fun _ => hl, fun h => by simp [proj] at h⟩
  | cons e r ih =>
    simp only [List.foldl_cons]
    cases e with
    | msg i t =>
      by_cases hid : i = id
      · subst hid
        have hb' : bufOf (onEv st (.msg i t)) s = some (b ++ [t], false) := by
          simp only [bufOf] at hb ⊢
          cases hx : st.streams[s]? with
          | none => simp [hx] at hb
          | some x =>
            simp [hx] at hb
            rw [(msg_forward st i t s hl).1, push_self _ _ _ x hx]
            simp [hb.1, hb.2]
        have hl' : lookup (onEv st (.msg i t)).senders i = some s := by rw [(msg_forward st i t s hl).2]; exact hl
        have := ih (inv_onEv hi _) (b ++ [t]) hl' hb'
        simpa [proj] using this
      · have h1 := onEv_other_live hi hl (.msg i t) hid
        have := ih (inv_onEv hi _) b h1.1 (by rw [h1.2]; exact hb)
        simpa [proj, hid] using this
    | closed i =>
      by_cases hid : i = id
      · subst hid
        have hmem := lookup_some_mem hl
        have hb' : bufOf (onEv st (.closed i)) s = some (b, true) := by
          simp only [bufOf] at hb ⊢
          cases hx : st.streams[s]? with
          | none => simp [hx] at hb
          | some x =>
            simp [hx] at hb
            rw [closed_ends st i s x hl hx]
            simp [hb.1]
        have ho : Orphan (onEv st (.closed i)) s := by
          simp only [onEv, hl]
          refine ⟨fun hm => ?_, fun hp => hi.pendFresh s hp (List.mem_map.mpr ⟨(i, s), hmem, rfl⟩)⟩
          obtain ⟨x, hx, he⟩ := List.mem_map.mp hm
          have hx' := List.mem_filter.mp hx
          obtain ⟨j, s'⟩ := x
          simp at he hx'
          subst he
          exact hx'.2 (mem_inj hi.valsNodup hx'.1 hmem)
        have h2 := events_orphan r ho
        refine ⟨by rw [h2.2, hb']; simp [proj], fun h => by simp [proj] at h, fun _ => h2.1⟩
      · have h1 := onEv_other_live hi hl (.closed i) hid
        have := ih (inv_onEv hi _) b h1.1 (by rw [h1.2]; exact hb)
        simpa [proj, hid] using this

/-! ### registration of offered routes -/
def drainStep (st : St) (p : Nat) : St := { st with senders := st.senders ++ [(st.nextId, p)], nextId := st.nextId + 1 }

theorem drain_eq (st : St) : drain st = st.pending.foldl drainStep { st with pending := [] } := rfl

structure PreInv (st : St) (rest : List Nat) : Prop where
  keysLt : ∀ x ∈ st.senders, x.1 < st.nextId
  valsNodup : (st.senders.map (·.2)).Nodup
  valsLt : ∀ x ∈ st.senders, x.2 < st.streams.length
  restNodup : rest.Nodup
  restLt : ∀ p ∈ rest, p < st.streams.length
  restFresh : ∀ p ∈ rest, p ∉ st.senders.map (·.2)

theorem drainStep_pre {st : St} {p : Nat} {rest : List Nat} (h : PreInv st (p :: rest)) : PreInv (drainStep st p) rest := by
  have hn := List.nodup_cons.mp h.restNodup
  refine ⟨?_, ?_, ?_, hn.2, fun q hq => h.restLt q (List.mem_cons_of_mem _ hq), ?_⟩
  · intro x hx
    rcases List.mem_append.mp hx with h1 | h1
    · have := h.keysLt x h1; simp only [drainStep]; omega
    · simp at h1; subst h1; simp [drainStep]
  · simp only [drainStep, List.map_append, List.map_cons, List.map_nil]
    rw [List.nodup_append]
    refine ⟨h.valsNodup, by simp, ?_⟩
    intro a ha b hb
    simp at hb; subst hb
    exact fun e => h.restFresh b List.mem_cons_self (e ▸ ha)
  · intro x hx
    rcases List.mem_append.mp hx with h1 | h1
    · exact h.valsLt x h1
    · simp at h1; subst h1; exact h.restLt p List.mem_cons_self
  · intro q hq hm
    simp only [drainStep, List.map_append, List.map_cons, List.map_nil] at hm
    rcases List.mem_append.mp hm with h1 | h1
    · exact h.restFresh q (List.mem_cons_of_mem _ hq) h1
    · simp at h1; subst h1; exact hn.1 hq

theorem drain_fold_spec (ps : List Nat) {st : St} (h : PreInv st ps) (hp : st.pending = []) :
    Inv (ps.foldl drainStep st) ∧ (ps.foldl drainStep st).streams = st.streams ∧
    (∀ id s, lookup st.senders id = some s → lookup (ps.foldl drainStep st).senders id = some s) ∧
    (∀ s, s ∉ st.senders.map (·.2) → s ∉ ps → s ∉ (ps.foldl drainStep st).senders.map (·.2)) ∧
    (ps.foldl drainStep st).pending = [] := by
  induction ps generalizing st with
  | nil =>
    exact ⟨⟨h.keysLt, h.valsNodup, h.valsLt, by simp [hp], by simp [hp], by simp [hp]⟩, rfl, fun _ _ h => h, fun _ h _ => h, hp⟩
  | cons p rest ih =>
    simp only [List.foldl_cons]
    have := ih (drainStep_pre h) (by simpa [drainStep] using hp)
    refine ⟨this.1, this.2.1, fun id s hl => this.2.2.1 id s (lookup_append_left hl), ?_, this.2.2.2.2⟩
    intro s hs hps
    refine this.2.2.2.1 s ?_ (fun hm => hps (List.mem_cons_of_mem _ hm))
    simp only [drainStep, List.map_append, List.map_cons, List.map_nil]
    intro hm
    rcases List.mem_append.mp hm with h1 | h1
    · exact hs h1
    · simp at h1; exact hps (h1 ▸ List.mem_cons_self)

theorem drain_spec {st : St} (hi : Inv st) :
    Inv (drain st) ∧ (drain st).streams = st.streams ∧
    (∀ id s, lookup st.senders id = some s → lookup (drain st).senders id = some s) ∧
    (∀ s, Orphan st s → Orphan (drain st) s) := by
  rw [drain_eq]
  have h := drain_fold_spec st.pending (st := { st with pending := [] })
    ⟨hi.keysLt, hi.valsNodup, hi.valsLt, hi.pendNodup, hi.pendLt, hi.pendFresh⟩ rfl
  refine ⟨h.1, h.2.1, h.2.2.1, fun s ho => ⟨h.2.2.2.1 s ho.1 ho.2, by rw [h.2.2.2.2]; simp⟩⟩

/-! ### whole runs of the routing thread -/
inductive Act
  | batch (evs : List Ev)     -- one iteration: the events of a select() result, then registration of offered routes
  | offer                     -- `to_stream` on some receiver: a fresh stream is offered to the routing thread

def act (st : St) : Act → St
  | .batch evs => drain (evs.foldl onEv st)
  | .offer => { st with streams := st.streams ++ [⟨[], false⟩], pending := st.pending ++ [st.streams.length] }

def allEvents : List Act → List Ev
  | [] => []
  | .batch evs :: r => evs ++ allEvents r
  | .offer :: r => allEvents r

theorem proj_append (id : Nat) (a b : List Ev) :
    proj id (a ++ b) = if (proj id a).2 then proj id a else ((proj id a).1 ++ (proj id b).1, (proj id b).2) := by
  induction a with
  | nil => simp [proj]
  | cons e r ih =>
    cases e with
    | msg i t =>
      by_cases h : i = id
      · simp only [List.cons_append, proj, h, if_true, ih]; split <;> simp
      · simp only [List.cons_append, proj, h, if_false, ih]
    | closed i =>
      by_cases h : i = id
      · simp [proj, h]
      · simp only [List.cons_append, proj, h, if_false, ih]

theorem inv_offer {st : St} (hi : Inv st) : Inv (act st .offer) := by
  refine ⟨hi.keysLt, hi.valsNodup, ?_, ?_, ?_, ?_⟩
  · intro x hx; have := hi.valsLt x hx; simp [act]; omega
  · simp only [act]
    rw [List.nodup_append]
    refine ⟨hi.pendNodup, by simp, ?_⟩
    intro a ha b hb
    simp at hb; subst hb
    have := hi.pendLt a ha
    omega
  · intro p hp
    simp only [act] at hp ⊢
    rcases List.mem_append.mp hp with h1 | h1
    · have := hi.pendLt p h1; simp; omega
    · simp at h1; subst h1; simp
  · intro p hp hm
    simp only [act] at hp hm
    rcases List.mem_append.mp hp with h1 | h1
    · exact hi.pendFresh p h1 hm
    · simp at h1; subst h1
      obtain ⟨x, hx, he⟩ := List.mem_map.mp hm
      have := hi.valsLt x hx
      omega

theorem inv_act {st : St} (hi : Inv st) (a : Act) : Inv (act st a) := by
  cases a with
  | batch evs => exact (drain_spec (inv_events evs hi)).1
  | offer => exact inv_offer hi

theorem bufOf_offer (st : St) (s : Nat) (x : List Nat × Bool) (h : bufOf st s = some x) : bufOf (act st .offer) s = some x := by
  simp only [bufOf] at h ⊢
  cases hx : st.streams[s]? with
  | none => simp [hx] at h
  | some y =>
    have hlt : s < st.streams.length := by
      by_cases hh : s < st.streams.length
      · exact hh
      · rw [List.getElem?_eq_none (Nat.le_of_not_lt hh)] at hx; cases hx
    simp [act, List.getElem?_append_left hlt, hx] at h ⊢
    exact h

theorem drain_fold_orphan (ps : List Nat) (st : St) (s : Nat) (hs : s ∉ st.senders.map (·.2)) (hps : s ∉ ps) :
    s ∉ (ps.foldl drainStep st).senders.map (·.2) ∧ (ps.foldl drainStep st).streams = st.streams ∧
    (ps.foldl drainStep st).pending = st.pending := by
  induction ps generalizing st with
  | nil => exact ⟨hs, rfl, rfl⟩
  | cons p rest ih =>
    simp only [List.foldl_cons]
    have := ih (drainStep st p) (by
      simp only [drainStep, List.map_append, List.map_cons, List.map_nil]
      intro hm
      rcases List.mem_append.mp hm with h1 | h1
      · exact hs h1
      · simp at h1; exact hps (h1 ▸ List.mem_cons_self)) (fun hm => hps (List.mem_cons_of_mem _ hm))
    exact ⟨this.1, this.2.1, this.2.2⟩

theorem drain_spec_orphan_only (st : St) (s : Nat) (ho : Orphan st s) : Orphan (drain st) s ∧ bufOf (drain st) s = bufOf st s := by
  rw [drain_eq]
  have := drain_fold_orphan st.pending { st with pending := [] } s ho.1 ho.2
  exact ⟨⟨this.1, by rw [this.2.2]; simp⟩, by simp [bufOf, this.2.1]⟩

/-- once ended (orphaned), a stream is never touched again -/
theorem orphan_run (acts : List Act) {st : St} {s : Nat} (x : List Nat × Bool) (ho : Orphan st s) (hb : bufOf st s = some x) :
    bufOf (acts.foldl act st) s = some x := by
  induction acts generalizing st with
  | nil => exact hb
  | cons a r ih =>
    simp only [List.foldl_cons]
    cases a with
    | batch evs =>
      have h1 := events_orphan evs ho
      have h2 := drain_spec_orphan_only (evs.foldl onEv st) s h1.1
      exact ih h2.1 (by show bufOf (drain (evs.foldl onEv st)) s = some x; rw [h2.2, h1.2]; exact hb)
    | offer =>
      refine ih ⟨ho.1, ?_⟩ (bufOf_offer st s x hb)
      simp only [act]
      intro hm
      rcases List.mem_append.mp hm with h1 | h1
      · exact ho.2 h1
      · simp at h1
        simp only [bufOf] at hb
        cases hx : st.streams[s]? with
        | none => simp [hx] at hb
        | some y =>
          have : s < st.streams.length := by
            by_cases hh : s < st.streams.length
            · exact hh
            · rw [List.getElem?_eq_none (Nat.le_of_not_lt hh)] at hx; cases hx
          omega

/-- **end-to-end forwarding** — for every sequence of routing-thread iterations and route offers: the stream registered
for id `id` holds, after the run, what it held before followed by exactly the tags of `id`'s message events up to its
closure, in order, each once; it is ended iff the closure occurred; no other event, registration or offer touches it. -/
theorem forward_run (acts : List Act) {st : St} (hi : Inv st) {id s : Nat} (b : List Nat)
    (hl : lookup st.senders id = some s) (hb : bufOf st s = some (b, false)) :
    bufOf (acts.foldl act st) s = some (b ++ (proj id (allEvents acts)).1, (proj id (allEvents acts)).2) := by
  induction acts generalizing st b with
  | nil => simpa [allEvents, proj] using hb
  | cons a r ih =>
    simp only [List.foldl_cons]
    cases a with
    | offer =>
      simp only [allEvents]
      exact ih (inv_offer hi) b (by simpa [act] using hl) (bufOf_offer st s _ hb)
    | batch evs =>
      simp only [allEvents, proj_append]
      have he := events_forward evs hi b hl hb
      have hie := inv_events evs hi
      have hd := drain_spec hie
      have hbd : bufOf (act st (.batch evs)) s = bufOf (evs.foldl onEv st) s := by
        show bufOf (drain (evs.foldl onEv st)) s = _
        simp [bufOf, hd.2.1]
      cases hc : (proj id evs).2 with
      | true =>
        simp only [if_true]
        have ho := he.2.2 hc
        have ho' : Orphan (act st (.batch evs)) s := hd.2.2.2 s ho
        have := orphan_run r (x := (b ++ (proj id evs).1, true)) ho' (by rw [hbd, he.1, hc])
        rw [this, hc]
      | false =>
        simp only [Bool.false_eq_true, if_false]
        have hl' := hd.2.2.1 id s (he.2.1 hc)
        have := ih (inv_act hi (.batch evs)) (b ++ (proj id evs).1) hl' (by rw [hbd, he.1, hc])
        rw [this]; simp

theorem onEv_untargeted {st : St} {s : Nat} (hs : s ∉ st.senders.map (·.2)) (e : Ev) :
    s ∉ (onEv st e).senders.map (·.2) ∧ bufOf (onEv st e) s = bufOf st s ∧ (onEv st e).pending = st.pending ∧
    (onEv st e).nextId = st.nextId := by
  have key : ∀ i s', lookup st.senders i = some s' → s' ≠ s := by
    intro i s' h he
    exact hs (List.mem_map.mpr ⟨(i, s'), lookup_some_mem h, he⟩)
  cases e with
  | msg i tag =>
    simp only [onEv]
    cases hli : lookup st.senders i with
    | none => exact ⟨hs, rfl, rfl, rfl⟩
    | some s' => exact ⟨hs, by simp [bufOf, push, modify_get_other _ _ _ _ (key i s' hli)], rfl, rfl⟩
  | closed i =>
    simp only [onEv]
    cases hli : lookup st.senders i with
    | none => exact ⟨hs, rfl, rfl, rfl⟩
    | some s' =>
      refine ⟨fun hm => ?_, by simp [bufOf, finish, modify_get_other _ _ _ _ (key i s' hli)], rfl, rfl⟩
      obtain ⟨x, hx, he⟩ := List.mem_map.mp hm
      exact hs (List.mem_map.mpr ⟨x, (List.mem_filter.mp hx).1, he⟩)

theorem events_untargeted (evs : List Ev) {st : St} {s : Nat} (hs : s ∉ st.senders.map (·.2)) :
    bufOf (evs.foldl onEv st) s = bufOf st s ∧ (evs.foldl onEv st).pending = st.pending ∧ (evs.foldl onEv st).nextId = st.nextId := by
  induction evs generalizing st with
  | nil => exact ⟨rfl, rfl, rfl⟩
  | cons e r ih =>
    simp only [List.foldl_cons]
    have h1 := onEv_untargeted hs e
    have h2 := ih h1.1
    exact ⟨h2.1.trans h1.2.1, h2.2.1.trans h1.2.2.1, h2.2.2.trans h1.2.2.2⟩

/-- **registration** — a route offered before an iteration is registered by that iteration under a fresh id, with an empty,
open stream: from then on `forward_run` applies to it (so nothing sent on its channel — reported by the receiver set after
registration, including what was queued before — can be missed). -/
theorem offer_registered {st : St} (hi : Inv st) (evs : List Ev) (hp : st.pending = []) :
    ∃ id, lookup (act (act st .offer) (.batch evs)).senders id = some st.streams.length ∧
      bufOf (act (act st .offer) (.batch evs)) st.streams.length = some ([], false) := by
  have hio := inv_offer hi
  have hnt : st.streams.length ∉ (act st .offer).senders.map (·.2) := by
    intro hm
    obtain ⟨x, hx, he⟩ := List.mem_map.mp hm
    have := hi.valsLt x hx
    omega
  have he := events_untargeted evs hnt
  have hie := inv_events evs hio
  refine ⟨st.nextId, ?_, ?_⟩
  · show lookup (drain (evs.foldl onEv (act st .offer))).senders st.nextId = some st.streams.length
    rw [drain_eq, he.2.1]
    simp only [act, hp, List.nil_append, List.foldl_cons, List.foldl_nil, drainStep]
    have hn : (evs.foldl onEv (act st .offer)).nextId = st.nextId := he.2.2
    have hnone : lookup (evs.foldl onEv (act st .offer)).senders st.nextId = none :=
      lookup_none_of_lt (n := st.nextId) (fun x hx => by have := hie.keysLt x hx; rw [hn] at this; exact this) (Nat.le_refl _)
    simp only [act, hp, List.nil_append] at hnone hn
    rw [lookup_append_none hnone, hn]
    simp [lookup]
  · have hd := drain_spec hie
    show bufOf (drain (evs.foldl onEv (act st .offer))) st.streams.length = _
    simp only [bufOf, hd.2.1]
    have := he.1
    simp only [bufOf] at this
    rw [this]
    simp [act]

end Async
