/- translator: unit Gen could not be translated from the current source:
recv: fast-path test not found
-/
-- deliberately failing, so that only the properties that depend on this unit lose their proof obligations
example : False := by trivial
