import IpcModel.Frag
/-!
# L2 `Cmsg` — descriptors travelling with a message

`osSend` = `OsIpcSender::send` including the attachment-count checks (generated `Gen.refuseAll`, `Gen.refuseFrag`);
the kernel side: a control message of more than `scmMaxFd` descriptors is rejected with `EINVAL`, and the receiver's
control buffer (sized for `MAX_FDS_IN_CMSG`) keeps only the first descriptors that fit — the rest are discarded.
-/
namespace Cmsg
open Frag Gen

/-- Linux `SCM_MAX_FD` -/
def scmMaxFd : Nat := 253

/-- a descriptor in flight: `sock = true` for sockets (channel endpoints), false for shared-memory objects -/
structure Fd where
  sock : Bool
  id : Nat
deriving Repr, DecidableEq

def isFrag (atts : List Att) : Bool := atts.any fun a => match a with | .sock => true | _ => false

def beforeSock : List Att → List Att
  | [] => []
  | .sock :: _ => []
  | a :: r => a :: beforeSock r

/-- `OsIpcSender::send` with `nfds` attachments: the two refusals wrap the transmission loop of `Frag` -/
def osSend (sys len nfds : Nat) (faults : List Fault) : Res × List Att :=
  if refuseAll nfds then (.err, [])
  else
    let r := sendLoop sys len faults
    if isFrag r.2 && refuseFrag nfds then (.err, beforeSock r.2)
    else r

/-- descriptor list of the carrying packet, in the order `send` pushes them -/
def sendFds (chans shms : List Fd) (ded : Option Fd) : List Fd := chans ++ shms ++ ded.toList

/-- what the receiving process gets from the kernel for a control message carrying `fds`, into a control buffer sized
for `maxFdsInCmsg` descriptors: the first that fit; `none` = the sender's `sendmsg` was rejected (`EINVAL`) -/
def kernelDeliver (fds : List Fd) : Option (List Fd) :=
  if scmMaxFd < fds.length then none else some (fds.take maxFdsInCmsg)

/-- `recv`: sockets become channels, everything else a region; a fragmented message pops its last channel -/
def recvSplit (fds : List Fd) (fragmented : Bool) : Option (List Fd × List Fd × Option Fd) :=
  let chans := fds.filter (·.sock)
  let shms := fds.filter (!·.sock)
  if fragmented then
    match chans.reverse with
    | [] => none                                  -- `channels.pop().unwrap()` on an empty list
    | d :: rest => some (rest.reverse, shms, some d)
  else some (chans, shms, none)

end Cmsg
