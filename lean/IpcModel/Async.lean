/-! C20: the async routing thread (asynch.rs) as a pure processor of select() batches. -/
namespace Async

inductive Ev
  | msg (id tag : Nat)      -- message on member `id` (id 0 = wake-up channel)
  | closed (id : Nat)
deriving Repr, DecidableEq

structure Stream where
  buf : List Nat            -- messages forwarded so far (futures mpsc queue, FIFO)
  ended : Bool              -- forwarding sender dropped ⇒ end-of-stream after the buffer
deriving Repr, DecidableEq

structure St where
  senders : List (Nat × Nat)     -- receiver-set id ↦ stream index
  nextId : Nat                   -- next id the receiver set will hand out (0 was the wake-up channel)
  pending : List Nat             -- routes offered through `add_route` and not yet registered (stream indices)
  streams : List Stream
deriving Repr

def lookup (h : List (Nat × Nat)) (id : Nat) : Option Nat := (h.find? (fun x => decide (x.1 = id))).map (·.2)

def push (ss : List Stream) (s tag : Nat) : List Stream := ss.modify s fun x => { x with buf := x.buf ++ [tag] }
def finish (ss : List Stream) (s : Nat) : List Stream := ss.modify s fun x => { x with ended := true }

def onEv (st : St) : Ev → St
  | .msg id tag => match lookup st.senders id with
    | some s => { st with streams := push st.streams s tag }
    | none => st                                            -- wake-up messages and unknown ids are ignored
  | .closed id => match lookup st.senders id with
    | some s => { st with senders := st.senders.filter (fun x => decide (x.1 ≠ id)), streams := finish st.streams s }
    | none => st

/-- after every batch the newly offered routes are registered -/
def drain (st : St) : St :=
  st.pending.foldl (fun st s => { st with senders := st.senders ++ [(st.nextId, s)], nextId := st.nextId + 1 }) { st with pending := [] }

def batch (st : St) (evs : List Ev) : St := drain (evs.foldl onEv st)

/-- a message for a registered id goes to exactly that id's stream, appended once, nothing else changes -/
theorem msg_forward (st : St) (id tag s : Nat) (h : lookup st.senders id = some s) :
    (onEv st (.msg id tag)).streams = push st.streams s tag ∧ (onEv st (.msg id tag)).senders = st.senders := by
  simp [onEv, h]

theorem push_other (ss : List Stream) (s s' tag : Nat) (hne : s' ≠ s) : (push ss s tag)[s']? = ss[s']? := by
  simp [push, List.getElem?_modify, hne.symm]

theorem push_self (ss : List Stream) (s tag : Nat) (x : Stream) (h : ss[s]? = some x) :
    (push ss s tag)[s]? = some { x with buf := x.buf ++ [tag] } := by
  simp [push, List.getElem?_modify, h]

/-- **C20_isolation**: forwarding to one stream leaves every other stream untouched -/
theorem isolation (st : St) (id tag s s' : Nat) (h : lookup st.senders id = some s) (hne : s' ≠ s) :
    (onEv st (.msg id tag)).streams[s']? = st.streams[s']? := by
  rw [(msg_forward st id tag s h).1]; exact push_other _ _ _ _ hne

/-- a stream ends only through the closure of its own id, and keeps its buffer -/
theorem closed_ends (st : St) (id s : Nat) (x : Stream) (h : lookup st.senders id = some s) (hx : st.streams[s]? = some x) :
    (onEv st (.closed id)).streams[s]? = some { x with ended := true } := by
  simp [onEv, h, finish, List.getElem?_modify, hx]

/-- wake-up messages (id not registered) change nothing -/
theorem unknown_ignored (st : St) (id tag : Nat) (h : lookup st.senders id = none) : onEv st (.msg id tag) = st := by
  simp [onEv, h]

/-! ### closed system for the correspondence check: channels, client operations, router iterations -/
structure Chan where
  queue : List Nat          -- sent and not yet reported by select()
  senders : Nat             -- live sender handles
  closedReported : Bool
  route : Option Nat        -- receiver-set id once the routing thread registered it
  stream : Option Nat       -- stream index once `to_stream` was called
deriving Repr

structure Sys where
  chans : List Chan
  r : St
deriving Repr

inductive Op | new | send (c t : Nat) | dropsnd (c : Nat) | tostream (c : Nat)
deriving Repr

def Sys.init : Sys := ⟨[], ⟨[], 1, [], []⟩⟩

def client (y : Sys) : Op → Sys
  | .new => { y with chans := y.chans ++ [⟨[], 1, false, none, none⟩] }
  | .send c t => { y with chans := y.chans.modify c fun ch => if ch.senders = 0 then ch else { ch with queue := ch.queue ++ [t] } }
  | .dropsnd c => { y with chans := y.chans.modify c fun ch => { ch with senders := 0 } }
  | .tostream c =>
    let s := y.r.streams.length
    { chans := y.chans.modify c fun ch => { ch with stream := some s },
      r := { y.r with streams := y.r.streams ++ [⟨[], false⟩], pending := y.r.pending ++ [s] } }

/-- the events a (maximal) select() batch reports for one registered member: its queued messages in order, then the closure -/
def chanEvents (ch : Chan) : List Ev :=
  match ch.route with
  | none => []
  | some id => ch.queue.map (Ev.msg id) ++ (if ch.senders = 0 ∧ !ch.closedReported then [Ev.closed id] else [])

/-- one iteration of the routing thread: a maximal batch, then registration of the routes offered meanwhile -/
def iter (y : Sys) : Sys :=
  let evs := y.chans.flatMap chanEvents
  let chans := y.chans.map fun ch => match ch.route with
    | none => ch
    | some _ => { ch with queue := [], closedReported := ch.closedReported || decide (ch.senders = 0) }
  let r := batch y.r evs
  let chans := chans.map fun ch => match ch.route, ch.stream with
    | none, some s => { ch with route := (r.senders.find? fun x => decide (x.2 = s)).map (·.1) }
    | _, _ => ch
  ⟨chans, r⟩

def script (ops : List Op) : Sys :=
  let y := ops.foldl (fun y op => iter (iter (client y op))) Sys.init
  iter (iter y)

end Async
