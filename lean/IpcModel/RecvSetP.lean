/-! # L6 `RecvSet` — receiver set over an edge-triggered ready list: no lost wake-up (proof-oriented model) -/
namespace RSetP

structure Member where
  id : Nat
  q : List Nat
  senders : Nat
  registered : Bool
  closedReported : Bool

inductive Ev | msg (id tag : Nat) | closed (id : Nat)

inductive Pc
  | idle
  | batch (toks : List Nat) (out : List Ev)

structure St where
  cap : Nat
  members : List Member
  ready : List Nat
  pc : Pc
  reported : List Ev

inductive Act
  | send (k tag : Nat) | dropSender (k : Nat) | add (k : Nat)
  | poll | drain

def wake (st : St) (k : Nat) : St :=
  match st.members[k]? with
  | some m => if m.registered && !st.ready.contains k then { st with ready := st.ready ++ [k] } else st
  | none => st

def setM (st : St) (k : Nat) (m : Member) : St := { st with members := st.members.set k m }

def step (st : St) : Act → Option St
  | .send k tag =>
    match st.members[k]? with
    | none => none
    | some m =>
      if m.senders = 0 || m.closedReported then none else
      some (wake (setM st k { m with q := m.q ++ [tag] }) k)
  | .dropSender k =>
    match st.members[k]? with
    | none => none
    | some m =>
      if m.senders = 0 then none else
      let st' := setM st k { m with senders := m.senders - 1 }
      some (if m.senders = 1 then wake st' k else st')
  | .add k =>
    match st.members[k]? with
    | none => none
    | some m =>
      if m.registered || m.closedReported then none else
      let st' := setM st k { m with registered := true }
      some (if m.q ≠ [] || m.senders = 0 then wake st' k else st')
  | .poll =>
    match st.pc with
    | .idle => if st.ready = [] then none
               else some { st with pc := .batch (st.ready.take st.cap) [], ready := st.ready.drop st.cap }
    | _ => none
  | .drain =>
    match st.pc with
    | .batch [] out => some { st with pc := .idle, reported := st.reported ++ out }
    | .batch (k :: rest) out =>
      match st.members[k]? with
      | none => none
      | some m =>
        match m.q with
        | tag :: q' =>
          some { (setM st k { m with q := q' }) with pc := .batch (k :: rest) (out ++ [.msg m.id tag]) }
        | [] =>
          if m.senders = 0 then
            some { (setM st k { m with registered := false, closedReported := true }) with
                    pc := .batch rest (out ++ [.closed m.id]), ready := st.ready.filter (· ≠ k) }
          else some { st with pc := .batch rest out }
    | .idle => none

def pending (m : Member) : Prop := m.registered = true ∧ (m.q ≠ [] ∨ (m.senders = 0 ∧ m.closedReported = false))
def inBatch (st : St) (k : Nat) : Prop := match st.pc with | .batch toks _ => k ∈ toks | .idle => False

/-- no lost wake-up -/
def Inv (st : St) : Prop :=
  ∀ k m, st.members[k]? = some m → pending m → k ∈ st.ready ∨ inBatch st k

theorem wake_members (st : St) (k : Nat) : (wake st k).members = st.members ∧ (wake st k).pc = st.pc := by
  unfold wake; split <;> (try split) <;> simp

theorem wake_ready_mono (st : St) (k j : Nat) (h : j ∈ st.ready) : j ∈ (wake st k).ready := by
  unfold wake; split <;> (try split) <;> simp [h]

theorem wake_ready_self (st : St) (k : Nat) (m : Member) (hm : st.members[k]? = some m) (hr : m.registered = true) :
    k ∈ (wake st k).ready := by
  unfold wake; rw [hm]
  by_cases hc : k ∈ st.ready <;> simp [hr, hc]

theorem inBatch_wake (st : St) (k j : Nat) : inBatch (wake st k) j ↔ inBatch st j := by
  unfold inBatch; rw [(wake_members st k).2]

/-- generic: after replacing member k by m' and waking k, Inv holds provided m' is covered -/
theorem inv_setM_wake (st : St) (k : Nat) (m m' : Member) (hI : Inv st) (hm : st.members[k]? = some m)
    (hcov : pending m' → m'.registered = true)
    : Inv (wake (setM st k m') k) := by
  intro j mj hj hp
  have hmem := (wake_members (setM st k m') k).1
  rw [hmem] at hj
  simp only [setM] at hj
  by_cases hjk : j = k
  · subst hjk
    have hlt : j < st.members.length := by
      have := List.getElem?_eq_some_iff.mp hm; exact this.1
    rw [List.getElem?_set_self hlt] at hj
    cases hj
    left
    apply wake_ready_self (setM st j m') j m'
    · simp [setM, List.getElem?_set_self hlt]
    · exact hcov hp
  · rw [List.getElem?_set_ne (Ne.symm hjk)] at hj
    rcases hI j mj hj hp with h | h
    · left; exact wake_ready_mono _ _ _ (by simpa [setM] using h)
    · right; rw [inBatch_wake]; simpa [inBatch, setM] using h

theorem inv_send (st st' : St) (k tag : Nat) (hI : Inv st) (h : step st (.send k tag) = some st') : Inv st' := by
  simp only [step] at h
  split at h
  · simp at h
  · rename_i m hm
    split at h
    · simp at h
    · simp only [Option.some.injEq] at h; subst h
      apply inv_setM_wake st k m _ hI hm
      intro hp; exact hp.1


theorem inv_setM_nowake (st : St) (k : Nat) (m m' : Member) (hI : Inv st) (hm : st.members[k]? = some m)
    (hcov : pending m' → pending m) : Inv (setM st k m') := by
  intro j mj hj hp
  simp only [setM] at hj
  by_cases hjk : j = k
  · subst hjk
    have hlt : j < st.members.length := (List.getElem?_eq_some_iff.mp hm).1
    rw [List.getElem?_set_self hlt] at hj
    cases hj
    simpa [inBatch, setM] using hI j m hm (hcov hp)
  · rw [List.getElem?_set_ne (Ne.symm hjk)] at hj
    simpa [inBatch, setM] using hI j mj hj hp

theorem inv_dropSender (st st' : St) (k : Nat) (hI : Inv st) (h : step st (.dropSender k) = some st') : Inv st' := by
  simp only [step] at h
  split at h
  · simp at h
  · rename_i m hm
    split at h
    · simp at h
    · rename_i hs
      simp only [Option.some.injEq] at h; subst h
      split
      · exact inv_setM_wake st k m _ hI hm (fun hp => hp.1)
      · rename_i h1
        apply inv_setM_nowake st k m _ hI hm
        intro hp
        refine ⟨hp.1, ?_⟩
        rcases hp.2 with hq | ⟨h0, hc⟩
        · exact Or.inl hq
        · simp at h0; omega

theorem inv_add (st st' : St) (k : Nat) (hI : Inv st) (h : step st (.add k) = some st') : Inv st' := by
  simp only [step] at h
  split at h
  · simp at h
  · rename_i m hm
    split at h
    · simp at h
    · rename_i hr
      simp only [Option.some.injEq] at h; subst h
      split
      · exact inv_setM_wake st k m _ hI hm (fun _ => rfl)
      · rename_i h1
        -- not ready at registration: nothing pending
        intro j mj hj hp
        simp only [setM] at hj
        by_cases hjk : j = k
        · subst hjk
          have hlt : j < st.members.length := (List.getElem?_eq_some_iff.mp hm).1
          rw [List.getElem?_set_self hlt] at hj
          cases hj
          exfalso
          simp at h1 hr
          rcases hp.2 with hq | ⟨h0, hc⟩
          · exact hq h1.1
          · exact h1.2 h0
        · rw [List.getElem?_set_ne (Ne.symm hjk)] at hj
          simpa [inBatch, setM] using hI j mj hj hp

theorem inv_poll (st st' : St) (hI : Inv st) (h : step st .poll = some st') : Inv st' := by
  simp only [step] at h
  split at h
  · split at h
    · simp at h
    · simp only [Option.some.injEq] at h; subst h
      rename_i hpc _
      intro j mj hj hp
      rcases hI j mj hj hp with hr | hb
      · have : j ∈ st.ready.take st.cap ++ st.ready.drop st.cap := by rw [List.take_append_drop]; exact hr
        rcases List.mem_append.mp this with h1 | h2
        · right; simpa [inBatch] using h1
        · left; exact h2
      · simp [inBatch, hpc] at hb
  · simp at h

theorem inv_drain (st st' : St) (hI : Inv st) (h : step st .drain = some st') : Inv st' := by
  simp only [step] at h
  split at h
  · -- batch [] out
    simp only [Option.some.injEq] at h; subst h
    rename_i out hpc
    intro j mj hj hp
    rcases hI j mj hj hp with hr | hb
    · left; exact hr
    · simp [inBatch, hpc] at hb
  · rename_i k rest out hpc
    split at h
    · simp at h
    · rename_i m hm
      split at h
      · -- message received: k stays at the head of the batch
        rename_i tag q' hq
        simp only [Option.some.injEq] at h; subst h
        intro j mj hj hp
        simp only [setM] at hj
        by_cases hjk : j = k
        · right; simp [inBatch, hjk]
        · rw [List.getElem?_set_ne (Ne.symm hjk)] at hj
          rcases hI j mj hj hp with hr | hb
          · left; simpa [setM] using hr
          · right; simp only [inBatch, hpc] at hb; simp [inBatch]; simpa using hb
      · rename_i hq
        split at h
        · -- closed
          rename_i hs0
          simp only [Option.some.injEq] at h; subst h
          intro j mj hj hp
          simp only [setM] at hj
          by_cases hjk : j = k
          · subst hjk
            have hlt : j < st.members.length := (List.getElem?_eq_some_iff.mp hm).1
            rw [List.getElem?_set_self hlt] at hj
            cases hj
            exact absurd hp.1 (by simp)
          · rw [List.getElem?_set_ne (Ne.symm hjk)] at hj
            rcases hI j mj hj hp with hr | hb
            · left; simp [setM, List.mem_filter, hr, hjk]
            · simp only [inBatch, hpc, List.mem_cons] at hb
              rcases hb with hb | hb
              · exact absurd hb hjk
              · right; simp [inBatch, hb]
        · -- EWOULDBLOCK: k had nothing pending
          rename_i hs
          simp only [Option.some.injEq] at h; subst h
          intro j mj hj hp
          rcases hI j mj hj hp with hr | hb
          · left; exact hr
          · simp only [inBatch, hpc, List.mem_cons] at hb
            rcases hb with hb | hb
            · subst hb
              rw [hm] at hj; cases hj
              exfalso
              rcases hp.2 with h1 | ⟨h0, _⟩
              · exact h1 hq
              · exact hs h0
            · right; simp [inBatch, hb]
  · simp at h

theorem inv_step (st st' : St) (a : Act) (hI : Inv st) (h : step st a = some st') : Inv st' := by
  cases a with
  | send k t => exact inv_send st st' k t hI h
  | dropSender k => exact inv_dropSender st st' k hI h
  | add k => exact inv_add st st' k hI h
  | poll => exact inv_poll st st' hI h
  | drain => exact inv_drain st st' hI h

/-- every state reachable by any action sequence from an empty-ready, idle, nothing-registered state -/
def run : St → List Act → Option St
  | st, [] => some st
  | st, a :: as => match step st a with | some st' => run st' as | none => none

theorem inv_run (st st' : St) (as : List Act) (hI : Inv st) (h : run st as = some st') : Inv st' := by
  induction as generalizing st with
  | nil => simp [run] at h; subst h; exact hI
  | cons a as ih =>
    simp only [run] at h
    split at h
    · rename_i st1 h1; exact ih st1 (inv_step st st1 a hI h1) h
    · simp at h

/-- consequence: select's poll is enabled whenever something is pending and no batch is in progress -/
theorem poll_enabled (st : St) (hI : Inv st) (hidle : st.pc = .idle) (k : Nat) (m : Member)
    (hm : st.members[k]? = some m) (hp : pending m) : (step st .poll).isSome := by
  rcases hI k m hm hp with hr | hb
  · simp only [step, hidle]
    have : st.ready ≠ [] := by intro h; rw [h] at hr; simp at hr
    simp [this]
  · simp [inBatch, hidle] at hb

end RSetP
