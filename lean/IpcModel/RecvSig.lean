import IpcModel.Frag
/-!
# Signals during reassembly

`Frag.recvFollow` is the loop that reads the follow-up fragments of a message from its dedicated socket.  Each `recv()` call of
that loop may be answered `EINTR` instead — the receiving thread handled a signal while it waited; nothing was transferred.
`loop retry` is the same loop over such an answer stream: with `retry` (the repaired code, flag `Gen.shape_followupRetriesEintr`
regenerated from the source) an interrupted call is repeated, without it the error is passed on and the half-received message
is lost (D20).
-/
namespace RecvSig
open Gen Frag

inductive Ans (α : Type) | data (p : List α) | eintr
deriving Repr

inductive Res (α : Type) | ok (data : List α) | closed | block | trunc | panic | err | corrupt
deriving Repr, DecidableEq

def embed : Frag.RRes α → Res α
  | .ok d => .ok d | .closed => .closed | .block => .block | .trunc => .trunc | .panic => .panic

def strip : List (Ans α) → List (List α)
  | [] => []
  | .data p :: q => p :: strip q
  | .eintr :: q => strip q

def loop (retry : Bool) (sys total : Nat) (buf : List α) (answers : List (Ans α)) (eof : Bool) (restore : Bool := true) : Res α :=
  match answers, eof with
  | [], eof => if buf.length < total then (if eof then .closed else .block) else .ok buf
  | .eintr :: q, eof =>
    -- `restore`: the buffer length, raised to the end of the window before the read, is put back after an interrupted read;
    -- without it the window counts as received: a hole of bytes nobody wrote, the rest shifted (`corrupt`)
    if buf.length < total then (if retry then (if restore then loop retry sys total buf q eof restore else .corrupt) else .err) else .ok buf
  | .data p :: q, eof =>
    if buf.length < total then
      let want := recvEnd sys buf.length total - buf.length
      if p.length = 0 ∨ want = 0 then .closed
      else if want < p.length then .trunc
      else loop retry sys total (buf ++ p) q eof restore
    else .ok buf

/-- **interruptions are invisible**: with the retry, for any number of `EINTR` answers at any positions, the loop ends exactly as the
uninterrupted reassembly of the same packets does — same data, or the same closed / would-block / truncated outcome. -/
theorem loop_retry (sys total : Nat) (buf : List α) (answers : List (Ans α)) (eof : Bool) :
    loop true sys total buf answers eof = embed (Frag.recvFollow sys total buf (strip answers) eof) := by
  induction answers generalizing buf with
  | nil => simp only [loop, strip, Frag.recvFollow]; split <;> (try split) <;> rfl
  | cons a q ih =>
    cases a with
    | eintr =>
      simp only [loop, strip, if_true]
      split
      · exact ih buf
      · rename_i h
        -- the buffer is complete already: the uninterrupted loop answers the same whatever is left
        cases hq : strip q with
        | nil => simp [Frag.recvFollow, h, embed]
        | cons p r => simp [Frag.recvFollow, h, embed]
    | data p =>
      simp only [loop, strip, Frag.recvFollow]
      split
      · split
        · rfl
        · split
          · rfl
          · exact ih (buf ++ p)
      · rfl

/-- in particular a complete message comes out complete -/
theorem loop_retry_ok (sys total : Nat) (buf : List α) (answers : List (Ans α)) (eof : Bool) (d : List α)
    (h : Frag.recvFollow sys total buf (strip answers) eof = .ok d) : loop true sys total buf answers eof = .ok d := by
  rw [loop_retry, h]; rfl

/-- a retry that forgets to put the buffer length back (seeded changes C02-5, C12-5, C18-4) delivers a damaged message -/
theorem loop_norestore_corrupt (sys total : Nat) (buf : List α) (q : List (Ans α)) (eof : Bool) (h : buf.length < total) :
    loop true sys total buf (.eintr :: q) eof false = .corrupt := by
  simp [loop, h]

/-- without the retry (the code before the repair): one interruption while bytes are still owed is an error, the message is lost -/
theorem loop_noretry_err (sys total : Nat) (buf : List α) (q : List (Ans α)) (eof : Bool) (h : buf.length < total) :
    loop false sys total buf (.eintr :: q) eof = .err := by
  simp [loop, h]

/-- what the source does now -/
theorem code_retries : Gen.shape_followupRetriesEintr = true ∧ Gen.shape_followupRestoresLen = true := by decide

end RecvSig
