import IpcModel.GenIpc
/-!
# `TableScript` — `IpcSender::send` and `OpaqueIpcMessage::to` as the translator reads them (C14 / C16)

The translator extracts from `src/ipc.rs` the *order* in which the two functions touch the thread-local attachment tables
(`Gen.sendScript`, `Gen.toScript`) and refuses anything else in their bodies that touches the tables or leaves early.
This file gives those scripts a meaning: a small abstract machine with the thread-local tables, the function's locals
and its result.  What the value's own `Serialize` / `Deserialize` impl does in between is a parameter (`SerOutcome`,
`DeOutcome`): it pushes / takes attachments and succeeds or fails; sends or receives nested inside it leave the tables
as they found them (that is the theorem itself, one level down).
-/
namespace TS
open Gen (SendStep ToStep)

/-! ## send -/

structure SerOutcome (α β : Type) where
  pushC : List α          -- endpoints the value's serialisation appends to the channel table
  pushR : List β          -- regions it appends
  ok : Bool               -- whether `serialize_into` returns Ok

structure SendSt (α β : Type) where
  tlsC : List α                       -- OS_IPC_CHANNELS_FOR_SERIALIZATION
  tlsR : List β                       -- OS_IPC_SHARED_MEMORY_REGIONS_FOR_SERIALIZATION
  oldC : Option (List α)              -- local `old_os_ipc_channels`
  oldR : Option (List β)
  mineC : Option (List α)             -- local `os_ipc_channels` (dropped at return unless handed to the OS send)
  mineR : Option (List β)
  result : Option Bool                -- local `result`
  sent : Option (List α × List β)     -- what the OS-level send was given
  ret : Option Bool                   -- the function has returned (Ok = true)

def SendSt.init {α β} (tlsC : List α) (tlsR : List β) : SendSt α β := ⟨tlsC, tlsR, none, none, none, none, none, none, none⟩

def sendStep {α β} (o : SerOutcome α β) (osOk : Bool) (st : SendSt α β) : SendStep → Option (SendSt α β)
  | .saveChans => some { st with oldC := some st.tlsC, tlsC := [] }
  | .saveRegions => some { st with oldR := some st.tlsR, tlsR := [] }
  | .serialize => some { st with tlsC := st.tlsC ++ o.pushC, tlsR := st.tlsR ++ o.pushR, result := some o.ok }
  | .serializeProp =>
    some { st with tlsC := st.tlsC ++ o.pushC, tlsR := st.tlsR ++ o.pushR, result := some o.ok, ret := if o.ok then none else some false }
  | .restoreChans => match st.oldC with
    | some old => some { st with mineC := some st.tlsC, tlsC := old }
    | none => none
  | .restoreRegions => match st.oldR with
    | some old => some { st with mineR := some st.tlsR, tlsR := old }
    | none => none
  | .propagate => match st.result with
    | some true => some st
    | some false => some { st with ret := some false }
    | none => none
  | .osSend => match st.mineC, st.mineR with
    | some c, some r => some (if osOk then { st with sent := some (c, r), ret := some true } else { st with ret := some false })
    | _, _ => none

/-- run the script until the function returns; `none` = the script is not executable (uses a local before it is set) -/
def runSend {α β} (o : SerOutcome α β) (osOk : Bool) : List SendStep → SendSt α β → Option (SendSt α β)
  | [], st => some st
  | s :: rest, st =>
    match st.ret with
    | some _ => some st
    | none =>
      match sendStep o osOk st s with
      | some st' => runSend o osOk rest st'
      | none => none

/-! ## to -/

structure DeOutcome where
  takeC : List Nat        -- channel-table indices the value's deserialisation asks for (in range or not, repeated or not)
  takeR : List Nat
  ok : Bool

/-- `get_mut(index).and_then(Option::take)` for each requested index -/
def takeAll {α} (l : List (Option α)) (idx : List Nat) : List (Option α) := idx.foldl (fun l i => l.set i none) l

structure ToSt (α β : Type) where
  tlsC : List (Option α)      -- OS_IPC_CHANNELS_FOR_DESERIALIZATION
  tlsR : List (Option β)
  msgC : List (Option α)      -- self.os_ipc_channels (dropped with `self` when `to` returns)
  msgR : List (Option β)
  result : Option Bool
  ret : Option Bool

def toStep {α β} (o : DeOutcome) (st : ToSt α β) : ToStep → ToSt α β
  | .swapChans => { st with tlsC := st.msgC, msgC := st.tlsC }
  | .swapRegions => { st with tlsR := st.msgR, msgR := st.tlsR }
  | .deserialize => { st with tlsC := takeAll st.tlsC o.takeC, tlsR := takeAll st.tlsR o.takeR, result := some o.ok }
  | .deserializeProp =>
    { st with tlsC := takeAll st.tlsC o.takeC, tlsR := takeAll st.tlsR o.takeR, result := some o.ok, ret := if o.ok then none else some false }

def runTo {α β} (o : DeOutcome) : List ToStep → ToSt α β → ToSt α β
  | [], st => { st with ret := st.ret.orElse fun _ => st.result }       -- the tail expression `result`
  | s :: rest, st =>
    match st.ret with
    | some _ => st
    | none => runTo o rest (toStep o st s)

end TS
