/-!
# L3/L4 `Wire` — bincode encoding of values with embedded endpoints, and the ipc layer's attachment slots

`enc` mirrors `bincode::serialize_into` (bincode 1.3 default options: fixed-width little-endian integers, `u64` lengths,
`u8` option tags, `u32` variant indices) together with the `Serialize` impls of `IpcSender`/`IpcReceiver`/`IpcSharedMemory`
(an endpoint is written as its index in the thread-local table, an empty region as `usize::MAX`).
`dec` mirrors `bincode::deserialize` (trailing bytes allowed) together with the `Deserialize` impls, which look the index up
in the message's attachment slots.  Results are `ok | err | panic` so that "never panics" is a statement.

`Variant.legacy` reproduces the code before the `fix:` commits (index out of range ⇒ panic, slot used twice ⇒ a handle on
descriptor −1 / panic); the theorems are about `legacy = false`.
-/
namespace Wire

abbrev Bytes := List Nat

inductive Att | snd (c : Nat) | rcv (c : Nat)
deriving Repr, DecidableEq, Inhabited

inductive Schema
  | int (w : Nat)            -- w bytes, little endian (u8..u64, i8..i64 and floats by bit pattern)
  | bool
  | str
  | opt (s : Schema)
  | seq (s : Schema)
  | tup (ss : List Schema)
  | enum (ss : List Schema)  -- variant k carries one value of schema ss[k]
  | sender | receiver | shm
deriving Repr, Inhabited

inductive Value
  | int (w n : Nat)
  | bool (b : Bool)
  | str (bs : List Nat)
  | opt (v : Option Value)
  | seq (vs : List Value)
  | tup (vs : List Value)
  | var (k : Nat) (v : Value)
  | sender (a : Att)         -- an `IpcSender` wrapping attachment `a`
  | receiver (a : Att)
  | shm (r : Nat)
  | eshm                     -- the empty region (no attachment)
  | bogus                    -- legacy only: a handle wrapping descriptor −1
deriving Repr, Inhabited

def USIZE_MAX : Nat := 2^64 - 1

def le (k : Nat) (n : Nat) : Bytes := match k with
  | 0 => []
  | k+1 => (n % 256) :: le k (n / 256)

def unle : Bytes → Nat
  | [] => 0
  | b :: r => b + 256 * unle r

def cont (b : Nat) : Bool := 0x80 ≤ b && b ≤ 0xBF

/-- well-formed UTF-8 (Unicode table 3-7), as checked by `str::from_utf8` -/
def validUtf8 : List Nat → Bool
  | [] => true
  | [b0] => b0 < 0x80
  | [b0, b1] =>
    if b0 < 0x80 then b1 < 0x80
    else (0xC2 ≤ b0 && b0 ≤ 0xDF) && cont b1
  | b0 :: b1 :: b2 :: r =>
    if b0 < 0x80 then validUtf8 (b1 :: b2 :: r)
    else if 0xC2 ≤ b0 && b0 ≤ 0xDF then cont b1 && validUtf8 (b2 :: r)
    else if b0 = 0xE0 then (0xA0 ≤ b1 && b1 ≤ 0xBF) && cont b2 && validUtf8 r
    else if (0xE1 ≤ b0 && b0 ≤ 0xEC) || b0 = 0xEE || b0 = 0xEF then cont b1 && cont b2 && validUtf8 r
    else if b0 = 0xED then (0x80 ≤ b1 && b1 ≤ 0x9F) && cont b2 && validUtf8 r
    else match r with
      | [] => false
      | b3 :: r' =>
        if b0 = 0xF0 then (0x90 ≤ b1 && b1 ≤ 0xBF) && cont b2 && cont b3 && validUtf8 r'
        else if 0xF1 ≤ b0 && b0 ≤ 0xF3 then cont b1 && cont b2 && cont b3 && validUtf8 r'
        else if b0 = 0xF4 then (0x80 ≤ b1 && b1 ≤ 0x8F) && cont b2 && cont b3 && validUtf8 r'
        else false

/-! ## encoding: bytes + the attachments pushed on the thread-local tables, in traversal order -/

mutual
/-- `nC`, `nS`: current lengths of the channel / region tables -/
def enc : Value → (nC nS : Nat) → Bytes
  | .int w n, _, _ => le w n
  | .bool b, _, _ => [if b then 1 else 0]
  | .str bs, _, _ => le 8 bs.length ++ bs
  | .opt none, _, _ => [0]
  | .opt (some v), nC, nS => 1 :: enc v nC nS
  | .seq vs, nC, nS => le 8 vs.length ++ encList vs nC nS
  | .tup vs, nC, nS => encList vs nC nS
  | .var k v, nC, nS => le 4 k ++ enc v nC nS
  | .sender _, nC, _ => le 8 nC
  | .receiver _, nC, _ => le 8 nC
  | .shm _, _, nS => le 8 nS
  | .eshm, _, _ => le 8 USIZE_MAX
  | .bogus, _, _ => []
def encList : List Value → (nC nS : Nat) → Bytes
  | [], _, _ => []
  | v :: vs, nC, nS => enc v nC nS ++ encList vs (nC + (chans v).length) (nS + (shms v).length)
/-- channel attachments of a value, in traversal order -/
def chans : Value → List Att
  | .opt (some v) => chans v
  | .seq vs => chansList vs
  | .tup vs => chansList vs
  | .var _ v => chans v
  | .sender a => [a]
  | .receiver a => [a]
  | _ => []
def chansList : List Value → List Att
  | [] => []
  | v :: vs => chans v ++ chansList vs
def shms : Value → List Nat
  | .opt (some v) => shms v
  | .seq vs => shmsList vs
  | .tup vs => shmsList vs
  | .var _ v => shms v
  | .shm r => [r]
  | _ => []
def shmsList : List Value → List Nat
  | [] => []
  | v :: vs => shms v ++ shmsList vs
end

/-! ## decoding against attachment slots -/

structure Slots where
  chans : List (Option Att)      -- `none` = already handed out
  shms : List (Option Nat)
deriving Repr, DecidableEq, Inhabited

structure Variant where
  legacy : Bool
deriving Repr, DecidableEq

inductive DRes (α : Type)
  | ok (v : α) (rest : Bytes) (sl : Slots)
  | err
  | panic
deriving Repr

def takeChan (V : Variant) (mk : Att → Value) (w : Nat) (rest : Bytes) (sl : Slots) : DRes Value :=
  match sl.chans[w]? with
  | none => if V.legacy then .panic else .err                          -- `[index]` out of bounds
  | some none => if V.legacy then .ok .bogus rest sl else .err         -- legacy: a handle on descriptor −1
  | some (some a) => .ok (mk a) rest { sl with chans := sl.chans.set w none }

def takeShm (V : Variant) (w : Nat) (rest : Bytes) (sl : Slots) : DRes Value :=
  if w = USIZE_MAX then .ok .eshm rest sl else
  match sl.shms[w]? with
  | none => if V.legacy then .panic else .err
  | some none => if V.legacy then .panic else .err                     -- `.take().unwrap()` on `None`
  | some (some r) => .ok (.shm r) rest { sl with shms := sl.shms.set w none }

/-- fuel-indexed, schema-directed decoder -/
def dec (V : Variant) : Nat → Schema → Bytes → Slots → DRes Value
  | 0, _, _, _ => .err
  | _+1, .int w, bs, sl => if w ≤ bs.length then .ok (.int w (unle (bs.take w))) (bs.drop w) sl else .err
  | _+1, .bool, b :: r, sl => if b = 0 then .ok (.bool false) r sl else if b = 1 then .ok (.bool true) r sl else .err
  | _+1, .bool, [], _ => .err
  | _+1, .str, bs, sl =>
      if 8 ≤ bs.length then
        let n := unle (bs.take 8)
        let r := bs.drop 8
        if n ≤ r.length then (if validUtf8 (r.take n) then .ok (.str (r.take n)) (r.drop n) sl else .err) else .err
      else .err
  | _+1, .opt _, 0 :: r, sl => .ok (.opt none) r sl
  | f+1, .opt s, 1 :: r, sl =>
      match dec V f s r sl with
      | .ok v r' sl' => .ok (.opt (some v)) r' sl'
      | .err => .err
      | .panic => .panic
  | _+1, .opt _, _, _ => .err
  | f+1, .seq s, bs, sl =>
      if 8 ≤ bs.length then
        match decN V f s (unle (bs.take 8)) (bs.drop 8) sl with
        | .ok vs r' sl' => .ok (.seq vs) r' sl'
        | .err => .err
        | .panic => .panic
      else .err
  | f+1, .tup ss, bs, sl =>
      match decT V f ss bs sl with
      | .ok vs r' sl' => .ok (.tup vs) r' sl'
      | .err => .err
      | .panic => .panic
  | f+1, .enum ss, bs, sl =>
      if 4 ≤ bs.length then
        let k := unle (bs.take 4)
        match ss[k]? with
        | none => .err
        | some s =>
          match dec V f s (bs.drop 4) sl with
          | .ok v r' sl' => .ok (.var k v) r' sl'
          | .err => .err
          | .panic => .panic
      else .err
  | _+1, .sender, bs, sl => if 8 ≤ bs.length then takeChan V .sender (unle (bs.take 8)) (bs.drop 8) sl else .err
  | _+1, .receiver, bs, sl => if 8 ≤ bs.length then takeChan V .receiver (unle (bs.take 8)) (bs.drop 8) sl else .err
  | _+1, .shm, bs, sl => if 8 ≤ bs.length then takeShm V (unle (bs.take 8)) (bs.drop 8) sl else .err
where
  decN (V : Variant) : Nat → Schema → Nat → Bytes → Slots → DRes (List Value)
  | 0, _, _, _, _ => .err
  | _+1, _, 0, bs, sl => .ok [] bs sl
  | f+1, s, n+1, bs, sl =>
      match dec V f s bs sl with
      | .ok v r sl' =>
        (match decN V f s n r sl' with
         | .ok vs r' sl'' => .ok (v :: vs) r' sl''
         | .err => .err
         | .panic => .panic)
      | .err => .err
      | .panic => .panic
  decT (V : Variant) : Nat → List Schema → Bytes → Slots → DRes (List Value)
  | 0, _, _, _ => .err
  | _+1, [], bs, sl => .ok [] bs sl
  | f+1, s :: ss, bs, sl =>
      match dec V f s bs sl with
      | .ok v r sl' =>
        (match decT V f ss r sl' with
         | .ok vs r' sl'' => .ok (v :: vs) r' sl''
         | .err => .err
         | .panic => .panic)
      | .err => .err
      | .panic => .panic

/-- attachments still in their slots after decoding: released when the message is dropped -/
def leftover (sl : Slots) : List Att × List Nat := (sl.chans.filterMap id, sl.shms.filterMap id)

/-- `OpaqueIpcMessage::to`: decode the data against the message's own attachments -/
def toValue (V : Variant) (fuel : Nat) (s : Schema) (bytes : Bytes) (atts : List Att) (regions : List Nat) : DRes Value :=
  dec V fuel s bytes ⟨atts.map some, regions.map some⟩

/-! ## typing -/

mutual
inductive HasType : Value → Schema → Prop
  | int {w n} : n < 256 ^ w → HasType (.int w n) (.int w)
  | bool {b} : HasType (.bool b) .bool
  | str {bs} : validUtf8 bs = true → bs.length < 256 ^ 8 → HasType (.str bs) .str
  | none {s} : HasType (.opt none) (.opt s)
  | some {v s} : HasType v s → HasType (.opt (some v)) (.opt s)
  | seq {vs s} : AllType vs s → vs.length < 256 ^ 8 → HasType (.seq vs) (.seq s)
  | tup {vs ss} : TupType vs ss → HasType (.tup vs) (.tup ss)
  | var {k v ss s} : ss[k]? = some s → k < 256 ^ 4 → HasType v s → HasType (.var k v) (.enum ss)
  | sender {a} : HasType (.sender a) .sender
  | receiver {a} : HasType (.receiver a) .receiver
  | shm {r} : HasType (.shm r) .shm
  | eshm : HasType .eshm .shm
inductive AllType : List Value → Schema → Prop
  | nil {s} : AllType [] s
  | cons {v vs s} : HasType v s → AllType vs s → AllType (v :: vs) s
inductive TupType : List Value → List Schema → Prop
  | nil : TupType [] []
  | cons {v vs s ss} : HasType v s → TupType vs ss → TupType (v :: vs) (s :: ss)
end

mutual
def vsize : Value → Nat
  | .opt (some v) => vsize v + 1
  | .seq vs => vsizeL vs + 1
  | .tup vs => vsizeL vs + 1
  | .var _ v => vsize v + 1
  | _ => 1
def vsizeL : List Value → Nat
  | [] => 1
  | v :: vs => vsize v + vsizeL vs + 1
end

end Wire
