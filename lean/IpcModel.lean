import IpcModel.Gen
import IpcModel.Frag
