#!/bin/sh
# MANIFEST.setup_cmd: build the framework offline from files on disk only.
set -e
cd "$(dirname "$0")"
python3 tools/translate.py
(cd lean && lake build 2>&1 | tail -3)
