#!/bin/sh
# MANIFEST.setup_cmd: build the framework offline from files on disk only.
set -e
cd "$(dirname "$0")"
export CARGO_NET_OFFLINE=true
python3 tools/translate.py
(cd lean && lake build IpcModel driver 2>&1 | tail -3)
(cd harness && cargo build --offline --target-dir target-default 2>&1 | tail -2)
(cd harness && cargo build --offline --target-dir target-memfd --features memfd 2>&1 | tail -1)
(cd harness && cargo build --offline --target-dir target-force-inprocess --features force-inprocess 2>&1 | tail -1)
(cd harness && cargo build --offline --target-dir target-async --features async 2>&1 | tail -1)
