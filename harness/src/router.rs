//! Scenario `router`: the real `RouterProxy`/router thread driven by client scripts.
//!  mode seq   (C07, C17 tie): one sequential client, quiescence after every operation; per-route callback logs are
//!                             compared with the Lean model (`Router.World.run`).
//!  mode race  (C17, C07 oracle): shutdown from several threads racing add_route from others and from callbacks
//!                             running on the router thread; proxy drop; watchdog for deadlock; panic hook.
use crate::util::*;
use ipc_channel::ipc::{self, IpcSender};
use ipc_channel::router::RouterProxy;
use std::sync::atomic::{AtomicBool, AtomicUsize, Ordering};
use std::sync::{Arc, Mutex};
use std::time::{Duration, Instant};

#[derive(Clone, Debug, PartialEq)]
pub enum L {
    Invoke(usize, u64),
    Drop(usize),
    ShutdownReturned(usize),
}
type Log = Arc<Mutex<Vec<L>>>;

pub static PANICS: AtomicUsize = AtomicUsize::new(0);
pub static PANIC_MSG: Mutex<String> = Mutex::new(String::new());

pub fn install_panic_hook() {
    std::panic::set_hook(Box::new(|info| {
        PANICS.fetch_add(1, Ordering::SeqCst);
        let t = std::thread::current();
        *PANIC_MSG.lock().unwrap() = format!("thread {:?}: {}", t.name(), info);
    }));
}

struct Guard(usize, Log);
impl Drop for Guard {
    fn drop(&mut self) {
        // what a callback owns may take time to release: a stop that is acknowledged before the callbacks are
        // dropped then shows deterministically instead of in a microsecond window
        if self.0 % 2 == 1 {
            std::thread::sleep(Duration::from_millis(2));
        }
        self.1.lock().unwrap().push(L::Drop(self.0));
    }
}

/// crossbeam-forwarding routes of the current case: (route, receiver, disconnection already logged, log)
static CB_ROUTES: Mutex<Vec<(usize, crossbeam_channel::Receiver<u64>, bool, Log)>> = Mutex::new(Vec::new());

/// move what the crossbeam receivers hold into the log (messages, then the disconnection, once)
fn pump() {
    let mut cbs = CB_ROUTES.lock().unwrap();
    for (r, rx, done, log) in cbs.iter_mut() {
        if *done {
            continue;
        }
        loop {
            match rx.try_recv() {
                Ok(v) => log.lock().unwrap().push(L::Invoke(*r, v)),
                Err(crossbeam_channel::TryRecvError::Empty) => break,
                Err(crossbeam_channel::TryRecvError::Disconnected) => {
                    log.lock().unwrap().push(L::Drop(*r));
                    *done = true;
                    break;
                },
            }
        }
    }
}

fn wait_for(log: &Log, pred: impl Fn(&[L]) -> bool, ms: u64) -> bool {
    let t0 = Instant::now();
    loop {
        pump();
        if pred(&log.lock().unwrap()) {
            return true;
        }
        if t0.elapsed() > Duration::from_millis(ms) {
            return false;
        }
        std::thread::sleep(Duration::from_micros(200));
    }
}

fn add_route(proxy: &RouterProxy, r: usize, log: &Log, reentrant: Option<Arc<RouterProxy>>) -> IpcSender<u64> {
    let (tx, rx) = ipc::channel::<u64>().unwrap();
    if r % 3 == 2 && reentrant.is_none() {
        // a crossbeam-forwarding route: what arrives on the crossbeam receiver counts as the route's invocations, its
        // disconnection (the forwarding callback and the crossbeam sender it owns were dropped) as the route's drop.  The
        // receiver is read synchronously by `pump()` at every observation point, so that the log order is causal.
        let cb_rx = proxy.route_ipc_receiver_to_new_crossbeam_receiver(rx);
        CB_ROUTES.lock().unwrap().push((r, cb_rx, false, log.clone()));
        return tx;
    }
    let guard = Guard(r, log.clone());
    let l2 = log.clone();
    proxy.add_route(
        rx.to_opaque(),
        Box::new(move |m| {
            let _g = &guard;
            let v: u64 = m.to().unwrap_or(u64::MAX);
            l2.lock().unwrap().push(L::Invoke(r, v));
            if let Some(p) = &reentrant {
                // a callback that registers another route while running on the router thread
                let (_t2, r2) = ipc::channel::<u64>().unwrap();
                let g2 = Guard(1000 + r, l2.clone());
                p.add_route(r2.to_opaque(), Box::new(move |_| drop(&g2)));
            }
        }),
    );
    tx
}

fn per_route(log: &[L], nroutes: usize) -> String {
    let mut parts = Vec::new();
    for r in 0..nroutes {
        let items: Vec<String> = log
            .iter()
            .filter_map(|e| match e {
                L::Invoke(x, t) if *x == r => Some(format!("i{}", t)),
                L::Drop(x) if *x == r => Some("D".to_string()),
                _ => None,
            })
            .collect();
        parts.push(format!("r{}={}", r, if items.is_empty() { "-".into() } else { items.join(",") }));
    }
    parts.join(" ")
}

pub fn seq_case(rng: &mut Rng, id: String) -> Case {
    CB_ROUTES.lock().unwrap().clear();
    let mut case = Case::new(id);
    let p0 = PANICS.load(Ordering::SeqCst);
    let log: Log = Arc::new(Mutex::new(Vec::new()));
    let mut proxy = Some(RouterProxy::new());
    let mut senders: Vec<Option<IpcSender<u64>>> = Vec::new();
    let mut live: Vec<bool> = Vec::new(); // route registered with a running router and not closed
    let mut flag = false;
    let mut stopped = false;
    let mut ops = Vec::new();
    let nops = 3 + rng.below(12) as usize;
    let mut tag = 0u64;
    let mut shutdowns = 0;
    for _ in 0..nops {
        match rng.below(10) {
            0..=2 => {
                let r = senders.len();
                ops.push(format!("add {}", r));
                match &proxy {
                    Some(p) => {
                        senders.push(Some(add_route(p, r, &log, None)));
                        live.push(!flag && !stopped);
                        if flag {
                            // offered after shutdown: dropped by the proxy, never invoked
                            if !wait_for(&log, |l| l.contains(&L::Drop(r)), 5000) {
                                case.fail(format!("route {} offered after shutdown was not dropped", r));
                            }
                        }
                    },
                    None => {
                        ops.pop();
                    },
                }
            },
            3..=6 if !senders.is_empty() => {
                let r = rng.below(senders.len() as u64) as usize;
                if let Some(tx) = &senders[r] {
                    tag += 1;
                    ops.push(format!("send {} {}", r, tag));
                    let _ = tx.send(tag);
                    if live[r] && !stopped {
                        let t = tag;
                        if !wait_for(&log, |l| l.contains(&L::Invoke(r, t)), 5000) {
                            case.fail(format!("message {} on route {} never reached its callback", t, r));
                        }
                    }
                }
            },
            7 if !senders.is_empty() => {
                let r = rng.below(senders.len() as u64) as usize;
                if senders[r].is_some() {
                    ops.push(format!("drop {}", r));
                    senders[r] = None;
                    if live[r] && !stopped {
                        if !wait_for(&log, |l| l.contains(&L::Drop(r)), 5000) {
                            case.fail(format!("callback of route {} was not dropped after its channel closed", r));
                        }
                        live[r] = false;
                    }
                }
            },
            8 => {
                if let Some(p) = &proxy {
                    ops.push("shutdown".into());
                    let done = crate::util::with_watchdog(10, {
                        let p: &'static RouterProxy = unsafe { std::mem::transmute(p) };
                        let log = log.clone();
                        let k = shutdowns;
                        move || {
                            p.shutdown();
                            pump();
                            log.lock().unwrap().push(L::ShutdownReturned(k));
                        }
                    });
                    if done.is_none() {
                        case.fail("shutdown() did not return within 10 s".into());
                        break;
                    }
                    shutdowns += 1;
                    flag = true;
                    stopped = true;
                    for l in live.iter_mut() {
                        *l = false;
                    }
                }
            },
            9 if !senders.is_empty() && rng.chance(1, 2) => {
                // a message that does not decode as the route's type (one byte where a u64 is expected), sent by a peer that holds
                // the channel with another type: a user callback gets the decode error (logged as the largest tag), the library's
                // crossbeam-forwarding handler has nobody to report it to and drops it — and the router goes on serving every route
                let r = rng.below(senders.len() as u64) as usize;
                if let Some(tx) = &senders[r] {
                    let peer: IpcSender<u8> = tx.clone().to_opaque().to();
                    let fwd = CB_ROUTES.lock().unwrap().iter().any(|(x, _, _, _)| *x == r);
                    if fwd {
                        ops.push(format!("badfwd {}", r));
                    } else {
                        ops.push(format!("send {} {}", r, u64::MAX));
                    }
                    let already = log.lock().unwrap().iter().filter(|e| **e == L::Invoke(r, u64::MAX)).count();
                    let _ = peer.send(7);
                    if live[r] && !stopped && !fwd {
                        // (the route may have had such a message before: wait for one more, so that the router is quiescent again)
                        if !wait_for(&log, |l| l.iter().filter(|e| **e == L::Invoke(r, u64::MAX)).count() > already, 5000) {
                            case.fail(format!("an undecodable message on route {} never reached its callback (as an error)", r));
                        }
                    }
                    if fwd {
                        // nothing to wait for: give the router the time to take it
                        std::thread::sleep(Duration::from_millis(3));
                        if live[r] && !stopped {
                            // …or to die of it: the router thread is then gone for every route, and the proxy must not be used any more
                            let t0 = Instant::now();
                            while PANICS.load(Ordering::SeqCst) == p0 && t0.elapsed() < Duration::from_millis(40) {
                                std::thread::sleep(Duration::from_millis(1));
                            }
                            if PANICS.load(Ordering::SeqCst) > p0 {
                                case.fail(format!("an undecodable message on crossbeam-forwarding route {} panicked the router thread (every route of this router is dead): {}",
                                                  r, PANIC_MSG.lock().unwrap()));
                                std::mem::forget(proxy.take());
                                break;
                            }
                        }
                    }
                    if fwd && live[r] && !stopped && proxy.is_some() {
                        // the route goes on working: the next well-formed message on it arrives (this also makes the router quiescent again)
                        tag += 1;
                        ops.push(format!("send {} {}", r, tag));
                        let _ = tx.send(tag);
                        let t = tag;
                        if !wait_for(&log, |l| l.contains(&L::Invoke(r, t)), 5000) {
                            case.fail(format!("message {} sent on crossbeam-forwarding route {} after an undecodable one never arrived: the route is dead although its channel is open", t, r));
                        }
                    }
                    case.tags.push(format!("undecodable={}", if fwd { "forwarding" } else { "callback" }));
                }
            },
            9 => {
                if proxy.is_some() && rng.chance(1, 3) {
                    ops.push("dropproxy".into());
                    proxy = None;
                    stopped = true;
                    let n = live.iter().filter(|x| **x).count();
                    let want: Vec<usize> = live.iter().enumerate().filter(|(_, x)| **x).map(|(i, _)| i).collect();
                    if !wait_for(&log, |l| want.iter().all(|r| l.contains(&L::Drop(*r))), 5000) {
                        case.fail(format!("{} callbacks were not dropped after the proxy was dropped", n));
                    }
                    for l in live.iter_mut() {
                        *l = false;
                    }
                }
            },
            _ => {},
        }
    }
    // grace period: anything illegal that is still to happen (late invocations) gets a chance to show
    std::thread::sleep(Duration::from_millis(if stopped { 30 } else { 5 }));
    pump();
    let l = log.lock().unwrap().clone();
    // every drop precedes the return of shutdown()
    if let Some(k) = l.iter().position(|e| matches!(e, L::ShutdownReturned(0))) {
        for e in &l[k + 1..] {
            match e {
                L::Invoke(r, t) => case.fail(format!("callback of route {} invoked (message {}) after shutdown() returned", r, t)),
                L::Drop(r) if *r < live.len() && !ops.iter().skip_while(|o| *o != "shutdown").any(|o| *o == format!("add {}", r)) => {
                    case.fail(format!("callback of route {} dropped only after shutdown() returned", r))
                },
                _ => {},
            }
        }
    }
    let panics = PANICS.load(Ordering::SeqCst) - p0;
    if panics > 0 {
        case.fail(format!("a thread panicked: {}", PANIC_MSG.lock().unwrap()));
    }
    case.pair(format!("router legacy=0 | {}", ops.join(" | ")), format!("{} panic={}", per_route(&l, senders.len()), (panics > 0) as u8));
    case.nontrivial = ops.iter().any(|o| o.starts_with("send")) && (stopped || ops.iter().any(|o| o.starts_with("drop")));
    case.key = ops.join("|");
    case.tags.push(format!("routes={}", senders.len()));
    case.tags.push(format!("shutdown={}", flag as u8));
    case.tags.push(format!("proxydrop={}", proxy.is_none() as u8));
    drop(senders);
    drop(proxy);
    case
}

pub fn race_case(rng: &mut Rng, id: String) -> Case {
    CB_ROUTES.lock().unwrap().clear();
    let mut case = Case::new(id);
    let p0 = PANICS.load(Ordering::SeqCst);
    let log: Log = Arc::new(Mutex::new(Vec::new()));
    let proxy = Arc::new(RouterProxy::new());
    let nroutes = rng.below(9) as usize;
    let use_drop = rng.chance(1, 5);
    // (a re-entrant callback owns a clone of the proxy, so the proxy cannot be dropped while it is registered)
    let reent = !use_drop && rng.chance(1, 2);
    let mut senders = Vec::new();
    for r in 0..nroutes {
        let re = if reent && r == 0 { Some(proxy.clone()) } else { None };
        senders.push(add_route(&proxy, r, &log, re));
    }
    let nshut = 1 + rng.below(4) as usize;
    let nadd = rng.below(3) as usize;
    let stop = Arc::new(AtomicBool::new(false));
    let mut hs = Vec::new();
    // traffic
    let s2: Vec<IpcSender<u64>> = senders.iter().cloned().collect();
    let st = stop.clone();
    hs.push(std::thread::spawn(move || {
        let mut t = 0u64;
        while !st.load(Ordering::SeqCst) && t < 400 {
            for s in &s2 {
                t += 1;
                let _ = s.send(t);
            }
            if s2.is_empty() {
                break;
            }
        }
    }));
    for a in 0..nadd {
        let p = proxy.clone();
        let l = log.clone();
        hs.push(std::thread::spawn(move || {
            for k in 0..20 {
                let _ = add_route(&p, 2000 + a * 100 + k, &l, None);
            }
        }));
    }
    std::thread::sleep(Duration::from_micros(rng.below(3000)));
    let returned = Arc::new(AtomicUsize::new(0));
    if !use_drop {
        for k in 0..nshut {
            let p = proxy.clone();
            let l = log.clone();
            let ret = returned.clone();
            hs.push(std::thread::spawn(move || {
                p.shutdown();
                pump();
                l.lock().unwrap().push(L::ShutdownReturned(k));
                ret.fetch_add(1, Ordering::SeqCst);
            }));
        }
    }
    // watchdog: everything must finish
    let t0 = Instant::now();
    let mut stuck = false;
    while !use_drop && returned.load(Ordering::SeqCst) < nshut {
        if t0.elapsed() > Duration::from_secs(10) {
            stuck = true;
            break;
        }
        std::thread::sleep(Duration::from_millis(1));
    }
    stop.store(true, Ordering::SeqCst);
    if stuck {
        case.fail(format!(
            "deadlock: {} of {} shutdown() calls did not return within 10 s ({} routes, re-entrant callback: {}, {} registering threads)",
            nshut - returned.load(Ordering::SeqCst),
            nshut,
            nroutes,
            reent,
            nadd
        ));
        // leak the threads; the process is abandoned by the caller after this case
        case.tags.push("deadlock".into());
        case.pair("noop".into(), "ok".into());
        return case;
    }
    // every helper thread must finish: a traffic thread that blocks forever means the router stopped draining a route
    let t1 = Instant::now();
    while hs.iter().any(|h| !h.is_finished()) {
        if t1.elapsed() > Duration::from_secs(10) {
            case.fail("a sender blocked for more than 10 s: the router stopped draining a route whose channel still has traffic".into());
            case.tags.push("deadlock".into());
            case.pair("noop".into(), "ok".into());
            return case;
        }
        std::thread::sleep(Duration::from_millis(1));
    }
    for h in hs {
        let _ = h.join();
    }
    if use_drop {
        drop(senders.drain(..));
        // the registering threads and callbacks hold no clone any more
        match Arc::try_unwrap(proxy) {
            Ok(p) => drop(p),
            Err(_) => {},
        }
        let want: Vec<usize> = (0..nroutes).collect();
        if !wait_for(&log, |l| want.iter().all(|r| l.contains(&L::Drop(*r))), 5000) {
            case.fail("callbacks not dropped after the proxy was dropped".into());
        }
    }
    std::thread::sleep(Duration::from_millis(20));
    pump();
    let l = log.lock().unwrap().clone();
    if let Some(k) = l.iter().position(|e| matches!(e, L::ShutdownReturned(_))) {
        // at the first return of shutdown(): every route registered before has been dropped, nothing is invoked later
        let before = &l[..k];
        for r in 0..nroutes {
            if !before.contains(&L::Drop(r)) {
                case.fail(format!("shutdown() returned while the callback of route {} was still alive", r));
            }
        }
        for e in &l[k + 1..] {
            if let L::Invoke(r, t) = e {
                case.fail(format!("callback of route {} invoked (message {}) after shutdown() returned", r, t));
            }
        }
    }
    // per-route order: invocations of one route carry increasing message numbers, each once
    for r in 0..nroutes {
        let tags: Vec<u64> = l.iter().filter_map(|e| if let L::Invoke(x, t) = e { if *x == r { Some(*t) } else { None } } else { None }).collect();
        if tags.windows(2).any(|w| w[0] >= w[1]) {
            case.fail(format!("route {}: messages delivered out of order or twice: {:?}", r, &tags[..tags.len().min(12)]));
        }
        let drops = l.iter().filter(|e| **e == L::Drop(r)).count();
        if drops > 1 {
            case.fail(format!("callback of route {} dropped {} times", r, drops));
        }
    }
    let panics = PANICS.load(Ordering::SeqCst) - p0;
    if panics > 0 {
        case.fail(format!("a thread panicked: {}", PANIC_MSG.lock().unwrap()));
    }
    case.pair("noop".into(), "ok".into());
    case.nontrivial = true;
    case.key = format!("{}:{}:{}:{}:{}:{}", nroutes, reent, nshut, nadd, use_drop, l.len());
    case.tags.push(format!("routes={}", nroutes));
    case.tags.push(format!("reentrant={}", reent as u8));
    case.tags.push(format!("shutdown_threads={}", if use_drop { 0 } else { nshut }));
    case
}

/// a burst of registrations on a fresh router, one more registration from a second thread landing while the router thread
/// is busy installing the burst, then *no further registration*: every route must still get what was queued on it before
/// registration and what is sent afterwards, and drop its callback on disconnection
pub fn burst_case(rng: &mut Rng, idx: u64, id: String) -> Case {
    let mut case = Case::new(id);
    let log: Log = Arc::new(Mutex::new(Vec::new()));
    let proxy = Arc::new(RouterProxy::new());
    let n = rng.range(16, 40) as usize;
    let delay_us = (idx * 13) % 600;
    // channels with one message queued before registration
    let mut chans = Vec::new();
    for r in 0..n {
        let (tx, rx) = ipc::channel::<u64>().unwrap();
        tx.send(r as u64 * 10).unwrap();
        chans.push((tx, Some(rx)));
    }
    let last_rx = chans[n - 1].1.take().unwrap();
    let mk = |r: usize, log: &Log| {
        let guard = Guard(2 * r, log.clone()); // even numbers: no artificial delay on drop
        let l2 = log.clone();
        Box::new(move |m: ipc_channel::ipc::OpaqueIpcMessage| {
            let _g = &guard;
            let v: u64 = m.to().unwrap_or(u64::MAX);
            l2.lock().unwrap().push(L::Invoke(r, v));
        })
    };
    let p2 = proxy.clone();
    let log2 = log.clone();
    let cb_last = mk(n - 1, &log);
    let hb = std::thread::spawn(move || {
        let t0 = Instant::now();
        while t0.elapsed() < Duration::from_micros(delay_us) {
            std::hint::spin_loop();
        }
        p2.add_route(last_rx.to_opaque(), cb_last);
        let _ = log2;
    });
    for r in 0..n - 1 {
        let rx = chans[r].1.take().unwrap();
        proxy.add_route(rx.to_opaque(), mk(r, &log));
    }
    let _ = hb.join();
    // silence, then one more message per route
    std::thread::sleep(Duration::from_millis(15));
    for (r, (tx, _)) in chans.iter().enumerate() {
        let _ = tx.send(r as u64 * 10 + 1);
    }
    let ok = wait_for(
        &log,
        |l| (0..n).all(|r| l.contains(&L::Invoke(r, r as u64 * 10)) && l.contains(&L::Invoke(r, r as u64 * 10 + 1))),
        3000,
    );
    if !ok {
        pump();
    let l = log.lock().unwrap().clone();
        let missing: Vec<usize> = (0..n).filter(|r| !(l.contains(&L::Invoke(*r, *r as u64 * 10)) && l.contains(&L::Invoke(*r, *r as u64 * 10 + 1)))).collect();
        case.fail(format!(
            "routes {:?} of {} did not receive their messages within 3 s (burst registration, last route registered from a second thread {} us later, no registration afterwards)",
            missing, n, delay_us
        ));
    } else {
        // per-route order: the message queued before registration first
        pump();
    let l = log.lock().unwrap().clone();
        for r in 0..n {
            let seq: Vec<u64> = l.iter().filter_map(|e| if let L::Invoke(x, t) = e { if *x == r { Some(*t) } else { None } } else { None }).collect();
            if seq != vec![r as u64 * 10, r as u64 * 10 + 1] {
                case.fail(format!("route {} saw {:?}", r, seq));
            }
        }
        drop(chans);
        if !wait_for(&log, |l| (0..n).all(|r| l.contains(&L::Drop(2 * r))), 3000) {
            case.fail("a callback was not dropped after its channel disconnected".into());
        }
    }
    case.pair("noop".into(), "ok".into());
    case.nontrivial = true;
    case.key = format!("burst:{}:{}", n, delay_us);
    case.tags.push("mode=burst_registration".into());
    proxy.shutdown();
    case
}

/// many registrations made by callbacks (which run on the router thread) within one select() batch: the wake-up channel
/// must not fill up and block the router thread on its own wake-up (defect D15, fixed by coalescing wake-ups)
pub fn selfwake_case(rng: &mut Rng, id: String) -> Case {
    let mut case = Case::new(id);
    let nroutes = rng.range(2, 3) as usize;
    let per = rng.range(180, 260);
    let proxy = Arc::new(RouterProxy::new());
    let count = Arc::new(AtomicUsize::new(0));
    let mut keep = Vec::new();
    let mut rxs = Vec::new();
    for _ in 0..nroutes {
        let (tx, rx) = ipc::channel::<u64>().unwrap();
        for i in 0..per {
            tx.send(i).unwrap();
        }
        keep.push(tx);
        rxs.push(rx);
    }
    for rx in rxs {
        let p2 = proxy.clone();
        let c2 = count.clone();
        proxy.add_route(
            rx.to_opaque(),
            Box::new(move |_m| {
                let (_t, r) = ipc::channel::<u64>().unwrap();
                p2.add_route(r.to_opaque(), Box::new(|_| {}));
                c2.fetch_add(1, Ordering::SeqCst);
            }),
        );
    }
    let total = per as usize * nroutes;
    let t0 = Instant::now();
    while count.load(Ordering::SeqCst) < total && t0.elapsed() < Duration::from_secs(5) {
        std::thread::sleep(Duration::from_millis(2));
    }
    let ran = count.load(Ordering::SeqCst);
    if ran < total {
        case.fail(format!(
            "router thread stuck: only {} of {} callbacks ran within 5 s ({} routes x {} queued messages, each callback registers a route)",
            ran, total, nroutes, per
        ));
    }
    let done = crate::util::with_watchdog(5, {
        let p = proxy.clone();
        move || p.shutdown()
    });
    if done.is_none() {
        case.fail(format!("shutdown() did not return within 5 s after {} registrations made by callbacks", ran));
        case.tags.push("deadlock".into());
    }
    case.pair("noop".into(), "ok".into());
    case.nontrivial = true;
    case.key = format!("selfwake:{}:{}", nroutes, per);
    case.tags.push("mode=callbacks_register_routes_in_one_batch".into());
    case
}

pub fn run(args: &[String]) {
    let mode = arg(args, "--mode").unwrap_or("seq".into());
    let thorough = arg(args, "--tier").as_deref() == Some("thorough");
    let seed = arg_u64(args, "--seed", 1);
    let n = arg_u64(args, "--n", if thorough { 2000 } else { 150 });
    let mut rng = Rng::new(seed ^ 0x7077);
    install_panic_hook();
    for i in 0..n {
        let c = match mode.as_str() {
            "seq" => seq_case(&mut rng, format!("rseq-{}", i)),
            "burst" => burst_case(&mut rng, i, format!("rburst-{}", i)),
            "selfwake" => selfwake_case(&mut rng, format!("rselfwake-{}", i)),
            _ => race_case(&mut rng, format!("rrace-{}", i)),
        };
        let abandon = c.tags.iter().any(|t| t == "deadlock") || (mode == "burst" && c.oracle.is_some());
        c.emit();
        if abandon {
            std::process::exit(0);
        }
    }
}
