#![allow(dead_code)]
//! vh — verification harness for ipc-channel: executes scenarios on the real crate (linked from /repo by path)
//! under an in-binary libc interposer and prints one JSON object per case (requests for the Lean model driver,
//! the implementation's canonical answers, oracle verdict).
mod interpose;
mod util;
mod frag;
mod value;
mod wire;
mod router;
mod sched;
mod crash;
mod recvset;

fn main() {
    let args: Vec<String> = std::env::args().collect();
    if args.len() < 2 {
        eprintln!("usage: vh <scenario> [options]");
        std::process::exit(2);
    }
    match args[1].as_str() {
        "frag" => frag::run(&args[2..]),
        "wire" => wire::run(&args[2..]),
        "router" => router::run(&args[2..]),
        "sched" => sched::run(&args[2..]),
        "crash" => crash::run(&args[2..]),
        "set" => recvset::run(&args[2..]),
        "crashchild" => crash::child(&args[2..]),
        s => {
            eprintln!("unknown scenario {}", s);
            std::process::exit(2);
        },
    }
}
