#![allow(dead_code)]
//! vh — verification harness for ipc-channel: executes scenarios on the real crate (linked from /repo by path)
//! under an in-binary libc interposer and prints one JSON object per case (requests for the Lean model driver,
//! the implementation's canonical answers, oracle verdict).
mod interpose;
mod util;
mod world;
mod bytesapi;
mod bigvalue;
mod kindmix;
mod oneshotip;
#[cfg(not(feature = "force-inprocess"))]
mod eofrace;
#[cfg(not(feature = "force-inprocess"))]
mod stress;
#[cfg(not(feature = "force-inprocess"))]
mod sigrecv;
mod timed;
mod chain;
#[cfg(feature = "async")]
mod stream;
#[cfg(not(feature = "force-inprocess"))]
mod crash;
#[cfg(not(feature = "force-inprocess"))]
mod frag;
mod recvset;
#[cfg(not(feature = "force-inprocess"))]
mod res;
mod router;
#[cfg(not(feature = "force-inprocess"))]
mod sched;
#[cfg(not(feature = "force-inprocess"))]
mod value;
#[cfg(not(feature = "force-inprocess"))]
mod vanish;
#[cfg(not(feature = "force-inprocess"))]
mod shm;
#[cfg(not(feature = "force-inprocess"))]
mod oneshot;
#[cfg(not(feature = "force-inprocess"))]
mod wire;

fn main() {
    let args: Vec<String> = std::env::args().collect();
    if args.len() < 2 {
        eprintln!("usage: vh <scenario> [options]");
        std::process::exit(2);
    }
    match args[1].as_str() {
        "world" => world::run(&args[2..]),
        "bytesapi" => bytesapi::run(&args[2..]),
        "bigvalue" => bigvalue::run(&args[2..]),
        "kindmix" => kindmix::run(&args[2..]),
        "oneshotip" => oneshotip::run(&args[2..]),
        #[cfg(not(feature = "force-inprocess"))]
        "eofrace" => eofrace::run(&args[2..]),
        #[cfg(not(feature = "force-inprocess"))]
        "stress" => stress::run(&args[2..]),
        #[cfg(not(feature = "force-inprocess"))]
        "sigrecv" => sigrecv::run(&args[2..]),
        "timed" => timed::run(&args[2..]),
        "chain" => chain::run(&args[2..]),
        #[cfg(not(feature = "force-inprocess"))]
        "chainchild" => chain::child(&args[2..]),
        #[cfg(feature = "async")]
        "stream" => stream::run(&args[2..]),
        #[cfg(not(feature = "force-inprocess"))]
        "frag" => frag::run(&args[2..]),
        #[cfg(not(feature = "force-inprocess"))]
        "wire" => wire::run(&args[2..]),
        "router" => router::run(&args[2..]),
        #[cfg(not(feature = "force-inprocess"))]
        "sched" => sched::run(&args[2..]),
        #[cfg(not(feature = "force-inprocess"))]
        "crash" => crash::run(&args[2..]),
        #[cfg(not(feature = "force-inprocess"))]
        "crashchild" => crash::child(&args[2..]),
        "set" => recvset::run(&args[2..]),
        #[cfg(not(feature = "force-inprocess"))]
        "res" => res::run(&args[2..]),
        #[cfg(not(feature = "force-inprocess"))]
        "vanish" => vanish::run(&args[2..]),
        #[cfg(not(feature = "force-inprocess"))]
        "vanishchild" => vanish::child(&args[2..]),
        #[cfg(not(feature = "force-inprocess"))]
        "shm" => shm::run(&args[2..]),
        #[cfg(not(feature = "force-inprocess"))]
        "shmchild" => shm::child(&args[2..]),
        #[cfg(not(feature = "force-inprocess"))]
        "oneshot" => oneshot::run(&args[2..]),
        #[cfg(not(feature = "force-inprocess"))]
        "oneshotchild" => oneshot::child(&args[2..]),
        s => {
            eprintln!("unknown scenario {}", s);
            std::process::exit(2);
        },
    }
}
