//! Scenario `crash` (C12): a sender in a *spawned* process (this binary in the `crashchild` role) is killed by its own
//! interposer immediately before counted system call number k of one send, for every k; the parent observes the
//! channel with blocking recv, try_recv or a receiver set, with 0 or 1 surviving sender handle in another process.
use crate::interpose::{self as ip, Ctx, Ev};
use crate::util::*;
use ipc_channel::platform::{self, OsIpcChannel, OsIpcOneShotServer, OsIpcReceiverSet, OsIpcSelectionResult, OsIpcSender};
use std::io::{BufRead, BufReader};
use std::process::{Command, Stdio};
use std::sync::atomic::Ordering;

fn payload(len: usize) -> Vec<u8> {
    (0..len).map(|i| (i as u32).wrapping_mul(2654435761).to_le_bytes()[1]).collect()
}

/// child role: connect, bootstrap (optionally handing a clone of the sender back to the parent), announce the
/// counted-call classes of the send under test (from a dry run on a private channel), then send and get killed
pub fn child(args: &[String]) {
    let sys = arg_u64(args, "--sys", 4608) as usize;
    ip::SPOOF_SNDBUF.store(sys, Ordering::SeqCst);
    let name = arg(args, "--name").unwrap();
    let len = arg_u64(args, "--len", 0) as usize;
    let natt = arg_u64(args, "--natt", 0) as usize;
    let survivor = arg_u64(args, "--survivor", 0) == 1;
    let k = arg_u64(args, "--crash-at", u64::MAX) as i64;
    let tx = OsIpcSender::connect(name).unwrap();
    let rev = arg_u64(args, "--rev", 0) == 1;
    let mut boot = if survivor { vec![OsIpcChannel::Sender(tx.clone())] } else { vec![] };
    // reverse mode: the doomed message carries a *receiver* whose sender is handed to the parent beforehand
    let rev_pair = if rev { Some(platform::channel().unwrap()) } else { None };
    let mut rev_rx = None;
    // … and the only lasting *sender* handle of an "orphan" channel whose receiver the parent holds (C03: once the truncated
    // message is discarded no sender of that channel exists any more)
    let mut orphan_tx = None;
    if let Some((a, b)) = rev_pair {
        boot.push(OsIpcChannel::Sender(a));
        rev_rx = Some(b);
        let (otx, orx) = platform::channel().unwrap();
        boot.push(OsIpcChannel::Receiver(orx));
        orphan_tx = Some(otx);
    }
    tx.send(b"boot", boot, vec![]).unwrap();
    // one complete message before the crash: must be delivered intact whatever happens next
    tx.send(&payload(777), vec![], vec![]).unwrap();
    let data = payload(len);
    let mk_atts = || {
        let mut v = Vec::new();
        let mut keep = Vec::new();
        for _ in 0..natt {
            let (a, b) = platform::channel().unwrap();
            v.push(OsIpcChannel::Sender(a));
            keep.push(b);
        }
        (v, keep)
    };
    // dry run on a private channel to learn the call sequence
    {
        let (dtx, drx) = platform::channel().unwrap();
        let (atts, _keep) = mk_atts();
        let _g = ip::install(Ctx::new(0));
        let h = std::thread::spawn(move || {
            let _ = drx.recv();
        });
        dtx.send(&data, atts, vec![]).unwrap();
        let tr = ip::take_trace();
        let _ = h.join();
        let classes: Vec<&str> = tr
            .iter()
            .filter_map(|(_, e)| match e {
                Ev::Sendmsg { .. } | Ev::Send { .. } => Some("T"),
                Ev::Socketpair { .. } | Ev::Close { .. } => Some("K"),
                _ => None,
            })
            .collect();
        println!("calls={}", classes.join(""));
        use std::io::Write;
        std::io::stdout().flush().unwrap();
    }
    let (mut atts, _keep) = mk_atts();
    if let Some(b) = rev_rx.take() {
        atts.push(OsIpcChannel::Receiver(b));
    }
    if let Some(o) = orphan_tx.take() {
        atts.push(OsIpcChannel::Sender(o));
    }
    ip::CALLNO.store(0, Ordering::SeqCst);
    ip::CRASH_AT.store(k, Ordering::SeqCst);
    ip::COUNT_CALLS.store(true, Ordering::SeqCst);
    let _ = tx.send(&data, atts, vec![]);
    ip::COUNT_CALLS.store(false, Ordering::SeqCst);
    // not crashed: exit normally (all descriptors closed by process exit)
}

#[derive(Clone, Copy, PartialEq, Debug)]
enum Observer {
    Recv,
    TryRecv,
    Select,
    /// try_recv_timeout(20 ms) in a loop; with a survivor, its message is sent only 400 ms after observation starts, so that
    /// the receiver meets the truncated message with nothing complete queued behind it
    Timed,
}

fn run_one(sys: usize, len: usize, natt: usize, survivor: bool, obs: Observer, k: usize, id: String) -> (Case, usize) {
    let mut case = Case::new(id);
    let (server, name) = OsIpcOneShotServer::new().unwrap();
    let exe = std::env::current_exe().unwrap();
    let mut ch = Command::new(exe)
        .args(["crashchild", "--sys", &sys.to_string(), "--name", &name, "--len", &len.to_string(), "--natt", &natt.to_string(),
               "--survivor", if survivor { "1" } else { "0" }, "--crash-at", &k.to_string()])
        .stdout(Stdio::piped())
        .spawn()
        .unwrap();
    let (mut rx, data, mut chans, _) = server.accept().unwrap();
    if data != b"boot" {
        case.fail("bootstrap message damaged".into());
    }
    let surv = if survivor { chans.pop().map(|mut c| c.to_sender()) } else { None };
    let mut calls = String::new();
    {
        let out = ch.stdout.take().unwrap();
        let mut br = BufReader::new(out);
        let mut line = String::new();
        while br.read_line(&mut line).unwrap_or(0) > 0 {
            if let Some(c) = line.trim().strip_prefix("calls=") {
                calls = c.to_string();
            }
            line.clear();
        }
    }
    let status = ch.wait().unwrap();
    let ncalls = calls.len();
    let crashed = k < ncalls;
    use std::os::unix::process::ExitStatusExt;
    if crashed && status.signal() != Some(libc::SIGKILL) {
        case.fail(format!("child was expected to be killed before call {} of {} but exited with {:?}", k, ncalls, status));
    }
    // transmissions completed before the crash
    let sent = calls.chars().take(k.min(ncalls)).filter(|c| *c == 'T').count();
    let total_t = calls.chars().filter(|c| *c == 'T').count();
    // ---- observe
    let mut got: Vec<Vec<u8>> = Vec::new();
    // attachments of every delivered message, in delivery order: (channels, number of regions)
    let mut got_att: Vec<(Vec<platform::OsOpaqueIpcChannel>, usize)> = Vec::new();
    let mut closed = false;
    let mut errors: Vec<String> = Vec::new();
    let sentinel = b"__survivor__".to_vec();
    // the survivor's message carries one attachment of its own: a sender whose receiver stays here
    let (ptx, prx) = platform::channel().unwrap();
    // (more descriptors than the interrupted message's first packet carried: a control buffer re-used after the discard
    // must still have room for all of them)
    let mut late_sender = None;
    if let Some(s) = &surv {
        let mut atts = vec![OsIpcChannel::Sender(ptx.clone())];
        for _ in 0..3 {
            atts.push(OsIpcChannel::Sender(ptx.clone()));
        }
        if obs == Observer::Timed || obs == Observer::Select {
            let s2 = s.clone();
            let sent2 = sentinel.clone();
            late_sender = Some(std::thread::spawn(move || {
                std::thread::sleep(std::time::Duration::from_millis(400));
                let _ = s2.send(&sent2, atts, vec![]);
            }));
        } else {
            s.send(&sentinel, atts, vec![]).unwrap();
        }
    }
    drop(ptx);
    let deadline = std::time::Instant::now() + std::time::Duration::from_secs(8);
    let finished = |got: &Vec<Vec<u8>>, closed: bool| closed || got.last() == Some(&sentinel);
    match obs {
        Observer::Recv => {
            let (tx_r, rx_r) = std::sync::mpsc::channel();
            let h = std::thread::spawn(move || {
                loop {
                    match rx.recv() {
                        Ok((d, ch, sh)) => {
                            let fin = d == b"__survivor__";
                            let _ = tx_r.send(Ok((d, ch, sh.len())));
                            if fin {
                                break;
                            }
                        },
                        Err(e) => {
                            let _ = tx_r.send(Err((e.channel_is_closed(), format!("{:?}", e))));
                            break;
                        },
                    }
                }
            });
            loop {
                match rx_r.recv_timeout(std::time::Duration::from_secs(8)) {
                    Ok(Ok((d, ch, ns))) => {
                        got.push(d);
                        got_att.push((ch, ns));
                    },
                    Ok(Err((c, e))) => {
                        if c {
                            closed = true;
                        } else {
                            errors.push(e);
                        }
                        break;
                    },
                    Err(_) => {
                        case.fail("blocking recv() did not return within 8 s (receiver waits forever)".into());
                        break;
                    },
                }
                if finished(&got, closed) {
                    break;
                }
            }
            if case.oracle.is_none() {
                let _ = h.join();
            }
        },
        Observer::TryRecv => loop {
            match rx.try_recv() {
                Ok((d, ch, sh)) => {
                    got.push(d);
                    got_att.push((ch, sh.len()));
                },
                Err(e) if e.channel_is_closed() => closed = true,
                Err(e) => {
                    let s = format!("{:?}", e);
                    if !(s.contains("Errno(11)")) {
                        errors.push(s);
                        break;
                    }
                    std::thread::sleep(std::time::Duration::from_micros(200));
                },
            }
            if finished(&got, closed) {
                break;
            }
            if std::time::Instant::now() > deadline {
                case.fail("try_recv() polling saw neither the expected messages nor disconnection within 8 s".into());
                break;
            }
        },
        Observer::Timed => {
            // run in a helper thread so that a call that blocks beyond its time-out is seen by the watchdog
            let (tx_r, rx_r) = std::sync::mpsc::channel();
            std::thread::spawn(move || loop {
                let t0 = std::time::Instant::now();
                let r = rx.try_recv_timeout(std::time::Duration::from_millis(20));
                let el = t0.elapsed();
                match r {
                    Ok((d, ch, sh)) => {
                        let fin = d == b"__survivor__";
                        let _ = tx_r.send((Some((d, ch, sh.len())), false, el, String::new()));
                        if fin {
                            break;
                        }
                    },
                    Err(e) if e.channel_is_closed() => {
                        let _ = tx_r.send((None, true, el, String::new()));
                        break;
                    },
                    Err(e) => {
                        let s = format!("{:?}", e);
                        let empty = s.contains("Errno(11)");
                        let _ = tx_r.send((None, false, el, if empty { String::new() } else { s }));
                        if !empty {
                            break;
                        }
                    },
                }
            });
            loop {
                match rx_r.recv_timeout(std::time::Duration::from_secs(8)) {
                    Ok((m, cl, el, err)) => {
                        if el > std::time::Duration::from_millis(250) && m.is_none() && !cl {
                            case.fail(format!("try_recv_timeout(20 ms) returned only after {:?} (it met a truncated message and then waited without a time-out)", el));
                        }
                        if let Some((d, ch, ns)) = m {
                            // a message may legitimately take longer only if it was being reassembled; 250 ms is ample here
                            if el > std::time::Duration::from_millis(250) && d == sentinel {
                                case.fail(format!("try_recv_timeout(20 ms) blocked for {:?} until the next message arrived instead of reporting empty", el));
                            }
                            got.push(d);
                            got_att.push((ch, ns));
                        }
                        if cl {
                            closed = true;
                        }
                        if !err.is_empty() {
                            errors.push(err);
                            break;
                        }
                    },
                    Err(_) => {
                        case.fail("try_recv_timeout(20 ms) did not return within 8 s".into());
                        break;
                    },
                }
                if finished(&got, closed) {
                    break;
                }
                if std::time::Instant::now() > deadline + std::time::Duration::from_secs(2) {
                    case.fail("timed polling saw neither the expected messages nor disconnection within 10 s".into());
                    break;
                }
            }
        },
        Observer::Select => {
            // in every other case the complete 777-byte message is taken with a plain receive first, so that the member enters
            // the set holding at most the truncated message and nothing complete in front of it
            if k % 2 == 1 {
                match crate::util::with_watchdog(8, move || { let r = rx.recv(); (rx, r) }) {
                    Some((r, Ok((d, ch, sh)))) => {
                        got.push(d);
                        got_att.push((ch, sh.len()));
                        rx = r;
                    },
                    Some((r, Err(_))) => {
                        case.fail("the complete message queued before the crash could not be received".into());
                        rx = r;
                    },
                    None => {
                        case.fail("recv() of the complete message queued before the crash blocked".into());
                        case.pair("noop".into(), "ok".into());
                        return (case, ncalls);
                    },
                }
            }
            let mut set = OsIpcReceiverSet::new().unwrap();
            let rid = set.add(rx).unwrap();
            // a second member with a message of its own: while the first member holds at most a truncated message (its
            // survivor speaks only 400 ms later), select must report this one — it may not sit in a read on the first member
            let (btx, brx) = platform::channel().unwrap();
            let bid = set.add(brx).unwrap();
            btx.send(b"__other_member__", vec![], vec![]).unwrap();
            let b_sent = std::time::Instant::now();
            let mut b_seen: Option<std::time::Duration> = None;
            let mut b_after_sentinel = false;
            let (tx_r, rx_r) = std::sync::mpsc::channel();
            std::thread::spawn(move || {
                let mut stop = false;
                let mut other_seen = false;
                loop {
                match set.select() {
                    Ok(rs) => {
                        for r in rs {
                            match r {
                                OsIpcSelectionResult::DataReceived(i, d, ch, sh) => {
                                    if d == b"__survivor__" {
                                        stop = true;
                                    }
                                    if d == b"__other_member__" {
                                        other_seen = true;
                                    }
                                    let _ = tx_r.send(Ok((i, d, ch, sh.len())));
                                },
                                OsIpcSelectionResult::ChannelClosed(i) => {
                                    let _ = tx_r.send(Err(i));
                                    stop = true;
                                },
                            }
                        }
                        if stop && other_seen {
                            break;
                        }
                    },
                    Err(_) => break,
                }
                }
            });
            loop {
                match rx_r.recv_timeout(std::time::Duration::from_secs(8)) {
                    Ok(Ok((i, d, _, _))) if i == bid => {
                        if d != b"__other_member__" {
                            case.fail("the other member's message arrived altered".into());
                        }
                        b_seen = Some(b_sent.elapsed());
                        b_after_sentinel = got.last() == Some(&sentinel);
                    },
                    Ok(Ok((i, d, ch, ns))) => {
                        if i != rid {
                            case.fail("select reported a foreign id".into());
                        }
                        got.push(d);
                        got_att.push((ch, ns));
                    },
                    Ok(Err(_)) => closed = true,
                    Err(_) => {
                        case.fail("select() did not report the expected events within 8 s".into());
                        break;
                    },
                }
                if finished(&got, closed) {
                    break;
                }
            }
            // the other member's event may come right after the first member's last one
            if b_seen.is_none() {
                if let Ok(Ok((i, d, _, _))) = rx_r.recv_timeout(std::time::Duration::from_secs(2)) {
                    if i == bid && d == b"__other_member__" {
                        b_seen = Some(b_sent.elapsed());
                        b_after_sentinel = got.last() == Some(&sentinel);
                    }
                }
            }
            drop(btx);
            match b_seen {
                // the survivor of the first member speaks after 400 ms: the other member's message must not have to wait for that
                // (both conditions: late on the clock *and* after the survivor's message, so that a slow machine alone is no alarm)
                Some(t) if survivor && t > std::time::Duration::from_millis(300) && b_after_sentinel => case.fail(format!(
                    "select() reported the message pending on another member only after {:?} — it was blocked in a read on the member whose sender had been killed",
                    t
                )),
                Some(_) => {},
                None => {
                    if case.oracle.is_none() {
                        case.fail("select() never reported the message pending on the other member".into());
                    }
                },
            }
        },
    }
    // ---- oracle
    let intact = payload(777);
    if got.first() != Some(&intact) {
        case.fail("the message whose send had returned before the crash was not delivered intact first".into());
    }
    let full = payload(len);
    let mut delivered_interrupted = false;
    for d in got.iter().skip(1) {
        if *d == sentinel {
            continue;
        }
        if *d == full {
            delivered_interrupted = true;
        } else {
            case.fail(format!("a shortened or altered payload ({} bytes instead of {}) was delivered as a message", d.len(), len));
        }
    }
    // every delivered message carries exactly its own attachments (the discarded message's must not show up anywhere)
    for (i, d) in got.iter().enumerate() {
        let (ch, ns) = &mut got_att[i];
        let want = if *d == sentinel { 4 } else if *d == full && i > 0 { natt } else { 0 };
        if ch.len() != want || *ns != 0 {
            case.fail(format!(
                "delivered message #{} ({} bytes) carries {} channel(s) and {} region(s) instead of its own {} channel(s): attachments of another (discarded) message were mixed in",
                i, d.len(), ch.len(), ns, want
            ));
        } else if *d == sentinel {
            // identity: the survivor's attachment must be the sender of the probe channel
            let nonce = b"nonce-probe".to_vec();
            let _ = ch[0].to_sender().send(&nonce, vec![], vec![]);
            match prx.try_recv() {
                Ok((p, _, _)) if p == nonce => {},
                _ => case.fail("the endpoint delivered with the survivor's message is not the one that was attached to it".into()),
            }
        }
    }
    if survivor {
        if closed {
            case.fail("receiver was told the channel is closed although a sender handle survives in another process".into());
        } else if got.last() != Some(&sentinel) && case.oracle.is_none() {
            case.fail("the surviving sender's message did not arrive".into());
        }
    } else if !closed && case.oracle.is_none() {
        case.fail("no sender survives but disconnection was not reported".into());
    }
    for e in errors {
        case.fail(format!("receive error: {}", e));
    }
    // ---- model: one thread, the 777-byte message then the interrupted one
    let mut sched = vec!["s0".to_string(), "s0".to_string(), "s0".to_string()];
    for _ in 0..sent {
        sched.push("s0".into());
    }
    if sent < total_t {
        sched.push("c0".into());
    }
    for _ in 0..(2 + total_t + 2) {
        sched.push("r".into());
    }
    case.pair(
        format!("im sys={} lens=777,{} threads=0,1 sched={} show=delivered", sys, len, sched.join(",")),
        format!("ok delivered=0:777{}", if delivered_interrupted { format!(",1:{}", len) } else { String::new() }),
    );
    case.nontrivial = crashed;
    case.key = format!("{}:{}:{}:{:?}:{}", len, natt, survivor, obs, k);
    case.tags.push(format!("packets={}", total_t));
    case.tags.push(format!("observer={:?}", obs));
    case.tags.push(format!("survivor={}", survivor as u8));
    case.tags.push(format!("crashed={}", crashed as u8));
    case.tags.push(format!("delivered_interrupted={}", delivered_interrupted as u8));
    if let Some(h) = late_sender {
        let _ = h.join();
    }
    drop(surv);
    (case, ncalls)
}

/// C09/C12: a receiver that travelled only inside a message whose sender died mid-send exists nowhere any more once the
/// truncated message has been discarded — also while the owner of the carrying channel is blocked waiting for the next message
fn stale_receiver_case(sys: usize, len: usize, k: usize, id: String) -> (Case, usize) {
    let mut case = Case::new(id);
    let (server, name) = OsIpcOneShotServer::new().unwrap();
    let exe = std::env::current_exe().unwrap();
    let mut ch = Command::new(exe)
        .args(["crashchild", "--sys", &sys.to_string(), "--name", &name, "--len", &len.to_string(), "--natt", "0", "--survivor", "1", "--rev", "1",
               "--crash-at", &k.to_string()])
        .stdout(Stdio::piped())
        .spawn()
        .unwrap();
    let (rx, _data, mut chans, _) = server.accept().unwrap();
    let orphan_rx = chans.pop().map(|mut c| c.to_receiver());
    let rev = chans.pop().map(|mut c| c.to_sender());
    let surv = chans.pop().map(|mut c| c.to_sender());
    let mut calls = String::new();
    {
        let out = ch.stdout.take().unwrap();
        let mut br = BufReader::new(out);
        let mut line = String::new();
        while br.read_line(&mut line).unwrap_or(0) > 0 {
            if let Some(c) = line.trim().strip_prefix("calls=") {
                calls = c.to_string();
            }
            line.clear();
        }
    }
    let _ = ch.wait();
    let ncalls = calls.len();
    let sent = calls.chars().take(k.min(ncalls)).filter(|c| *c == 'T').count();
    let total_t = calls.chars().filter(|c| *c == 'T').count();
    let partial = sent >= 1 && sent < total_t;
    // the owner of the carrying channel blocks in recv(): it gets the 777-byte message, discards the truncated one and waits
    let (tx_r, rx_r) = std::sync::mpsc::channel();
    let h = std::thread::spawn(move || loop {
        match rx.recv() {
            Ok((d, ch, _)) => {
                let fin = d == b"__survivor__";
                let _ = tx_r.send((d.len(), ch.len()));
                if fin {
                    break;
                }
            },
            Err(_) => break,
        }
    });
    let _ = rx_r.recv_timeout(std::time::Duration::from_secs(5)); // the 777-byte message
    if partial {
        let rev = rev.as_ref().unwrap();
        let t0 = std::time::Instant::now();
        let mut failed = false;
        let mut oks = 0;
        while t0.elapsed() < std::time::Duration::from_secs(3) {
            match crate::util::with_watchdog(5, {
                let r = rev.clone();
                move || r.send(b"probe", vec![], vec![]).is_ok()
            }) {
                Some(false) => {
                    failed = true;
                    break;
                },
                Some(true) => oks += 1,
                None => {
                    case.fail("send to a receiver that was attached to a discarded message blocked".into());
                    break;
                },
            }
            std::thread::sleep(std::time::Duration::from_millis(5));
        }
        if !failed && case.oracle.is_none() {
            case.fail(format!(
                "send kept reporting success ({} times over 3 s) although the receiving end was attached only to a message that was discarded (sender killed before call {} of {})",
                oks, k, ncalls
            ));
        }
    }
    // the orphan channel: its only sender handle travelled inside the discarded message (the child process is dead), so a
    // blocking receive on it must report disconnection — while the owner of the carrying channel is still blocked in recv()
    if partial && case.oracle.is_none() {
        if let Some(orx) = orphan_rx {
            match crate::util::with_watchdog(4, move || orx.recv().map(|x| x.0.len())) {
                Some(Err(_)) => {},
                Some(Ok(n)) => case.fail(format!("the orphan channel delivered a message of {} bytes nobody sent", n)),
                None => case.fail(format!(
                    "recv() on a channel whose last sender handle was attached to a discarded message is still blocked after 4 s (sender killed before call {} of {})",
                    k, ncalls
                )),
            }
        }
    }
    if let Some(s) = &surv {
        let _ = s.send(b"__survivor__", vec![], vec![]);
    }
    let _ = rx_r.recv_timeout(std::time::Duration::from_secs(5));
    let _ = h.join();
    case.pair("noop".into(), "ok".into());
    case.nontrivial = partial;
    case.key = format!("stale:{}:{}", len, k);
    case.tags.push("observer=blocked_recv_stale_receiver".into());
    case.tags.push(format!("partial={}", partial as u8));
    (case, ncalls)
}

pub fn run(args: &[String]) {
    let sys_arg = arg_u64(args, "--sys", 4608) as usize;
    ip::SPOOF_SNDBUF.store(sys_arg, Ordering::SeqCst);
    let sys = crate::frag::effective_sys();
    let max = OsIpcSender::get_max_fragment_size();
    let fs = sys - 32;
    let thorough = arg(args, "--tier").as_deref() == Some("thorough");
    let only = arg(args, "--shape").and_then(|s| s.parse::<usize>().ok());
    let shapes: Vec<usize> = vec![100, max + 1, max + 2 * fs + 1, max, max + fs + 1, max + 3 * fs + 1, max + 4 * fs + 1];
    let mut n = 0u64;
    for (si, &len) in shapes.iter().enumerate() {
        if let Some(o) = only {
            if o != si {
                continue;
            }
        } else if !thorough && si >= 3 {
            continue;
        }
        if len > max && arg(args, "--observer").is_none() {
            let mut k = 0;
            loop {
                n += 1;
                let (c, ncalls) = stale_receiver_case(sys, len, k, format!("crash-stale-{}-{}", si, n));
                c.emit();
                if k >= ncalls {
                    break;
                }
                k += 1;
            }
        }
        if arg(args, "--only-stale").is_some() {
            continue;
        }
        for natt in [0usize, 1] {
            for survivor in [false, true] {
                for obs in [Observer::Recv, Observer::TryRecv, Observer::Select, Observer::Timed] {
                    if let Some(o) = arg(args, "--observer") {
                        if format!("{:?}", obs).to_lowercase() != o {
                            continue;
                        }
                    } else if !thorough && (obs == Observer::Timed || (natt == 1 && obs != Observer::Recv)) {
                        continue;
                    }
                    let mut k = 0;
                    loop {
                        n += 1;
                        let (c, ncalls) = run_one(sys, len, natt, survivor, obs, k, format!("crash-{}-{}", si, n));
                        c.emit();
                        if k >= ncalls {
                            break;
                        }
                        k += 1;
                    }
                }
            }
        }
    }
}
