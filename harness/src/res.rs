//! Scenario `res` (C11, C08, C05, C18): resource hygiene of the operations that `world` does not cover — failing
//! connects, one-shot servers (used, unused, failing), shared-memory regions of every awkward length (created, cloned,
//! sent, dropped in any order), receiver sets dropped with members.  After every operation every descriptor the
//! process gained must carry close-on-exec; after every case the descriptor table, the shared mappings and the temp
//! directory must be what they were; the interposer's ledger must have seen no failing or foreign close().
use crate::interpose::{self as ip};
use crate::util::*;
use ipc_channel::ipc::{self, IpcOneShotServer, IpcReceiverSet, IpcSender, IpcSharedMemory};
use ipc_channel::platform::OsIpcSharedMemory;
use std::collections::BTreeSet;
use std::sync::atomic::Ordering;

fn tmp_entries() -> BTreeSet<String> {
    let dir = std::env::temp_dir();
    let mut s = BTreeSet::new();
    if let Ok(rd) = std::fs::read_dir(&dir) {
        for e in rd.flatten() {
            s.insert(e.file_name().to_string_lossy().into_owned());
        }
    }
    s
}

fn check_cloexec(base: &BTreeSet<i32>, case: &mut Case, what: &str) {
    for fd in ip::proc_fds().difference(base) {
        if !ip::fd_cloexec(*fd) {
            let link = std::fs::read_link(format!("/proc/self/fd/{}", fd)).map(|p| p.to_string_lossy().into_owned()).unwrap_or_default();
            case.fail(format!("descriptor {} ({}) created by `{}` is inheritable (no close-on-exec)", fd, link, what));
        }
    }
}

const LENS: [usize; 12] = [0, 1, 2, 4095, 4096, 4097, 8191, 8192, 8193, 12345, 65536, 1 << 20];

pub fn one_case(rng: &mut Rng, id: String, big: bool) -> Case {
    let mut case = Case::new(id);
    let base = ip::proc_fds();
    let tmp0 = tmp_entries();
    {
        let mut l = ip::LEDGER.lock().unwrap();
        l.open.clear();
        l.bad_closes.clear();
        l.not_cloexec.clear();
        l.maps.clear();
        l.bad_unmaps.clear();
    }
    ip::LEDGER_ON.store(true, Ordering::SeqCst);
    let mut ops = Vec::new();
    let nops = 2 + rng.below(8);
    for _ in 0..nops {
        match rng.below(10) {
            0 => {
                ops.push("connect_bad".to_string());
                // names around and beyond what fits `sun_path` (108 bytes) as well: every failing connect must release what it took
                let base_name = format!("/nonexistent-{}/socket", rng.next());
                let want = [0usize, 0, 100, 107, 108, 109, 140, 300][rng.below(8) as usize];
                let name = if want > base_name.len() { format!("{}{}", base_name, "x".repeat(want - base_name.len())) } else { base_name };
                let r = ip::lib_scope(|| IpcSender::<u64>::connect(name));
                if r.is_ok() {
                    case.fail("connect to a non-existent name succeeded".into());
                }
            },
            1 => {
                ops.push("server_unused".to_string());
                let (srv, name) = ip::lib_scope(|| IpcOneShotServer::<u64>::new().unwrap());
                check_cloexec(&base, &mut case, "IpcOneShotServer::new");
                if !std::path::Path::new(&name).exists() {
                    case.fail("server name is not an existing socket path".into());
                }
                ip::lib_scope(|| drop(srv));
                if std::path::Path::new(&name).exists() {
                    case.fail("socket file remains after the unused server was dropped".into());
                }
            },
            2 | 3 => {
                let k = 1 + rng.below(4);
                let before = rng.chance(1, 2);
                ops.push(format!("server_used k={} connect_before_accept={}", k, before));
                let (srv, name) = ip::lib_scope(|| IpcOneShotServer::<(u64, Option<IpcSharedMemory>)>::new().unwrap());
                let n2 = name.clone();
                let client = move || {
                    let tx = IpcSender::<(u64, Option<IpcSharedMemory>)>::connect(n2).unwrap();
                    for i in 0..k {
                        let shm = if i % 2 == 1 { Some(IpcSharedMemory::from_bytes(&[7u8; 5000])) } else { None };
                        tx.send((i, shm)).unwrap();
                    }
                    // the client is gone before (or while) the server accepts
                };
                let h = if before {
                    client();
                    None
                } else {
                    Some(std::thread::spawn(client))
                };
                // half of the time the wait in accept() is cut short by a signal once or twice: the connection finally accepted is
                // a descriptor like any other (owned, close-on-exec)
                if rng.chance(1, 2) {
                    ip::EINTR_ACCEPT_NEXT.store(1 + rng.below(2), Ordering::SeqCst);
                    case.tags.push("accept_interrupted".into());
                }
                let (rx, first) = ip::lib_scope(|| srv.accept().unwrap());
                ip::EINTR_ACCEPT_NEXT.store(0, Ordering::SeqCst);
                check_cloexec(&base, &mut case, "IpcOneShotServer::accept");
                if first.0 != 0 {
                    case.fail(format!("accept returned message {} first", first.0));
                }
                if let Some(h) = h {
                    let _ = h.join();
                }
                for i in 1..k {
                    match ip::lib_scope(|| rx.recv()) {
                        Ok((j, shm)) => {
                            if j != i {
                                case.fail(format!("one-shot channel delivered {} where {} was expected", j, i));
                            }
                            if let Some(m) = shm {
                                if m[..] != [7u8; 5000][..] {
                                    case.fail("region sent through a one-shot channel differs".into());
                                }
                            }
                        },
                        Err(e) => case.fail(format!("message {} of a client that exited was lost: {:?}", i, e)),
                    }
                }
                match rx.try_recv() {
                    Err(ipc::TryRecvError::IpcError(ipc::IpcError::Disconnected)) => {},
                    other => case.fail(format!("after the client's last message: {:?}", other.map(|x| x.0))),
                }
                if std::path::Path::new(&name).exists() {
                    case.fail("socket file remains after accept".into());
                }
                ip::lib_scope(|| drop(rx));
            },
            4 | 5 => {
                let len = if big { LENS[rng.below(LENS.len() as u64) as usize] } else { LENS[rng.below(10) as usize] };
                let nclones = rng.below(4) as usize;
                ops.push(format!("shm len={} clones={}", len, nclones));
                let data = rng.bytes(len);
                let fill = rng.chance(1, 3);
                let m = ip::lib_scope(|| if fill { IpcSharedMemory::from_byte(0x5a, len) } else { IpcSharedMemory::from_bytes(&data) });
                let expect: Vec<u8> = if fill { vec![0x5a; len] } else { data.clone() };
                check_cloexec(&base, &mut case, "IpcSharedMemory::from_bytes");
                let mut copies = vec![m];
                for _ in 0..nclones {
                    let c = ip::lib_scope(|| copies[0].clone());
                    copies.push(c);
                    check_cloexec(&base, &mut case, "IpcSharedMemory::clone");
                }
                // send one copy through a channel, keep reading the others
                let (tx, rx) = ipc::channel::<Vec<IpcSharedMemory>>().unwrap();
                let two = vec![copies[0].clone(), copies[copies.len() - 1].clone()];
                ip::lib_scope(|| tx.send(two).unwrap());
                // the receive call varies: descriptors installed by any of them must be close-on-exec
                let how = rng.below(4);
                ops.push(format!("recv_how={}", how));
                let (got, rx) = match how {
                    0 => (ip::lib_scope(|| rx.recv().unwrap()), Some(rx)),
                    1 => (ip::lib_scope(|| rx.try_recv().unwrap()), Some(rx)),
                    2 => (ip::lib_scope(|| rx.try_recv_timeout(std::time::Duration::from_secs(5)).unwrap()), Some(rx)),
                    _ => {
                        let mut set = ip::lib_scope(|| IpcReceiverSet::new().unwrap());
                        ip::lib_scope(|| set.add(rx).unwrap());
                        let mut out = None;
                        for r in ip::lib_scope(|| set.select().unwrap()) {
                            if let ipc::IpcSelectionResult::MessageReceived(_, m) = r {
                                out = Some(ip::lib_scope(|| m.to::<Vec<IpcSharedMemory>>().unwrap()));
                            }
                        }
                        check_cloexec(&base, &mut case, "select of a message with regions");
                        ip::lib_scope(|| drop(set));
                        (out.expect("select did not deliver the message"), None)
                    },
                };
                check_cloexec(&base, &mut case, ["recv", "try_recv", "try_recv_timeout", "select"][how as usize]);
                // drop the sender's copies in a random order, then read what was received
                while !copies.is_empty() {
                    let i = rng.below(copies.len() as u64) as usize;
                    let c = copies.remove(i);
                    if c[..] != expect[..] {
                        case.fail(format!("region of length {} reads back differently in a clone", len));
                    }
                    ip::lib_scope(|| drop(c));
                }
                drop(tx);
                if let Some(rx) = rx {
                    ip::lib_scope(|| drop(rx));
                }
                for g in &got {
                    if g.len() != len || g[..] != expect[..] {
                        case.fail(format!("received region of length {} differs (got {} bytes)", len, g.len()));
                    }
                }
                ip::lib_scope(|| drop(got));
            },
            6 => {
                // platform level: zero-length and odd-length regions must be safe to create and read (C18)
                let len = [0usize, 1, 4097][rng.below(3) as usize];
                ops.push(format!("os_shm len={}", len));
                let data = rng.bytes(len);
                let r = std::panic::catch_unwind(|| {
                    let m = OsIpcSharedMemory::from_bytes(&data);
                    let ok = m[..] == data[..];
                    let c = m.clone();
                    let ok2 = c[..] == data[..];
                    let z = OsIpcSharedMemory::from_byte(3, len);
                    let ok3 = z.iter().all(|b| *b == 3) && z.len() == len;
                    ok && ok2 && ok3
                });
                match r {
                    Ok(true) => {},
                    Ok(false) => case.fail(format!("platform-level region of length {} reads back differently", len)),
                    Err(_) => case.fail(format!("platform-level region of length {} panicked / aborted on create or read", len)),
                }
            },
            7 => {
                let nm = 1 + rng.below(5) as usize;
                ops.push(format!("set members={}", nm));
                let mut set = ip::lib_scope(|| IpcReceiverSet::new().unwrap());
                check_cloexec(&base, &mut case, "IpcReceiverSet::new");
                let mut txs = Vec::new();
                for i in 0..nm {
                    let (tx, rx) = ipc::channel::<u64>().unwrap();
                    tx.send(i as u64).unwrap();
                    ip::lib_scope(|| set.add(rx).unwrap());
                    txs.push(tx);
                }
                if rng.below(3) == 0 {
                    // an add whose registration the kernel refuses: the receiver handed over is gone either way, so its
                    // descriptor has to be released and its channel closed — not kept open by nobody
                    ops.push("set add refused".into());
                    let (tx, rx) = ipc::channel::<u64>().unwrap();
                    ip::FAIL_EPOLL_ADD.store(true, Ordering::SeqCst);
                    let r = ip::lib_scope(|| set.add(rx));
                    ip::FAIL_EPOLL_ADD.store(false, Ordering::SeqCst);
                    if r.is_ok() {
                        case.fail("IpcReceiverSet::add reported success although the registration was refused".into());
                    } else if tx.send(1).is_ok() {
                        case.fail("the receiver given to an IpcReceiverSet::add that failed is still open: its descriptor is owned by nobody (leaked), senders never see the channel closed".into());
                    }
                    case.tags.push("set_add_refused".into());
                }
                let rs = ip::lib_scope(|| set.select().unwrap());
                if rs.is_empty() {
                    case.fail("select returned nothing".into());
                }
                // drop the set with live members and undelivered traffic
                for tx in &txs {
                    let _ = tx.send(99);
                }
                ip::lib_scope(|| drop(set));
                drop(txs);
            },
            8 => {
                // a send whose serialisation fails after k regions and a sender were visited: nothing may stay behind
                let k = rng.below(3) as usize;
                ops.push(format!("failed_serialisation regions={}", k));
                let (tx, rx) = ipc::channel::<crate::value::Dyn>().unwrap();
                let (atx, arx) = ipc::channel::<u64>().unwrap();
                let mut parts = Vec::new();
                for j in 0..k {
                    parts.push(crate::value::Value::Shm(j, IpcSharedMemory::from_bytes(&rng.bytes(100 + j))));
                }
                parts.push(crate::value::Value::Sender(0, atx.clone().to_opaque()));
                parts.push(crate::value::Value::Fail);
                let r = ip::lib_scope(|| tx.send(crate::value::Dyn(crate::value::Value::Tup(parts))));
                if r.is_ok() {
                    case.fail("a send whose serialisation fails reported success".into());
                }
                drop(atx);
                match arx.try_recv() {
                    Err(ipc::TryRecvError::IpcError(ipc::IpcError::Disconnected)) => {},
                    other => case.fail(format!("a sender visited by a failed serialisation is still alive: {:?}", other)),
                }
                drop(tx);
                ip::lib_scope(|| drop(rx));
            },
            _ => {
                ops.push("send_to_closed".to_string());
                let (tx, rx) = ipc::channel::<(u64, Option<IpcSender<u64>>)>().unwrap();
                let (atx, arx) = ipc::channel::<u64>().unwrap();
                drop(rx);
                let r = ip::lib_scope(|| tx.send((1, Some(atx.clone()))));
                if r.is_ok() {
                    case.fail("send to a dropped receiver reported success".into());
                }
                drop(atx);
                match arx.try_recv() {
                    Err(ipc::TryRecvError::IpcError(ipc::IpcError::Disconnected)) => {},
                    other => case.fail(format!("a sender embedded in a failed send is still alive: {:?}", other)),
                }
            },
        }
        if case.oracle.is_some() {
            break;
        }
    }
    ip::LEDGER_ON.store(false, Ordering::SeqCst);
    let after = ip::proc_fds();
    if after != base {
        let extra: Vec<_> = after.difference(&base).collect();
        let missing: Vec<_> = base.difference(&after).collect();
        case.fail(format!("descriptor table differs after the case: leaked {:?}, closed foreign {:?}", extra, missing));
    }
    if ip::shared_maps_count() != 0 {
        case.fail("shared mappings remain".into());
    }
    let tmp1 = tmp_entries();
    if tmp1 != tmp0 {
        let extra: Vec<_> = tmp1.difference(&tmp0).collect();
        case.fail(format!("temporary files remain: {:?}", extra));
    }
    {
        let l = ip::LEDGER.lock().unwrap();
        if !l.bad_closes.is_empty() {
            case.fail(format!("close() failed or hit a descriptor the library does not own: {:?}", &l.bad_closes[..l.bad_closes.len().min(4)]));
        }
        if !l.bad_unmaps.is_empty() {
            case.fail(format!("munmap with a length different from the mapping: {:?}", &l.bad_unmaps[..l.bad_unmaps.len().min(4)]));
        }
        if !l.not_cloexec.is_empty() {
            case.fail(format!("descriptors entered the process without close-on-exec (descriptor, how): {:?}", l.not_cloexec.iter().take(4).collect::<Vec<_>>()));
        }
    }
    case.pair("noop".into(), "ok".into());
    case.nontrivial = true;
    case.key = ops.join("|");
    for o in &ops {
        case.tags.push(format!("op={}", o.split(' ').next().unwrap()));
    }
    case.tags.sort();
    case.tags.dedup();
    case
}

/// one-shot servers under an over-long TMPDIR: `new` must fail without side effects, or work
pub fn long_tmpdir_case(id: String) -> Case {
    let mut case = Case::new(id);
    let root = std::env::temp_dir().join(format!("vh-long-{}", std::process::id()));
    let long = root.join("x".repeat(60)).join("y".repeat(60));
    std::fs::create_dir_all(&long).unwrap();
    let old = std::env::var_os("TMPDIR");
    std::env::set_var("TMPDIR", &long);
    let base = ip::proc_fds();
    let cwd_before: BTreeSet<String> = std::fs::read_dir(".").map(|rd| rd.flatten().map(|e| e.file_name().to_string_lossy().into_owned()).collect()).unwrap_or_default();
    let mut ok = 0;
    for i in 0..5 {
        match IpcOneShotServer::<u64>::new() {
            Ok((srv, name)) => {
                ok += 1;
                // the returned name must be the bound address: a client can connect
                match IpcSender::<u64>::connect(name.clone()) {
                    Ok(tx) => {
                        tx.send(5).unwrap();
                        let (_rx, v) = srv.accept().unwrap();
                        if v != 5 {
                            case.fail("wrong value through a server under a long TMPDIR".into());
                        }
                    },
                    Err(e) => case.fail(format!("server {} created under a long TMPDIR cannot be reached by its name: {:?}", i, e)),
                }
            },
            Err(_) => {},
        }
    }
    let after = ip::proc_fds();
    if after != base {
        case.fail(format!("descriptors leaked by failing IpcOneShotServer::new: {:?}", after.difference(&base).collect::<Vec<_>>()));
    }
    // nothing may be left behind anywhere: neither under the long directory nor (through a truncated path) elsewhere
    let mut leftovers = Vec::new();
    fn walk(p: &std::path::Path, out: &mut Vec<String>) {
        if let Ok(rd) = std::fs::read_dir(p) {
            for e in rd.flatten() {
                let ft = e.file_type().ok();
                if ft.map(|t| t.is_dir()).unwrap_or(false) {
                    walk(&e.path(), out);
                } else {
                    out.push(e.path().to_string_lossy().into_owned());
                }
            }
        }
    }
    walk(&root, &mut leftovers);
    if !leftovers.is_empty() {
        case.fail(format!("files left behind under the temp dir: {:?}", &leftovers[..leftovers.len().min(3)]));
    }
    // temp dirs created by tempfile under `long` must be gone too
    if std::fs::read_dir(&long).map(|rd| rd.count()).unwrap_or(0) != 0 {
        case.fail("temporary directories left behind under the long TMPDIR".into());
    }
    let cwd_after: BTreeSet<String> = std::fs::read_dir(".").map(|rd| rd.flatten().map(|e| e.file_name().to_string_lossy().into_owned()).collect()).unwrap_or_default();
    if cwd_after != cwd_before {
        case.fail("files appeared in the working directory".into());
    }
    match old {
        Some(v) => std::env::set_var("TMPDIR", v),
        None => std::env::remove_var("TMPDIR"),
    }
    let _ = std::fs::remove_dir_all(&root);
    case.pair("noop".into(), "ok".into());
    case.nontrivial = true;
    case.key = format!("long-tmpdir ok={}", ok);
    case.tags.push(format!("long_tmpdir_servers_ok={}", ok));
    case
}

/// descriptors of the library must not be inherited by an unrelated child

/// Descriptor 0 is a descriptor like any other (a daemon that closed its standard input gets it for its next socket): a
/// receiver / sender / region that happens to live on it is closed when dropped, and what its queue holds is released — the
/// channel whose last sender travels in that queue disconnects.
pub fn fd0_case(id: String) -> Case {
    let mut case = Case::new(id);
    let is_open = |fd: i32| unsafe { libc::fcntl(fd, libc::F_GETFD) != -1 };
    unsafe {
        let saved = libc::dup(0);
        for round in 0..3 {
            let (b_tx, b_rx) = ipc::channel::<u64>().unwrap();
            let (a_tx, a_rx) = ipc::channel::<IpcSender<u64>>().unwrap();
            let what;
            // round 0: a receiver extracted from a message lands on 0; round 1: a sender created by socketpair; round 2: a region
            let mut on_zero_rx = None;
            let mut on_zero_tx = None;
            let mut on_zero_region = None;
            match round {
                0 => {
                    what = "receiver";
                    let (c_tx, c_rx) = ipc::channel::<ipc::IpcReceiver<IpcSender<u64>>>().unwrap();
                    a_tx.send(b_tx).unwrap();
                    drop(a_tx);
                    c_tx.send(a_rx).unwrap();
                    libc::close(0);
                    on_zero_rx = Some(c_rx.recv().unwrap());
                },
                1 => {
                    what = "sender";
                    drop(a_tx);
                    drop(a_rx);
                    libc::close(0);
                    let (t, r) = ipc::channel::<IpcSender<u64>>().unwrap();
                    t.send(b_tx).unwrap();
                    on_zero_tx = Some(t);
                    on_zero_rx = Some(r);
                },
                _ => {
                    what = "region";
                    let (c_tx, c_rx) = ipc::channel::<IpcSharedMemory>().unwrap();
                    c_tx.send(IpcSharedMemory::from_bytes(&[9u8; 100])).unwrap();
                    a_tx.send(b_tx).unwrap();
                    drop(a_tx);
                    libc::close(0);
                    on_zero_region = Some(c_rx.recv().unwrap());
                    on_zero_rx = Some(a_rx);
                },
            }
            let mut st: libc::stat = std::mem::zeroed();
            if libc::fstat(0, &mut st) != 0 {
                case.tags.push(format!("fd0_not_taken_round{}", round));
            }
            match b_rx.try_recv() {
                Err(ipc::TryRecvError::Empty) => {},
                other => case.fail(format!("round {} ({} on descriptor 0): the observed channel answered {:?} while its sender is in a queued message", round, what, other.map(|_| ()))),
            }
            if let Some(m) = &on_zero_region {
                if m[..] != [9u8; 100][..] {
                    case.fail("a region received on descriptor 0 has other contents".into());
                }
            }
            drop(on_zero_tx);
            drop(on_zero_region);
            drop(on_zero_rx);
            match b_rx.try_recv_timeout(std::time::Duration::from_secs(3)) {
                Err(ipc::TryRecvError::IpcError(ipc::IpcError::Disconnected)) => {},
                other => case.fail(format!(
                    "round {} ({} on descriptor 0): after the receiver holding the only message with the last sender was dropped, the observed channel answered {:?} \
                     instead of disconnected", round, what, other.map(|_| ()))),
            }
            drop(b_rx);
            if is_open(0) {
                case.fail(format!("round {}: descriptor 0 (a {}) is still open after every handle was dropped", round, what));
                libc::close(0);
            }
            libc::dup2(saved, 0);
        }
        libc::dup2(saved, 0);
        libc::close(saved);
    }
    case.pair("noop".into(), "ok".into());
    case.nontrivial = true;
    case.key = "fd0".into();
    case
}

pub fn inherit_case(id: String) -> Case {
    let mut case = Case::new(id);
    let (tx, rx) = ipc::channel::<Option<IpcSharedMemory>>().unwrap();
    let m = IpcSharedMemory::from_bytes(&[1, 2, 3]);
    let m2 = m.clone();
    tx.send(Some(m.clone())).unwrap();
    let got = rx.recv().unwrap();
    let (srv, name) = IpcOneShotServer::<u64>::new().unwrap();
    let c = IpcSender::<u64>::connect(name).unwrap();
    c.send(1).unwrap();
    let (srx, _) = srv.accept().unwrap();
    let mut set = IpcReceiverSet::new().unwrap();
    let (t2, r2) = ipc::channel::<u64>().unwrap();
    set.add(r2).unwrap();
    let out = std::process::Command::new("/bin/ls").arg("/proc/self/fd").output().unwrap();
    let fds: Vec<i32> = String::from_utf8_lossy(&out.stdout).split_whitespace().filter_map(|s| s.parse().ok()).collect();
    // stdin, stdout (pipe), stderr and the directory handle of ls itself
    let extra: Vec<i32> = fds.iter().cloned().filter(|f| *f > 3).collect();
    if !extra.is_empty() {
        case.fail(format!("a spawned child inherited descriptors {:?}", extra));
    }
    drop((tx, rx, m, m2, got, c, srx, set, t2));
    case.pair("noop".into(), "ok".into());
    case.nontrivial = true;
    case.key = "inherit".into();
    case
}

pub fn run(args: &[String]) {
    let thorough = arg(args, "--tier").as_deref() == Some("thorough");
    let seed = arg_u64(args, "--seed", 1);
    let n = arg_u64(args, "--n", if thorough { 2000 } else { 150 });
    let mut rng = Rng::new(seed ^ 0x4e5);
    // a private temp root, so that concurrently running harness processes do not see each other's files
    let private = std::env::temp_dir().join(format!("vh-res-{}", std::process::id()));
    std::fs::create_dir_all(&private).unwrap();
    std::env::set_var("TMPDIR", &private);
    // warm up lazily initialised state (SYSTEM_SENDBUF_SIZE probes a socket pair) before taking baselines
    let _ = ipc::channel::<u64>().unwrap();
    std::panic::set_hook(Box::new(|_| {}));
    long_tmpdir_case("res-long-tmpdir".into()).emit();
    inherit_case("res-inherit".into()).emit();
    fd0_case("res-fd0".into()).emit();
    for i in 0..n {
        one_case(&mut rng, format!("res-{}", i), thorough).emit();
    }
    let _ = std::fs::remove_dir_all(&private);
}
