//! Scenario `vanish` (C09): the receiving end disappears before or during sends of mixed sizes; the send must return
//! an error — not succeed, not block forever, not kill the process with SIGPIPE.
use crate::util::*;
use ipc_channel::platform::{self, OsIpcChannel, OsIpcSender};
use std::sync::mpsc;
use std::time::Duration;

fn send_with_watchdog(tx: OsIpcSender, len: usize, natt: usize, secs: u64) -> Option<bool> {
    let (rtx, rrx) = mpsc::channel();
    std::thread::spawn(move || {
        let data = vec![0x42u8; len];
        let mut atts = Vec::new();
        let mut keep = Vec::new();
        for _ in 0..natt {
            let (a, b) = platform::channel().unwrap();
            atts.push(OsIpcChannel::Sender(a));
            keep.push(b);
        }
        let r = tx.send(&data, atts, vec![]);
        let _ = rtx.send(r.is_ok());
    });
    rrx.recv_timeout(Duration::from_secs(secs)).ok()
}

/// child role: default SIGPIPE disposition, send to a receiver that is gone; exit code 0 = send returned an error
pub fn child(args: &[String]) {
    unsafe {
        libc::signal(libc::SIGPIPE, libc::SIG_DFL);
    }
    let len = arg_u64(args, "--len", 10) as usize;
    let (tx, rx) = platform::channel().unwrap();
    drop(rx);
    let r = tx.send(&vec![1u8; len], vec![], vec![]);
    std::process::exit(if r.is_err() { 0 } else { 7 });
}

pub fn run(args: &[String]) {
    let thorough = arg(args, "--tier").as_deref() == Some("thorough");
    let max = OsIpcSender::get_max_fragment_size();
    let lens: Vec<usize> = if thorough { vec![0, 10, max, max + 1, 3 * max, 20 * max, 4 << 20] } else { vec![10, max + 1, 4 << 20] };
    let mut n = 0;
    for &len in &lens {
        for natt in [0usize, 2] {
            // (a) receiver dropped before the send
            let mut c = Case::new(format!("vanish-before-{}", n));
            let (tx, rx) = platform::channel().unwrap();
            drop(rx);
            match send_with_watchdog(tx, len, natt, 10) {
                Some(false) => {},
                Some(true) => c.fail(format!("send of {} bytes to a dropped receiver reported success", len)),
                None => c.fail(format!("send of {} bytes to a dropped receiver blocked for more than 10 s", len)),
            }
            c.pair("noop".into(), "ok".into());
            c.nontrivial = true;
            c.key = format!("before:{}:{}", len, natt);
            c.tags.push("when=before".into());
            c.emit();
            n += 1;
            // (b) receiver dropped while a multi-packet send is blocked on full socket buffers
            if len > 2 * max {
                for delay_ms in [0u64, 5, 40] {
                    let mut c = Case::new(format!("vanish-during-{}", n));
                    let (tx, rx) = platform::channel().unwrap();
                    let h = std::thread::spawn(move || {
                        std::thread::sleep(Duration::from_millis(delay_ms));
                        drop(rx);
                    });
                    match send_with_watchdog(tx, len, natt, 10) {
                        Some(false) => {},
                        // with delay 0 the receiver may be gone before anything is sent, or the whole message may
                        // have fitted the socket buffers before it vanished: success is then legitimate only if
                        // everything was queued, which cannot happen for a message larger than both buffers
                        Some(true) => {
                            if len > 3 * max {
                                c.fail(format!("send of {} bytes reported success although the receiver vanished mid-send", len))
                            }
                        },
                        None => c.fail(format!(
                            "send of {} bytes blocked for more than 10 s after the receiver vanished {} ms into the send (sender waits on a socket only it keeps alive)",
                            len, delay_ms
                        )),
                    }
                    let _ = h.join();
                    c.pair("noop".into(), "ok".into());
                    c.nontrivial = true;
                    c.key = format!("during:{}:{}:{}", len, natt, delay_ms);
                    c.tags.push("when=during".into());
                    c.emit();
                    n += 1;
                }
            }
        }
        // (d) SIGPIPE at its default disposition, in a child process
        let mut c = Case::new(format!("vanish-sigpipe-{}", n));
        let st = std::process::Command::new(std::env::current_exe().unwrap()).args(["vanishchild", "--len", &len.to_string()]).status().unwrap();
        use std::os::unix::process::ExitStatusExt;
        if let Some(sig) = st.signal() {
            c.fail(format!("sending {} bytes to a vanished receiver killed the process with signal {}", len, sig));
        } else if st.code() != Some(0) {
            c.fail(format!("send to a vanished receiver did not return an error (child exit code {:?})", st.code()));
        }
        c.pair("noop".into(), "ok".into());
        c.nontrivial = true;
        c.key = format!("sigpipe:{}", len);
        c.tags.push("when=sigpipe_default".into());
        c.emit();
        n += 1;
    }
}
