//! Scenario `vanish` (C09): the receiving end disappears before or during sends of mixed sizes; the send must return
//! an error — not succeed, not block forever, not kill the process with SIGPIPE.
use crate::util::*;
use ipc_channel::platform::{self, OsIpcChannel, OsIpcSender};
use std::sync::mpsc;
use std::time::Duration;

fn send_with_watchdog(tx: OsIpcSender, len: usize, natt: usize, secs: u64) -> Option<bool> {
    let (rtx, rrx) = mpsc::channel();
    std::thread::spawn(move || {
        let data = vec![0x42u8; len];
        let mut atts = Vec::new();
        let mut keep = Vec::new();
        for _ in 0..natt {
            let (a, b) = platform::channel().unwrap();
            atts.push(OsIpcChannel::Sender(a));
            keep.push(b);
        }
        let r = tx.send(&data, atts, vec![]);
        let _ = rtx.send(r.is_ok());
    });
    rrx.recv_timeout(Duration::from_secs(secs)).ok()
}

/// child role: default SIGPIPE disposition, send to a receiver that is gone; exit code 0 = send returned an error
pub fn child(args: &[String]) {
    unsafe {
        libc::signal(libc::SIGPIPE, libc::SIG_DFL);
    }
    if arg(args, "--mode").as_deref() == Some("mid") {
        // connect to the parent, say hello, then send one message pausing right before counted system call k
        use crate::interpose as ip;
        use std::sync::atomic::Ordering;
        ip::SPOOF_SNDBUF.store(arg_u64(args, "--sys", 4608) as usize, Ordering::SeqCst);
        let tx = OsIpcSender::connect(arg(args, "--name").unwrap()).unwrap();
        tx.send(b"boot", vec![], vec![]).unwrap();
        let len = arg_u64(args, "--len", 10) as usize;
        let data = vec![0x5au8; len];
        ip::CALLNO.store(0, Ordering::SeqCst);
        ip::PAUSE_AT.store(arg_u64(args, "--pause-at", 0) as i64, Ordering::SeqCst);
        ip::COUNT_CALLS.store(true, Ordering::SeqCst);
        let r = tx.send(&data, vec![], vec![]);
        ip::COUNT_CALLS.store(false, Ordering::SeqCst);
        let n = ip::CALLNO.load(Ordering::SeqCst);
        println!("done calls={} result={}", n, if r.is_ok() { "ok" } else { "err" });
        std::process::exit(if r.is_err() { 0 } else { 7 });
    }
    let len = arg_u64(args, "--len", 10) as usize;
    let (tx, rx) = platform::channel().unwrap();
    drop(rx);
    let r = tx.send(&vec![1u8; len], vec![], vec![]);
    std::process::exit(if r.is_err() { 0 } else { 7 });
}

/// raw, non-blocking drain of everything queued on the channel socket and on any dedicated socket received through it,
/// then close every descriptor obtained: what a receiver process that is killed while it keeps up with the sender leaves behind
fn drain_and_vanish(cfd: i32) {
    unsafe {
        loop {
            let mut hdr = [0u8; 8];
            let mut buf = vec![0u8; 1 << 16];
            let mut iov = [
                libc::iovec { iov_base: hdr.as_mut_ptr() as *mut _, iov_len: 8 },
                libc::iovec { iov_base: buf.as_mut_ptr() as *mut _, iov_len: buf.len() },
            ];
            let mut ctl = vec![0u64; 64];
            let mut mh: libc::msghdr = std::mem::zeroed();
            mh.msg_iov = iov.as_mut_ptr();
            mh.msg_iovlen = 2;
            mh.msg_control = ctl.as_mut_ptr() as *mut _;
            mh.msg_controllen = 512;
            let r = libc::recvmsg(cfd, &mut mh, libc::MSG_DONTWAIT | libc::MSG_CMSG_CLOEXEC);
            if r <= 0 {
                break;
            }
            let mut c = libc::CMSG_FIRSTHDR(&mh);
            while !c.is_null() {
                if (*c).cmsg_level == libc::SOL_SOCKET && (*c).cmsg_type == libc::SCM_RIGHTS {
                    let n = ((*c).cmsg_len as usize - libc::CMSG_LEN(0) as usize) / 4;
                    let p = libc::CMSG_DATA(c) as *const i32;
                    for i in 0..n {
                        let fd = *p.add(i);
                        // drain the dedicated socket completely before closing it
                        loop {
                            let r = libc::recv(fd, buf.as_mut_ptr() as *mut _, buf.len(), libc::MSG_DONTWAIT);
                            if r <= 0 {
                                break;
                            }
                        }
                        libc::close(fd);
                    }
                }
                c = libc::CMSG_NXTHDR(&mh, c);
            }
        }
    }
}

/// receiver vanishes (having read everything sent so far) right before counted call k of a send issued by a child
/// process whose SIGPIPE disposition is the default one
fn mid_send_cases(thorough: bool, n: &mut usize) {
    use crate::interpose::{self as ip, Ctx, Ev};
    use std::io::{BufRead, BufReader, Write};
    use std::process::{Command, Stdio};
    let sys = 4608usize;
    let shapes: Vec<usize> = if thorough { vec![100, 4569, 4568 + 2 * 4576 + 1, 4568 + 5 * 4576 + 1] } else { vec![4569, 4568 + 2 * 4576 + 1] };
    for len in shapes {
        let mut k = 0usize;
        loop {
            let mut c = Case::new(format!("vanish-mid-{}", *n));
            *n += 1;
            let (server, name) = platform::OsIpcOneShotServer::new().unwrap();
            let mut ch = Command::new(std::env::current_exe().unwrap())
                .args(["vanishchild", "--mode", "mid", "--sys", &sys.to_string(), "--name", &name, "--len", &len.to_string(), "--pause-at", &k.to_string()])
                .stdin(Stdio::piped())
                .stdout(Stdio::piped())
                .spawn()
                .unwrap();
            let g = ip::install(Ctx::new(0));
            let (rx, data, _, _) = server.accept().unwrap();
            let mut cfd = -1;
            for (_, e) in ip::take_trace() {
                if let Ev::Accept { r, .. } = e {
                    cfd = r;
                }
            }
            drop(g);
            if data != b"boot" {
                c.fail("bootstrap message damaged".into());
            }
            let mut br = BufReader::new(ch.stdout.take().unwrap());
            let mut line = String::new();
            let _ = br.read_line(&mut line);
            let paused = line.trim() == "p";
            let mut ncalls = 0usize;
            if paused {
                drain_and_vanish(cfd);
                drop(rx);
                let mut si = ch.stdin.take().unwrap();
                let _ = si.write_all(b"g");
                let _ = si.flush();
                line.clear();
                let _ = br.read_line(&mut line);
            } else {
                // the send finished without reaching call k: read it normally
                let _ = rx.recv();
            }
            if let Some(rest) = line.trim().strip_prefix("done calls=") {
                ncalls = rest.split(' ').next().and_then(|x| x.parse().ok()).unwrap_or(0);
            }
            // wait for the child with a watchdog
            let t0 = std::time::Instant::now();
            let status = loop {
                match ch.try_wait() {
                    Ok(Some(st)) => break Some(st),
                    _ if t0.elapsed() > Duration::from_secs(10) => break None,
                    _ => std::thread::sleep(Duration::from_millis(2)),
                }
            };
            use std::os::unix::process::ExitStatusExt;
            match status {
                None => {
                    let _ = ch.kill();
                    let _ = ch.wait();
                    c.fail(format!("send of {} bytes did not return within 10 s after the receiver vanished before call {}", len, k));
                },
                Some(st) => {
                    if let Some(sig) = st.signal() {
                        c.fail(format!(
                            "sending process was terminated by signal {} instead of send() returning an error (receiver vanished, having read everything, before counted call {} of a {}-byte send)",
                            sig, k, len
                        ));
                    } else if paused && st.code() == Some(7) && k < 1 {
                        c.fail(format!("send of {} bytes reported success although the receiver vanished before anything was transmitted", len));
                    } else if paused && st.code() != Some(0) && st.code() != Some(7) {
                        c.fail(format!("sender child exited with {:?}", st.code()));
                    }
                },
            }
            c.pair("noop".into(), "ok".into());
            c.nontrivial = paused;
            c.key = format!("mid:{}:{}", len, k);
            c.tags.push("when=mid_send_drained_receiver_sigpipe_default".into());
            c.emit();
            if !paused || k > 40 {
                let _ = ncalls;
                break;
            }
            k += 1;
        }
    }
}

/// (d) the receiving end was moved into a value whose serialisation then failed: the send returned an error, nothing was
/// queued, the program holds no handle — the receiving end exists nowhere, so sends to it must fail (and a large one must not
/// block), also when issued from the thread that made the failed send
fn lost_in_failed_serialisation_cases(n: &mut usize) {
    use crate::value::{Dyn, Value};
    use ipc_channel::ipc;
    for (same_thread, big) in [(true, false), (false, false), (true, true), (false, true)] {
        let mut c = Case::new(format!("vanish-failedser-{}", *n));
        let (tx, rx) = ipc::channel::<Vec<u8>>().unwrap();
        let (ctx, crx) = ipc::channel::<Dyn>().unwrap();
        let v = Value::Tup(vec![Value::Receiver(0, std::cell::RefCell::new(Some(rx.to_opaque()))), Value::Fail]);
        if ctx.send(Dyn(v)).is_ok() {
            c.fail("a send whose serialisation fails reported success".into());
        }
        let len = if big { 4usize << 20 } else { 64 };
        let probe = move || {
            // the first sends may still be absorbed by nothing: there is no queue; every one must fail
            let mut oks = 0;
            for _ in 0..20 {
                if tx.send(vec![7u8; len]).is_ok() {
                    oks += 1;
                }
            }
            oks
        };
        let r = if same_thread { crate::util::with_watchdog(10, probe) } else { std::thread::spawn(move || crate::util::with_watchdog(10, probe)).join().unwrap() };
        match r {
            Some(0) => {},
            Some(k) => c.fail(format!("{} of 20 sends of {} bytes reported success although the receiver was consumed by a failed send (it exists nowhere)", k, len)),
            None => c.fail(format!("sends of {} bytes to a receiver consumed by a failed send blocked for more than 10 s", len)),
        }
        drop(crx);
        c.pair("noop".into(), "ok".into());
        c.nontrivial = true;
        c.key = format!("failedser:{}:{}", same_thread, big);
        c.tags.push("when=consumed_by_failed_serialisation".into());
        c.emit();
        *n += 1;
    }
}

pub fn run(args: &[String]) {
    let thorough = arg(args, "--tier").as_deref() == Some("thorough");
    let max = OsIpcSender::get_max_fragment_size();
    let lens: Vec<usize> = if thorough { vec![0, 10, max, max + 1, 3 * max, 20 * max, 4 << 20] } else { vec![10, max + 1, 4 << 20] };
    let mut n = 0;
    mid_send_cases(thorough, &mut n);
    lost_in_failed_serialisation_cases(&mut n);
    for &len in &lens {
        for natt in [0usize, 2] {
            // (a) receiver dropped before the send
            let mut c = Case::new(format!("vanish-before-{}", n));
            let (tx, rx) = platform::channel().unwrap();
            drop(rx);
            match send_with_watchdog(tx, len, natt, 10) {
                Some(false) => {},
                Some(true) => c.fail(format!("send of {} bytes to a dropped receiver reported success", len)),
                None => c.fail(format!("send of {} bytes to a dropped receiver blocked for more than 10 s", len)),
            }
            c.pair("noop".into(), "ok".into());
            c.nontrivial = true;
            c.key = format!("before:{}:{}", len, natt);
            c.tags.push("when=before".into());
            c.emit();
            n += 1;
            // (b) receiver dropped while a multi-packet send is blocked on full socket buffers
            if len > 2 * max {
                for delay_ms in [0u64, 5, 40] {
                    let mut c = Case::new(format!("vanish-during-{}", n));
                    let (tx, rx) = platform::channel().unwrap();
                    let h = std::thread::spawn(move || {
                        std::thread::sleep(Duration::from_millis(delay_ms));
                        drop(rx);
                    });
                    match send_with_watchdog(tx, len, natt, 10) {
                        Some(false) => {},
                        // with delay 0 the receiver may be gone before anything is sent, or the whole message may
                        // have fitted the socket buffers before it vanished: success is then legitimate only if
                        // everything was queued, which cannot happen for a message larger than both buffers
                        Some(true) => {
                            if len > 3 * max {
                                c.fail(format!("send of {} bytes reported success although the receiver vanished mid-send", len))
                            }
                        },
                        None => c.fail(format!(
                            "send of {} bytes blocked for more than 10 s after the receiver vanished {} ms into the send (sender waits on a socket only it keeps alive)",
                            len, delay_ms
                        )),
                    }
                    let _ = h.join();
                    c.pair("noop".into(), "ok".into());
                    c.nontrivial = true;
                    c.key = format!("during:{}:{}:{}", len, natt, delay_ms);
                    c.tags.push("when=during".into());
                    c.emit();
                    n += 1;
                }
            }
        }
        // (d) SIGPIPE at its default disposition, in a child process
        let mut c = Case::new(format!("vanish-sigpipe-{}", n));
        let st = std::process::Command::new(std::env::current_exe().unwrap()).args(["vanishchild", "--len", &len.to_string()]).status().unwrap();
        use std::os::unix::process::ExitStatusExt;
        if let Some(sig) = st.signal() {
            c.fail(format!("sending {} bytes to a vanished receiver killed the process with signal {}", len, sig));
        } else if st.code() != Some(0) {
            c.fail(format!("send to a vanished receiver did not return an error (child exit code {:?})", st.code()));
        }
        c.pair("noop".into(), "ok".into());
        c.nontrivial = true;
        c.key = format!("sigpipe:{}", len);
        c.tags.push("when=sigpipe_default".into());
        c.emit();
        n += 1;
    }
}
