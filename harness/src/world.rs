//! Scenario `world` (C03, C09, C04, C11, C19, C05): seeded single-threaded programs over the public ipc API —
//! create / clone / drop handles, send messages that embed senders, receivers and regions of other channels,
//! receive with the three receive calls, drop receivers with a backlog — compared step by step with the ideal FIFO
//! model (`Ideal.run`).  Uses only the ipc-level API, so the same program runs on the OS, memfd and in-process builds.
//! On the OS builds the descriptor table is checked for leaks and close-on-exec after the program.
use crate::util::*;
use ipc_channel::ipc::{self, IpcError, IpcReceiver, IpcSender, IpcSharedMemory, TryRecvError};
use serde::{Deserialize, Serialize};
use std::time::Duration;

#[derive(Serialize, Deserialize)]
pub struct Msg {
    tag: u64,
    pad: Vec<u8>,
    snd: Vec<(u32, IpcSender<Msg>)>,
    rcv: Vec<(u32, IpcReceiver<Msg>)>,
    shm: Vec<(u32, IpcSharedMemory)>,
}

fn pad_for(tag: u64, class: u64, max: usize) -> Vec<u8> {
    let n = match class {
        0 => 0,
        1 => 100,
        2 => max + 1,
        _ => 3 * max,
    };
    (0..n).map(|i| (tag as u8).wrapping_mul(31).wrapping_add(i as u8)).collect()
}

struct Chan {
    /// handle and its index in the ledger model's handle list (creation order)
    senders: Vec<(IpcSender<Msg>, usize)>,
    receiver: Option<(IpcReceiver<Msg>, usize)>,
    /// messages sent successfully minus messages received (only to know when a blocking recv() cannot block)
    queued: usize,
    /// the receiver was moved into a message or dropped
    gone: bool,
}

pub struct Outcome {
    pub ops: Vec<String>,
    pub results: Vec<String>,
    pub problems: Vec<String>,
    /// the same history as operations of the descriptor-ledger model, and the number of library descriptors open
    /// in this process after each of them
    pub ledger_ops: Vec<String>,
    pub ledger_counts: Vec<usize>,
}

pub fn program(rng: &mut Rng, nops: usize, max: usize, multi_packet: bool) -> Outcome {
    let mut chans: Vec<Chan> = Vec::new();
    let mut regions: Vec<(Vec<u8>, Option<IpcSharedMemory>)> = Vec::new();
    let mut ops = Vec::new();
    let mut results = Vec::new();
    let mut problems = Vec::new();
    let mut tag = 0u64;
    let mut lops: Vec<String> = Vec::new();
    let mut lcounts: Vec<usize> = Vec::new();
    let mut nh = 0usize; // next ledger handle index
    #[cfg(not(feature = "force-inprocess"))]
    let base = crate::interpose::proc_fds().len();
    #[cfg(feature = "force-inprocess")]
    let base = 0usize;
    // ledger ops of the current step are collected in `pend`; `led!()` closes the step and records the observed count
    let mut pend: Vec<String> = Vec::new();
    macro_rules! led {
        ($($op:expr),*) => {{
            $( pend.push($op); )*
            #[cfg(not(feature = "force-inprocess"))]
            let cnt = crate::interpose::proc_fds().len() - base;
            #[cfg(feature = "force-inprocess")]
            let cnt = 0usize;
            lops.push(if pend.is_empty() { "nop".to_string() } else { pend.join(",") });
            pend.clear();
            lcounts.push(cnt);
        }};
    }
    let mut classes: std::collections::HashMap<u64, u64> = std::collections::HashMap::new();
    for _ in 0..nops {
        let n = chans.len();
        let k = if n == 0 { 0 } else { rng.below(16) };
        match k {
            0 | 1 if n < 6 => {
                let (tx, rx) = ipc::channel::<Msg>().unwrap();
                chans.push(Chan { senders: vec![(tx, nh)], receiver: Some((rx, nh + 1)), queued: 0, gone: false });
                nh += 2;
                ops.push("new".into());
                results.push("ok".into());
                led!("inst s".to_string(), "inst r".to_string());
            },
            2 => {
                let c = rng.below(n as u64) as usize;
                if let Some((s, i)) = chans[c].senders.first().map(|(s, i)| (s.clone(), *i)) {
                    chans[c].senders.push((s, nh));
                    nh += 1;
                    ops.push(format!("clone {}", c));
                    results.push("ok".into());
                    led!(format!("clone {}", i));
                }
            },
            3 | 4 => {
                let c = rng.below(n as u64) as usize;
                if let Some((s, i)) = chans[c].senders.pop() {
                    drop(s);
                    ops.push(format!("dropsnd {}", c));
                    results.push("ok".into());
                    led!(format!("drop {}", i));
                }
            },
            5..=9 => {
                let c = rng.below(n as u64) as usize;
                if chans[c].senders.is_empty() || chans[c].queued >= 24 {
                    continue;
                }
                tag += 1;
                let class = if multi_packet { rng.below(4) } else { rng.below(2) };
                classes.insert(tag, class);
                let mut m = Msg { tag, pad: pad_for(tag, class, max), snd: vec![], rcv: vec![], shm: vec![] };
                let mut hs = Vec::new();
                let mut moved: Vec<String> = Vec::new();
                // embed handles of higher-numbered channels only (keeps the family acyclic)
                let ne = rng.below(3);
                for _ in 0..ne {
                    if c + 1 >= n {
                        break;
                    }
                    let d = c + 1 + rng.below((n - c - 1) as u64) as usize;
                    match rng.below(3) {
                        0 => {
                            if let Some(s) = chans[d].senders.first().map(|(s, _)| s.clone()) {
                                m.snd.push((d as u32, s));
                                hs.push(format!("s{}", d));
                            }
                        },
                        1 => {
                            if !hs.contains(&format!("r{}", d)) {
                                if let Some((r, i)) = chans[d].receiver.take() {
                                    chans[d].gone = true;
                                    m.rcv.push((d as u32, r));
                                    hs.push(format!("r{}", d));
                                    moved.push(format!("drop {}", i));
                                }
                            }
                        },
                        _ => {
                            let len = [1usize, 4095, 4096, 4097, 10000][rng.below(5) as usize];
                            let data = rng.bytes(len);
                            regions.push((data.clone(), None));
                            let r = regions.len() - 1;
                            let mem = IpcSharedMemory::from_bytes(&data);
                            // sometimes the same region twice, side by side (a handle and its clone: equal contents, two attachments)
                            if rng.below(3) == 0 {
                                m.shm.push((r as u32, mem.clone()));
                                hs.push(format!("m{}", r));
                            }
                            m.shm.push((r as u32, mem));
                            hs.push(format!("m{}", r));
                        },
                    }
                }
                // the wire order is: all senders, then all receivers, then all regions (struct field order)
                let mut ordered: Vec<String> = hs.iter().filter(|h| h.starts_with('s')).cloned().collect();
                ordered.extend(hs.iter().filter(|h| h.starts_with('r')).cloned());
                ordered.extend(hs.iter().filter(|h| h.starts_with('m')).cloned());
                ops.push(format!("send {} {} {}", c, tag, ordered.join(" ")).trim_end().to_string());
                match chans[c].senders[0].0.send(m) {
                    Ok(()) => {
                        chans[c].queued += 1;
                        results.push("ok".into());
                    },
                    Err(_) => results.push("senderr".into()),
                }
                // receivers moved into the message have left this process's table (sent or not); clones and regions
                // made for the message are gone again
                for mv in moved {
                    pend.push(mv);
                }
                led!();
            },
            10..=13 => {
                let c = rng.below(n as u64) as usize;
                if chans[c].receiver.is_none() {
                    continue;
                }
                ops.push(format!("recv {}", c));
                let mode = rng.below(4);
                let r: Result<Msg, TryRecvError> = {
                    let rx = &chans[c].receiver.as_ref().unwrap().0;
                    if mode == 0 && chans[c].queued > 0 {
                        rx.recv().map_err(TryRecvError::IpcError)
                    } else if mode == 1 {
                        rx.try_recv_timeout(Duration::from_millis(if chans[c].queued > 0 { 200 } else { 1 }))
                    } else if mode == 3 {
                        // a zero time-out is a poll: same answers as try_recv (everything is completely queued here)
                        rx.try_recv_timeout(Duration::ZERO)
                    } else {
                        rx.try_recv()
                    }
                };
                match r {
                    Ok(m) => {
                        chans[c].queued = chans[c].queued.saturating_sub(1);
                        if m.pad != pad_for(m.tag, *classes.get(&m.tag).unwrap_or(&9), max) {
                            problems.push(format!("payload of message {} differs", m.tag));
                        }
                        let mut hs = Vec::new();
                        for (d, s) in m.snd {
                            hs.push(format!("s{}", d));
                            if (d as usize) < chans.len() {
                                chans[d as usize].senders.push((s, nh));
                                nh += 1;
                                pend.push("inst s".to_string());
                            }
                        }
                        for (d, r) in m.rcv {
                            hs.push(format!("r{}", d));
                            if (d as usize) < chans.len() {
                                chans[d as usize].receiver = Some((r, nh));
                                nh += 1;
                                pend.push("inst r".to_string());
                                chans[d as usize].gone = false;
                            }
                        }
                        for (r, mem) in m.shm {
                            hs.push(format!("m{}", r));
                            match regions.get(r as usize) {
                                Some((data, _)) if data[..] == mem[..] => {},
                                _ => problems.push(format!("region {} arrived with different contents", r)),
                            }
                        }
                        results.push(format!("msg:{}:{}", m.tag, if hs.is_empty() { "-".into() } else { hs.join(",") }));
                        led!();
                    },
                    Err(TryRecvError::Empty) => results.push("empty".into()),
                    Err(TryRecvError::IpcError(IpcError::Disconnected)) => results.push("disc".into()),
                    Err(e) => {
                        results.push("error".into());
                        problems.push(format!("receive failed: {:?}", e));
                    },
                }
            },
            14 => {
                let c = rng.below(n as u64) as usize;
                if let Some((r, i)) = chans[c].receiver.take() {
                    drop(r);
                    chans[c].gone = true;
                    chans[c].queued = 0;
                    ops.push(format!("droprcv {}", c));
                    results.push("ok".into());
                    led!(format!("drop {}", i));
                }
            },
            _ => {},
        }
    }
    // final sweep: what every held receiver reports now
    for c in 0..chans.len() {
        if let Some((rx, _)) = &chans[c].receiver {
            for _ in 0..40 {
                ops.push(format!("recv {}", c));
                match rx.try_recv() {
                    Ok(m) => {
                        let mut hs = Vec::new();
                        hs.extend(m.snd.iter().map(|(d, _)| format!("s{}", d)));
                        hs.extend(m.rcv.iter().map(|(d, _)| format!("r{}", d)));
                        hs.extend(m.shm.iter().map(|(d, _)| format!("m{}", d)));
                        results.push(format!("msg:{}:{}", m.tag, if hs.is_empty() { "-".into() } else { hs.join(",") }));
                        // handles inside are dropped right away: mirror that in the program text
                        for (d, _) in &m.snd {
                            ops.push(format!("dropsnd {}", d));
                            results.push("ok".into());
                        }
                        for (d, _) in &m.rcv {
                            ops.push(format!("droprcv {}", d));
                            results.push("ok".into());
                        }
                    },
                    Err(TryRecvError::Empty) => {
                        results.push("empty".into());
                        break;
                    },
                    Err(TryRecvError::IpcError(IpcError::Disconnected)) => {
                        results.push("disc".into());
                        break;
                    },
                    Err(e) => {
                        results.push("error".into());
                        problems.push(format!("receive failed: {:?}", e));
                        break;
                    },
                }
            }
        }
    }
    Outcome { ops, results, problems, ledger_ops: lops, ledger_counts: lcounts }
}

pub fn run(args: &[String]) {
    let thorough = arg(args, "--tier").as_deref() == Some("thorough");
    let seed = arg_u64(args, "--seed", 1);
    let n = arg_u64(args, "--n", if thorough { 3000 } else { 200 });
    let nops = arg_u64(args, "--ops", 40) as usize;
    #[cfg(not(feature = "force-inprocess"))]
    let max = {
        crate::interpose::SPOOF_SNDBUF.store(4608, std::sync::atomic::Ordering::SeqCst);
        let _ = crate::frag::effective_sys();
        ipc_channel::platform::OsIpcSender::get_max_fragment_size()
    };
    #[cfg(feature = "force-inprocess")]
    let max = 4568usize;
    let build = if cfg!(feature = "force-inprocess") { "inprocess" } else if cfg!(feature = "memfd") { "memfd" } else { "os" };
    let mut rng = Rng::new(seed ^ 0x3011d);
    for i in 0..n {
        let mut case = Case::new(format!("world-{}-{}", build, i));
        #[cfg(not(feature = "force-inprocess"))]
        let before = crate::interpose::proc_fds();
        #[cfg(not(feature = "force-inprocess"))]
        {
            let mut l = crate::interpose::LEDGER.lock().unwrap();
            l.open.clear();
            l.bad_closes.clear();
            l.not_cloexec.clear();
            drop(l);
            crate::interpose::LEDGER_ON.store(true, std::sync::atomic::Ordering::SeqCst);
        }
        let out = program(&mut rng, nops, max, true);
        #[cfg(not(feature = "force-inprocess"))]
        {
            crate::interpose::LEDGER_ON.store(false, std::sync::atomic::Ordering::SeqCst);
            let l = crate::interpose::LEDGER.lock().unwrap();
            if !l.not_cloexec.is_empty() {
                case.fail(format!(
                    "descriptors entered the process without close-on-exec (descriptor, how): {:?}",
                    l.not_cloexec.iter().take(4).collect::<Vec<_>>()
                ));
            }
        }
        for p in &out.problems {
            case.fail(p.clone());
        }
        #[cfg(not(feature = "force-inprocess"))]
        {
            // everything the program held has been dropped by now
            let after = crate::interpose::proc_fds();
            let leaked: Vec<_> = after.difference(&before).cloned().collect();
            if !leaked.is_empty() {
                case.fail(format!("descriptors leaked after all handles were dropped: {:?}", leaked));
            }
            let maps = crate::interpose::shared_maps_count();
            if maps != 0 {
                case.fail(format!("{} shared mappings remain after all regions were dropped", maps));
            }
        }
        case.pair(format!("ideal {}", out.ops.join(" | ")), out.results.join(" "));
        // the descriptor-level reading (`Unix.run`) must give the same answers for the OS transports, and the program
        // must be valid in the sense of the refinement theorem (embeds only receivers it holds, each once)
        #[cfg(not(feature = "force-inprocess"))]
        case.pair(format!("unix {}", out.ops.join(" | ")), format!("valid {}", out.results.join(" ")));
        #[cfg(not(feature = "force-inprocess"))]
        case.pair(
            format!("ledger {}", out.ledger_ops.join(" | ")),
            out.ledger_counts.iter().map(|c| c.to_string()).collect::<Vec<_>>().join(" "),
        );
        case.nontrivial = out.results.iter().any(|r| r.starts_with("msg:") && !r.ends_with(":-"));
        case.key = out.ops.join("|");
        case.tags.push(format!("build={}", build));
        for r in &out.results {
            let k = r.split(':').next().unwrap().to_string();
            if k != "ok" {
                case.tags.push(format!("result={}", k));
            }
        }
        case.tags.sort();
        case.tags.dedup();
        case.emit();
    }
}
