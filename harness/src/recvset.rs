//! Scenario `set` (C06): scripted single-threaded use of the real `OsIpcReceiverSet` (add / send small or multi-packet /
//! drop sender / select with optional injected EINTR), compared with the Lean receiver-set model; plus a threaded
//! stress mode whose oracle checks per-member exactly-once / order / closed-last and that select never hangs while
//! something is pending.
use crate::interpose::{self as ip, Ctx};
use crate::util::*;
use ipc_channel::platform::{self, OsIpcReceiver, OsIpcReceiverSet, OsIpcSelectionResult, OsIpcSender};
use std::sync::atomic::Ordering;

static mut ALARM_MSG: [u8; 8192] = [0; 8192];
static mut ALARM_LEN: usize = 0;
extern "C" fn on_alarm(_: i32) {
    unsafe {
        libc::write(1, std::ptr::addr_of!(ALARM_MSG) as *const _, ALARM_LEN);
        libc::_exit(0);
    }
}
/// arm a watchdog: if the next select does not return within `secs`, emit a failing case for the script so far and exit
fn arm(id: &str, ops: &[String], secs: u32) {
    let mut c = Case::new(id.to_string());
    c.pair(format!("set | {} | select", ops.join(" | ")), "select-blocked".into());
    c.fail("select() went on blocking although a message or closure was pending".into());
    c.nontrivial = true;
    c.key = ops.join("|");
    let line = format!(
        "{{\"id\":{},\"req\":{},\"impl\":{},\"oracle\":{},\"nontrivial\":true,\"key\":{},\"tags\":[]}}\n",
        jstr(&c.id), jarr(&c.req), jarr(&c.imp), jstr(c.oracle.as_deref().unwrap()), jstr(&c.key)
    );
    unsafe {
        let n = line.len().min(8192);
        std::ptr::copy_nonoverlapping(line.as_ptr(), std::ptr::addr_of_mut!(ALARM_MSG) as *mut u8, n);
        ALARM_LEN = n;
        libc::signal(libc::SIGALRM, on_alarm as usize);
        libc::alarm(secs);
    }
}
fn disarm() {
    unsafe {
        libc::alarm(0);
    }
}

/// the request for the set model and the answer expected from it; on the in-process transport the batching of select is free
fn set_pair(case: &mut Case, ops: &[String], per: &[String], idl: &[String]) {
    if cfg!(feature = "force-inprocess") {
        case.pair(format!("set batching=free | {}", ops.join(" | ")), format!("{} ids={}", per.join(" "), idl.join(",")));
    } else {
        case.pair(format!("set | {}", ops.join(" | ")), format!("{} ids={} blocked=0", per.join(" "), idl.join(",")));
    }
}

fn msg(tag: u64, big: bool, max: usize) -> Vec<u8> {
    let len = if big { max * 2 + 17 } else { 8 };
    let mut v = vec![0u8; len];
    v[..8].copy_from_slice(&tag.to_le_bytes());
    for i in 8..len {
        v[i] = (tag as u8).wrapping_add(i as u8);
    }
    v
}
fn tag_of(d: &[u8], max: usize) -> Option<u64> {
    if d.len() < 8 {
        return None;
    }
    let t = u64::from_le_bytes(d[..8].try_into().unwrap());
    if d == &msg(t, d.len() > 8, max)[..] {
        Some(t)
    } else {
        None
    }
}

pub fn seq_case(rng: &mut Rng, id: String, max: usize, nmembers: usize) -> Case {
    let mut case = Case::new(id.clone());
    let _g = ip::install(Ctx::new(0));
    let mut set = OsIpcReceiverSet::new().unwrap();
    let mut txs: Vec<Vec<OsIpcSender>> = Vec::new();
    let mut rxs: Vec<Option<OsIpcReceiver>> = Vec::new();
    let mut ids: Vec<Option<u64>> = Vec::new();
    let mut queued: Vec<usize> = Vec::new(); // harness's own tracker, only to avoid issuing a select that must block
    let mut closed_reported: Vec<bool> = Vec::new();
    let mut ops: Vec<String> = Vec::new();
    let mut seen: Vec<Vec<String>> = Vec::new();
    let mut tag = 0u64;
    let nops = 6 + rng.below(30) as usize;
    let mut eintr_used = 0;
    let pending = |i: usize, ids: &Vec<Option<u64>>, queued: &Vec<usize>, txs: &Vec<Vec<OsIpcSender>>, cr: &Vec<bool>| ids[i].is_some() && !cr[i] && (queued[i] > 0 || txs[i].is_empty());
    for step in 0..nops {
        let n = txs.len();
        let choice = if n == 0 { 0 } else { rng.below(12) };
        match choice {
            0 | 1 if n < nmembers => {
                let (tx, rx) = platform::channel().unwrap();
                txs.push(vec![tx]);
                rxs.push(Some(rx));
                ids.push(None);
                queued.push(0);
                closed_reported.push(false);
                seen.push(Vec::new());
                ops.push(format!("new {}", n));
            },
            2 | 3 => {
                let i = rng.below(n as u64) as usize;
                if let Some(rx) = rxs[i].take() {
                    let id = set.add(rx).unwrap();
                    if ids.iter().any(|x| *x == Some(id)) {
                        case.fail(format!("add returned id {} twice", id));
                    }
                    ids[i] = Some(id);
                    ops.push(format!("add {}", i));
                }
            },
            4..=7 => {
                let i = rng.below(n as u64) as usize;
                if !txs[i].is_empty() && !closed_reported[i] && queued[i] < 40 {
                    tag += 1;
                    let big = tag % 3 == 0 && queued[i] < 8;
                    txs[i][0].send(&msg(tag, big, max), vec![], vec![]).unwrap();
                    queued[i] += 1;
                    ops.push(format!("send {} {}", i, tag));
                }
            },
            9 if rng.chance(1, 3) => {
                // a burst: many small messages queued on one member before the next select, then silence
                let i = rng.below(n as u64) as usize;
                let burst = [20usize, 33, 50, 64][rng.below(4) as usize];
                if !txs[i].is_empty() && !closed_reported[i] && queued[i] + burst < 100 {
                    for _ in 0..burst {
                        tag += 1;
                        txs[i][0].send(&msg(tag, false, max), vec![], vec![]).unwrap();
                        queued[i] += 1;
                        ops.push(format!("send {} {}", i, tag));
                    }
                }
            },
            8 => {
                let i = rng.below(n as u64) as usize;
                if !txs[i].is_empty() {
                    txs[i].pop();
                    ops.push(format!("dropsender {}", i));
                }
            },
            _ => {
                let any = (0..n).any(|i| pending(i, &ids, &queued, &txs, &closed_reported));
                if any || step + 1 == nops {
                    if !any {
                        continue;
                    }
                    if rng.chance(1, 4) {
                        ip::with_ctx(|c| c.eintr = 1);
                        eintr_used += 1;
                    }
                    // select must not block: something is pending
                    arm(&id, &ops, 8);
                    let res = set.select();
                    disarm();
                    match res {
                        Ok(rs) => {
                            if rs.is_empty() {
                                case.fail("select returned no event".into());
                            }
                            for r in rs {
                                match r {
                                    OsIpcSelectionResult::DataReceived(id, d, _, _) => match ids.iter().position(|x| *x == Some(id)) {
                                        Some(i) => {
                                            match tag_of(&d, max) {
                                                Some(t) => seen[i].push(t.to_string()),
                                                None => case.fail("damaged payload from select".into()),
                                            }
                                            queued[i] = queued[i].saturating_sub(1);
                                        },
                                        None => case.fail(format!("event for unknown id {}", id)),
                                    },
                                    OsIpcSelectionResult::ChannelClosed(id) => match ids.iter().position(|x| *x == Some(id)) {
                                        Some(i) => {
                                            seen[i].push("c".into());
                                            if closed_reported[i] {
                                                case.fail(format!("member {} reported closed twice", i));
                                            }
                                            if !txs[i].is_empty() {
                                                case.fail(format!("member {} reported closed while a sender exists", i));
                                            }
                                            closed_reported[i] = true;
                                        },
                                        None => case.fail(format!("closed event for unknown id {}", id)),
                                    },
                                }
                            }
                            ops.push("select".into());
                        },
                        Err(e) => case.fail(format!("select failed: {:?}", e)),
                    }
                }
            },
        }
    }
    // drain: keep selecting while the tracker says something is pending
    let mut rounds = 0;
    while (0..txs.len()).any(|i| pending(i, &ids, &queued, &txs, &closed_reported)) && rounds < 200 && case.oracle.is_none() {
        rounds += 1;
        arm(&id, &ops, 8);
        let r = set.select();
        disarm();
        match r {
            Ok(rs) => {
                for r in rs {
                    match r {
                        OsIpcSelectionResult::DataReceived(id, d, _, _) => {
                            if let Some(i) = ids.iter().position(|x| *x == Some(id)) {
                                seen[i].push(tag_of(&d, max).map(|t| t.to_string()).unwrap_or("?".into()));
                                queued[i] = queued[i].saturating_sub(1);
                            }
                        },
                        OsIpcSelectionResult::ChannelClosed(id) => {
                            if let Some(i) = ids.iter().position(|x| *x == Some(id)) {
                                seen[i].push("c".into());
                                closed_reported[i] = true;
                            }
                        },
                    }
                }
                ops.push("select".into());
            },
            Err(e) => case.fail(format!("select failed: {:?}", e)),
        }
    }
    let per: Vec<String> = (0..txs.len()).map(|i| format!("m{}={}", i, if seen[i].is_empty() { "-".into() } else { seen[i].join(",") })).collect();
    let idl: Vec<String> = ids.iter().enumerate().filter_map(|(i, x)| x.map(|v| format!("{}:{}", i, v))).collect();
    set_pair(&mut case, &ops, &per, &idl);
    case.nontrivial = ops.iter().filter(|o| *o == "select").count() > 1;
    case.key = ops.join("|");
    case.tags.push(format!("members={}", txs.len() / 4 * 4));
    case.tags.push(format!("eintr={}", eintr_used.min(3)));
    case.tags.push(format!("selects={}", ops.iter().filter(|o| *o == "select").count().min(9)));
    case
}

/// `k` members become ready at the same time — traffic queued before the first select, on members added before or after the
/// traffic — and then nothing more happens: every select must report something until everything has been reported (at most
/// the events buffer's worth of members per call), then the senders go away and every member reports exactly one closure.
/// Going quiet matters: with edge-triggered readiness a batch that is lost is never reported again.
pub fn many_ready_case(rng: &mut Rng, id: String, max: usize, k: usize) -> Case {
    let mut case = Case::new(id.clone());
    let _g = ip::install(Ctx::new(0));
    let mut set = OsIpcReceiverSet::new().unwrap();
    let mut txs: Vec<Option<OsIpcSender>> = Vec::new();
    let mut ids: Vec<u64> = Vec::new();
    let mut ops: Vec<String> = Vec::new();
    let mut seen: Vec<Vec<String>> = vec![Vec::new(); k];
    let mut expect_n = vec![0usize; k];
    let mut tag = 0u64;
    let before = rng.chance(1, 2);
    let mut rxs = Vec::new();
    for i in 0..k {
        let (tx, rx) = platform::channel().unwrap();
        ops.push(format!("new {}", i));
        txs.push(Some(tx));
        rxs.push(Some(rx));
    }
    let mut send_all = |ops: &mut Vec<String>, txs: &Vec<Option<OsIpcSender>>, tag: &mut u64, expect_n: &mut Vec<usize>, rng: &mut Rng| {
        for i in 0..k {
            let n = 1 + rng.below(3) as usize;
            for _ in 0..n {
                *tag += 1;
                txs[i].as_ref().unwrap().send(&msg(*tag, false, max), vec![], vec![]).unwrap();
                ops.push(format!("send {} {}", i, *tag));
                expect_n[i] += 1;
            }
        }
    };
    if before {
        send_all(&mut ops, &txs, &mut tag, &mut expect_n, rng);
    }
    for i in 0..k {
        ids.push(set.add(rxs[i].take().unwrap()).unwrap());
        ops.push(format!("add {}", i));
    }
    if !before {
        send_all(&mut ops, &txs, &mut tag, &mut expect_n, rng);
    }
    let mut closed = vec![false; k];
    for phase in 0..2 {
        let mut rounds = 0;
        loop {
            let pending = (0..k).any(|i| if phase == 0 { seen[i].len() < expect_n[i] } else { !closed[i] });
            if !pending || rounds > 4 * k + 8 || case.oracle.is_some() {
                break;
            }
            rounds += 1;
            arm(&id, &ops, 8);
            let r = set.select();
            disarm();
            match r {
                Ok(rs) => {
                    if rs.is_empty() {
                        case.fail(format!("select returned no event although {} members had something to report", (0..k).filter(|i| if phase == 0 { seen[*i].len() < expect_n[*i] } else { !closed[*i] }).count()));
                    }
                    for r in rs {
                        match r {
                            OsIpcSelectionResult::DataReceived(id, d, _, _) => match ids.iter().position(|x| *x == id) {
                                Some(i) => seen[i].push(tag_of(&d, max).map(|t| t.to_string()).unwrap_or("?".into())),
                                None => case.fail(format!("event for unknown id {}", id)),
                            },
                            OsIpcSelectionResult::ChannelClosed(id) => match ids.iter().position(|x| *x == id) {
                                Some(i) => {
                                    if closed[i] {
                                        case.fail(format!("member {} reported closed twice", i));
                                    }
                                    if phase == 0 {
                                        case.fail(format!("member {} reported closed while its sender exists", i));
                                    }
                                    closed[i] = true;
                                    seen[i].push("c".into());
                                },
                                None => case.fail(format!("closed event for unknown id {}", id)),
                            },
                        }
                    }
                    ops.push("select".into());
                },
                Err(e) => case.fail(format!("select failed: {:?}", e)),
            }
        }
        if phase == 0 {
            for i in 0..k {
                txs[i] = None;
                ops.push(format!("dropsender {}", i));
            }
        }
    }
    for i in 0..k {
        if seen[i].len() != expect_n[i] + 1 && case.oracle.is_none() {
            case.fail(format!("member {} reported {} events where {} messages and one closure are due", i, seen[i].len(), expect_n[i]));
        }
    }
    let per: Vec<String> = (0..k).map(|i| format!("m{}={}", i, if seen[i].is_empty() { "-".into() } else { seen[i].join(",") })).collect();
    let idl: Vec<String> = ids.iter().enumerate().map(|(i, v)| format!("{}:{}", i, v)).collect();
    set_pair(&mut case, &ops, &per, &idl);
    case.nontrivial = true;
    case.key = format!("many:{}:{}", k, ops.len());
    case.tags.push(format!("members={}", k / 4 * 4));
    case.tags.push(format!("ready_at_once={}", k));
    case.tags.push(format!("traffic_before_add={}", before as u8));
    case
}

/// One select batch that is large in bytes: member A receives one message of `big_len` bytes (sent from a thread, it blocks
/// until the set drains it), members B1 / B2 have several small messages queued before and after A became ready; then
/// silence.  Everything must be reported — a per-call budget in bytes or messages that leaves a member partly drained loses
/// the rest for ever under edge-triggered readiness.
pub fn big_batch_case(rng: &mut Rng, id: String, max: usize, big_len: usize) -> Case {
    let mut case = Case::new(id.clone());
    let _g = ip::install(Ctx::new(0));
    let mut set = OsIpcReceiverSet::new().unwrap();
    let mut ops: Vec<String> = Vec::new();
    let k = 3usize;
    let mut txs = Vec::new();
    let mut ids = Vec::new();
    for i in 0..k {
        let (tx, rx) = platform::channel().unwrap();
        ops.push(format!("new {}", i));
        ids.push(set.add(rx).unwrap());
        ops.push(format!("add {}", i));
        txs.push(Some(tx));
    }
    let mut expect: Vec<Vec<String>> = vec![Vec::new(); k];
    let mut tag = 0u64;
    let nb1 = 2 + rng.below(3) as usize;
    for _ in 0..nb1 {
        tag += 1;
        txs[1].as_ref().unwrap().send(&msg(tag, false, max), vec![], vec![]).unwrap();
        ops.push(format!("send 1 {}", tag));
        expect[1].push(tag.to_string());
    }
    tag += 1;
    let big_tag = tag;
    let mut big = vec![0u8; big_len];
    big[..8].copy_from_slice(&big_tag.to_le_bytes());
    for (i, b) in big.iter_mut().enumerate().skip(8) {
        *b = (big_tag as u8).wrapping_add((i % 251) as u8);
    }
    let big_copy = big.clone();
    let atx = txs[0].take().unwrap();
    let h = std::thread::spawn(move || {
        let r = atx.send(&big_copy, vec![], vec![]);
        // keep the sender alive until the receiver has had time to report; dropped at the end of the case
        (atx, r.is_ok())
    });
    ops.push(format!("send 0 {}", big_tag));
    expect[0].push(big_tag.to_string());
    std::thread::sleep(std::time::Duration::from_millis(60));
    let nb2 = 2 + rng.below(3) as usize;
    for _ in 0..nb2 {
        tag += 1;
        txs[2].as_ref().unwrap().send(&msg(tag, false, max), vec![], vec![]).unwrap();
        ops.push(format!("send 2 {}", tag));
        expect[2].push(tag.to_string());
    }
    let mut seen: Vec<Vec<String>> = vec![Vec::new(); k];
    let mut rounds = 0;
    while (0..k).any(|i| seen[i].len() < expect[i].len()) && rounds < 12 && case.oracle.is_none() {
        rounds += 1;
        arm(&id, &ops, 20);
        let r = set.select();
        disarm();
        match r {
            Ok(rs) => {
                for r in rs {
                    match r {
                        OsIpcSelectionResult::DataReceived(id, d, _, _) => match ids.iter().position(|x| *x == id) {
                            Some(0) => {
                                if d == big {
                                    seen[0].push(big_tag.to_string());
                                } else {
                                    case.fail(format!("the {}-byte message arrived altered ({} bytes)", big_len, d.len()));
                                }
                            },
                            Some(i) => seen[i].push(tag_of(&d, max).map(|t| t.to_string()).unwrap_or("?".into())),
                            None => case.fail(format!("event for unknown id {}", id)),
                        },
                        OsIpcSelectionResult::ChannelClosed(id) => case.fail(format!("closure reported for id {} while its sender exists", id)),
                    }
                }
                ops.push("select".into());
            },
            Err(e) => case.fail(format!("select failed: {:?}", e)),
        }
    }
    for i in 0..k {
        if seen[i] != expect[i] && case.oracle.is_none() {
            case.fail(format!("member {} reported {:?} where {:?} was sent", i, seen[i], expect[i]));
        }
    }
    let (atx, ok) = h.join().unwrap();
    if !ok {
        case.fail("the large send failed".into());
    }
    drop(atx);
    let per: Vec<String> = (0..k).map(|i| format!("m{}={}", i, if seen[i].is_empty() { "-".into() } else { seen[i].join(",") })).collect();
    let idl: Vec<String> = ids.iter().enumerate().map(|(i, v)| format!("{}:{}", i, v)).collect();
    set_pair(&mut case, &ops, &per, &idl);
    case.nontrivial = true;
    case.key = format!("bigbatch:{}:{}:{}", big_len, nb1, nb2);
    case.tags.push(format!("batch_bytes={}", big_len));
    case
}

/// The same contract through the ipc-level wrapper `ipc::IpcReceiverSet` (typed receivers, `IpcSelectionResult`, `OpaqueIpcMessage::to`):
/// several members with long backlogs queued before the first select, some of them already without senders, so that one
/// batch holds many messages and closures in between; per member: every message once, in order, then one closure.
pub fn ipc_level_case(rng: &mut Rng, id: String) -> Case {
    use ipc_channel::ipc::{self, IpcReceiverSet, IpcSelectionResult};
    let mut case = Case::new(id.clone());
    let k = 2 + rng.below(4) as usize;
    let mut set = IpcReceiverSet::new().unwrap();
    let mut ops: Vec<String> = Vec::new();
    let mut txs = Vec::new();
    let mut ids = Vec::new();
    let mut expect: Vec<Vec<String>> = vec![Vec::new(); k];
    let mut tag = 0u64;
    for i in 0..k {
        let (tx, rx) = ipc::channel::<u64>().unwrap();
        ops.push(format!("new {}", i));
        let n = [3usize, 10, 25, 40][rng.below(4) as usize];
        for _ in 0..n {
            tag += 1;
            tx.send(tag).unwrap();
            ops.push(format!("send {} {}", i, tag));
            expect[i].push(tag.to_string());
        }
        ids.push(set.add(rx).unwrap());
        ops.push(format!("add {}", i));
        txs.push(Some(tx));
    }
    for i in 0..k {
        if rng.below(2) == 0 {
            txs[i] = None;
            ops.push(format!("dropsender {}", i));
            expect[i].push("c".into());
        }
    }
    let mut seen: Vec<Vec<String>> = vec![Vec::new(); k];
    let mut rounds = 0;
    // (the in-process transport may hand out one event per call)
    let max_rounds = expect.iter().map(|e| e.len()).sum::<usize>() + 8;
    while (0..k).any(|i| seen[i].len() < expect[i].len()) && rounds < max_rounds && case.oracle.is_none() {
        rounds += 1;
        arm(&id, &ops, 8);
        let r = set.select();
        disarm();
        match r {
            Ok(rs) => {
                if rs.is_empty() {
                    case.fail("select returned no event although something was pending".into());
                }
                for r in rs {
                    match r {
                        IpcSelectionResult::MessageReceived(id, m) => match ids.iter().position(|x| *x == id) {
                            Some(i) => match m.to::<u64>() {
                                Ok(t) => seen[i].push(t.to_string()),
                                Err(_) => case.fail("a message reported by select does not decode".into()),
                            },
                            None => case.fail(format!("event for unknown id {}", id)),
                        },
                        IpcSelectionResult::ChannelClosed(id) => match ids.iter().position(|x| *x == id) {
                            Some(i) => seen[i].push("c".into()),
                            None => case.fail(format!("closed event for unknown id {}", id)),
                        },
                    }
                }
                ops.push("select".into());
            },
            Err(e) => case.fail(format!("select failed: {:?}", e)),
        }
    }
    for i in 0..k {
        if seen[i] != expect[i] && case.oracle.is_none() {
            case.fail(format!("member {} reported {:?} where {:?} is due (ipc-level receiver set)", i, &seen[i][..seen[i].len().min(12)], &expect[i][..expect[i].len().min(12)]));
        }
    }
    drop(txs);
    let per: Vec<String> = (0..k).map(|i| format!("m{}={}", i, if seen[i].is_empty() { "-".into() } else { seen[i].join(",") })).collect();
    let idl: Vec<String> = ids.iter().enumerate().map(|(i, v)| format!("{}:{}", i, v)).collect();
    set_pair(&mut case, &ops, &per, &idl);
    case.nontrivial = true;
    case.key = format!("ipcset:{}:{}", k, ops.len());
    case.tags.push("api=ipc::IpcReceiverSet".into());
    case
}

pub fn run(args: &[String]) {
    let sys_arg = arg_u64(args, "--sys", 4608) as usize;
    ip::SPOOF_SNDBUF.store(sys_arg, Ordering::SeqCst);
    #[cfg(not(feature = "force-inprocess"))]
    let max = {
        let _ = crate::frag::effective_sys();
        OsIpcSender::get_max_fragment_size()
    };
    #[cfg(feature = "force-inprocess")]
    let max = 4568usize;
    let thorough = arg(args, "--tier").as_deref() == Some("thorough");
    let seed = arg_u64(args, "--seed", 1);
    let n = arg_u64(args, "--n", if thorough { 3000 } else { 200 });
    let mut rng = Rng::new(seed ^ 0x5e7);
    for i in 0..n {
        let nm = if i % 5 == 4 { 30 } else { 6 };
        seq_case(&mut rng, format!("set-{}", i), max, nm).emit();
    }
    // the ipc-level wrapper
    for j in 0..(if thorough { 60 } else { 8 }) {
        ipc_level_case(&mut rng, format!("set-ipc-{}", j)).emit();
    }
    // a batch that is large in bytes
    let lens: &[usize] = if thorough { &[1 << 20, 3 << 20, 5 << 20, 9 << 20, 17 << 20] } else { &[1 << 20, 5 << 20, 9 << 20] };
    for (j, l) in lens.iter().enumerate() {
        big_batch_case(&mut rng, format!("set-bigbatch-{}", j), max, *l).emit();
    }
    // many members ready at once, around and beyond the events buffer (10), then silence
    let ks: &[usize] = if thorough { &[1, 9, 10, 11, 19, 20, 21, 24, 40, 64, 100] } else { &[9, 10, 11, 24, 64] };
    for (j, k) in ks.iter().enumerate() {
        for rep in 0..2 {
            many_ready_case(&mut rng, format!("set-many-{}-{}", j, rep), max, *k).emit();
        }
    }
}
