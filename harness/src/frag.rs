//! Scenario `frag`: one platform-level send (with attachments and an injected fault pattern) and the matching
//! receive, traced at the system-call boundary.  Serves C13 (fault patterns), C01 (lengths × buffer sizes),
//! C18 (sizes handed to the kernel) and part of C15/C11.
use crate::interpose::{self as ip, Ctx, Ev};
use crate::util::*;
use ipc_channel::platform::{self, OsIpcChannel, OsIpcReceiver, OsIpcSender, OsIpcSharedMemory};
use std::sync::mpsc;

pub struct Shape {
    pub len: usize,
    pub nch: usize,
    pub nshm: usize,
    pub faults: Vec<u8>,
}

fn rstr(r: isize, errno: i32) -> &'static str {
    if r >= 0 {
        "ok"
    } else if errno == libc::ENOBUFS {
        "enobufs"
    } else {
        "fatal"
    }
}

/// canonical sender-side trace (attempts only)
pub fn canon_send(trace: &[(u64, Ev)], chan_fd: i32) -> (Vec<String>, Option<(i32, i32)>) {
    let mut out = Vec::new();
    let mut ded: Option<(i32, i32)> = None;
    for (_, e) in trace {
        match e {
            Ev::Socketpair { a, b, .. } => {
                ded = Some((*a, *b));
                out.push("sock".to_string());
            },
            Ev::Sendmsg { fd, bytes, header, fds, r, errno, .. } => {
                let h = header.map(|h| h.to_string()).unwrap_or("-".into());
                let onchan = (*fd == chan_fd) as u8;
                match ded {
                    None => out.push(format!("single:len={}:hdr={}:nfds={}:onchan={}:{}", bytes - 8, h, fds.len(), onchan, rstr(*r, *errno))),
                    Some((_, b)) => out.push(format!(
                        "first:n={}:hdr={}:nfds={}:dedlast={}:onchan={}:{}",
                        bytes - 8,
                        h,
                        fds.len(),
                        (fds.last() == Some(&b)) as u8,
                        onchan,
                        rstr(*r, *errno)
                    )),
                }
            },
            Ev::Send { fd, bytes, r, errno } => {
                let onded = ded.map(|(a, _)| a == *fd).unwrap_or(false) as u8;
                out.push(format!("follow:n={}:onded={}:{}", bytes, onded, rstr(*r, *errno)));
            },
            _ => {},
        }
    }
    (out, ded)
}

/// what the sender put on the sockets: (first packet (payload, header, nfds), follow-up sizes)
pub fn delivered(trace: &[(u64, Ev)]) -> (Option<(usize, u64, usize)>, Vec<usize>) {
    let mut first = None;
    let mut fol = Vec::new();
    for (_, e) in trace {
        match e {
            Ev::Sendmsg { bytes, header, fds, r, .. } if *r >= 0 && first.is_none() => {
                first = Some((bytes - 8, header.unwrap_or(0), fds.len()));
            },
            Ev::Send { bytes, r, .. } if *r >= 0 => fol.push(*bytes),
            _ => {},
        }
    }
    (first, fol)
}

pub fn canon_recv(trace: &[(u64, Ev)], chan_fd: i32) -> Vec<String> {
    let mut out = Vec::new();
    let mut ded: Option<i32> = None;
    for (_, e) in trace {
        match e {
            Ev::Recvmsg { fd, want, r, fds, ctl_cap, .. } if *fd == chan_fd => {
                ded = fds.last().copied();
                out.push(format!("recvmsg:want={}:got={}:nfds={}:ctlcap={}", want, r, fds.len(), ctl_cap));
            },
            Ev::Recv { fd, want, r, .. } => {
                out.push(format!("recv:want={}:got={}:onded={}", want, r, (Some(*fd) == ded) as u8));
            },
            _ => {},
        }
    }
    out
}

pub enum Got {
    Msg(Vec<u8>, Vec<platform::OsOpaqueIpcChannel>, Vec<OsIpcSharedMemory>, Vec<(u64, Ev)>),
    Err(String, Vec<(u64, Ev)>),
}

const SENTINEL: &[u8] = b"__verif_follow_on_message__";

/// receiver thread: receives until the sentinel arrives; reports everything it saw before it
fn receiver(rx: OsIpcReceiver, out: mpsc::Sender<Got>) {
    let _g = ip::install(Ctx::new(1));
    let mut errors = 0;
    loop {
        let r = rx.recv();
        let tr = ip::take_trace();
        match r {
            Ok((d, c, s)) => {
                if d == SENTINEL {
                    let _ = out.send(Got::Msg(d, c, s, tr));
                    return;
                }
                let _ = out.send(Got::Msg(d, c, s, tr));
            },
            Err(e) => {
                errors += 1;
                let _ = out.send(Got::Err(format!("{:?}", e), tr));
                if errors > 3 {
                    return;
                }
            },
        }
    }
}

pub fn fault_str(f: &[u8]) -> String {
    f.iter().map(|x| (b'0' + x) as char).collect()
}

/// attachments of the next cases are clones of one sender instead of distinct channels
pub static CLONE_ATTS: std::sync::atomic::AtomicBool = std::sync::atomic::AtomicBool::new(false);

pub fn one_case(sys: usize, sh: &Shape, rng: &mut Rng, id: String) -> Case {
    let mut case = Case::new(id);
    let data = rng.bytes(sh.len);
    let (tx, rx) = platform::channel().unwrap();
    let chan_fd_tx = fd_of_sender(&tx);
    // attachments
    let mut chans = Vec::new();
    let mut probes = Vec::new();
    let clones = CLONE_ATTS.load(std::sync::atomic::Ordering::SeqCst);
    if clones && sh.nch > 0 {
        // the same endpoint embedded many times: clones share one descriptor number, each is an attachment of its own
        let (atx, arx) = platform::channel().unwrap();
        for _ in 0..sh.nch {
            chans.push(OsIpcChannel::Sender(atx.clone()));
        }
        probes.push(arx);
    } else {
        for _ in 0..sh.nch {
            let (atx, arx) = platform::channel().unwrap();
            chans.push(OsIpcChannel::Sender(atx));
            probes.push(arx);
        }
    }
    let mut shms = Vec::new();
    let mut shm_data = Vec::new();
    for i in 0..sh.nshm {
        let d = rng.bytes(17 + 4096 * i);
        shms.push(OsIpcSharedMemory::from_bytes(&d));
        shm_data.push(d);
    }
    let nfds = sh.nch + sh.nshm;
    let (gtx, grx) = mpsc::channel();
    let rx_fd = fd_of_receiver(&rx);
    let rh = std::thread::spawn(move || receiver(rx, gtx));

    // ---- the send under test
    let g = ip::install(Ctx::new(0));
    ip::set_faults(sh.faults.clone());
    let res = tx.send(&data, chans, shms);
    ip::set_faults(vec![]);
    let tr = ip::take_trace();
    drop(g);
    let (atts, ded) = canon_send(&tr, chan_fd_tx);
    let res_s = if res.is_ok() { "ok" } else { "err" };
    case.pair(
        format!("frag sys={} len={} nfds={} faults={}", sys, sh.len, nfds, fault_str(&sh.faults)),
        format!("res={} atts={}", res_s, atts.join("|")),
    );
    let injected = tr.iter().filter(|(_, e)| matches!(e, Ev::Sendmsg { r, .. } | Ev::Send { r, .. } if *r < 0)).count();
    case.nontrivial = injected > 0 || atts.len() > 1;
    case.key = format!("{}:{}:{}:{}", sys, sh.len, nfds, atts.join("|"));
    case.tags.push(format!("packets={}", atts.iter().filter(|a| a.ends_with(":ok")).count()));
    case.tags.push(format!("faults={}", injected));
    case.tags.push(format!("res={}", res_s));
    // both ends of the dedicated socket are closed when send returns, on every path (C11)
    if let Some((a, b)) = ded {
        for fd in [a, b] {
            let n = tr.iter().filter(|(_, e)| matches!(e, Ev::Close { fd: f, r: 0 } if *f == fd)).count();
            if n != 1 {
                case.fail(format!("dedicated socket fd {} closed {} times by send", fd, n));
            }
        }
    }
    // ---- follow-on message, then collect what the receiver saw
    // the follow-on message carries three attachments of its own: whatever happened to the message before it (also a
    // failed, partially transmitted one) must not cost it any of them
    let mut follow_atts = Vec::new();
    let mut follow_keep = Vec::new();
    for _ in 0..3 {
        let (a, b) = platform::channel().unwrap();
        follow_atts.push(OsIpcChannel::Sender(a));
        follow_keep.push(b);
    }
    let follow_ok = match tx.send(SENTINEL, follow_atts, vec![]) {
        Ok(()) => true,
        Err(e) => {
            // whatever became of the message before (sent, refused as over-full, failed half way): the receiver is alive, so the
            // channel has to go on working
            case.fail(format!("an ordinary message sent after a message that {} was refused with {:?}: the channel is no longer usable although its receiver is alive",
                              if res.is_ok() { "was sent" } else { "was refused / had failed" }, e));
            false
        },
    };
    let mut got = Vec::new();
    while follow_ok {
        match grx.recv_timeout(std::time::Duration::from_secs(6)) {
            Ok(Got::Msg(d, c, s, t)) => {
                let fin = d == SENTINEL;
                got.push(Got::Msg(d, c, s, t));
                if fin {
                    break;
                }
            },
            Ok(e) => got.push(e),
            Err(_) => {
                case.fail("receiver did not obtain the follow-on message within 6 s".into());
                break;
            },
        }
    }
    if case.oracle.is_none() {
        let _ = rh.join();
    }
    let (dfirst, dfol) = delivered(&tr);
    let mut msgs = got.into_iter();
    if res.is_ok() {
        match msgs.next() {
            Some(Got::Msg(d, mut c, s, rtr)) => {
                if d != data {
                    case.fail(format!("payload differs: sent {} bytes, received {} bytes", data.len(), d.len()));
                }
                let (f, _hdr, fnfds) = dfirst.unwrap();
                case.pair(
                    format!(
                        "recv sys={} total={} first={} nfds={} ded={} eof=1",
                        sys,
                        sh.len,
                        f,
                        fnfds,
                        dfol.iter().map(|x| x.to_string()).collect::<Vec<_>>().join(",")
                    ),
                    format!("res=ok len={} reads={}", d.len(), canon_recv(&rtr, rx_fd).join("|")),
                );
                // ghost buffer (C18): the returned Vec has exactly the announced length, every byte written by the
                // transport (payload equality above), and the capacity the model's reserve_exact computes
                case.pair(
                    format!(
                        "bounds sys={} n={} total={} pkts={}",
                        sys,
                        f + 8,
                        sh.len,
                        dfol.iter().map(|x| x.to_string()).collect::<Vec<_>>().join(",")
                    ),
                    format!("ok cap={} len={} written={}", d.capacity(), d.len(), d.len()),
                );
                if c.len() != sh.nch || s.len() != sh.nshm {
                    case.fail(format!("attachments: sent {}+{}, received {}+{}", sh.nch, sh.nshm, c.len(), s.len()));
                } else {
                    for (i, ch) in c.iter_mut().enumerate() {
                        let sender = ch.to_sender();
                        let nonce = [i as u8, 0xA5, sh.len as u8, 7];
                        let _ = sender.send(&nonce, vec![], vec![]);
                        match probes[if clones { 0 } else { i }].try_recv() {
                            Ok((d, _, _)) if d == nonce => {},
                            _ => case.fail(format!("attachment {} is not the sender of channel {}", i, i)),
                        }
                    }
                    for (i, m) in s.iter().enumerate() {
                        if &m[..] != &shm_data[i][..] {
                            case.fail(format!("region {} differs", i));
                        }
                    }
                }
            },
            Some(Got::Err(e, _)) => case.fail(format!("send ok but receive failed: {}", e)),
            None => case.fail("send ok but nothing received".into()),
        }
    } else {
        // failed send: whatever reached the sockets must not be delivered as a message
        case.tags.push(format!("partial={}", dfirst.is_some()));
    }
    // everything after: only errors (for a partial message) and then the sentinel
    let mut saw_sentinel = false;
    for g in msgs {
        match g {
            Got::Msg(d, c, s, _) if d == SENTINEL => {
                saw_sentinel = true;
                if c.len() != 3 || !s.is_empty() {
                    case.fail(format!("the follow-on message arrived with {} channels / {} regions instead of its own 3 channels", c.len(), s.len()));
                }
            },
            Got::Msg(d, _, _, _) => case.fail(format!("a failed or phantom send was delivered as a message of {} bytes", d.len())),
            Got::Err(e, _) => {
                if res.is_ok() {
                    case.fail(format!("receive error after a successful send: {}", e));
                } else {
                    case.tags.push("partial_reported_as_error".into());
                }
            },
        }
    }
    if !saw_sentinel && case.oracle.is_none() {
        case.fail("follow-on message not delivered".into());
    }
    case
}

pub fn fd_of_sender(tx: &OsIpcSender) -> i32 {
    // Debug output of OsIpcSender is `OsIpcSender { fd: SharedFileDescriptor(N), .. }`
    let s = format!("{:?}", tx);
    let i = s.find("SharedFileDescriptor(").unwrap() + "SharedFileDescriptor(".len();
    s[i..].split(')').next().unwrap().trim().parse().unwrap()
}
pub fn fd_of_receiver(rx: &OsIpcReceiver) -> i32 {
    // `OsIpcReceiver { fd: Cell { value: N } }`
    let s = format!("{:?}", rx);
    let i = s.find("value: ").unwrap() + "value: ".len();
    s[i..].split(|c: char| !c.is_ascii_digit() && c != '-').next().unwrap().parse().unwrap()
}

/// the real (or spoofed) SO_SNDBUF the crate sees
pub fn effective_sys() -> usize {
    let max = OsIpcSender::get_max_fragment_size();
    let _ = max;
    let mut sv = [0i32; 2];
    unsafe {
        libc::socketpair(libc::AF_UNIX, libc::SOCK_SEQPACKET, 0, sv.as_mut_ptr());
        let mut v: usize = 0;
        let mut l = 8u32;
        libc::getsockopt(sv[0], libc::SOL_SOCKET, libc::SO_SNDBUF, &mut v as *mut _ as *mut _, &mut l);
        libc::close(sv[0]);
        libc::close(sv[1]);
        v
    }
}

fn patterns(k: usize) -> Vec<Vec<u8>> {
    (0..(1u32 << k)).map(|m| (0..k).map(|i| ((m >> i) & 1) as u8).collect()).collect()
}

pub fn run(args: &[String]) {
    let sys_arg = arg_u64(args, "--sys", 0) as usize;
    if sys_arg != 0 {
        ip::SPOOF_SNDBUF.store(sys_arg, std::sync::atomic::Ordering::SeqCst);
    }
    let sys = effective_sys();
    let max = OsIpcSender::get_max_fragment_size();
    let fs = sys - 32;
    let mode = arg(args, "--mode").unwrap_or("c13".into());
    let thorough = arg(args, "--tier").as_deref() == Some("thorough");
    let seed = arg_u64(args, "--seed", 1);
    let mut rng = Rng::new(seed ^ (sys as u64) << 8);
    let mut n = 0;
    match mode.as_str() {
        "c13" => {
            let k = if thorough { 10 } else { 7 };
            let lens = [1500usize, 3000.min(max), max + 1, max + fs + 1, max + 4 * fs + 100];
            for &len in &lens {
                for &(nch, nshm) in &[(0usize, 0usize), (2, 1)] {
                    for p in patterns(k) {
                        let sh = Shape { len, nch, nshm, faults: p };
                        one_case(sys, &sh, &mut rng, format!("c13-{}-{}", sys, n)).emit();
                        n += 1;
                    }
                }
            }
            // attachment capacity under ENOBUFS: a single-packet message that falls through to fragmentation needs one more
            // descriptor (the dedicated socket); either everything arrives or the send is refused
            for &cnt in &[62usize, 63, 64] {
                for f in [vec![1u8], vec![0u8], vec![1, 1]] {
                    let sh = Shape { len: 3000.min(max), nch: cnt, nshm: 0, faults: f };
                    one_case(sys, &sh, &mut rng, format!("c13-{}-{}", sys, n)).emit();
                    n += 1;
                }
            }
            // a few patterns with a fatal error at a given attempt
            for &len in &lens {
                for at in 0..6 {
                    let mut f = vec![0u8; at];
                    f.push(2);
                    let sh = Shape { len, nch: 1, nshm: 0, faults: f };
                    one_case(sys, &sh, &mut rng, format!("c13-{}-{}", sys, n)).emit();
                    n += 1;
                }
            }
        },
        "c01" => {
            let mut lens: Vec<usize> = vec![0, 1, 2, 7, 8, 9];
            for k in 0..4usize {
                let b = max + k * fs;
                for d in -16i64..=16 {
                    let v = b as i64 + d;
                    if v >= 0 {
                        lens.push(v as usize);
                    }
                }
            }
            let big = if sys_arg == 0 { if thorough { 64 << 20 } else { 4 << 20 } } else { 40 * fs };
            let nr = if thorough { 120 } else { 30 };
            for _ in 0..nr {
                lens.push(rng.below(big as u64 / if thorough { 4 } else { 8 }) as usize);
            }
            lens.push(big);
            if thorough && sys_arg == 0 {
                lens.push((32 << 20) + 12345);
            }
            for len in lens {
                let (nch, nshm) = if n % 7 == 3 { (1, 1) } else { (0, 0) };
                // the payload must not depend on how the transport splits it: every 5th length is also sent with a
                // transient ENOBUFS that makes the sender shrink its packets
                if n % 5 == 2 && len > 2000 {
                    for f in [vec![1u8], vec![0, 1], vec![0, 0, 1]] {
                        let sh = Shape { len, nch, nshm, faults: f };
                        one_case(sys, &sh, &mut rng, format!("c01-{}-{}f", sys, n)).emit();
                    }
                }
                let sh = Shape { len, nch, nshm, faults: vec![] };
                one_case(sys, &sh, &mut rng, format!("c01-{}-{}", sys, n)).emit();
                n += 1;
            }
        },
        "c15" => {
            let counts: Vec<usize> = if thorough { (0..=300).collect() } else { vec![0, 1, 2, 31, 62, 63, 64, 65, 66, 100, 252, 253, 254, 300] };
            let lens = [0usize, 10, max, max + 1, 3 * max];
            for &cnt in &counts {
                for &len in &lens {
                    for mix in 0..2 {
                        let nshm = if mix == 0 { 0 } else { cnt / 3 };
                        let sh = Shape { len, nch: cnt - nshm, nshm, faults: vec![] };
                        one_case(sys, &sh, &mut rng, format!("c15-{}-{}", sys, n)).emit();
                        n += 1;
                    }
                }
            }
            // the same sender embedded many times (clones share a descriptor number; each is one attachment)
            CLONE_ATTS.store(true, std::sync::atomic::Ordering::SeqCst);
            for &cnt in &[2usize, 63, 64, 65, 100, 200] {
                for &len in &[0usize, 10, max + 1] {
                    let sh = Shape { len, nch: cnt, nshm: 0, faults: vec![] };
                    let mut c = one_case(sys, &sh, &mut rng, format!("c15-{}-{}", sys, n));
                    c.tags.push("attachments=clones_of_one_sender".into());
                    c.emit();
                    n += 1;
                }
            }
            CLONE_ATTS.store(false, std::sync::atomic::Ordering::SeqCst);
            // ENOBUFS on the single-packet attempt forces fragmentation: the dedicated socket must still fit
            for &cnt in &[62usize, 63, 64] {
                let sh = Shape { len: 3000.min(max), nch: cnt, nshm: 0, faults: vec![1] };
                one_case(sys, &sh, &mut rng, format!("c15-{}-{}", sys, n)).emit();
                n += 1;
            }
        },
        "c18" => {
            // message shapes for the buffer arithmetic: boundary lengths x ENOBUFS patterns (short follow-up packets) x attachments
            let k = if thorough { 6 } else { 4 };
            let mut lens: Vec<usize> = vec![0, 1, 8, 2001, max - 1, max, max + 1, max + fs - 1, max + fs, max + fs + 1, max + 3 * fs + 7];
            for _ in 0..(if thorough { 20 } else { 4 }) {
                lens.push(rng.below(8 * fs as u64) as usize);
            }
            for &len in &lens {
                for &(nch, nshm) in &[(0usize, 0usize), (3, 2), (63, 0)] {
                    for p in patterns(k) {
                        if p.iter().filter(|x| **x == 1).count() > 2 {
                            continue;
                        }
                        let sh = Shape { len, nch, nshm, faults: p };
                        one_case(sys, &sh, &mut rng, format!("c18-{}-{}", sys, n)).emit();
                        n += 1;
                    }
                }
            }
        },
        "replay" => {
            let len = arg_u64(args, "--len", 0) as usize;
            let nch = arg_u64(args, "--nch", 0) as usize;
            let nshm = arg_u64(args, "--nshm", 0) as usize;
            let faults: Vec<u8> = arg(args, "--faults").unwrap_or_default().bytes().map(|b| b - b'0').collect();
            one_case(sys, &Shape { len, nch, nshm, faults }, &mut rng, "replay".into()).emit();
        },
        _ => panic!("unknown frag mode"),
    }
}
