//! Scenario `stream` (C20, `async` build): receivers turned into `IpcStream`s.  Seeded scripts over up to 12 channels:
//! messages queued before the conversion, `to_stream` issued from several threads at once, messages sent afterwards
//! (also from clones in other threads, small and multi-packet), sender handles dropped at seeded points or kept.
//! Every stream is consumed by hand-rolled polling with a counting waker: after `Pending` the consumer polls again
//! only when the waker was invoked, so a missing wake-up shows as a stream that never yields.  Per stream the
//! yielded sequence and the end-of-stream are compared with the model (`Async.script`) and with the harness's own
//! reference (messages sent on that channel in order; end iff no sender handle remains).
use crate::util::*;
use futures::stream::{FusedStream, Stream};
use ipc_channel::asynch::IpcStream;
use ipc_channel::ipc::{self, IpcSender};
use std::pin::Pin;
use std::sync::atomic::{AtomicUsize, Ordering};
use std::sync::{Arc, Condvar, Mutex};
use std::task::{Context, Poll, Wake, Waker};
use std::time::{Duration, Instant};

type Msg = (u64, Vec<u8>);

struct CountWaker {
    count: AtomicUsize,
    m: Mutex<()>,
    cv: Condvar,
}
impl Wake for CountWaker {
    fn wake(self: Arc<Self>) {
        self.count.fetch_add(1, Ordering::SeqCst);
        let _g = self.m.lock().unwrap();
        self.cv.notify_all();
    }
}

fn pad_for(tag: u64, big: bool) -> Vec<u8> {
    let n = if big { 300_000 } else { (tag % 50) as usize };
    (0..n).map(|i| (tag as u8).wrapping_mul(41).wrapping_add((i % 251) as u8)).collect()
}

struct Consumed {
    tags: Vec<u64>,
    ended: bool,
    problems: Vec<String>,
    wakes: usize,
    pendings: usize,
}

/// poll until `want` items arrived and (if `want_end`) the end of the stream was seen; never poll after `Pending`
/// unless the waker was invoked
fn consume(mut s: IpcStream<Msg>, want: usize, want_end: bool, big: &std::collections::HashSet<u64>) -> Consumed {
    let w = Arc::new(CountWaker { count: AtomicUsize::new(0), m: Mutex::new(()), cv: Condvar::new() });
    let waker = Waker::from(w.clone());
    let mut cx = Context::from_waker(&waker);
    let mut out = Consumed { tags: vec![], ended: false, problems: vec![], wakes: 0, pendings: 0 };
    let deadline = Instant::now() + Duration::from_secs(10);
    loop {
        let seen = w.count.load(Ordering::SeqCst);
        match Pin::new(&mut s).poll_next(&mut cx) {
            Poll::Ready(Some(Ok((t, pad)))) => {
                if pad != pad_for(t, big.contains(&t)) {
                    out.problems.push(format!("stream yielded message {} with a different payload ({} bytes)", t, pad.len()));
                }
                out.tags.push(t);
            },
            Poll::Ready(Some(Err(e))) => {
                out.problems.push(format!("stream yielded a decode error: {:?}", e));
            },
            Poll::Ready(None) => {
                out.ended = true;
                if !s.is_terminated() {
                    out.problems.push("stream returned None but is_terminated() is false".into());
                }
                break;
            },
            Poll::Pending => {
                out.pendings += 1;
                if out.tags.len() >= want && !want_end {
                    // everything expected has arrived and senders remain: the stream must stay open;
                    // give a late (wrong) extra item or end a moment to show up
                    let g = w.m.lock().unwrap();
                    let _ = w.cv.wait_timeout_while(g, Duration::from_millis(30), |_| w.count.load(Ordering::SeqCst) == seen).unwrap();
                    if w.count.load(Ordering::SeqCst) == seen {
                        break;
                    }
                    continue;
                }
                // wait for the waker, not for time
                let g = w.m.lock().unwrap();
                let left = deadline.saturating_duration_since(Instant::now());
                let _ = w.cv.wait_timeout_while(g, left, |_| w.count.load(Ordering::SeqCst) == seen).unwrap();
                if w.count.load(Ordering::SeqCst) == seen {
                    out.problems.push(format!(
                        "the polling task was not woken within 10 s: stream yielded {} of {} messages{}",
                        out.tags.len(),
                        want,
                        if want_end { " and no end-of-stream" } else { "" }
                    ));
                    break;
                }
            },
        }
        if Instant::now() > deadline {
            out.problems.push("stream consumption did not finish within 10 s".into());
            break;
        }
    }
    out.wakes = w.count.load(Ordering::SeqCst);
    out
}

pub fn run(args: &[String]) {
    let thorough = arg(args, "--tier").as_deref() == Some("thorough");
    let seed = arg_u64(args, "--seed", 1);
    let n = arg_u64(args, "--n", if thorough { 1000 } else { 60 });
    let mut rng = Rng::new(seed ^ 0xa57c);
    let mut failures = 0;
    for i in 0..n {
        if failures >= 3 {
            // every further failing case costs a 10 s watchdog; three concrete failures are enough for a replay
            break;
        }
        let mut case = Case::new(format!("stream-{}", i));
        // burst cases: many conversions back to back on idle channels, then silence, then traffic on one or two of them only
        // (a route whose registration was skipped is not rescued by unrelated events)
        let burst = i % 4 == 3;
        let nch = if burst { rng.range(12, 32) } else if i % 7 == 6 { rng.range(13, 32) } else { rng.range(1, 8) } as usize;
        let nthreads = if burst { 1 } else { rng.range(1, 4) as usize };
        let chosen: Vec<usize> = if burst { vec![nch - 1 - rng.below(3) as usize, rng.below(nch as u64) as usize] } else { vec![] };
        // plan per channel
        struct Plan {
            pre: Vec<u64>,
            post: Vec<u64>,
            post_clone: Vec<u64>, // sent from a clone on another thread, after `post`'s sender thread started
            drop_all: bool,
            drop_before_convert: bool,
        }
        let mut plans = Vec::new();
        let mut tag = (i + 1) * 10_000;
        let mut big = std::collections::HashSet::new();
        let mut nbig = 0;
        for cidx in 0..nch {
            // multi-packet messages only after the conversion: before it nobody drains the socket and the send would block
            let mut mk = |k: u64, rng: &mut Rng, big: &mut std::collections::HashSet<u64>, nbig: &mut u64, may_big: bool| -> Vec<u64> {
                (0..k)
                    .map(|_| {
                        tag += 1;
                        if may_big && *nbig < 3 && rng.chance(1, 12) {
                            big.insert(tag);
                            *nbig += 1;
                        }
                        tag
                    })
                    .collect()
            };
            let active = !burst || chosen.contains(&cidx);
            let npre = if burst { 0 } else { rng.below(6) };
            let npost = if active { rng.below(8) + burst as u64 } else { 0 };
            let nclone = if active { rng.below(4) } else { 0 };
            let pre = mk(npre, &mut rng, &mut big, &mut nbig, false);
            let post = mk(npost, &mut rng, &mut big, &mut nbig, true);
            let post_clone = mk(nclone, &mut rng, &mut big, &mut nbig, true);
            let drop_all = active && rng.chance(2, 3);
            let drop_before_convert = drop_all && post.is_empty() && post_clone.is_empty() && rng.chance(1, 2);
            plans.push(Plan { pre, post, post_clone, drop_all, drop_before_convert });
        }
        // model request: the script in a canonical sequential order
        let mut script: Vec<String> = Vec::new();
        for (c, p) in plans.iter().enumerate() {
            script.push(format!("new {}", c));
            for t in &p.pre {
                script.push(format!("send {} {}", c, t));
            }
            if p.drop_before_convert {
                script.push(format!("dropsnd {}", c));
            }
        }
        for (c, _) in plans.iter().enumerate() {
            script.push(format!("tostream {}", c));
        }
        for (c, p) in plans.iter().enumerate() {
            for t in p.post.iter().chain(p.post_clone.iter()) {
                script.push(format!("send {} {}", c, t));
            }
            if p.drop_all && !p.drop_before_convert {
                script.push(format!("dropsnd {}", c));
            }
        }
        // ---- real execution
        let mut txs: Vec<Option<IpcSender<Msg>>> = Vec::new();
        let mut rxs = Vec::new();
        for p in &plans {
            let (tx, rx) = ipc::channel::<Msg>().unwrap();
            for t in &p.pre {
                tx.send((*t, pad_for(*t, big.contains(t)))).unwrap();
            }
            txs.push(if p.drop_before_convert { None } else { Some(tx) });
            rxs.push(Some(rx));
        }
        // conversions from several threads at once
        let mut groups: Vec<Vec<(usize, ipc::IpcReceiver<Msg>)>> = (0..nthreads).map(|_| Vec::new()).collect();
        for c in 0..nch {
            groups[rng.below(nthreads as u64) as usize].push((c, rxs[c].take().unwrap()));
        }
        let hs: Vec<_> = groups
            .into_iter()
            .map(|g| std::thread::spawn(move || g.into_iter().map(|(c, rx)| (c, rx.to_stream())).collect::<Vec<_>>()))
            .collect();
        let mut streams: Vec<Option<IpcStream<Msg>>> = (0..nch).map(|_| None).collect();
        for h in hs {
            for (c, s) in h.join().unwrap() {
                streams[c] = Some(s);
            }
        }
        if burst {
            std::thread::sleep(Duration::from_millis(60));
            case.tags.push("burst_then_silence".into());
        }
        // senders: one thread per channel sends `post`, then a clone in a further thread sends `post_clone`
        let mut sh = Vec::new();
        for (c, p) in plans.iter().enumerate() {
            if let Some(tx) = txs[c].take() {
                let post = p.post.clone();
                let pc = p.post_clone.clone();
                let drop_all = p.drop_all;
                let bigc = big.clone();
                sh.push(std::thread::spawn(move || {
                    for t in &post {
                        let _ = tx.send((*t, pad_for(*t, bigc.contains(t))));
                    }
                    let cl = tx.clone();
                    let bigc2 = bigc.clone();
                    let h = std::thread::spawn(move || {
                        for t in &pc {
                            let _ = cl.send((*t, pad_for(*t, bigc2.contains(t))));
                        }
                        cl
                    });
                    let cl = h.join().unwrap();
                    if drop_all {
                        drop(cl);
                        drop(tx);
                        None
                    } else {
                        Some((tx, cl))
                    }
                }));
            }
        }
        // consumers: one thread per stream
        let ch: Vec<_> = streams
            .into_iter()
            .enumerate()
            .map(|(c, s)| {
                let want = plans[c].pre.len() + plans[c].post.len() + plans[c].post_clone.len();
                let want_end = plans[c].drop_all;
                let bigc = big.clone();
                std::thread::spawn(move || consume(s.unwrap(), want, want_end, &bigc))
            })
            .collect();
        let results: Vec<Consumed> = ch.into_iter().map(|h| h.join().unwrap()).collect();
        // a sender blocked on a channel nobody drains (its route was never registered) would hang the join: leak it instead
        let stuck = results.iter().any(|r| !r.problems.is_empty());
        let kept: Vec<_> = if stuck { sh.into_iter().map(|h| { std::mem::forget(h); None }).collect() } else { sh.into_iter().map(|h| h.join().unwrap()).collect() };
        // ---- oracle + canonical answer
        let mut outs = Vec::new();
        for (c, r) in results.iter().enumerate() {
            let p = &plans[c];
            for pr in &r.problems {
                case.fail(format!("stream {}: {}", c, pr));
            }
            let want: Vec<u64> = p.pre.iter().chain(p.post.iter()).chain(p.post_clone.iter()).cloned().collect();
            if r.tags != want {
                case.fail(format!("stream {} yielded {:?}, the channel was sent {:?}", c, r.tags, want));
            }
            if r.ended != p.drop_all {
                case.fail(format!(
                    "stream {}: end-of-stream {} although {}",
                    c,
                    if r.ended { "reported" } else { "not reported" },
                    if p.drop_all { "every sender handle was dropped" } else { "a sender handle is still alive" }
                ));
            }
            outs.push(format!("s{}={};{}", c, r.tags.iter().map(|t| t.to_string()).collect::<Vec<_>>().join(","), if r.ended { "end" } else { "open" }));
            if r.pendings > 0 {
                case.tags.push("pending_then_woken".into());
            }
        }
        drop(kept);
        case.pair(format!("stream {}", script.join(" | ")), outs.join(" "));
        case.nontrivial = nch > 1 || results.iter().any(|r| r.pendings > 0);
        case.key = script.join("|");
        case.tags.push(format!("streams={}", if nch > 12 { "13+".to_string() } else { nch.to_string() }));
        case.tags.push(format!("convert_threads={}", nthreads));
        if !big.is_empty() {
            case.tags.push("multi_packet".into());
        }
        case.tags.sort();
        case.tags.dedup();
        if case.oracle.is_some() {
            failures += 1;
        }
        case.emit();
    }
}
