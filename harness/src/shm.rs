//! Scenario `shm` (C05, C18): shared-memory regions.
//! (a) platform-level histories — from_bytes / from_byte / clone / send k regions in one small message / drop — whose
//!     interposed ftruncate/mmap/dup/fstat/munmap/close trace and per-handle (length, mapped?, contents) are compared
//!     with `Shm.run`; lengths 0, 1, page±1, 2 pages±1, 64 KiB+1 and seeded ones.
//! (b) oracle-only cases: large regions (up to 32 MiB, incl. ≥ 2 MiB non-multiples), regions inside multi-packet messages
//!     mixed with channels, ipc-level zero-length regions, a spawned receiver process that reads the regions after the
//!     sender dropped its copies and the carrying channel.
use crate::interpose::{self as ip, Ctx, Ev};
use crate::util::*;
use ipc_channel::ipc::{self, IpcSharedMemory};
use ipc_channel::platform::{self, OsIpcChannel, OsIpcSharedMemory};
use std::collections::HashSet;

pub fn content(seed: u64, len: usize) -> Vec<u8> {
    (0..len).map(|i| ((seed as usize) * 31 + i * 7 + i / 256) as u8).collect()
}

fn canon(tr: Vec<(u64, Ev)>) -> String {
    let mut out: Vec<String> = Vec::new();
    let mut shm: HashSet<i32> = HashSet::new();
    let mut maps: std::collections::HashMap<usize, usize> = std::collections::HashMap::new();
    let mut last_fstat: Option<i32> = None;
    for (_, e) in tr {
        let mut was_fstat = None;
        match e {
            Ev::Ftruncate { fd, len, .. } => {
                shm.insert(fd);
                out.push(format!("create:{}", len));
            },
            Ev::Mmap { fd, len, addr } if fd >= 0 => {
                shm.insert(fd);
                maps.insert(addr, len);
                out.push(format!("mmap:{}", len));
            },
            Ev::Munmap { addr, len, .. } => {
                if maps.remove(&addr).is_some() {
                    out.push(format!("munmap:{}", len));
                }
            },
            Ev::Dup { fd, r, .. } if shm.contains(&fd) => {
                shm.insert(r);
                out.push("dup".into());
            },
            Ev::Recvmsg { fds, .. } => {
                for f in fds {
                    shm.insert(f);
                }
            },
            Ev::Fstat { fd } if shm.contains(&fd) => {
                if last_fstat != Some(fd) {
                    out.push("fstat".into());
                }
                was_fstat = Some(fd);
            },
            Ev::Close { fd, .. } => {
                if shm.remove(&fd) {
                    out.push("close".into());
                }
            },
            _ => {},
        }
        last_fstat = was_fstat;
    }
    out.join(" ")
}

struct H {
    os: OsIpcSharedMemory,
    want: Vec<u8>,
}

fn lengths(rng: &mut Rng) -> usize {
    const PAGE: usize = 4096;
    let table = [0, 0, 1, 2, 7, PAGE - 1, PAGE, PAGE + 1, 2 * PAGE - 1, 2 * PAGE, 2 * PAGE + 1, 65537, 3 * PAGE + 5];
    if rng.chance(2, 3) {
        table[rng.below(table.len() as u64) as usize]
    } else {
        rng.range(0, 70_000) as usize
    }
}

/// platform-level history compared with the model
fn history_case(id: String, rng: &mut Rng) -> Case {
    let mut case = Case::new(id);
    let _g = ip::install(Ctx::new(0));
    ip::LEDGER_ON.store(true, std::sync::atomic::Ordering::SeqCst);
    let (tx, rx) = platform::channel().unwrap();
    let _ = ip::take_trace();
    let mut hs: Vec<Option<H>> = Vec::new();
    let mut ops: Vec<String> = Vec::new();
    let nops = rng.range(3, 12);
    for _ in 0..nops {
        let live: Vec<usize> = hs.iter().enumerate().filter(|(_, h)| h.is_some()).map(|(i, _)| i).collect();
        let k = if live.is_empty() { 0 } else { rng.below(10) };
        match k {
            0 | 1 => {
                let len = lengths(rng);
                let seed = rng.below(200);
                let c = content(seed, len);
                let os = OsIpcSharedMemory::from_bytes(&c);
                hs.push(Some(H { os, want: c }));
                ops.push(format!("fb {} {}", len, seed));
                case.tags.push(format!("len_class={}", if len == 0 { "0" } else if len % 4096 == 0 { "page_multiple" } else { "other" }));
            },
            2 => {
                let len = lengths(rng);
                let b = rng.below(256) as u8;
                let os = OsIpcSharedMemory::from_byte(b, len);
                hs.push(Some(H { os, want: vec![b; len] }));
                ops.push(format!("fy {} {}", b, len));
            },
            3 | 4 => {
                let i = live[rng.below(live.len() as u64) as usize];
                let h = hs[i].as_ref().unwrap();
                let c = H { os: h.os.clone(), want: h.want.clone() };
                hs.push(Some(c));
                ops.push(format!("cl {}", i));
            },
            5..=7 => {
                // send 1..8 regions in one small message (the quantifier of C05; theorem C05_many_in_order), then receive it
                let n = rng.range(1, 8) as usize;
                let picks: Vec<usize> = (0..n).map(|_| live[rng.below(live.len() as u64) as usize]).collect();
                let mut regions = Vec::new();
                let base = hs.len();
                for (j, &i) in picks.iter().enumerate() {
                    let h = hs[i].as_ref().unwrap();
                    regions.push(h.os.clone());
                    hs.push(None); // the clone owned by the message: dropped by send
                    ops.push(format!("cl {}", i));
                    let _ = j;
                }
                for j in 0..n {
                    ops.push(format!("fl {}", base + j));
                }
                for j in 0..n {
                    ops.push(format!("dr {}", base + j));
                }
                if let Err(e) = tx.send(b"regions", vec![], regions) {
                    case.fail(format!("send failed: {:?}", e));
                    break;
                }
                match rx.recv() {
                    Ok((d, ch, sh)) => {
                        if d != b"regions" || !ch.is_empty() || sh.len() != n {
                            case.fail(format!("message arrived with {} regions / {} channels, sent {} regions", sh.len(), ch.len(), n));
                        }
                        for (j, os) in sh.into_iter().enumerate() {
                            let want = hs[picks[j.min(n - 1)]].as_ref().map(|h| h.want.clone()).unwrap_or_default();
                            hs.push(Some(H { os, want }));
                            ops.push("rf".into());
                        }
                    },
                    Err(e) => {
                        case.fail(format!("recv failed: {:?}", e));
                        break;
                    },
                }
                case.tags.push(format!("regions_in_message={}", n));
            },
            _ => {
                let i = live[rng.below(live.len() as u64) as usize];
                hs[i] = None;
                ops.push(format!("dr {}", i));
            },
        }
    }
    // oracle: every live handle reads its bytes
    let mut hd = Vec::new();
    for (i, h) in hs.iter().enumerate() {
        if let Some(h) = h {
            let got: &[u8] = &h.os;
            let ok = got == &h.want[..];
            if !ok {
                let first = got.iter().zip(h.want.iter()).position(|(a, b)| a != b);
                case.fail(format!(
                    "region handle {} reads {} bytes, the region was created from {} bytes (first difference at {:?})",
                    i,
                    got.len(),
                    h.want.len(),
                    first
                ));
            }
            hd.push(format!("{}={}:{}:{}", i, got.len(), if got.is_empty() { "null" } else { "map" }, if ok { "ok" } else { "bad" }));
        }
    }
    let tr = canon(ip::take_trace());
    case.pair(format!("shm {}", ops.join(" | ")), format!("{} ; {}", tr, hd.join(" ")));
    drop(hs);
    ip::LEDGER_ON.store(false, std::sync::atomic::Ordering::SeqCst);
    {
        let mut led = ip::LEDGER.lock().unwrap();
        if !led.bad_unmaps.is_empty() {
            case.fail(format!("munmap with a length different from the mapping's: {:?}", led.bad_unmaps));
        }
        if !led.bad_closes.is_empty() {
            case.fail(format!("close() failed or hit a descriptor twice: {:?}", led.bad_closes));
        }
        if !led.maps.is_empty() {
            case.fail(format!("{} shared mappings were never unmapped", led.maps.len()));
        }
        led.bad_unmaps.clear();
        led.bad_closes.clear();
        led.maps.clear();
        led.open.clear();
        led.not_cloexec.clear();
    }
    let left = ip::shared_maps_count();
    if left != 0 {
        case.fail(format!("{} shared mappings remain after every region handle was dropped", left));
    }
    case.nontrivial = ops.iter().any(|o| o == "rf") || ops.iter().filter(|o| o.starts_with("cl")).count() > 0;
    case.key = ops.join("|");
    case
}

/// child role: receive one message with regions, verify them against the (seed,len) list in the data part
pub fn child(args: &[String]) {
    let name = arg(args, "--name").unwrap();
    let tx = platform::OsIpcSender::connect(name).unwrap();
    let (mtx, mrx) = platform::channel().unwrap();
    tx.send(b"hello", vec![OsIpcChannel::Sender(mtx)], vec![]).unwrap();
    // let the parent drop its copies and the carrying channel's sending end first
    std::thread::sleep(std::time::Duration::from_millis(40));
    let (d, _, sh) = mrx.recv().unwrap();
    let spec: Vec<(u64, usize)> = String::from_utf8(d)
        .unwrap()
        .split(',')
        .filter(|s| !s.is_empty())
        .map(|p| {
            let mut it = p.split(':');
            (it.next().unwrap().parse().unwrap(), it.next().unwrap().parse().unwrap())
        })
        .collect();
    if spec.len() != sh.len() {
        std::process::exit(4);
    }
    for ((seed, len), os) in spec.iter().zip(sh.iter()) {
        let got: &[u8] = os;
        if got != &content(*seed, *len)[..] {
            eprintln!("region of {} bytes arrived as {} bytes or with different contents", len, got.len());
            std::process::exit(3);
        }
    }
    std::process::exit(0);
}

fn oracle_cases(thorough: bool, rng: &mut Rng, out: &mut Vec<Case>) {
    // large lengths, same process, ipc level, inside small and multi-packet messages mixed with channels
    let mut big: Vec<usize> = vec![2 * 1024 * 1024 + 4097, 2 * 1024 * 1024, 5 * 1024 * 1024 + 1];
    if thorough {
        big.extend([32 * 1024 * 1024, 2 * 1024 * 1024 - 1, 4 * 1024 * 1024 + 4095, 1024 * 1024 + 17, 8 * 1024 * 1024 + 3]);
    }
    for (n, len) in big.iter().enumerate() {
        let mut c = Case::new(format!("shm-big-{}", n));
        let seed = rng.below(200);
        let want = content(seed, *len);
        let r = IpcSharedMemory::from_bytes(&want);
        let (tx, rx) = ipc::channel::<(Vec<u8>, IpcSharedMemory, ipc::IpcSender<u8>, IpcSharedMemory)>().unwrap();
        let (ptx, prx) = ipc::channel::<u8>().unwrap();
        let pad = vec![7u8; if n % 2 == 0 { 10 } else { 300_000 }];
        let small = IpcSharedMemory::from_byte(9, 5);
        let t = std::thread::spawn(move || rx.recv());
        tx.send((pad.clone(), r.clone(), ptx, small)).unwrap();
        drop(r);
        drop(tx);
        match t.join().unwrap() {
            Ok((p, got, s, sm)) => {
                if p != pad {
                    c.fail("data part damaged".into());
                }
                if &*got != &want[..] {
                    c.fail(format!("region of {} bytes arrived as {} bytes or with different contents", len, got.len()));
                }
                if &*sm != &[9u8; 5][..] {
                    c.fail("second region of the message arrived with the wrong contents (order?)".into());
                }
                let cl = got.clone();
                drop(got);
                if &*cl != &want[..] {
                    c.fail(format!("clone of the received {}-byte region reads {} bytes / different contents", len, cl.len()));
                }
                s.send(1).unwrap();
                if prx.recv().ok() != Some(1) {
                    c.fail("endpoint sent next to the regions does not work".into());
                }
            },
            Err(e) => c.fail(format!("recv failed: {:?}", e)),
        }
        c.pair("noop".into(), "ok".into());
        c.nontrivial = true;
        c.key = format!("big:{}", len);
        c.tags.push("oracle=large_region".into());
        out.push(c);
    }
    // 1..8 regions in one ipc-level message, any order: repeats of one region, clones of clones (0..3 deep), empty
    // regions between non-empty ones; the sender's copies and the channel's sending end are gone before the read
    for t in 0..(if thorough { 60 } else { 12 }) {
        let mut c = Case::new(format!("shm-many-ipc-{}", t));
        let lens = [0usize, 1, 4095, 4097, 8193, 3, 0, 70_000];
        let pool: Vec<(Vec<u8>, IpcSharedMemory)> = (0..5)
            .map(|_| {
                let w = content(rng.below(200), lens[rng.below(lens.len() as u64) as usize]);
                let r = if w.is_empty() && rng.below(2) == 0 { IpcSharedMemory::from_byte(3, 0) } else { IpcSharedMemory::from_bytes(&w) };
                (w, r)
            })
            .collect();
        let n = rng.range(1, 8) as usize;
        let mut wants = Vec::new();
        let mut msg = Vec::new();
        for _ in 0..n {
            let (w, r) = &pool[rng.below(pool.len() as u64) as usize];
            let mut cl = r.clone();
            for _ in 0..rng.below(4) {
                cl = cl.clone();
            }
            wants.push(w.clone());
            msg.push(cl);
        }
        let (tx, rx) = ipc::channel::<(u32, Vec<IpcSharedMemory>)>().unwrap();
        match tx.send((n as u32, msg)) {
            Ok(()) => {},
            Err(e) => c.fail(format!("send of {} regions failed: {:?}", n, e)),
        }
        drop(tx);
        drop(pool);
        match rx.recv() {
            Ok((k, got)) => {
                if k as usize != n || got.len() != n {
                    c.fail(format!("sent {} regions, {} arrived", n, got.len()));
                }
                for (j, (g, w)) in got.iter().zip(wants.iter()).enumerate() {
                    if &**g != &w[..] {
                        c.fail(format!("region {} of {} arrived with {} bytes / other contents, sent {} bytes", j, n, g.len(), w.len()));
                    }
                }
                drop(rx);
                for (j, (g, w)) in got.iter().zip(wants.iter()).enumerate() {
                    if &*g.clone() != &w[..] {
                        c.fail(format!("region {} of {} unreadable after the channel was dropped", j, n));
                    }
                }
            },
            Err(e) => c.fail(format!("recv failed: {:?}", e)),
        }
        c.pair("noop".into(), "ok".into());
        c.nontrivial = true;
        c.key = format!("many-ipc:{}", n);
        c.tags.push("oracle=many_regions_ipc_level".into());
        c.tags.push(format!("ipc_regions_in_message={}", n));
        out.push(c);
    }
    // zero length at the ipc level
    {
        let mut c = Case::new("shm-zero-ipc".into());
        let z1 = IpcSharedMemory::from_bytes(&[]);
        let z2 = IpcSharedMemory::from_byte(5, 0);
        if !z1.is_empty() || !z2.is_empty() || !z1.clone().is_empty() {
            c.fail("zero-length region does not read as empty".into());
        }
        let (tx, rx) = ipc::channel::<(IpcSharedMemory, IpcSharedMemory, IpcSharedMemory)>().unwrap();
        let one = IpcSharedMemory::from_bytes(&[1, 2, 3]);
        tx.send((z1, one, z2)).unwrap();
        match rx.recv() {
            Ok((a, b, d)) => {
                if !a.is_empty() || !d.is_empty() || &*b != &[1u8, 2, 3][..] {
                    c.fail("zero-length regions next to a non-empty one arrived wrong".into());
                }
            },
            Err(e) => c.fail(format!("recv failed: {:?}", e)),
        }
        // platform level
        let p = OsIpcSharedMemory::from_bytes(&[]);
        let q = OsIpcSharedMemory::from_byte(1, 0);
        if !p.is_empty() || !q.is_empty() || !p.clone().is_empty() {
            c.fail("platform-level zero-length region does not read as empty".into());
        }
        c.pair("noop".into(), "ok".into());
        c.nontrivial = true;
        c.key = "zero".into();
        c.tags.push("oracle=zero_length_all_levels".into());
        out.push(c);
    }
    // another process reads the regions after the sender's copies and the channel are gone
    for n in 0..(if thorough { 6 } else { 2 }) {
        let mut c = Case::new(format!("shm-proc-{}", n));
        let (server, name) = platform::OsIpcOneShotServer::new().unwrap();
        let mut ch = std::process::Command::new(std::env::current_exe().unwrap()).args(["shmchild", "--name", &name]).spawn().unwrap();
        let (_rx, d, mut chans, _) = server.accept().unwrap();
        if d != b"hello" || chans.len() != 1 {
            c.fail("bootstrap damaged".into());
        }
        let mtx = chans.pop().unwrap().to_sender();
        let k = rng.range(1, 4) as usize;
        let mut spec = Vec::new();
        let mut regions = Vec::new();
        for _ in 0..k {
            let len = if rng.chance(1, 3) { rng.range(0, 3_000_000) as usize } else { lengths(rng) };
            let seed = rng.below(200);
            regions.push(OsIpcSharedMemory::from_bytes(&content(seed, len)));
            spec.push(format!("{}:{}", seed, len));
        }
        mtx.send(spec.join(",").as_bytes(), vec![], regions).unwrap();
        drop(mtx);
        let st = ch.wait().unwrap();
        if st.code() != Some(0) {
            c.fail(format!("receiving process reported wrong region contents/lengths for ({}) (exit {:?})", spec.join(","), st.code()));
        }
        c.pair("noop".into(), "ok".into());
        c.nontrivial = true;
        c.key = format!("proc:{}", spec.join(","));
        c.tags.push("oracle=other_process_after_sender_dropped".into());
        out.push(c);
    }
}

pub fn run(args: &[String]) {
    let thorough = arg(args, "--tier").as_deref() == Some("thorough");
    let seed = arg_u64(args, "--seed", 1);
    let n = arg_u64(args, "--n", if thorough { 2000 } else { 100 });
    let mut rng = Rng::new(seed ^ 0x5a3e);
    for i in 0..n {
        let mut c = history_case(format!("shm-{}", i), &mut rng);
        c.tags.push(format!("build={}", if cfg!(feature = "memfd") { "memfd" } else { "os" }));
        c.tags.sort();
        c.tags.dedup();
        c.emit();
    }
    if arg(args, "--oracle").as_deref() != Some("0") {
        let mut out = Vec::new();
        oracle_cases(thorough, &mut rng, &mut out);
        for c in out {
            c.emit();
        }
    }
}
