//! Dynamic `Value`/`Schema` pair over the crate's own endpoint types, with hand-written `Serialize` and
//! schema-directed `Deserialize` (through a thread-local "expected schema"), plus the text form shared with the
//! Lean driver (prefix notation).
use crate::util::Rng;
use ipc_channel::ipc::{IpcSender, IpcSharedMemory, OpaqueIpcReceiver, OpaqueIpcSender};
use serde::de::{self, DeserializeSeed, EnumAccess, SeqAccess, VariantAccess, Visitor};
use serde::ser::{self, SerializeSeq, SerializeTuple};
use serde::{Deserialize, Deserializer, Serialize, Serializer};
use std::cell::RefCell;
use std::fmt;

#[derive(Clone, Debug, PartialEq)]
pub enum Schema {
    Int(usize),
    Bool,
    Str,
    Opt(Box<Schema>),
    Seq(Box<Schema>),
    Tup(Vec<Schema>),
    Enum(Vec<Schema>),
    Sender,
    Receiver,
    Shm,
    /// a `Deserialize` impl that performs a receive on registered channel k while the enclosing value is decoded
    RecvInside(usize),
}

pub enum Value {
    Int(usize, u64),
    Bool(bool),
    Str(Vec<u8>),
    Opt(Option<Box<Value>>),
    Seq(Vec<Value>),
    Tup(Vec<Value>),
    Var(u32, Box<Value>),
    /// label (channel number, usize::MAX = unknown), endpoint
    Sender(usize, OpaqueIpcSender),
    Receiver(usize, RefCell<Option<OpaqueIpcReceiver>>),
    Shm(usize, IpcSharedMemory),
    EShm,
    /// serialisation program nodes (C14): a nested send performed while being serialised, and a failure
    Nested(IpcSender<Dyn>, RefCell<Option<Box<Value>>>, std::rc::Rc<RefCell<Vec<bool>>>),
    Fail,
}

/// wrapper giving `Value` a `Deserialize` impl: the expected schema comes from a thread-local
pub struct Dyn(pub Value);

thread_local! {
    pub static EXPECT: RefCell<Option<Schema>> = const { RefCell::new(None) };
    /// receivers (with the schema of what they carry) used by `Schema::RecvInside`
    pub static NESTED_RX: RefCell<Vec<Option<(ipc_channel::ipc::IpcReceiver<Dyn>, Schema)>>> = const { RefCell::new(Vec::new()) };
    /// what the nested receives returned, in order
    pub static NESTED_OUT: RefCell<Vec<Result<Value, String>>> = const { RefCell::new(Vec::new()) };
}
pub fn expect(s: &Schema) {
    EXPECT.with(|e| *e.borrow_mut() = Some(s.clone()));
}

impl Serialize for Dyn {
    fn serialize<S: Serializer>(&self, s: S) -> Result<S::Ok, S::Error> {
        self.0.serialize(s)
    }
}
impl<'de> Deserialize<'de> for Dyn {
    fn deserialize<D: Deserializer<'de>>(d: D) -> Result<Self, D::Error> {
        let schema = EXPECT.with(|e| e.borrow().clone()).expect("no expected schema set");
        Ok(Dyn(schema.deserialize(d)?))
    }
}

impl Serialize for Value {
    fn serialize<S: Serializer>(&self, s: S) -> Result<S::Ok, S::Error> {
        match self {
            Value::Int(1, n) => s.serialize_u8(*n as u8),
            Value::Int(2, n) => s.serialize_u16(*n as u16),
            Value::Int(4, n) => s.serialize_u32(*n as u32),
            Value::Int(_, n) => s.serialize_u64(*n),
            Value::Bool(b) => s.serialize_bool(*b),
            Value::Str(b) => s.serialize_str(std::str::from_utf8(b).map_err(|_| ser::Error::custom("bad utf8"))?),
            Value::Opt(None) => s.serialize_none(),
            Value::Opt(Some(v)) => s.serialize_some(&**v),
            Value::Seq(vs) => {
                let mut q = s.serialize_seq(Some(vs.len()))?;
                for v in vs {
                    q.serialize_element(v)?;
                }
                q.end()
            },
            Value::Tup(vs) => {
                let mut q = s.serialize_tuple(vs.len())?;
                for v in vs {
                    q.serialize_element(v)?;
                }
                q.end()
            },
            Value::Var(k, v) => s.serialize_newtype_variant("E", *k, "V", &**v),
            Value::Sender(_, x) => x.serialize(s),
            Value::Receiver(_, x) => match &*x.borrow() {
                Some(r) => r.serialize(s),
                None => Err(ser::Error::custom("receiver already moved")),
            },
            Value::Shm(_, m) => m.serialize(s),
            Value::EShm => IpcSharedMemory::from_bytes(&[]).serialize(s),
            Value::Nested(tx, inner, result) => {
                if let Some(v) = inner.borrow_mut().take() {
                    let r = tx.send(Dyn(*v));
                    result.borrow_mut().push(r.is_ok());
                }
                s.serialize_tuple(0)?.end()
            },
            Value::Fail => Err(ser::Error::custom("serialisation failure requested by the test value")),
        }
    }
}

struct VarIdx;
impl<'de> DeserializeSeed<'de> for VarIdx {
    type Value = u32;
    fn deserialize<D: Deserializer<'de>>(self, d: D) -> Result<u32, D::Error> {
        struct V;
        impl<'de> Visitor<'de> for V {
            type Value = u32;
            fn expecting(&self, f: &mut fmt::Formatter) -> fmt::Result {
                f.write_str("variant index")
            }
            fn visit_u32<E: de::Error>(self, v: u32) -> Result<u32, E> {
                Ok(v)
            }
            fn visit_u64<E: de::Error>(self, v: u64) -> Result<u32, E> {
                Ok(v as u32)
            }
        }
        d.deserialize_identifier(V)
    }
}

impl<'de, 'a> DeserializeSeed<'de> for &'a Schema {
    type Value = Value;
    fn deserialize<D: Deserializer<'de>>(self, d: D) -> Result<Value, D::Error> {
        match self {
            Schema::Int(1) => Ok(Value::Int(1, u8::deserialize(d)? as u64)),
            Schema::Int(2) => Ok(Value::Int(2, u16::deserialize(d)? as u64)),
            Schema::Int(4) => Ok(Value::Int(4, u32::deserialize(d)? as u64)),
            Schema::Int(_) => Ok(Value::Int(8, u64::deserialize(d)?)),
            Schema::Bool => Ok(Value::Bool(bool::deserialize(d)?)),
            Schema::Str => Ok(Value::Str(String::deserialize(d)?.into_bytes())),
            Schema::Opt(s) => {
                struct V<'a>(&'a Schema);
                impl<'de, 'a> Visitor<'de> for V<'a> {
                    type Value = Value;
                    fn expecting(&self, f: &mut fmt::Formatter) -> fmt::Result {
                        f.write_str("option")
                    }
                    fn visit_none<E: de::Error>(self) -> Result<Value, E> {
                        Ok(Value::Opt(None))
                    }
                    fn visit_some<D: Deserializer<'de>>(self, d: D) -> Result<Value, D::Error> {
                        Ok(Value::Opt(Some(Box::new(self.0.deserialize(d)?))))
                    }
                }
                d.deserialize_option(V(s))
            },
            Schema::Seq(s) => {
                struct V<'a>(&'a Schema);
                impl<'de, 'a> Visitor<'de> for V<'a> {
                    type Value = Value;
                    fn expecting(&self, f: &mut fmt::Formatter) -> fmt::Result {
                        f.write_str("sequence")
                    }
                    fn visit_seq<A: SeqAccess<'de>>(self, mut a: A) -> Result<Value, A::Error> {
                        let mut out = Vec::new();
                        while let Some(v) = a.next_element_seed(self.0)? {
                            out.push(v);
                        }
                        Ok(Value::Seq(out))
                    }
                }
                d.deserialize_seq(V(s))
            },
            Schema::Tup(ss) => {
                struct V<'a>(&'a [Schema]);
                impl<'de, 'a> Visitor<'de> for V<'a> {
                    type Value = Value;
                    fn expecting(&self, f: &mut fmt::Formatter) -> fmt::Result {
                        f.write_str("tuple")
                    }
                    fn visit_seq<A: SeqAccess<'de>>(self, mut a: A) -> Result<Value, A::Error> {
                        let mut out = Vec::new();
                        for s in self.0 {
                            match a.next_element_seed(s)? {
                                Some(v) => out.push(v),
                                None => return Err(de::Error::custom("tuple too short")),
                            }
                        }
                        Ok(Value::Tup(out))
                    }
                }
                d.deserialize_tuple(ss.len(), V(ss))
            },
            Schema::Enum(ss) => {
                struct V<'a>(&'a [Schema]);
                impl<'de, 'a> Visitor<'de> for V<'a> {
                    type Value = Value;
                    fn expecting(&self, f: &mut fmt::Formatter) -> fmt::Result {
                        f.write_str("enum")
                    }
                    fn visit_enum<A: EnumAccess<'de>>(self, a: A) -> Result<Value, A::Error> {
                        let (k, va) = a.variant_seed(VarIdx)?;
                        match self.0.get(k as usize) {
                            None => Err(de::Error::custom("invalid variant index")),
                            Some(s) => Ok(Value::Var(k, Box::new(va.newtype_variant_seed(s)?))),
                        }
                    }
                }
                d.deserialize_enum("E", &[], V(ss))
            },
            Schema::RecvInside(k) => {
                let entry = NESTED_RX.with(|n| n.borrow_mut().get_mut(*k).and_then(Option::take));
                if let Some((rx, inner)) = entry {
                    let outer = EXPECT.with(|e| e.borrow().clone());
                    expect(&inner);
                    let r = rx.recv();
                    EXPECT.with(|e| *e.borrow_mut() = outer);
                    NESTED_OUT.with(|o| o.borrow_mut().push(r.map(|d| d.0).map_err(|e| format!("{:?}", e))));
                }
                // occupies no bytes of the enclosing message
                struct V;
                impl<'de> Visitor<'de> for V {
                    type Value = Value;
                    fn expecting(&self, f: &mut fmt::Formatter) -> fmt::Result {
                        f.write_str("unit")
                    }
                    fn visit_seq<A: SeqAccess<'de>>(self, _a: A) -> Result<Value, A::Error> {
                        Ok(Value::Tup(vec![]))
                    }
                }
                d.deserialize_tuple(0, V)
            },
            Schema::Sender => Ok(Value::Sender(usize::MAX, OpaqueIpcSender::deserialize(d)?)),
            Schema::Receiver => Ok(Value::Receiver(usize::MAX, RefCell::new(Some(OpaqueIpcReceiver::deserialize(d)?)))),
            Schema::Shm => {
                let m = IpcSharedMemory::deserialize(d)?;
                if m.is_empty() {
                    Ok(Value::EShm)
                } else {
                    Ok(Value::Shm(usize::MAX, m))
                }
            },
        }
    }
}

// ------------------------------------------------------------------------------------------- text forms
impl Schema {
    pub fn text(&self) -> String {
        match self {
            Schema::Int(w) => format!("u{}", w * 8),
            Schema::Bool => "bool".into(),
            Schema::Str => "str".into(),
            Schema::Opt(s) => format!("opt {}", s.text()),
            Schema::Seq(s) => format!("seq {}", s.text()),
            Schema::Tup(ss) => format!("tup {} {}", ss.len(), ss.iter().map(|s| s.text()).collect::<Vec<_>>().join(" ")).trim_end().to_string(),
            Schema::Enum(ss) => format!("enum {} {}", ss.len(), ss.iter().map(|s| s.text()).collect::<Vec<_>>().join(" ")).trim_end().to_string(),
            Schema::Sender => "snd".into(),
            Schema::Receiver => "rcv".into(),
            Schema::Shm => "shm".into(),
            Schema::RecvInside(_) => "tup 0".into(),
        }
    }
}
pub fn hex(b: &[u8]) -> String {
    if b.is_empty() {
        return "-".into();
    }
    b.iter().map(|x| format!("{:02x}", x)).collect()
}
impl Value {
    /// text form; endpoints print their label
    pub fn text(&self) -> String {
        match self {
            Value::Int(w, n) => format!("i{} {}", w * 8, n),
            Value::Bool(b) => format!("b{}", *b as u8),
            Value::Str(b) => format!("s {}", hex(b)),
            Value::Opt(None) => "none".into(),
            Value::Opt(Some(v)) => format!("some {}", v.text()),
            Value::Seq(vs) => format!("seq {} {}", vs.len(), vs.iter().map(|v| v.text()).collect::<Vec<_>>().join(" ")).trim_end().to_string(),
            Value::Tup(vs) => format!("tup {} {}", vs.len(), vs.iter().map(|v| v.text()).collect::<Vec<_>>().join(" ")).trim_end().to_string(),
            Value::Var(k, v) => format!("var {} {}", k, v.text()),
            Value::Sender(l, _) => format!("snd {}", lab(*l)),
            Value::Receiver(l, _) => format!("rcv {}", lab(*l)),
            Value::Shm(l, _) => format!("shm {}", lab(*l)),
            Value::EShm => "eshm".into(),
            Value::Nested(..) => "nested".into(),
            Value::Fail => "fail".into(),
        }
    }
    pub fn walk_mut(&mut self, f: &mut dyn FnMut(&mut Value)) {
        match self {
            Value::Opt(Some(v)) | Value::Var(_, v) => v.walk_mut(f),
            Value::Seq(vs) | Value::Tup(vs) => {
                for v in vs {
                    v.walk_mut(f)
                }
            },
            _ => f(self),
        }
    }
    pub fn size(&self) -> usize {
        match self {
            Value::Opt(Some(v)) | Value::Var(_, v) => 1 + v.size(),
            Value::Seq(vs) | Value::Tup(vs) => 1 + vs.iter().map(|v| v.size()).sum::<usize>(),
            _ => 1,
        }
    }
}
fn lab(l: usize) -> String {
    if l == usize::MAX {
        "?".into()
    } else {
        l.to_string()
    }
}

// ------------------------------------------------------------------------------------------- generators
pub fn gen_schema(rng: &mut Rng, depth: usize, endpoints: bool) -> Schema {
    let leafs = if endpoints { 9 } else { 6 };
    let k = if depth == 0 { rng.below(leafs) } else { rng.below(leafs + 6) };
    match k {
        0 => Schema::Int(1),
        1 => Schema::Int(2),
        2 => Schema::Int(4),
        3 => Schema::Int(8),
        4 => Schema::Bool,
        5 => Schema::Str,
        6 if endpoints => Schema::Sender,
        7 if endpoints => Schema::Receiver,
        8 if endpoints => Schema::Shm,
        x => match (x - leafs) % 4 {
            0 => Schema::Opt(Box::new(gen_schema(rng, depth - 1, endpoints))),
            1 => Schema::Seq(Box::new(gen_schema(rng, depth - 1, endpoints))),
            2 => {
                let n = rng.range(1, 4) as usize;
                Schema::Tup((0..n).map(|_| gen_schema(rng, depth - 1, endpoints)).collect())
            },
            _ => {
                let n = rng.range(1, 4) as usize;
                Schema::Enum((0..n).map(|_| gen_schema(rng, depth - 1, endpoints)).collect())
            },
        },
    }
}

/// the fixed family of 12 expected types used by the decoder fuzz (C16)
pub fn family() -> Vec<Schema> {
    use Schema::*;
    vec![
        Int(1),
        Int(8),
        Str,
        Seq(Box::new(Int(4))),
        Opt(Box::new(Str)),
        Enum(vec![Int(1), Str, Tup(vec![Int(2), Bool])]),
        Sender,
        Receiver,
        Shm,
        Tup(vec![Sender, Int(8), Sender]),
        Seq(Box::new(Tup(vec![Opt(Box::new(Receiver)), Shm]))),
        Tup(vec![Str, Seq(Box::new(Enum(vec![Sender, Shm, Int(8)]))), Bool]),
    ]
}

fn gen_str(rng: &mut Rng) -> Vec<u8> {
    let n = rng.below(12) as usize;
    let mut s = String::new();
    for _ in 0..n {
        let c = match rng.below(6) {
            0 => 'é',
            1 => '€',
            2 => '😀',
            _ => (b'a' + rng.below(26) as u8) as char,
        };
        s.push(c);
    }
    s.into_bytes()
}

/// endpoint factory: called for every endpoint leaf, returns a labelled `Value`
pub trait Endpoints {
    fn sender(&mut self) -> Value;
    fn receiver(&mut self) -> Value;
    fn shm(&mut self, rng: &mut Rng) -> Value;
}

pub fn gen_value(rng: &mut Rng, s: &Schema, ep: &mut dyn Endpoints, budget: &mut usize) -> Value {
    *budget = budget.saturating_sub(1);
    match s {
        Schema::Int(w) => {
            let n = match rng.below(4) {
                0 => 0,
                1 => u64::MAX,
                _ => rng.next(),
            };
            let m = if *w == 8 { n } else { n & ((1u64 << (8 * w)) - 1) };
            Value::Int(*w, m)
        },
        Schema::Bool => Value::Bool(rng.chance(1, 2)),
        Schema::Str => Value::Str(gen_str(rng)),
        Schema::Opt(s) => {
            if rng.chance(1, 3) || *budget == 0 {
                Value::Opt(None)
            } else {
                Value::Opt(Some(Box::new(gen_value(rng, s, ep, budget))))
            }
        },
        Schema::Seq(s) => {
            let n = if *budget == 0 { 0 } else { rng.below(5) as usize };
            Value::Seq((0..n).map(|_| gen_value(rng, s, ep, budget)).collect())
        },
        Schema::Tup(ss) => Value::Tup(ss.iter().map(|s| gen_value(rng, s, ep, budget)).collect()),
        Schema::Enum(ss) => {
            let k = rng.below(ss.len() as u64) as usize;
            Value::Var(k as u32, Box::new(gen_value(rng, &ss[k], ep, budget)))
        },
        Schema::RecvInside(_) => Value::Tup(vec![]),
        Schema::Sender => ep.sender(),
        Schema::Receiver => ep.receiver(),
        Schema::Shm => {
            if rng.chance(1, 5) {
                Value::EShm
            } else {
                ep.shm(rng)
            }
        },
    }
}
