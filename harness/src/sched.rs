//! Scenario `sched` (C02, C12, C13 under concurrency): real sender threads and a real receiver thread of the crate,
//! driven one system call at a time by a controller through the interposer's gate.  The executed schedule (with
//! injected ENOBUFS / fatal errors) is emitted as a request for the Lean interleaving model `IM.run`; the delivered
//! sequence, the first-packet order and every message's fate must agree.
use crate::interpose::{self as ip, Ctx};
use crate::util::*;
use ipc_channel::platform::{self, OsIpcSender};
use std::sync::atomic::{AtomicBool, AtomicUsize, Ordering};
use std::sync::{Arc, Mutex};

const RECV_TID: usize = 99;

fn payload(id: usize, len: usize) -> Vec<u8> {
    let mut v = Vec::with_capacity(len);
    let mut x = (id as u64 + 1).wrapping_mul(0x9E3779B97F4A7C15);
    for i in 0..len {
        if i < 8 {
            v.push((id as u64).to_le_bytes()[i]);
        } else {
            x ^= x << 13;
            x ^= x >> 7;
            x ^= x << 17;
            v.push(x as u8);
        }
    }
    v
}
fn check_payload(d: &[u8]) -> Option<usize> {
    if d.len() < 8 {
        return None;
    }
    let id = u64::from_le_bytes(d[..8].try_into().unwrap()) as usize;
    if payload(id, d.len()) == d {
        Some(id)
    } else {
        None
    }
}

fn readable(fd: i32) -> bool {
    let mut p = libc::pollfd { fd, events: libc::POLLIN, revents: 0 };
    // the controller thread has no gated context, so this poll goes straight to the kernel
    let r = unsafe { libc::poll(&mut p, 1, 0) };
    r > 0
}

pub fn one_case(sys: usize, rng: &mut Rng, id: String, nthreads: usize, max_msgs: usize, fault_budget: usize) -> Case {
    let mut case = Case::new(id);
    let max = OsIpcSender::get_max_fragment_size();
    let fs = sys - 32;
    // message plan
    let mut lens = Vec::new();
    let mut threads: Vec<Vec<usize>> = Vec::new();
    for _ in 0..nthreads {
        let n = 1 + rng.below(max_msgs as u64) as usize;
        let mut mine = Vec::new();
        for _ in 0..n {
            let len = match rng.below(6) {
                0 => 8 + rng.below(100) as usize,
                1 => max,
                2 => max + 1,
                3 => max + fs + rng.below(50) as usize,
                4 => 2100 + rng.below(1500) as usize,
                _ => max + 2 * fs + 1 + rng.below(2000) as usize,
            };
            mine.push(lens.len());
            lens.push(len);
        }
        threads.push(mine);
    }
    let total = lens.len();
    let (tx, rx) = platform::channel().unwrap();
    let results: Arc<Mutex<Vec<Option<bool>>>> = Arc::new(Mutex::new(vec![None; total]));
    let delivered: Arc<Mutex<Vec<(usize, usize, bool)>>> = Arc::new(Mutex::new(Vec::new())); // (id, len, intact)
    let recv_errors = Arc::new(AtomicUsize::new(0));
    let recv_done = Arc::new(AtomicBool::new(false));
    let sender_done: Vec<Arc<AtomicBool>> = (0..nthreads).map(|_| Arc::new(AtomicBool::new(false))).collect();
    // which message a thread is about to start (so that the controller can emit the model's decision step)
    let started: Arc<Mutex<Vec<usize>>> = Arc::new(Mutex::new(vec![0; nthreads]));

    ip::GATE_ON.store(true, Ordering::SeqCst);
    let mut handles = Vec::new();
    for t in 0..nthreads {
        let tx = tx.clone();
        let mine = threads[t].clone();
        let lens = lens.clone();
        let results = results.clone();
        let done = sender_done[t].clone();
        handles.push(std::thread::spawn(move || {
            let mut c = Ctx::new(t);
            c.gated = true;
            c.record = false;
            let _g = ip::install(c);
            for m in mine {
                let data = payload(m, lens[m]);
                let r = tx.send(&data, vec![], vec![]);
                results.lock().unwrap()[m] = Some(r.is_ok());
            }
            done.store(true, Ordering::SeqCst);
            ip::with_ctx(|c| c.gated = false);
        }));
    }
    {
        let delivered = delivered.clone();
        let recv_errors = recv_errors.clone();
        let recv_done = recv_done.clone();
        handles.push(std::thread::spawn(move || {
            let mut c = Ctx::new(RECV_TID);
            c.gated = true;
            c.record = false;
            let _g = ip::install(c);
            loop {
                match rx.recv() {
                    Ok((d, _, _)) => {
                        if d == b"__end__" {
                            break;
                        }
                        match check_payload(&d) {
                            Some(id) => delivered.lock().unwrap().push((id, d.len(), true)),
                            None => delivered.lock().unwrap().push((usize::MAX, d.len(), false)),
                        }
                    },
                    Err(_) => {
                        if recv_errors.fetch_add(1, Ordering::SeqCst) > 50 {
                            break;
                        }
                    },
                }
            }
            recv_done.store(true, Ordering::SeqCst);
            ip::with_ctx(|c| c.gated = false);
        }));
    }
    // ---- controller
    let mut sched: Vec<String> = Vec::new();
    let mut faults_left = fault_budget;
    let mut next_msg_idx = vec![0usize; nthreads]; // index into threads[t] of the message whose calls come next
    let mut in_msg = vec![false; nthreads];
    let mut end_sent = false;
    let mut idle_rounds = 0;
    loop {
        // who is parked?
        let mut cands: Vec<(usize, String)> = Vec::new();
        {
            let g = ip::GATE.lock().unwrap();
            for (tid, d) in g.waiting.iter() {
                if *tid == RECV_TID {
                    let fd: i32 = d.split(' ').nth(1).unwrap().parse().unwrap();
                    if readable(fd) {
                        cands.push((*tid, d.clone()));
                    }
                } else {
                    cands.push((*tid, d.clone()));
                }
            }
        }
        let all_senders_done = sender_done.iter().all(|d| d.load(Ordering::SeqCst));
        if all_senders_done && !end_sent {
            tx.send(b"__end__", vec![], vec![]).unwrap();
            end_sent = true;
            continue;
        }
        if recv_done.load(Ordering::SeqCst) && all_senders_done {
            break;
        }
        if cands.is_empty() {
            idle_rounds += 1;
            if idle_rounds > 20000 {
                case.fail("scheduler stuck: no thread can make a step (lost wake-up or deadlock)".into());
                break;
            }
            std::thread::sleep(std::time::Duration::from_micros(100));
            continue;
        }
        idle_rounds = 0;
        let (tid, _desc) = cands[rng.below(cands.len() as u64) as usize].clone();
        if tid == RECV_TID {
            if !end_sent || !all_senders_done || true {
                sched.push("r".into());
            }
            ip::gate_grant(tid);
        } else {
            // a sender is parked at sendmsg/send: the first call of a message is preceded by the model's decision step
            // (a message that finished makes the thread move on: detect by the results table)
            let t = tid;
            {
                let res = results.lock().unwrap();
                while in_msg[t] && res[threads[t][next_msg_idx[t]]].is_some() {
                    in_msg[t] = false;
                    next_msg_idx[t] += 1;
                }
            }
            if !in_msg[t] {
                sched.push(format!("s{}", t));
                in_msg[t] = true;
            }
            let fault = if faults_left > 0 && rng.chance(1, 6) {
                faults_left -= 1;
                if rng.chance(1, 4) {
                    2
                } else {
                    1
                }
            } else {
                0
            };
            ip::FAULT_NEXT[t].store(fault, Ordering::SeqCst);
            sched.push(match fault {
                1 => format!("f{}", t),
                2 => format!("x{}", t),
                _ => format!("s{}", t),
            });
            ip::gate_grant(tid);
            // wait until the thread is parked again or has finished its message / all messages, so that the results
            // table is up to date before the next decision
            let m = threads[t][next_msg_idx[t]];
            let t0 = std::time::Instant::now();
            loop {
                let parked = ip::GATE.lock().unwrap().waiting.iter().any(|(x, _)| *x == t);
                if parked || sender_done[t].load(Ordering::SeqCst) || results.lock().unwrap()[m].is_some() && parked {
                    break;
                }
                if t0.elapsed() > std::time::Duration::from_secs(10) {
                    case.fail(format!("sender thread {} did not come back from a system call within 10 s", t));
                    break;
                }
                std::thread::yield_now();
            }
            if case.oracle.is_some() {
                break;
            }
        }
    }
    ip::GATE_ON.store(false, Ordering::SeqCst);
    // release anything still parked
    {
        let g = ip::GATE.lock().unwrap();
        let w: Vec<usize> = g.waiting.iter().map(|(t, _)| *t).collect();
        drop(g);
        for t in w {
            ip::gate_grant(t);
        }
    }
    if case.oracle.is_none() {
        for h in handles {
            let _ = h.join();
        }
    }
    // the trailing receiver steps for the end marker are not part of the model's schedule: cut them off by counting
    // how many receiver steps the model needs is not possible here, so the end marker is modelled as an extra message
    let res = results.lock().unwrap().clone();
    let del = delivered.lock().unwrap().clone();
    // ---- oracle (independent of the model)
    let nerr = recv_errors.load(Ordering::SeqCst);
    if nerr > 0 {
        case.fail(format!("recv() reported an error / disconnection {} time(s) although sender handles of the channel exist", nerr));
    }
    for (id, len, intact) in &del {
        if !*intact {
            case.fail(format!("a message of {} bytes was delivered with altered or mixed content", len));
        } else if *len != lens[*id] {
            case.fail(format!("message {} delivered with {} bytes instead of {}", id, len, lens[*id]));
        } else if res[*id] != Some(true) {
            case.fail(format!("message {} delivered although its send returned an error", id));
        }
    }
    for (m, r) in res.iter().enumerate() {
        let n = del.iter().filter(|(id, _, _)| *id == m).count();
        if *r == Some(true) && n != 1 {
            case.fail(format!("message {} (send returned Ok) was delivered {} times", m, n));
        }
    }
    for t in &threads {
        let order: Vec<usize> = del.iter().filter(|(id, _, _)| t.contains(id)).map(|(id, _, _)| *id).collect();
        let mut sorted = order.clone();
        sorted.sort();
        if order != sorted {
            case.fail(format!("a sender's messages were delivered out of order: {:?}", order));
        }
    }
    let imp = format!(
        "ok delivered={} results={}",
        del.iter().map(|(id, len, _)| format!("{}:{}", id, len)).collect::<Vec<_>>().join(","),
        res.iter().map(|r| match r { Some(true) => "ok", Some(false) => "err", None => "-" }).collect::<Vec<_>>().join(",")
    );
    case.pair(
        format!(
            "im sys={} lens={} threads={} sched={}",
            sys,
            lens.iter().map(|l| l.to_string()).collect::<Vec<_>>().join(","),
            threads.iter().map(|t| t.iter().map(|m| m.to_string()).collect::<Vec<_>>().join(",")).collect::<Vec<_>>().join(";"),
            sched.join(",")
        ),
        imp,
    );
    case.nontrivial = nthreads > 1 || fault_budget > 0;
    case.key = sched.join(",");
    case.tags.push(format!("threads={}", nthreads));
    case.tags.push(format!("msgs={}", total));
    case.tags.push(format!("faults={}", fault_budget - faults_left));
    case.tags.push(format!("steps={}", sched.len() / 10 * 10));
    case
}

pub fn run(args: &[String]) {
    let sys_arg = arg_u64(args, "--sys", 4608) as usize;
    ip::SPOOF_SNDBUF.store(sys_arg, Ordering::SeqCst);
    let sys = crate::frag::effective_sys();
    let thorough = arg(args, "--tier").as_deref() == Some("thorough");
    let seed = arg_u64(args, "--seed", 1);
    let n = arg_u64(args, "--n", if thorough { 3000 } else { 150 });
    let faults = arg_u64(args, "--faults", 2) as usize;
    let mut rng = Rng::new(seed ^ 0x5ced);
    for i in 0..n {
        let nthreads = 1 + (i % 3) as usize;
        let fb = if i % 2 == 0 { 0 } else { faults };
        one_case(sys, &mut rng, format!("sched-{}", i), nthreads, 2, fb).emit();
    }
}
